-------------------------- MODULE CircuitMapTrace --------------------------
(* Trace validation: every recorded step of the real circuit map (one line   *)
(* per phase of a call, per environment change, per crash and per phase of   *)
(* NewCircuitMap) must be the corresponding CircuitMap action, and what the  *)
(* real map returned and holds afterwards - in memory and in the two bolt    *)
(* buckets - must equal the model's state after that action.                 *)
EXTENDS CircuitMap, Json
VARIABLE l

Trace == ndJsonDeserialize("trace.ndjson")
Last == Trace[l - 1]
E == Trace[l]

TInit == Init /\ l = 1
Is(a) == l <= Len(Trace) /\ Trace[l].a = a /\ l' = l + 1
Ok == E.ok = 1
Ks == [j \in DOMAIN E.ins |-> <<E.ins[j], E.outs[j]>>]

Reset == /\ Is("Reset")
         /\ dAdds' = {} /\ dKeys' = {} /\ pending' = {} /\ opened' = {} /\ closed' = {}
         /\ mode' = "up" /\ trimTodo' = <<>> /\ thr' = [t \in Threads |-> Idle]
         /\ closedChans' = {} /\ resMsgs' = {} /\ nextIdx' = [c \in OutChans |-> 0]
         /\ chanStatus' = [c \in OutChans |-> "default"]
         /\ ret' = NoRet
         /\ addsCount' = [k \in InKeys |-> 0] /\ respCount' = [k \in InKeys |-> 0]
         /\ snap' = [adds |-> {}, keys |-> {}] /\ fresh' = FALSE
         /\ nops' = 0 /\ ncrash' = 0 /\ nfail' = 0

TNext ==
  \/ Is("CommitMem") /\ E.ins \in Batches /\ CommitMem(E.t, E.ins)
  \/ Is("CommitDisk") /\ CommitDisk(E.t, Ok)
  \/ Is("CommitRollback") /\ CommitRollback(E.t)
  \/ Is("OpenCheck") /\ (Ks \in DupBatches \/ \E c \in OutChans : Ks \in OpenBatches(c)) /\ OpenCheck(E.t, Ks)
  \/ Is("OpenDisk") /\ OpenDisk(E.t, Ok)
  \/ Is("OpenApply") /\ OpenApply(E.t)
  \/ Is("TrimMem") /\ E.c \in OutChans /\ TrimMem(E.t, E.c)
  \/ Is("TrimDisk") /\ TrimDisk(E.t, Ok)
  \/ Is("DeleteMem") /\ E.ins \in Batches /\ Injective(E.ins) /\ DeleteMem(E.t, E.ins)
  \/ Is("DeleteDisk") /\ DeleteDisk(E.t, Ok)
  \/ Is("DeleteRestore") /\ DeleteRestore(E.t)
  \/ Is("Close") /\ E.outs[1] \in OutKeys /\ Close(E.outs[1])
  \/ Is("Fail") /\ E.ins[1] \in InKeys /\ Fail(E.ins[1])
  \/ Is("AddResMsg") /\ E.outs[1] \in OutKeys /\ AddResMsg(E.outs[1])
  \/ Is("AdvanceIdx") /\ E.c \in OutChans /\ AdvanceIdx(E.c)
  \/ Is("CloseChan") /\ E.c \in (InChans \cup OutChans) /\ CloseChan(E.c)
  \/ Is("MarkBorked") /\ E.c \in OutChans /\ MarkChan(E.c, "borked")
  \/ Is("MarkCommitBroadcast") /\ E.c \in OutChans /\ MarkChan(E.c, "commitbc")
  \/ Is("Crash") /\ Crash
  \/ Is("StartClean") /\ StartClean(Ok)
  \/ Is("StartRestore") /\ StartRestore(Ok)
  \/ Is("StartTrim") /\ trimTodo # <<>> /\ E.c = Head(trimTodo) /\ StartTrim(Ok)
  \/ Reset
  \/ (l = Len(Trace) + 1 /\ UNCHANGED <<vars, l>>)
TSpec == TInit /\ [][TNext]_<<vars, l>>

Live == l > 1 /\ Last.a # "Reset"
Set(s) == {s[i] : i \in DOMAIN s}

\* what the call returned: error class, the three sub-sequences of CommitCircuits, the circuit
\* handed back by CloseCircuit / FailCircuit
ConformRet == Live => /\ Last.done = ret.done
                      /\ Last.err = ret.err
                      /\ Last.adds = ret.adds /\ Last.drops = ret.drops /\ Last.fails = ret.fails
                      /\ Last.key = ret.key
\* the two buckets, read straight from the database
ConformDisk == Live => /\ Set(Last.dadds) = dAdds
                       /\ {<<r.out, r.in>> : r \in Set(Last.dkeys)} = dKeys
\* LookupCircuit for every incoming key, LookupOpenCircuit for every outgoing key, the closed set,
\* NumPending, NumOpen
ConformMem == (Live /\ mode = "up") =>
                 /\ Last.up = 1
                 /\ {[in |-> r.in, loaded |-> (r.l = 1), out |-> r.out] : r \in Set(Last.pend)} = pending
                 /\ {<<r.out, r.in>> : r \in Set(Last.opened)} = opened
                 /\ Set(Last.closed) = closed
                 /\ Last.np = Cardinality(pending)
                 /\ Last.no = Cardinality(opened)
ConformDown == (Live /\ mode # "up") => Last.up = 0
\* the executor could perform the step: the thread was where the schedule says (a thread that
\* returned early or parked unexpectedly has already broken ConformRet on an earlier line)
ConformNote == Live => Last.note = ""
=============================================================================
