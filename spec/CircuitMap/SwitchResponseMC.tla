---- MODULE SwitchResponseMC ----
(* Exhaustive configuration of SwitchResponse.  VIEW: `took` is an observation. *)
EXTENDS SwitchResponse
View == <<circ, res, pkg, pack, cst, done, closing, live, uncl, mb, p, linkUp, log, psf, owed, fresh>>
\* the defect controls stop at the first double commit
Bound == \A k \in Ids : done[k] <= 2
====
