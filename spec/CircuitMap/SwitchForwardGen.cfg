SPECIFICATION GSpec
CONSTANTS
  N = 3
  OutChans = {1, 2}
  Rollback = "tail"
  MaxLinks = 4
  MaxOutRestarts = 2
  MaxLen = 40
INVARIANTS Dump
CHECK_DEADLOCK FALSE
