---- MODULE SwitchResponseTrace ----
(* Trace validation of the real htlcswitch.Switch on its response path (executor:                    *)
(* harness/htlcswitch/c07_resp_test.go - real htlcForwarder goroutine, circuit map, resolution        *)
(* message store, mail orchestrator and mailboxes, forwarding packages of the outgoing channels in    *)
(* the switch's database; the harness plays the links and contractcourt).  Every recorded line is the *)
(* SwitchResponse action of that name; what the real switch shows afterwards - LookupCircuit /        *)
(* LookupOpenCircuit of every HTLC, the circuit map's closing set, the resolution store, the packages *)
(* and their SettleFailFilter, the incoming mailbox's response queue, the unclaimed queue and the     *)
(* live index of the mail orchestrator, the link index, pendingSettleFails, the packet a Take         *)
(* delivered, the responses the incoming channel committed - must equal the model.  A packet is       *)
(* recorded as 2k (+1 if it carries a reference into a forwarding package).                           *)
EXTENDS SwitchResponse, Json
VARIABLE l
Trace == ndJsonDeserialize("trace.ndjson")
Last == Trace[l - 1]
E == Trace[l]
Is(a) == l <= Len(Trace) /\ Trace[l].a = a /\ l' = l + 1
TInit == RInit /\ l = 1
Reset == /\ Is("Reset")
         /\ circ' = [k \in Ids |-> IF k \in HalfIds THEN "half" ELSE "open"] /\ res' = [k \in Ids |-> FALSE]
         /\ pkg' = [k \in Ids |-> FALSE] /\ pack' = [k \in Ids |-> FALSE]
         /\ cst' = [c \in OutChans |-> "open"] /\ done' = [k \in Ids |-> 0]
         /\ closing' = {} /\ live' = FALSE /\ uncl' = <<>> /\ mb' = <<>> /\ p' = 0
         /\ linkUp' = FALSE /\ log' = <<>> /\ psf' = {}
         /\ owed' = {} /\ fresh' = TRUE /\ took' = None
TNext == \/ Reset
         \/ (Is("OffChain") /\ E.k \in Ids /\ OffChain(E.k))
         \/ (Is("Resolve") /\ E.k \in Ids /\ Resolve(E.k))
         \/ (Is("ResolveFail") /\ E.k \in Ids /\ ResolveFail(E.k)) \/ (Is("AckTickFail") /\ AckTickFail)
         \/ (Is("OutFwd") /\ E.k \in OutChans /\ OutFwd(E.k))
         \/ (Is("CloseChan") /\ E.k \in OutChans /\ CloseChan(E.k))
         \/ (Is("FullyClose") /\ E.k \in OutChans /\ FullyClose(E.k))
         \/ (Is("AckTick") /\ AckTick) \/ (Is("Replay") /\ Replay) \/ (Is("AddLink") /\ AddLink) \/ (Is("RemoveLink") /\ RemoveLink)
         \/ (Is("Take") /\ Take) \/ (Is("InCommit") /\ InCommit) \/ (Is("Restart") /\ Restart)
         \/ (l = Len(Trace) + 1 /\ UNCHANGED <<rvars, l>>)
TSpec == TInit /\ [][TNext]_<<rvars, l>>

Live == l > 1
B(x) == IF x THEN 1 ELSE 0
Set(s) == {s[i] : i \in DOMAIN s}
Enc(pk) == 2 * pk[1] + (IF pk[2] = "pkg" THEN 1 ELSE 0)
EncSeq(s) == [i \in 1..Len(s) |-> Enc(s[i])]
\* the executor could perform the step; the switch's call returned an error exactly where the
\* schedule made its transaction fail and the code has a caller to tell (ProcessContractResolution)
ConformNote == Live => Last.note = ""
ConformErr == Live => (Last.err = "" <=> Last.a # "ResolveFail")
\* LookupCircuit (incoming key) and LookupOpenCircuit (outgoing key) of every HTLC
ConformCirc == Live => \A k \in Ids : Last.cp[k + 1] = B(circ[k] # "gone") /\ Last.co[k + 1] = B(circ[k] = "open")
\* the circuit map's volatile closing set
ConformClosing == Live => Set(Last.cl) = closing
\* the resolution message store, the forwarding packages and their settle/fail acks
ConformRes == Live => \A k \in Ids : Last.rs[k + 1] = B(res[k])
ConformPkg == Live => \A k \in Ids : Last.pk[k + 1] = B(pkg[k]) + B(pack[k])
\* the incoming link's mailbox (response queue, in order), the unclaimed queue, the live index
ConformMailbox == Live => Last.mb = EncSeq(mb)
ConformUncl == Live => Last.un = EncSeq(uncl) /\ Last.lv = B(live)
\* the link index, the link's uncommitted log, the packet a Take delivered
ConformLink == Live => Last.up = B(linkUp) /\ Last.lg = EncSeq(log)
ConformTake == (Live /\ Last.a = "Take") => Last.tk = Enc(took)
\* Switch.pendingSettleFails, the responses committed on the incoming channel
ConformPsf == Live => Set(Last.psf) = psf
ConformDone == Live => \A k \in Ids : Last.dn[k + 1] = done[k]
====
