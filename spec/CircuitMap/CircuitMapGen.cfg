SPECIFICATION GSpec
CONSTANTS
  InChans = {0, 1}
  OutChans = {2, 3}
  Ids = {0, 1, 2}
  Threads = {1, 2}
  MaxBatch = 2
  MaxOps = 1000000
  MaxCrash = 3
  MaxFail = 6
  Relaxed = {}
  MaxLen = 60
  CloseAfter = 25
  CrashEvery = 15
  Thin = TRUE
INVARIANTS Dump
CHECK_DEADLOCK FALSE
