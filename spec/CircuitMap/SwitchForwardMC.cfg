SPECIFICATION SSpec
CONSTANTS
  N = 3
  OutChans = {1, 2}
  Rollback = "tail"
  MaxLinks = 3
  MaxOutRestarts = 1
VIEW View
INVARIANTS TypeOK AtMostOnceOut OneMailbox HeldHasCircuit OpenIffCommitted NotLost
CHECK_DEADLOCK FALSE
