SPECIFICATION GSpec
CONSTANTS
  N = 3
  OutChans = {1, 2}
  NHalf = 1
  ResCheck = "open"
  Unclaimed = "clear"
  MaxLen = 40
  MaxRestarts = 3
  MaxFlaps = 4
INVARIANTS Dump
CHECK_DEADLOCK FALSE
