SPECIFICATION TSpec
CONSTANTS
  InChans = {0, 1}
  OutChans = {2, 3}
  Ids = {0, 1, 2}
  Threads = {1, 2}
  MaxBatch = 2
  MaxOps = 1000000
  MaxCrash = 1000000
  MaxFail = 1000000
  Relaxed = {}
INVARIANTS ConformNote ConformRet ConformDisk ConformMem ConformDown
CHECK_DEADLOCK TRUE
