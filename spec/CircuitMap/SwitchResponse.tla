--------------------------- MODULE SwitchResponse ---------------------------
(***************************************************************************)
(* C07, switch level, the RESPONSE path of htlcswitch.Switch: N HTLCs that  *)
(* came in over one incoming channel and were forwarded (circuit open,      *)
(* keystone on disk) to the channels OutChans; HTLC k went out on Oc(k).    *)
(* The last NHalf of them never reached an outgoing commitment: their       *)
(* circuit is half-open (committed, no keystone, loaded from disk).         *)
(*                                                                          *)
(* The property (properties.jsonl C07): for any interleaving of downstream  *)
(* settles and fails (off chain, from the outgoing link's forwarding        *)
(* package - possibly replayed after a link restart - and on chain, as a    *)
(* contract resolution message), link flaps of the incoming channel and     *)
(* node restarts, at most one settle-or-fail per HTLC is delivered back to  *)
(* the incoming channel, and a response the switch has durably accepted is  *)
(* not lost: it stays queued for the incoming link until that link commits  *)
(* it; circuits of fully closed channels are purged at start-up except      *)
(* those still awaiting delivery of an on-chain resolution.                 *)
(*                                                                          *)
(* State, as the code keeps it.  Durable:                                   *)
(*   circ[k]  circuit map entry of HTLC k: "open" | "half" | "gone"         *)
(*   res[k]   resolution store (resMsgStore) holds a message for k's        *)
(*            outgoing key                                                   *)
(*   pkg[k], pack[k]  the outgoing channel's forwarding package holds the   *)
(*            settle/fail of k / it is acked there (SettleFailFilter)       *)
(*   cst[c]   outgoing channel c: "open" | "closing" (waiting close: still  *)
(*            in FetchAllChannels, a pending close summary) | "closed"      *)
(*            (fully closed: only a non-pending close summary)              *)
(*   done[k]  how many responses for k the incoming channel has committed   *)
(* Volatile (lost by a restart):                                            *)
(*   closing  the circuit map's `closed` set: a response was accepted       *)
(*   live     mailOrchestrator.liveIndex knows the incoming channel (a link *)
(*            was bound since the start; RemoveLink does NOT undo it)       *)
(*   uncl     mailOrchestrator.unclaimedPackets of the incoming channel     *)
(*   mb, p    the incoming link's mailbox: un-acked responses in order, and *)
(*            how many of them the courier delivered since the last reset   *)
(*   linkUp, log   the incoming link is registered / the responses it took  *)
(*            and has not committed yet (its update log, closedCircuits)    *)
(*   psf      Switch.pendingSettleFails (responses of unknown circuits that *)
(*            the ack ticker will ack in the outgoing package)              *)
(* A packet is <<k, "pkg">> (carries a destRef into the outgoing package),  *)
(* <<k, "res">> (made from a resolution message) or <<k, "loc">> (the       *)
(* switch's own failure of a half-open circuit).                            *)
(*                                                                          *)
(* One action per critical section of the code:                             *)
(*   OffChain(k)  the outgoing link locks in the remote's settle/fail       *)
(*             (forwarding package written) and forwards it: Switch.        *)
(*             handlePacketSettle/Fail = Handle; also while the channel is  *)
(*             already going to chain (the on-chain resolution may race it) *)
(*   OutFwd(c) the outgoing link of c is re-created and replays the         *)
(*             un-acked settle/fails of its packages                        *)
(*   Resolve(k)   ProcessContractResolution: addResolutionMsg, then Handle  *)
(*   ResolveFail(k)  addResolutionMsg's transaction fails: the error goes   *)
(*             back to contractcourt (which must not believe the message    *)
(*             was taken), nothing is stored and nothing is forwarded       *)
(*   Handle    closeCircuit: open & not closing -> marked closing and       *)
(*             mailOrchestrator.Deliver; closing -> dropped; unknown ->     *)
(*             dropped, a package reference goes to pendingSettleFails      *)
(*   Deliver   live -> mailbox.AddPacket (ignores a key it holds), else     *)
(*             appended to the unclaimed queue                              *)
(*   AckTick   the ack ticker: pendingSettleFails acked in the packages     *)
(*   AckTickFail  the ack transaction fails: pendingSettleFails is kept     *)
(*   Replay    the incoming link replays the un-acked adds of its           *)
(*             forwarding package (ForwardPackets): CommitCircuits answers  *)
(*             Fails for a half-open circuit that was loaded from disk and  *)
(*             failAddPacket Delivers the failure - the HTLC is failed      *)
(*             back, and a second replay meets the mailbox's own            *)
(*             de-duplication (no closing mark on this path)                *)
(*   AddLink   Switch.AddLink: the new link instance resets the mailbox     *)
(*             (re-delivery of everything un-acked), BindLiveShortChanID    *)
(*             moves the unclaimed packets into the mailbox and CLEARS the  *)
(*             unclaimed queue                                              *)
(*   RemoveLink   Switch.RemoveLink: the link's uncommitted log is lost,    *)
(*             mailbox and live index stay                                  *)
(*   Take      the mailbox courier hands the next response to the link      *)
(*   InCommit  the incoming link commits its log: the responses are on the  *)
(*             incoming channel (with them the package acks), then          *)
(*             DeleteCircuits and mailbox acks (ackDownStreamPackets)       *)
(*   CloseChan / FullyClose   the outgoing channel goes to chain / is fully *)
(*             resolved                                                     *)
(*   Restart   Switch.Stop; New: NewCircuitMap.cleanClosedChannels purges   *)
(*             the circuits of fully closed channels that have no stored    *)
(*             resolution message; Start: reforwardResponses (un-acked      *)
(*             package entries of all non-closed channels), then            *)
(*             reforwardResolutions (a stored message whose circuit is no   *)
(*             longer OPEN is deleted, the others are forwarded) - all of   *)
(*             it before any link exists, i.e. into the unclaimed queue     *)
(*                                                                          *)
(* CONSTANT ResCheck: how reforwardResolutions decides that the circuit of  *)
(* a stored message still exists: "open" is the code (LookupOpenCircuit by  *)
(* outgoing key); "pending" (LookupCircuit - indexed by INCOMING key - with *)
(* the outgoing key: never found) is the defect control.  CONSTANT          *)
(* Unclaimed: "clear" is the code, "keep" (BindLiveShortChanID leaves the   *)
(* unclaimed queue in place) the defect control.  Both show that NotLost /  *)
(* AtMostOneResponse are not vacuous (SwitchResponseWit*.cfg).              *)
(*                                                                          *)
(* Assumptions: the incoming link's commit, DeleteCircuits and acks are one *)
(* step (a crash between them is stopped by the incoming channel's update   *)
(* log: C08); ClosePatient - a channel is not FULLY closed while one of its *)
(* open circuits has an un-acked off-chain response and no resolution       *)
(* message (contractcourt resolves every HTLC before the channel is marked  *)
(* fully closed); the incoming channel itself stays open; local payments    *)
(* and locally failed adds (hasSource) are not part of this module.         *)
(***************************************************************************)
EXTENDS Integers, Sequences, FiniteSets

CONSTANTS N,          \* HTLCs 0..N-1
          OutChans,   \* outgoing channels 1..NOut
          NHalf,      \* the HTLCs N-NHalf..N-1 have a half-open circuit
          ResCheck,   \* "open" | "pending"
          Unclaimed   \* "clear" | "keep"

Ids  == 0 .. (N - 1)
HalfIds == {k \in Ids : k >= N - NHalf}
NOut == Cardinality(OutChans)
Oc(k) == (k % NOut) + 1
None == -1
Keys(s) == {s[i][1] : i \in DOMAIN s}

VARIABLES circ, res, pkg, pack, cst, done,
          closing, live, uncl, mb, p, linkUp, log, psf,
          owed,    \* ghost: the switch durably accepted a response for k while its circuit was open
          fresh,   \* ghost: nothing happened since the last start
          took     \* observation: the packet the last Take delivered
rvars == <<circ, res, pkg, pack, cst, done, closing, live, uncl, mb, p, linkUp, log, psf, owed, fresh, took>>

RInit == /\ circ = [k \in Ids |-> IF k \in HalfIds THEN "half" ELSE "open"] /\ res = [k \in Ids |-> FALSE]
         /\ pkg = [k \in Ids |-> FALSE] /\ pack = [k \in Ids |-> FALSE]
         /\ cst = [c \in OutChans |-> "open"] /\ done = [k \in Ids |-> 0]
         /\ closing = {} /\ live = FALSE /\ uncl = <<>> /\ mb = <<>> /\ p = 0
         /\ linkUp = FALSE /\ log = <<>> /\ psf = {}
         /\ owed = {} /\ fresh = TRUE /\ took = None

\* ---- the forwarder's handling of one response packet; v = the volatile state it touches
Vol == [closing |-> closing, mb |-> mb, uncl |-> uncl, psf |-> psf]
Deliver(v, lv, pk) ==
  IF lv THEN (IF pk[1] \in Keys(v.mb) THEN v ELSE [v EXCEPT !.mb = Append(@, pk)])
        ELSE [v EXCEPT !.uncl = Append(@, pk)]
Handle(v, lv, c, pk) ==
  IF c[pk[1]] = "open"
    THEN IF pk[1] \in v.closing THEN v
         ELSE Deliver([v EXCEPT !.closing = @ \cup {pk[1]}], lv, pk)
    ELSE IF pk[2] = "pkg" THEN [v EXCEPT !.psf = @ \cup {pk[1]}] ELSE v
RECURSIVE HandleAll(_, _, _, _)
HandleAll(v, lv, c, pks) ==
  IF pks = <<>> THEN v ELSE HandleAll(Handle(v, lv, c, Head(pks)), lv, c, Tail(pks))

SetVol(v) == closing' = v.closing /\ mb' = v.mb /\ uncl' = v.uncl /\ psf' = v.psf

IdSeq == [i \in 1..N |-> i - 1]
\* un-acked settle/fails in the packages of channel c (package height = k + 1: ascending k)
PkgSeq(c, pg, pa) == LET ks == SelectSeq(IdSeq, LAMBDA k : Oc(k) = c /\ pg[k] /\ ~pa[k])
                     IN [i \in 1..Len(ks) |-> <<ks[i], "pkg">>]
RECURSIVE PkgAll(_)
PkgAll(c) == IF c > NOut THEN <<>>
             ELSE (IF cst[c] # "closed" THEN PkgSeq(c, pkg, pack) ELSE <<>>) \o PkgAll(c + 1)
\* stored resolution messages in the order of the bucket (outgoing channel, outgoing htlc id)
RECURSIVE ResAll(_, _)
ResAll(c, rs) == IF c > NOut THEN <<>>
                 ELSE LET ks == SelectSeq(IdSeq, LAMBDA k : Oc(k) = c /\ rs[k])
                      IN [i \in 1..Len(ks) |-> <<ks[i], "res">>] \o ResAll(c + 1, rs)

OffChain(k) ==
  /\ k \notin HalfIds /\ cst[Oc(k)] # "closed" /\ ~pkg[k]
  /\ pkg' = [pkg EXCEPT ![k] = TRUE]
  /\ owed' = IF circ[k] = "open" THEN owed \cup {k} ELSE owed
  /\ SetVol(Handle(Vol, live, circ, <<k, "pkg">>))
  /\ fresh' = FALSE /\ took' = None
  /\ UNCHANGED <<circ, res, pack, cst, done, live, p, linkUp, log>>

OutFwd(c) ==
  /\ cst[c] # "closed" /\ PkgSeq(c, pkg, pack) # <<>>
  /\ SetVol(HandleAll(Vol, live, circ, PkgSeq(c, pkg, pack)))
  /\ fresh' = FALSE /\ took' = None
  /\ UNCHANGED <<circ, res, pkg, pack, cst, done, live, p, linkUp, log, owed>>

Resolve(k) ==
  /\ k \notin HalfIds /\ cst[Oc(k)] = "closing" /\ ~res[k]
  /\ res' = [res EXCEPT ![k] = TRUE]
  /\ owed' = IF circ[k] = "open" THEN owed \cup {k} ELSE owed
  /\ SetVol(Handle(Vol, live, circ, <<k, "res">>))
  /\ fresh' = FALSE /\ took' = None
  /\ UNCHANGED <<circ, pkg, pack, cst, done, live, p, linkUp, log>>

\* a failing transaction: nothing durable and nothing volatile changes
NoEffect == /\ fresh' = FALSE /\ took' = None
            /\ UNCHANGED <<circ, res, pkg, pack, cst, done, closing, live, uncl, mb, p, linkUp, log, psf, owed>>
ResolveFail(k) == k \notin HalfIds /\ cst[Oc(k)] = "closing" /\ ~res[k] /\ NoEffect
AckTickFail == psf # {} /\ NoEffect

AckTick ==
  /\ psf # {}
  /\ pack' = [k \in Ids |-> pack[k] \/ k \in psf] /\ psf' = {}
  /\ fresh' = FALSE /\ took' = None
  /\ UNCHANGED <<circ, res, pkg, cst, done, closing, live, uncl, mb, p, linkUp, log, owed>>

\* the un-acked adds of the incoming package whose circuit is half-open: Fails answers
HalfSeq == LET ks == SelectSeq(IdSeq, LAMBDA k : circ[k] = "half")
           IN [i \in 1..Len(ks) |-> <<ks[i], "loc">>]
RECURSIVE DeliverAll(_, _, _)
DeliverAll(v, lv, pks) == IF pks = <<>> THEN v ELSE DeliverAll(Deliver(v, lv, Head(pks)), lv, Tail(pks))
Replay ==
  /\ linkUp /\ HalfSeq # <<>>
  /\ SetVol(DeliverAll(Vol, live, HalfSeq))
  /\ owed' = owed \cup Keys(HalfSeq)
  /\ fresh' = FALSE /\ took' = None
  /\ UNCHANGED <<circ, res, pkg, pack, cst, done, live, p, linkUp, log>>

RECURSIVE AddAll(_, _)
AddAll(q, pks) == IF pks = <<>> THEN q
                  ELSE AddAll(IF Head(pks)[1] \in Keys(q) THEN q ELSE Append(q, Head(pks)), Tail(pks))
AddLink ==
  /\ ~linkUp /\ linkUp' = TRUE /\ live' = TRUE
  /\ p' = 0 /\ log' = <<>>
  /\ mb' = AddAll(mb, uncl)
  /\ uncl' = IF Unclaimed = "clear" THEN <<>> ELSE uncl
  /\ fresh' = FALSE /\ took' = None
  /\ UNCHANGED <<circ, res, pkg, pack, cst, done, closing, psf, owed>>

RemoveLink ==
  /\ linkUp /\ linkUp' = FALSE /\ log' = <<>>
  /\ fresh' = FALSE /\ took' = None
  /\ UNCHANGED <<circ, res, pkg, pack, cst, done, closing, live, uncl, mb, p, psf, owed>>

Take ==
  /\ linkUp /\ p < Len(mb)
  /\ p' = p + 1 /\ took' = mb[p + 1] /\ log' = Append(log, mb[p + 1])
  /\ fresh' = FALSE
  /\ UNCHANGED <<circ, res, pkg, pack, cst, done, closing, live, uncl, mb, linkUp, psf, owed>>

InCommit ==
  /\ linkUp /\ log # <<>>
  /\ done' = [k \in Ids |-> done[k] + Cardinality({i \in DOMAIN log : log[i][1] = k})]
  /\ pack' = [k \in Ids |-> pack[k] \/ <<k, "pkg">> \in {log[i] : i \in DOMAIN log}]
  /\ circ' = [k \in Ids |-> IF k \in Keys(log) THEN "gone" ELSE circ[k]]
  /\ closing' = closing \ Keys(log)
  /\ mb' = SelectSeq(mb, LAMBDA pk : pk[1] \notin Keys(log))
  /\ p' = p - Cardinality({i \in 1..p : mb[i][1] \in Keys(log)})
  /\ log' = <<>>
  /\ fresh' = FALSE /\ took' = None
  /\ UNCHANGED <<res, pkg, cst, live, uncl, linkUp, psf, owed>>

CloseChan(c) ==
  /\ cst[c] = "open" /\ cst' = [cst EXCEPT ![c] = "closing"]
  /\ fresh' = FALSE /\ took' = None
  /\ UNCHANGED <<circ, res, pkg, pack, done, closing, live, uncl, mb, p, linkUp, log, psf, owed>>

\* ClosePatient (see the header)
FullyClose(c) ==
  /\ cst[c] = "closing"
  /\ \A k \in Ids : (Oc(k) = c /\ circ[k] = "open" /\ pkg[k] /\ ~pack[k]) => res[k]
  /\ cst' = [cst EXCEPT ![c] = "closed"]
  /\ fresh' = FALSE /\ took' = None
  /\ UNCHANGED <<circ, res, pkg, pack, done, closing, live, uncl, mb, p, linkUp, log, psf, owed>>

Restart ==
  LET purged == {k \in Ids : cst[Oc(k)] = "closed" /\ circ[k] = "open" /\ ~res[k]}
      c1 == [k \in Ids |-> IF k \in purged THEN "gone" ELSE circ[k]]
      v0 == [closing |-> {}, mb |-> <<>>, uncl |-> <<>>, psf |-> {}]
      v1 == HandleAll(v0, FALSE, c1, PkgAll(1))
      r1 == [k \in Ids |-> res[k] /\ (ResCheck = "open" /\ c1[k] = "open")]
      v2 == HandleAll(v1, FALSE, c1, ResAll(1, r1))
  IN /\ circ' = c1 /\ res' = r1 /\ SetVol(v2)
     /\ live' = FALSE /\ linkUp' = FALSE /\ p' = 0 /\ log' = <<>>
     /\ fresh' = TRUE /\ took' = None
     /\ owed' = owed \ HalfIds     \* the failure of a half-open circuit is volatile: the next replay re-creates it
     /\ UNCHANGED <<pkg, pack, cst, done>>

RNext == \/ \E k \in Ids : OffChain(k) \/ Resolve(k) \/ ResolveFail(k)
         \/ AckTickFail
         \/ \E c \in OutChans : OutFwd(c) \/ CloseChan(c) \/ FullyClose(c)
         \/ AckTick \/ Replay \/ AddLink \/ RemoveLink \/ Take \/ InCommit \/ Restart
RSpec == RInit /\ [][RNext]_rvars

---------------------------------------------------------------------------
TypeOK == /\ circ \in [Ids -> {"open", "half", "gone"}] /\ res \in [Ids -> BOOLEAN]
          /\ pkg \in [Ids -> BOOLEAN] /\ pack \in [Ids -> BOOLEAN]
          /\ cst \in [OutChans -> {"open", "closing", "closed"}]
          /\ closing \subseteq Ids /\ psf \subseteq Ids /\ owed \subseteq Ids
          /\ p \in 0..Len(mb) /\ Len(log) <= p
          /\ \A k \in Ids : pack[k] => pkg[k]

Queued(k) == k \in Keys(mb) \/ k \in Keys(uncl)
\* THE property: at most one settle-or-fail per HTLC is committed on the incoming channel
AtMostOneResponse == \A k \in Ids : done[k] <= 1
\* ... and a mailbox never holds two responses of one HTLC; nothing already answered is queued again
OneQueued == /\ \A i, j \in DOMAIN mb : mb[i][1] = mb[j][1] => i = j
             /\ \A k \in Ids : done[k] > 0 => ~Queued(k)
\* not lost: a response that was durably accepted for an open circuit (or, for a half-open circuit,
\* the failure that this link instance's replay produced) stays on its way to the
\* incoming link - its circuit is kept (also across the purge of a fully closed channel) and the
\* packet sits in the mailbox or in the unclaimed queue - until the incoming channel commits it
NotLost == \A k \in owed : done[k] = 0 => circ[k] # "gone" /\ Queued(k)
\* a circuit is marked closing exactly while its response is queued (this process lifetime)
ClosingQueued == \A k \in Ids : k \in closing <=> (circ[k] = "open" /\ Queued(k))
\* what the link holds is the delivered prefix of its mailbox
LogIsPrefix == log = SubSeq(mb, 1, p) \/ ~linkUp
\* right after a start: the circuits of fully closed channels are gone except those that still
\* await the delivery of an on-chain resolution, and the resolution store holds no message whose
\* circuit is gone
PurgedExact == fresh => \A k \in Ids : /\ (cst[Oc(k)] = "closed" /\ circ[k] = "open") => res[k]
                                       /\ res[k] => circ[k] = "open"
=============================================================================
