SPECIFICATION RSpec
CONSTANTS
  N = 2
  OutChans = {1, 2}
  NHalf = 1
  ResCheck = "open"
  Unclaimed = "clear"
VIEW View
CONSTRAINT Bound
INVARIANTS TypeOK AtMostOneResponse OneQueued NotLost ClosingQueued LogIsPrefix PurgedExact
CHECK_DEADLOCK FALSE
