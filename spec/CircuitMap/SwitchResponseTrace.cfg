SPECIFICATION TSpec
CONSTANTS
  N = 3
  OutChans = {1, 2}
  NHalf = 1
  ResCheck = "open"
  Unclaimed = "clear"
INVARIANTS ConformNote ConformErr ConformRes ConformPkg ConformUncl ConformMailbox ConformCirc ConformClosing ConformLink ConformTake ConformPsf ConformDone AtMostOneResponse OneQueued NotLost ClosingQueued LogIsPrefix PurgedExact
CHECK_DEADLOCK TRUE
