SPECIFICATION SSpec
CONSTANTS
  N = 2
  OutChans = {1, 2}
  Rollback = "all"
  MaxLinks = 2
  MaxOutRestarts = 0
VIEW View
INVARIANTS AtMostOnceOut
CHECK_DEADLOCK FALSE
