SPECIFICATION TSpec
CONSTANTS
  N = 3
  OutChans = {1, 2}
  Rollback = "tail"
  MaxLinks = 1000000
  MaxOutRestarts = 1000000
INVARIANTS ConformNote ConformCirc ConformMailbox ConformFwd ConformRet ConformAck ConformTake ConformLinks ConformOpen AtMostOnceOut OneMailbox HeldHasCircuit OpenIffCommitted NotLost
CHECK_DEADLOCK TRUE
