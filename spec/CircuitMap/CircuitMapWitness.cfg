SPECIFICATION GSpec
CONSTANTS
  InChans = {0, 1}
  OutChans = {2}
  Ids = {0, 1}
  Threads = {1, 2}
  MaxBatch = 2
  MaxOps = 4
  MaxCrash = 1
  MaxFail = 1
  SwitchFaithful = FALSE
  ClosePatient = TRUE
  TrimMayFail = FALSE
  MaxLen = 1000
  CloseAfter = 0
  CrashEvery = 0
VIEW GView
INVARIANTS Witness
CHECK_DEADLOCK FALSE
