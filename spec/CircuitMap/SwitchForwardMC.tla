---- MODULE SwitchForwardMC ----
(* Exhaustive configuration of SwitchForward.  VIEW: `ret` and `took` are observations. *)
EXTENDS SwitchForward
View == <<circ, ackd, pc, added, nx, quit, fwded, links, fwdK, fwdD, elig, q, p, comm, nor>>
====
