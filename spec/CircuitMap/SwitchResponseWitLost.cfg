SPECIFICATION RSpec
CONSTANTS
  N = 2
  OutChans = {1}
  NHalf = 0
  ResCheck = "pending"
  Unclaimed = "clear"
VIEW View
CONSTRAINT Bound
INVARIANTS NotLost
CHECK_DEADLOCK FALSE
