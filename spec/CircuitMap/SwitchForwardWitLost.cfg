SPECIFICATION SSpec
CONSTANTS
  N = 2
  OutChans = {1, 2}
  Rollback = "none"
  MaxLinks = 2
  MaxOutRestarts = 0
VIEW View
INVARIANTS NotLost
CHECK_DEADLOCK FALSE
