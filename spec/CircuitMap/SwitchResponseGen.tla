---- MODULE SwitchResponseGen ----
(* Schedules for the switch-level response executor (harness/htlcswitch/c07_resp_test.go): simulated *)
(* behaviours of SwitchResponse, one NDJSON line per action [a, k] (k = the HTLC or the channel).    *)
(* Every action of the module is a synchronous call for the executor, so the only restrictions are    *)
(* budgets that keep a behaviour varied: restarts and link flaps are rationed (MaxRestarts, MaxFlaps) *)
(* and a behaviour ends when every HTLC is answered or purged and nothing is left to acknowledge;     *)
(* steps that change nothing (a replay whose packets are all dropped, a flap of an idle link) are     *)
(* taken only now and then, and a pending ack tick is taken every other step.                         *)
EXTENDS SwitchResponse, TLC, Json
CONSTANTS MaxLen, MaxRestarts, MaxFlaps
VARIABLES hist, nrs, nfl

Done == /\ \A k \in Ids : circ[k] = "gone"
        /\ psf = {}
GInit == RInit /\ hist = <<>> /\ nrs = 0 /\ nfl = 0
Step(a, k, A) == A /\ hist' = Append(hist, [a |-> a, k |-> k])
Keep == UNCHANGED <<nrs, nfl>>
Moves == mb' # mb \/ uncl' # uncl \/ psf' # psf \/ closing' # closing \/ Len(hist) % 4 = 0
GNext ==
  /\ Len(hist) < MaxLen /\ ~Done
  /\ IF psf # {} /\ Len(hist) % 2 = 0 THEN Step("AckTick", None, AckTick) /\ Keep ELSE
     \/ \E k \in Ids : (Step("OffChain", k, OffChain(k)) \/ Step("Resolve", k, Resolve(k))) /\ Keep
     \/ \E c \in OutChans : (\/ (Step("OutFwd", c, OutFwd(c)) /\ Moves) \/ Step("CloseChan", c, CloseChan(c))
                             \/ (Len(hist) % 3 = 0 /\ Step("FullyClose", c, FullyClose(c)))) /\ Keep
     \/ Step("AckTick", None, AckTick) /\ Keep
     \/ Len(hist) % 3 = 1 /\ Step("AckTickFail", None, AckTickFail) /\ Keep
     \/ Len(hist) % 3 = 1 /\ (\E k \in Ids : Step("ResolveFail", k, ResolveFail(k))) /\ Keep
     \/ Step("Replay", None, Replay) /\ Moves /\ Keep
     \/ Step("AddLink", None, AddLink) /\ Keep
     \/ nfl < MaxFlaps /\ (mb # <<>> \/ Len(hist) % 4 = 0) /\ Step("RemoveLink", None, RemoveLink) /\ nfl' = nfl + 1 /\ nrs' = nrs
     \/ Step("Take", None, Take) /\ Keep
     \/ Step("InCommit", None, InCommit) /\ Keep
     \/ nrs < MaxRestarts /\ ~fresh /\ Step("Restart", None, Restart) /\ nrs' = nrs + 1 /\ nfl' = nfl
GSpec == GInit /\ [][GNext]_<<rvars, hist, nrs, nfl>>
Dump == (Len(hist) = MaxLen \/ (Done /\ hist # <<>>)) =>
          ndJsonSerialize("b_" \o ToString(TLCGet("stats").traces) \o ".ndjson", hist)
====
