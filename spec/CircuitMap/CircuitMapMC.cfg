SPECIFICATION MCSpec
CONSTANTS
  InChans = {0, 1}
  OutChans = {2}
  Ids = {0, 1}
  Threads = {1, 2}
  MaxBatch = 2
  MaxOps = 4
  MaxCrash = 1
  MaxFail = 1
  Relaxed = {}
VIEW View
INVARIANTS AtMostOnceForward AtMostOneResponse RestartExact OpenedConsistent OpenedSubsetPending OneRecordPerKey OneCircuitPerOut MemDiskAgree ClosedSubset TypeOK
CHECK_DEADLOCK FALSE
