---- MODULE SwitchForwardTrace ----
(* Trace validation of the real htlcswitch.Switch (real htlcForwarder goroutine, real circuit map,   *)
(* real mailboxes, a real forwarding package of the incoming channel in the switch's database; the   *)
(* links are the package's mock links, the outgoing ones parked at the hand-over).  Every recorded   *)
(* line is the SwitchForward action of that name; what the real switch shows afterwards - circuits   *)
(* (LookupCircuit / keystone), mailbox queues, the packet and link the forwarder holds, the result   *)
(* of the last ForwardPackets call, the AckFilter read from the database, the add a Take delivered - *)
(* must equal the model.  In an Urgent state the real call has already moved on (the schedule's next *)
(* line is that move), so the comparison is made on the line after.                                  *)
EXTENDS SwitchForward, Json
VARIABLE l
Trace == ndJsonDeserialize("trace.ndjson")
Last == Trace[l - 1]
E == Trace[l]
Is(a) == l <= Len(Trace) /\ Trace[l].a = a /\ l' = l + 1
TInit == SInit /\ l = 1
Reset == /\ Is("Reset")
         /\ circ' = [k \in Ids |-> "none"] /\ ackd' = {}
         /\ pc' = "idle" /\ added' = <<>> /\ nx' = 1
         /\ quit' = FALSE /\ fwded' = FALSE /\ links' = 1
         /\ fwdK' = None /\ fwdD' = None /\ elig' = OutChans
         /\ q' = [c \in OutChans |-> <<>>] /\ p' = [c \in OutChans |-> 0]
         /\ comm' = [c \in OutChans |-> {}]
         /\ ret' = "none" /\ took' = None /\ nor' = 0
EligOf(c) == IF c = 0 THEN OutChans ELSE {c}
TNext == \/ Reset
         \/ (Is("Begin") /\ Begin) \/ (Is("BeginQuit") /\ BeginQuit)
         \/ (Is("Route") /\ E.fd \in OutChans /\ RouteTo(E.fd))
         \/ (Is("Abort") /\ Abort) \/ (Is("HandOver") /\ HandOver)
         \/ (Is("Stop") /\ Stop) \/ (Is("Relink") /\ Relink)
         \/ (Is("Take") /\ E.c \in OutChans /\ Take(E.c))
         \/ (Is("OutCommit") /\ E.c \in OutChans /\ OutCommit(E.c))
         \/ (Is("OutRestart") /\ E.c \in OutChans /\ OutRestart(E.c))
         \/ (Is("SetElig") /\ E.c \in OutChans \cup {0} /\ SetElig(EligOf(E.c)))
         \/ (l = Len(Trace) + 1 /\ UNCHANGED <<svars, l>>)
TSpec == TInit /\ [][TNext]_<<svars, l>>

Live == l > 1 /\ Last.a # "Reset"
Stable == Live /\ ~Urgent
B(x) == IF x THEN 1 ELSE 0
Set(s) == {s[i] : i \in DOMAIN s}
Code(k) == CASE circ[k] = "none" -> 0 [] circ[k] = "half" -> 1 [] OTHER -> 2
\* the executor could perform the step
ConformNote == Live => Last.note = ""
\* LookupCircuit and its keystone for every key of the package
ConformCirc == Stable => \A k \in Ids : Last.circ[k + 1] = Code(k)
\* the add queue of each outgoing mailbox, in order
ConformMailbox == Stable => \A c \in OutChans : Last.mb[c] = q[c]
\* the packet parked at the hand-over and the link the forwarder chose for it
ConformFwd == Stable => Last.fk = fwdK /\ Last.fd = fwdD
\* the ForwardPackets call: in flight or returned, nil or error
ConformRet == Stable => Last.ret = ret /\ Last.infl = B(pc = "route")
\* the AckFilter of the incoming channel's package as read from the database
ConformAck == Stable => Set(Last.ack) = ackd
\* the add the courier delivered; the outgoing links' logs and commitments; OpenCircuits' answer
ConformTake == (Stable /\ Last.a = "Take") => Last.tk = took
ConformLinks == Stable => \A c \in OutChans : Set(Last.lg[c]) = Log(c) /\ Set(Last.cm[c]) = comm[c]
ConformOpen == Live => Last.oerr = ""
====
