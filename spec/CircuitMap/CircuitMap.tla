----------------------------- MODULE CircuitMap -----------------------------
(***************************************************************************)
(* The switch's circuit map as lnd implements it (htlcswitch/circuit_map.go)*)
(*                                                                          *)
(* Durable state: the circuit-adds bucket (dAdds) and the circuit-keystones *)
(* bucket (dKeys).  Volatile state: the maps pending / opened / closed.     *)
(* Every operation that takes the mutex, releases it, writes one            *)
(* transaction and takes the mutex again is a sequence of actions of one    *)
(* thread - exactly the code's own atomicity:                               *)
(*                                                                          *)
(*   CommitCircuits   CommitMem -> CommitDisk(ok) [-> CommitRollback]       *)
(*   OpenCircuits     OpenCheck -> OpenDisk(ok)   [-> OpenApply]            *)
(*   TrimOpenCircuits TrimMem   -> TrimDisk(ok)                             *)
(*   DeleteCircuits   DeleteMem -> DeleteDisk(ok) [-> DeleteRestore]        *)
(*   CloseCircuit, FailCircuit: atomic                                      *)
(*   NewCircuitMap    StartClean(ok) -> StartRestore(ok) -> StartTrim(ok)*  *)
(*   Crash: memory and all threads are lost at any moment                   *)
(*                                                                          *)
(* A circuit key is <<channel, htlc id>>; channel 0 is hop.Source.          *)
(* Deliberate deviations of the code are named:                             *)
(*   TrimDisk(FALSE)  - a failed keystone deletion is NOT rolled back in    *)
(*                      memory ("TrimFail" \in Relaxed)                      *)
(* Caller assumptions are the guards named A1..A6 below (CONSTANT Relaxed).  *)
(***************************************************************************)
EXTENDS Integers, Sequences, FiniteSets, TLC

CONSTANTS InChans,        \* incoming channel ids (0 = hop.Source)
          OutChans,       \* outgoing channel ids (never 0)
          Ids,            \* htlc ids 0..n
          Threads,        \* thread ids (integers)
          MaxBatch,       \* longest batch of CommitCircuits / DeleteCircuits / OpenCircuits
          MaxOps,         \* bound on API calls
          MaxCrash,       \* bound on crashes
          MaxFail,        \* bound on failing transactions
          Relaxed         \* the assumptions that are NOT made, a subset of
                          \* {"A1", "A3", "A4", "A5", "A6", "TrimFail"}; {} = switch-faithful

\* The assumptions about callers and environment, each named where it guards an action:
\*  A1  a caller learns of a circuit only from the Adds answer: no Open/Fail/Delete of a key whose
\*      commit is in flight
\*  (A2 is a definition: the memory phase of DeleteCircuits is where a key is forgotten)
\*  A3  SwitchFaithful proper: a key is not re-committed while its delete is in flight (else H9)
\*  A4  a link is one goroutine and a circuit belongs to one outgoing link: calls of a link
\*      (Open, Trim) on one channel do not overlap; no Open/Delete of a circuit that another
\*      Open/Trim/Delete in flight touches
\*  A5  a circuit whose outgoing htlc has not reached a commitment is not deleted
\*  A6  ClosePatient: a channel is not FULLY closed while one of its circuits holds an uncommitted
\*      keystone, and no keystone is written for a circuit of a fully closed channel (else H10)
\*  TrimFail  in Relaxed: the transaction of a run-time TrimOpenCircuits may fail (H11)
Assume(a) == a \notin Relaxed
SwitchFaithful == Relaxed = {}

Source  == 0
InKeys  == InChans \X Ids
OutKeys == OutChans \X Ids
None    == <<-1, -1>>
Range(s) == {s[i] : i \in DOMAIN s}
SeqsUpTo(S, n) == UNION {[1..m -> S] : m \in 1..n}
Injective(s) == \A i, j \in DOMAIN s : i # j => s[i] # s[j]
Min(S) == CHOOSE x \in S : \A y \in S : x <= y

VARIABLES
  dAdds,        \* durable: incoming keys in the circuit-adds bucket
  dKeys,        \* durable: keystones, a set of <<out, in>> (at most one per out)
  pending,      \* volatile: set of [in, loaded, out]   (cm.pending; out = circuit.Outgoing)
  opened,       \* volatile: set of <<out, in>>         (cm.opened)
  closed,       \* volatile: set of incoming keys       (cm.closed)
  mode,         \* "up" | "down" | "s1" (cleaned) | "s2" (restored, trimming)
  trimTodo,     \* channels still to be trimmed by NewCircuitMap
  thr,          \* per thread: the operation in flight
  closedChans,  \* start-up input: fully closed channels
  chanStatus,   \* start-up input: status of each outgoing channel that is still reported as open:
                \* "default" | "borked" | "commitbc" (a commitment / closing tx was broadcast)
  resMsgs,      \* start-up input: outgoing keys with a stored resolution message
  nextIdx,      \* start-up input: NextLocalHtlcIndex per outgoing channel
  ret,          \* observation: what the last step returned to its caller
  addsCount,    \* history: Adds answers per incoming key since its last delete
  respCount,    \* history: successful Close/Fail per incoming key in this process lifetime
  snap,         \* history: the durable state when the process last went down
  fresh,        \* history: NewCircuitMap has just returned
  nops, ncrash, nfail

vars == <<dAdds, dKeys, pending, opened, closed, mode, trimTodo, thr, closedChans, chanStatus, resMsgs,
          nextIdx, ret, addsCount, respCount, snap, fresh, nops, ncrash, nfail>>

Idle == [op |-> "idle", pc |-> "idle", a |-> <<>>, d |-> <<>>, f |-> <<>>, af |-> <<>>,
         rem |-> {}, cl |-> {}, ks |-> <<>>]
Ret(e, done, a, d, f, k) == [err |-> e, done |-> done, adds |-> a, drops |-> d, fails |-> f, key |-> k]
NoRet == Ret("none", 0, <<>>, <<>>, <<>>, None)
OkRet == Ret("none", 1, <<>>, <<>>, <<>>, None)
ErrRet(e) == Ret(e, 1, <<>>, <<>>, <<>>, None)

Pend(in)      == {p \in pending : p.in = in}
IsPending(in) == Pend(in) # {}
OpenedAt(out) == {o \in opened : o[1] = out}
IsClosedChan(c) == c # Source /\ c \in closedChans
\* a channel that is fully closed, borked or being closed on chain is never handed to a link again
NoLink(c) == IsClosedChan(c) \/ (c \in OutChans /\ chanStatus[c] # "default")

Init ==
  /\ dAdds = {} /\ dKeys = {}
  /\ pending = {} /\ opened = {} /\ closed = {}
  /\ mode = "up" /\ trimTodo = <<>>
  /\ thr = [t \in Threads |-> Idle]
  /\ closedChans = {} /\ resMsgs = {} /\ nextIdx = [c \in OutChans |-> 0]
  /\ chanStatus = [c \in OutChans |-> "default"]
  /\ ret = NoRet
  /\ addsCount = [k \in InKeys |-> 0] /\ respCount = [k \in InKeys |-> 0]
  /\ snap = [adds |-> {}, keys |-> {}] /\ fresh = FALSE
  /\ nops = 0 /\ ncrash = 0 /\ nfail = 0

-----------------------------------------------------------------------------
(* What is in flight, for the caller assumptions.                           *)
ComKeys(t)  == IF thr[t].op = "commit" THEN Range(thr[t].a) ELSE {}
DelKeys(t)  == IF thr[t].op = "delete" THEN Range(thr[t].a) ELSE {}
OpenIns(t)  == IF thr[t].op = "open" THEN {k[1] : k \in Range(thr[t].ks)} ELSE {}
OpenOuts(t) == IF thr[t].op = "open" THEN {k[2] : k \in Range(thr[t].ks)} ELSE {}
TrimOuts(t) == IF thr[t].op = "trim" THEN {k[2] : k \in Range(thr[t].ks)} ELSE {}
TrimIns(t)  == IF thr[t].op = "trim" THEN {k[1] : k \in Range(thr[t].ks)} ELSE {}
Committing == UNION {ComKeys(t) : t \in Threads}
Deleting   == UNION {DelKeys(t) : t \in Threads}
OpeningIn  == UNION {OpenIns(t) : t \in Threads}
OpeningOut == UNION {OpenOuts(t) : t \in Threads}
TrimmingIn == UNION {TrimIns(t) : t \in Threads}
LinkBusy(c) == \E t \in Threads : \E o \in OpenOuts(t) \cup TrimOuts(t) : o[1] = c

\* a new call is issued on the lowest idle thread (threads are interchangeable)
Call(t) == /\ mode = "up" /\ nops < MaxOps
           /\ thr[t].op = "idle"
           /\ \A u \in Threads : thr[u].op = "idle" => t <= u
           /\ nops' = nops + 1
Step(t, op, pc) == mode = "up" /\ thr[t].op = op /\ thr[t].pc = pc
MayFail == nfail < MaxFail
Fails(ok) == nfail' = IF ok THEN nfail ELSE nfail + 1
Finish(t) == thr' = [thr EXCEPT ![t] = Idle]

-----------------------------------------------------------------------------
(* CommitCircuits.  The decision table is evaluated circuit by circuit      *)
(* under the mutex; new circuits enter `pending` at once.                   *)
RECURSIVE CommitScan(_, _, _)
CommitScan(batch, i, acc) ==
  IF i > Len(batch) THEN acc
  ELSE LET k == batch[i]
           hit == {p \in acc.pend : p.in = k} IN
       IF hit # {}
       THEN LET p == CHOOSE q \in hit : TRUE IN
            IF p.out # None \/ ~p.loaded
            THEN CommitScan(batch, i + 1, [acc EXCEPT !.d = Append(@, k)])
            ELSE CommitScan(batch, i + 1, [acc EXCEPT !.f = Append(@, k), !.af = Append(@, k)])
       ELSE CommitScan(batch, i + 1,
                       [acc EXCEPT !.pend = @ \cup {[in |-> k, loaded |-> FALSE, out |-> None]},
                                   !.a = Append(@, k), !.af = Append(@, k)])

CommitMem(t, batch) ==
  /\ Call(t)
  \* A3 (SwitchFaithful proper): a key is not re-committed while its delete is in flight -
  \* the switch tears a circuit down only after the response, when the incoming add was
  \* acknowledged in the forwarding package long ago.  Violating it is H9.
  /\ Assume("A3") => Range(batch) \cap Deleting = {}
  /\ LET r == CommitScan(batch, 1, [pend |-> pending, a |-> <<>>, d |-> <<>>, f |-> <<>>, af |-> <<>>]) IN
     /\ pending' = r.pend
     /\ IF r.a = <<>>
        THEN /\ ret' = Ret("none", 1, <<>>, r.d, r.f, None)
             /\ UNCHANGED thr
        ELSE /\ ret' = NoRet
             /\ thr' = [thr EXCEPT ![t] = [Idle EXCEPT !.op = "commit", !.pc = "disk", !.a = r.a,
                                                        !.d = r.d, !.f = r.f, !.af = r.af]]
  /\ UNCHANGED <<dAdds, dKeys, opened, closed, mode, trimTodo, closedChans, chanStatus, resMsgs, nextIdx,
                 addsCount, respCount, snap, ncrash, nfail>>
  /\ fresh' = FALSE

CommitDisk(t, ok) ==
  /\ Step(t, "commit", "disk") /\ (ok \/ MayFail) /\ Fails(ok)
  /\ IF ok
     THEN /\ dAdds' = dAdds \cup Range(thr[t].a)
          /\ addsCount' = [k \in InKeys |-> IF k \in Range(thr[t].a) THEN addsCount[k] + 1 ELSE addsCount[k]]
          /\ ret' = Ret("none", 1, thr[t].a, thr[t].d, thr[t].f, None)
          /\ Finish(t)
     ELSE /\ thr' = [thr EXCEPT ![t].pc = "rollback"]
          /\ ret' = NoRet
          /\ UNCHANGED <<dAdds, addsCount>>
  /\ UNCHANGED <<dKeys, pending, opened, closed, mode, trimTodo, closedChans, chanStatus, resMsgs, nextIdx,
                 respCount, snap, nops, ncrash>>
  /\ fresh' = FALSE

CommitRollback(t) ==
  /\ Step(t, "commit", "rollback")
  /\ pending' = {p \in pending : p.in \notin Range(thr[t].a)}
  /\ ret' = Ret("io", 1, <<>>, thr[t].d, thr[t].af, None)
  /\ Finish(t)
  /\ UNCHANGED <<dAdds, dKeys, opened, closed, mode, trimTodo, closedChans, chanStatus, resMsgs, nextIdx,
                 addsCount, respCount, snap, fresh, nops, ncrash, nfail>>

-----------------------------------------------------------------------------
(* OpenCircuits: check under the read lock, write the keystones, apply.     *)
(* The outgoing link allocates htlc ids in order: a batch binds the next    *)
(* free ids of one channel.  (H4: a batch is checked against `opened` only, *)
(* not against itself, and a circuit that already has a keystone is not     *)
(* rejected - the links never issue such batches, neither does the model.)  *)
FreeFrom(c) ==
  LET taken == {o[1][2] : o \in {x \in opened : x[1][1] = c}} \cup
               {o[2] : o \in {x \in OpeningOut : x[1] = c}} IN
  {i \in Ids : i >= nextIdx[c] /\ i \notin taken /\ \A j \in Ids : (j >= nextIdx[c] /\ j < i) => j \in taken}

\* the keystone batches a link may issue: ins distinct, outs = consecutive free ids of c
OpenBatches(c) ==
  IF FreeFrom(c) = {} THEN {}
  ELSE LET i0 == Min(FreeFrom(c)) IN
       {[j \in DOMAIN b |-> <<b[j], <<c, i0 + j - 1>>>>] :
           b \in {x \in SeqsUpTo(InKeys, MaxBatch) : Injective(x) /\ (i0 + Len(x) - 1) \in Ids}}
\* ... or it repeats a keystone that is already there (answered ErrDuplicateKeystone)
DupBatches == {<<(<<in, o[1]>>)>> : in \in InKeys, o \in opened}

OpenCheck(t, ks) ==
  /\ Call(t)
  /\ \A j \in DOMAIN ks :
        \* H4: the circuit to be opened has no keystone yet
        /\ \A p \in Pend(ks[j][1]) : p.out = None
        \* A1: the caller learns of a circuit only from the Adds answer
        /\ Assume("A1") => ks[j][1] \notin Committing
        \* A4: a link is one goroutine (no Open/Trim of the same channel overlap); a circuit
        \* belongs to one outgoing link: no Open while another call (Open, Trim, Delete) that
        \* touches the circuit is in flight
        /\ Assume("A4") => /\ ks[j][1] \notin Deleting \cup OpeningIn \cup TrimmingIn
                           /\ ~LinkBusy(ks[j][2][1])
                           /\ ~NoLink(ks[j][2][1])
        \* A6, seen from the other side: no keystone for a circuit of a fully closed channel
        /\ Assume("A6") => ~IsClosedChan(ks[j][1][1])
  /\ LET bad == {j \in DOMAIN ks : OpenedAt(ks[j][2]) # {} \/ ~IsPending(ks[j][1])} IN
     IF bad # {}
     THEN /\ ret' = ErrRet(IF OpenedAt(ks[Min(bad)][2]) # {} THEN "dupks" ELSE "unknown")
          /\ UNCHANGED thr
     ELSE /\ ret' = NoRet
          /\ thr' = [thr EXCEPT ![t] = [Idle EXCEPT !.op = "open", !.pc = "disk", !.ks = ks]]
  /\ UNCHANGED <<dAdds, dKeys, pending, opened, closed, mode, trimTodo, closedChans, chanStatus, resMsgs,
                 nextIdx, addsCount, respCount, snap, ncrash, nfail>>
  /\ fresh' = FALSE

PutKeys(dk, ks) == {k \in dk : k[1] \notin {x[2] : x \in Range(ks)}} \cup {<<x[2], x[1]>> : x \in Range(ks)}

OpenDisk(t, ok) ==
  /\ Step(t, "open", "disk") /\ (ok \/ MayFail) /\ Fails(ok)
  /\ IF ok
     THEN /\ dKeys' = PutKeys(dKeys, thr[t].ks)
          /\ thr' = [thr EXCEPT ![t].pc = "apply"]
          /\ ret' = NoRet
     ELSE /\ ret' = ErrRet("io")
          /\ Finish(t)
          /\ UNCHANGED dKeys
  /\ UNCHANGED <<dAdds, pending, opened, closed, mode, trimTodo, closedChans, chanStatus, resMsgs, nextIdx,
                 addsCount, respCount, snap, nops, ncrash>>
  /\ fresh' = FALSE

OpenApply(t) ==
  /\ Step(t, "open", "apply")
  /\ LET ks == Range(thr[t].ks) IN
     /\ pending' = {IF \E x \in ks : x[1] = p.in
                    THEN [p EXCEPT !.out = (CHOOSE x \in ks : x[1] = p.in)[2]] ELSE p : p \in pending}
     /\ opened' = {o \in opened : o[1] \notin {x[2] : x \in ks}} \cup {<<x[2], x[1]>> : x \in ks}
  /\ ret' = OkRet
  /\ Finish(t)
  /\ UNCHANGED <<dAdds, dKeys, closed, mode, trimTodo, closedChans, chanStatus, resMsgs, nextIdx,
                 addsCount, respCount, snap, fresh, nops, ncrash, nfail>>

-----------------------------------------------------------------------------
(* TrimOpenCircuits(c, start): scan forward from `start` while a keystone   *)
(* is found in `opened`; clear them in memory, then delete them on disk.    *)
TrimRun(c, start, op) ==
  {i \in Ids : i >= start /\ \A j \in Ids : (j >= start /\ j <= i) => \E o \in op : o[1] = <<c, j>>}
TrimSet(c, start, op) == {o \in op : o[1][1] = c /\ o[1][2] \in TrimRun(c, start, op)}
TrimPending(pend, ts) == {IF \E o \in ts : o[2] = p.in THEN [p EXCEPT !.out = None] ELSE p : p \in pend}
\* the trimmed keystones as a sequence of <<in, out>> in scan order
RECURSIVE TrimSeq(_, _, _)
TrimSeq(c, i, ts) == IF \E o \in ts : o[1] = <<c, i>>
                     THEN <<(<<(CHOOSE o \in ts : o[1] = <<c, i>>)[2], <<c, i>>>>)>> \o TrimSeq(c, i + 1, ts)
                     ELSE <<>>

TrimMem(t, c) ==
  /\ Call(t)
  \* the link trims from its channel's NextLocalHtlcIndex when it starts
  /\ Assume("A4") => (~LinkBusy(c) /\ ~NoLink(c))
  /\ LET ts == TrimSet(c, nextIdx[c], opened) IN
     /\ pending' = TrimPending(pending, ts)
     /\ opened' = opened \ ts
     /\ IF ts = {}
        THEN ret' = OkRet /\ UNCHANGED thr
        ELSE /\ ret' = NoRet
             /\ thr' = [thr EXCEPT ![t] = [Idle EXCEPT !.op = "trim", !.pc = "disk",
                                                        !.ks = TrimSeq(c, nextIdx[c], ts)]]
  /\ UNCHANGED <<dAdds, dKeys, closed, mode, trimTodo, closedChans, chanStatus, resMsgs, nextIdx,
                 addsCount, respCount, snap, ncrash, nfail>>
  /\ fresh' = FALSE

\* DEVIATION ("TrimFail" \in Relaxed): when the deletion fails the error is returned but the keystones
\* stay cleared in memory - there is no rollback as in CommitCircuits / DeleteCircuits.
TrimDisk(t, ok) ==
  /\ Step(t, "trim", "disk") /\ (ok \/ (MayFail /\ ~Assume("TrimFail"))) /\ Fails(ok)
  /\ IF ok
     THEN /\ dKeys' = {k \in dKeys : k[1] \notin TrimOuts(t)}
          /\ ret' = OkRet
     ELSE /\ ret' = ErrRet("io")
          /\ UNCHANGED dKeys
  /\ Finish(t)
  /\ UNCHANGED <<dAdds, pending, opened, closed, mode, trimTodo, closedChans, chanStatus, resMsgs, nextIdx,
                 addsCount, respCount, snap, nops, ncrash>>
  /\ fresh' = FALSE

-----------------------------------------------------------------------------
(* CloseCircuit(out) / FailCircuit(in): the volatile `closed` set arbitrates.*)
Close(out) ==
  /\ mode = "up" /\ nops < MaxOps /\ nops' = nops + 1
  /\ IF OpenedAt(out) = {}
     THEN /\ ret' = ErrRet("unknown") /\ UNCHANGED <<closed, respCount>>
     ELSE LET in == (CHOOSE o \in OpenedAt(out) : TRUE)[2] IN
          IF in \in closed
          THEN /\ ret' = ErrRet("closing") /\ UNCHANGED <<closed, respCount>>
          ELSE /\ closed' = closed \cup {in}
               /\ respCount' = [respCount EXCEPT ![in] = @ + 1]
               /\ ret' = Ret("none", 1, <<>>, <<>>, <<>>, in)
  /\ UNCHANGED <<dAdds, dKeys, pending, opened, mode, trimTodo, thr, closedChans, chanStatus, resMsgs, nextIdx,
                 addsCount, snap, ncrash, nfail>>
  /\ fresh' = FALSE

Fail(in) ==
  /\ mode = "up" /\ nops < MaxOps /\ nops' = nops + 1
  \* A1: the caller learns of a circuit only from the Adds answer
  /\ Assume("A1") => in \notin Committing
  /\ IF ~IsPending(in)
     THEN /\ ret' = ErrRet("unknown") /\ UNCHANGED <<closed, respCount>>
     ELSE IF in \in closed
          THEN /\ ret' = ErrRet("closing") /\ UNCHANGED <<closed, respCount>>
          ELSE /\ closed' = closed \cup {in}
               /\ respCount' = [respCount EXCEPT ![in] = @ + 1]
               /\ ret' = Ret("none", 1, <<>>, <<>>, <<>>, in)
  /\ UNCHANGED <<dAdds, dKeys, pending, opened, mode, trimTodo, thr, closedChans, chanStatus, resMsgs, nextIdx,
                 addsCount, snap, ncrash, nfail>>
  /\ fresh' = FALSE

-----------------------------------------------------------------------------
(* DeleteCircuits: remove from memory (remembering what was removed), then  *)
(* delete on disk; restore the memory if the transaction fails.             *)
DeleteMem(t, keys) ==
  /\ Call(t)
  /\ \A k \in Range(keys) :
        \* A1 / A4: not while the circuit's commit, or its open or trim, is in flight
        /\ Assume("A1") => k \notin Committing
        /\ Assume("A4") => k \notin OpeningIn \cup TrimmingIn
        \* A5: a circuit is torn down after a response; an outgoing htlc that has not reached
        \* a commitment (keystone index >= NextLocalHtlcIndex) cannot have been answered
        /\ Assume("A5") => \A p \in Pend(k) :
               (p.out # None /\ ~IsClosedChan(p.out[1])) => p.out[2] < nextIdx[p.out[1]]
  /\ LET rem == {p \in pending : p.in \in Range(keys)}
         cl  == closed \cap {p.in : p \in rem} IN
     /\ pending' = pending \ rem
     /\ closed' = closed \ cl
     /\ opened' = {o \in opened : o[1] \notin {p.out : p \in rem}}
     \* A2: the memory phase is the linearization point of forgetting a key
     /\ addsCount' = [k \in InKeys |-> IF k \in Range(keys) /\ IsPending(k) THEN 0 ELSE addsCount[k]]
     /\ respCount' = [k \in InKeys |-> IF k \in Range(keys) /\ IsPending(k) THEN 0 ELSE respCount[k]]
     /\ thr' = [thr EXCEPT ![t] = [Idle EXCEPT !.op = "delete", !.pc = "disk", !.a = keys,
                                                !.rem = rem, !.cl = cl]]
  /\ ret' = NoRet
  /\ UNCHANGED <<dAdds, dKeys, mode, trimTodo, closedChans, chanStatus, resMsgs, nextIdx, snap, ncrash, nfail>>
  /\ fresh' = FALSE

DeleteDisk(t, ok) ==
  /\ Step(t, "delete", "disk") /\ (ok \/ MayFail) /\ Fails(ok)
  /\ IF ok
     THEN /\ dAdds' = dAdds \ {p.in : p \in thr[t].rem}
          /\ dKeys' = {k \in dKeys : k[1] \notin {p.out : p \in thr[t].rem}}
          /\ ret' = OkRet
          /\ Finish(t)
     ELSE /\ thr' = [thr EXCEPT ![t].pc = "restore"]
          /\ ret' = NoRet
          /\ UNCHANGED <<dAdds, dKeys>>
  /\ UNCHANGED <<pending, opened, closed, mode, trimTodo, closedChans, chanStatus, resMsgs, nextIdx,
                 addsCount, respCount, snap, nops, ncrash>>
  /\ fresh' = FALSE

DeleteRestore(t) ==
  /\ Step(t, "delete", "restore")
  /\ LET rem == thr[t].rem IN
     /\ pending' = {p \in pending : p.in \notin {q.in : q \in rem}} \cup rem
     /\ closed' = closed \cup thr[t].cl
     /\ opened' = {o \in opened : o[1] \notin {q.out : q \in rem}} \cup
                  {<<q.out, q.in>> : q \in {x \in rem : x.out # None}}
     \* the delete did not happen: the keys are remembered again
     /\ addsCount' = [k \in InKeys |-> IF k \in {q.in : q \in rem} THEN 1 ELSE addsCount[k]]
     /\ respCount' = [k \in InKeys |-> IF k \in thr[t].cl THEN 1 ELSE respCount[k]]
  /\ ret' = ErrRet("io")
  /\ Finish(t)
  /\ UNCHANGED <<dAdds, dKeys, mode, trimTodo, closedChans, chanStatus, resMsgs, nextIdx, snap, fresh,
                 nops, ncrash, nfail>>

-----------------------------------------------------------------------------
(* Environment: the channel state machine and the chain.                    *)
\* the outgoing channel commits its next htlc id; its keystone was written before the signature
AdvanceIdx(c) ==
  /\ mode = "up" /\ ~NoLink(c)
  /\ nextIdx[c] \in Ids
  /\ OpenedAt(<<c, nextIdx[c]>>) # {}
  /\ ~LinkBusy(c)
  /\ nextIdx' = [nextIdx EXCEPT ![c] = @ + 1]
  /\ ret' = NoRet
  /\ UNCHANGED <<dAdds, dKeys, pending, opened, closed, mode, trimTodo, thr, closedChans, chanStatus, resMsgs,
                 addsCount, respCount, snap, nops, ncrash, nfail>>
  /\ fresh' = FALSE

\* A6 (ClosePatient): an incoming channel does not become FULLY closed (all contracts resolved on
\* chain) while a circuit of it holds a keystone whose htlc has not reached a commitment - such a
\* keystone lives between OpenCircuits and the signature, or until the outgoing link restarts.
\* Without A6 the purge of the closed channel's circuits leaves a gap below a younger uncommitted
\* keystone of the same outgoing channel and the trim scan stops before it (finding H10).
Uncommitted(out) == ~IsClosedChan(out[1]) /\ out[2] >= nextIdx[out[1]]
CloseChan(c) ==
  /\ mode = "up" /\ c # Source /\ c \notin closedChans
  /\ ~LinkBusy(c)
  /\ Assume("A6") => /\ \A k \in dKeys \cup opened : k[2][1] = c => ~Uncommitted(k[1])
                     /\ \A t \in Threads : \A k \in Range(thr[t].ks) : thr[t].op = "open" => k[1][1] # c
  /\ closedChans' = closedChans \cup {c}
  /\ UNCHANGED chanStatus
  /\ ret' = NoRet
  /\ UNCHANGED <<dAdds, dKeys, pending, opened, closed, mode, trimTodo, thr, resMsgs, nextIdx,
                 addsCount, respCount, snap, nops, ncrash, nfail>>
  /\ fresh' = FALSE

\* the chain resolver stores a resolution message for an outgoing htlc of a channel that is
\* being closed on chain (it was on a commitment, so it has a keystone) before the close is final
\* The channel leaves the default status (MarkBorked, MarkCommitmentBroadcasted, ...) but is still
\* returned by FetchAllOpenChannels until it is fully closed.  Its circuits are trimmed at start-up
\* like those of any open channel: an htlc that never reached a commitment cannot be on the
\* commitment that goes on chain either.
MarkChan(c, st) ==
  /\ mode = "up" /\ ~IsClosedChan(c) /\ chanStatus[c] = "default" /\ st # "default"
  /\ ~LinkBusy(c)
  /\ chanStatus' = [chanStatus EXCEPT ![c] = st]
  /\ ret' = NoRet
  /\ UNCHANGED <<dAdds, dKeys, pending, opened, closed, mode, trimTodo, thr, closedChans, resMsgs, nextIdx,
                 addsCount, respCount, snap, nops, ncrash, nfail>>
  /\ fresh' = FALSE

AddResMsg(out) ==
  /\ mode = "up" /\ out \notin resMsgs
  /\ out[1] \notin closedChans /\ \E k \in dKeys : k[1] = out
  /\ resMsgs' = resMsgs \cup {out}
  /\ ret' = NoRet
  /\ UNCHANGED <<dAdds, dKeys, pending, opened, closed, mode, trimTodo, thr, closedChans, chanStatus, nextIdx,
                 addsCount, respCount, snap, nops, ncrash, nfail>>
  /\ fresh' = FALSE

-----------------------------------------------------------------------------
(* Crash and NewCircuitMap.                                                 *)
Crash ==
  /\ mode # "down" /\ ncrash < MaxCrash
  /\ ncrash' = ncrash + 1
  /\ mode' = "down" /\ trimTodo' = <<>>
  /\ pending' = {} /\ opened' = {} /\ closed' = {}
  /\ thr' = [t \in Threads |-> Idle]
  /\ snap' = IF mode = "up" THEN [adds |-> dAdds, keys |-> dKeys] ELSE snap
  /\ respCount' = [k \in InKeys |-> 0]
  /\ ret' = NoRet
  /\ fresh' = FALSE
  /\ UNCHANGED <<dAdds, dKeys, closedChans, chanStatus, resMsgs, nextIdx, addsCount, nops, nfail>>

\* cleanClosedChannels, transcribed: what is deleted for the set of closed channels
CleanCircuits == {in \in dAdds : IsClosedChan(in[1])} \cup
                 {k[2] : k \in {x \in dKeys : IsClosedChan(x[2][1]) \/
                                              (IsClosedChan(x[1][1]) /\ x[1] \notin resMsgs)}}
CleanKeys == {x \in dKeys : IsClosedChan(x[2][1]) \/ (IsClosedChan(x[1][1]) /\ x[1] \notin resMsgs)}

StartClean(ok) ==
  /\ mode = "down" /\ (ok \/ MayFail) /\ Fails(ok)
  /\ IF ok
     THEN /\ dAdds' = dAdds \ CleanCircuits
          /\ dKeys' = dKeys \ CleanKeys
          /\ addsCount' = [k \in InKeys |-> IF k \in CleanCircuits THEN 0 ELSE addsCount[k]]
          /\ mode' = "s1"
          /\ ret' = NoRet
     ELSE /\ ret' = ErrRet("io")
          /\ UNCHANGED <<dAdds, dKeys, addsCount, mode>>
  /\ UNCHANGED <<pending, opened, closed, trimTodo, thr, closedChans, chanStatus, resMsgs, nextIdx, respCount,
                 snap, fresh, nops, ncrash>>

\* the channels FetchAllOpenChannels reports, in ascending order
RECURSIVE Ascending(_)
Ascending(S) == IF S = {} THEN <<>> ELSE <<Min(S)>> \o Ascending(S \ {Min(S)})
Active == Ascending({c \in OutChans : c \notin closedChans})

StartRestore(ok) ==
  /\ mode = "s1" /\ (ok \/ MayFail) /\ Fails(ok)
  /\ IF ok
     THEN LET ksOf(in) == {k \in dKeys : k[2] = in}
              stray == {k \in dKeys : k[2] \notin dAdds} IN
          /\ pending' = {[in |-> in, loaded |-> TRUE,
                          out |-> IF ksOf(in) = {} THEN None ELSE (CHOOSE k \in ksOf(in) : TRUE)[1]] : in \in dAdds}
          /\ opened' = {k \in dKeys : k[2] \in dAdds}
          /\ closed' = {}
          \* stray keystones are pruned only for locally initiated payments (out = hop.Source)
          /\ dKeys' = dKeys \ {k \in stray : k[1][1] = Source}
          /\ IF Active = <<>>
             THEN mode' = "up" /\ fresh' = TRUE /\ ret' = OkRet
             ELSE mode' = "s2" /\ fresh' = FALSE /\ ret' = NoRet
          /\ trimTodo' = Active
     ELSE /\ mode' = "down" /\ ret' = ErrRet("io")
          /\ UNCHANGED <<pending, opened, closed, dKeys, trimTodo, fresh>>
  /\ UNCHANGED <<dAdds, thr, closedChans, chanStatus, resMsgs, nextIdx, addsCount, respCount, snap, nops, ncrash>>

StartTrim(ok) ==
  /\ mode = "s2" /\ trimTodo # <<>>
  /\ LET c == Head(trimTodo)
         ts == TrimSet(c, nextIdx[c], opened) IN
     /\ (ok \/ (MayFail /\ ts # {})) /\ Fails(ok)
     /\ IF ok
        THEN /\ pending' = TrimPending(pending, ts)
             /\ opened' = opened \ ts
             /\ dKeys' = {k \in dKeys : k[1] \notin {o[1] : o \in ts}}
             /\ trimTodo' = Tail(trimTodo)
             /\ IF Tail(trimTodo) = <<>>
                THEN mode' = "up" /\ fresh' = TRUE /\ ret' = OkRet
                ELSE mode' = "s2" /\ fresh' = FALSE /\ ret' = NoRet
        ELSE \* NewCircuitMap returns the error: the half-built map is discarded
             /\ pending' = {} /\ opened' = {} /\ trimTodo' = <<>>
             /\ mode' = "down" /\ fresh' = FALSE /\ ret' = ErrRet("io")
             /\ UNCHANGED dKeys
  /\ UNCHANGED <<dAdds, closed, thr, closedChans, chanStatus, resMsgs, nextIdx, addsCount, respCount, snap, nops, ncrash>>

-----------------------------------------------------------------------------
Batches == SeqsUpTo(InKeys, MaxBatch)

Next ==
  \/ \E t \in Threads :
        \/ \E b \in Batches : CommitMem(t, b)
        \/ \E ok \in BOOLEAN : CommitDisk(t, ok) \/ OpenDisk(t, ok) \/ TrimDisk(t, ok) \/ DeleteDisk(t, ok)
        \/ CommitRollback(t) \/ OpenApply(t) \/ DeleteRestore(t)
        \/ \E c \in OutChans : \E ks \in OpenBatches(c) : OpenCheck(t, ks)
        \/ \E ks \in DupBatches : OpenCheck(t, ks)
        \/ \E c \in OutChans : TrimMem(t, c)
        \/ \E b \in {x \in Batches : Injective(x)} : DeleteMem(t, b)
  \/ \E out \in OutKeys : Close(out) \/ AddResMsg(out)
  \/ \E in \in InKeys : Fail(in)
  \/ \E c \in OutChans : AdvanceIdx(c)
  \/ \E c \in (InChans \cup OutChans) : CloseChan(c)
  \/ \E c \in OutChans, st \in {"borked", "commitbc"} : MarkChan(c, st)
  \/ Crash
  \/ \E ok \in BOOLEAN : StartClean(ok) \/ StartRestore(ok) \/ StartTrim(ok)

Spec == Init /\ [][Next]_vars

-----------------------------------------------------------------------------
(* The property, written from its statement.                                *)

\* an incoming HTLC is handed to an outgoing channel at most once (between two deletes)
AtMostOnceForward == \A k \in InKeys : addsCount[k] <= 1

\* at most one settle-or-fail per HTLC is let through (per process lifetime)
AtMostOneResponse == \A k \in InKeys : respCount[k] <= 1

\* after a restart the switch knows exactly the durably recorded circuits: circuits of fully
\* closed channels are purged, unless the outgoing channel is the closed one and a resolution
\* message is still to be delivered; a circuit stays open iff its outgoing htlc reached a
\* commitment (index < NextLocalHtlcIndex; a closed channel is not trimmed), else it is half-open -
\* for every channel that is not fully closed, whatever its status (default, borked, broadcast)
KsOf(s, in) == {k \in s.keys : k[2] = in}
PurgedAtStart(s) ==
  {in \in s.adds : \/ IsClosedChan(in[1])
                   \/ \E k \in KsOf(s, in) : IsClosedChan(k[1][1]) /\ k[1] \notin resMsgs}
Reached(out) == IsClosedChan(out[1]) \/ out[2] < nextIdx[out[1]]
ExpectedAfterStart(s) ==
  {[in |-> in, loaded |-> TRUE,
    out |-> IF \E k \in KsOf(s, in) : Reached(k[1])
            THEN (CHOOSE k \in KsOf(s, in) : Reached(k[1]))[1] ELSE None] : in \in s.adds \ PurgedAtStart(s)}
RestartExact == fresh => /\ pending = ExpectedAfterStart(snap)
                         /\ dAdds = snap.adds \ PurgedAtStart(snap)

\* the full circuits are exactly the pending circuits that carry a keystone
OpenedConsistent == opened = {<<p.out, p.in>> : p \in {q \in pending : q.out # None}}
OpenedSubsetPending == \A o \in opened : \E p \in pending : p.in = o[2]
OneRecordPerKey == \A k \in InKeys : Cardinality(Pend(k)) <= 1
OneCircuitPerOut == \A o \in OutKeys : Cardinality(OpenedAt(o)) <= 1

\* memory mirrors disk whenever no operation is in flight
Quiet == mode = "up" /\ \A t \in Threads : thr[t].op = "idle"
MemDiskAgree == Quiet => /\ {p.in : p \in pending} = dAdds
                         /\ opened = dKeys

\* only circuits that exist (or are being deleted) are marked closed
ClosedSubset == mode = "up" => closed \subseteq {p.in : p \in pending} \cup Deleting

TypeOK == /\ dAdds \subseteq InKeys /\ dKeys \subseteq OutKeys \X InKeys
          /\ closed \subseteq InKeys /\ opened \subseteq OutKeys \X InKeys
          /\ mode \in {"up", "down", "s1", "s2"}
=============================================================================
