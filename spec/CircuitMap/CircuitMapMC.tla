---- MODULE CircuitMapMC ----
(* Exhaustive configuration.  Three reductions, none of which removes a behaviour that matters *)
(* to an invariant of CircuitMap:                                                              *)
(*  - VIEW: `ret` and the parts of a thread record that only flow into `ret` (drops, fails)    *)
(*    are observations; `snap` is read only while the process is down/starting or has just     *)
(*    started (it is overwritten by the next Crash).                                           *)
(*  - calls that change nothing but the call counter (an ErrUnknownCircuit answer, an empty    *)
(*    trim, an all-drops commit) are skipped: the same state with a smaller counter has more   *)
(*    budget left and subsumes them.                                                           *)
(*  - a channel becomes fully closed / leaves the default status / a resolution message is     *)
(*    stored only while no call is                                                             *)
(*    in flight and a crash can still follow: both commute with every step of a thread (they   *)
(*    are read by NewCircuitMap and by caller-assumption guards only).                         *)
EXTENDS CircuitMap
ThrView(t) == [op |-> thr[t].op, pc |-> thr[t].pc, a |-> thr[t].a, af |-> thr[t].af,
               rem |-> thr[t].rem, cl |-> thr[t].cl, ks |-> thr[t].ks]
View == <<dAdds, dKeys, pending, opened, closed, mode, trimTodo, [t \in Threads |-> ThrView(t)],
          closedChans, chanStatus, resMsgs, nextIdx, addsCount, respCount,
          IF fresh \/ mode # "up" THEN snap ELSE <<>>, fresh, nops, ncrash, nfail>>
core == <<dAdds, dKeys, pending, opened, closed, mode, trimTodo, thr, closedChans, chanStatus, resMsgs,
          nextIdx, addsCount, respCount, ncrash, nfail>>
MCNext == /\ Next
          /\ core' # core
          /\ (closedChans' # closedChans \/ resMsgs' # resMsgs \/ chanStatus' # chanStatus) => (Quiet /\ ncrash < MaxCrash)
          \* "borked" and "commitbc" are indistinguishable to the model: one of them suffices
          /\ \A c \in OutChans : chanStatus'[c] # "commitbc"
MCSpec == Init /\ [][MCNext]_vars
====
