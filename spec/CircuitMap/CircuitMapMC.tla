---- MODULE CircuitMapMC ----
EXTENDS CircuitMap
\* `ret` is an observation of the last step only: it influences neither the behaviour nor an invariant
View == <<dAdds, dKeys, pending, opened, closed, mode, trimTodo, thr, closedChans, resMsgs,
          nextIdx, addsCount, respCount, snap, fresh, nops, ncrash, nfail>>
====
