SPECIFICATION RSpec
CONSTANTS
  N = 2
  OutChans = {1}
  NHalf = 0
  ResCheck = "open"
  Unclaimed = "keep"
VIEW View
CONSTRAINT Bound
INVARIANTS AtMostOneResponse
CHECK_DEADLOCK FALSE
