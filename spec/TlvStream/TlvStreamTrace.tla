--------------------------- MODULE TlvStreamTrace ---------------------------
(* Trace validation.  One line of the executor = one input (as runs) and    *)
(* what each of the four entry points of the real tlv.Stream did with it.   *)
(* The model runs its recogniser on the same input, on the p2p and on the   *)
(* non-p2p path, and every difference is a deviation:                       *)
(*   panic                the call panicked                                  *)
(*   alloc                it allocated > 1 MiB + 4x the input               *)
(*   accept-noncanonical  accepted, the model (= Canonical, by TLC) rejects *)
(*   reject-canonical     rejected a canonical stream                       *)
(*   errclass             rejected, but for another reason than the model:  *)
(*                        NOT a deviation (the property fixes acceptance,   *)
(*                        not the order of the checks) - noted in note.txt  *)
(*   values / typemap / typemap-values / reencode                           *)
(*                        accepted, but the decoded known records, the      *)
(*                        TypeMap keys, the TypeMap values of the unknown   *)
(*                        records, or decode-then-encode differ             *)
(* Deviations are classified (entry point, kind, input class) and written   *)
(* to dev.txt; the run as a whole is rejected by the postcondition          *)
(* NoDeviation, so that one pass reports every class, not only the first.   *)
(* A line the model cannot consume at all is a deadlock at that l.          *)
EXTENDS TlvStream, Json, CSV
CONSTANTS Apis
VARIABLES mp,     \* the recogniser's result on the p2p path (m: non-p2p path)
          l, ndev

Trace == ndJsonDeserialize("trace.ndjson")
Last == Trace[l - 1]

P2PApi(api) == api \in {"DecodeP2P", "ParsedP2P"}
WithMap(api) == api \in {"Parsed", "ParsedP2P"}

Inp(line) == [i \in 1..Len(line.inp) |-> [b |-> line.inp[i][1], n |-> line.inp[i][2]]]
PairsOf(runs) == [i \in 1..Len(runs) |-> <<runs[i].b, runs[i].n>>]

Sentinel(t) == IF t = <<3>> THEN << <<90, 2>> >> ELSE << <<90, 1>> >>
KnownVal(M, t) == IF Present(M.out, t) THEN PairsOf(ValueOf(M.out, t)) ELSE Sentinel(t)

B8(x) == <<x, 255, 255, 255, 255, 255, 255, 255>>
Cls(M) == IF M.st = "acc" THEN "canonical"
          ELSE IF M.err = "eof" /\ M.at = "value" /\ ~Small(M.rem)
                 THEN IF NumLess(B8(127), M.rem) THEN "len>=2^63" ELSE "len>65536"
          ELSE M.err

Kinds(r, M, api) ==
  IF r.s = 1 THEN {} ELSE
  (IF r.p = 1 THEN {"panic"} ELSE {}) \cup (IF r.big = 1 THEN {"alloc"} ELSE {}) \cup
  (IF r.p = 1 THEN {}
   ELSE IF r.o = 1 /\ M.st = "rej" THEN {"accept-noncanonical"}
   ELSE IF r.o = 0 /\ M.st = "acc" THEN {"reject-canonical"}
   ELSE IF r.o = 0 THEN {}
   ELSE (IF r.k # <<KnownVal(M, <<1>>), KnownVal(M, <<2>>), KnownVal(M, <<3>>)>> THEN {"values"} ELSE {})
        \cup (IF r.t # (IF WithMap(api) THEN [i \in 1..Len(M.out) |-> M.out[i].t] ELSE <<>>)
                THEN {"typemap"} ELSE {})
        \cup (IF r.tv # (IF WithMap(api)
                            THEN [i \in 1..Len(M.out) |-> IF IsKnown(M.out[i].t) THEN <<>>
                                                          ELSE PairsOf(Rle(M.out[i].v))]
                            ELSE <<>>)
                THEN {"typemap-values"} ELSE {})
        \cup (IF r.q # (IF WithMap(api) THEN 1 ELSE 2) THEN {"reencode"} ELSE {}))

Devs(line, Mn, Mp) ==
  UNION {{<<api, k, Cls(IF P2PApi(api) THEN Mp ELSE Mn)>> :
            k \in Kinds(line.r[api], IF P2PApi(api) THEN Mp ELSE Mn, api)} : api \in Apis}

Report(ds, line) == \A d \in ds : CSVWrite("%1$s %2$s %3$s %4$s", <<d[1], d[2], d[3], line>>, "dev.txt")

\* both reject, different error class
Notes(line, Mn, Mp) ==
  {<<api, line.r[api].e, (IF P2PApi(api) THEN Mp ELSE Mn).err>> :
     api \in {a \in Apis : LET r == line.r[a] M == IF P2PApi(a) THEN Mp ELSE Mn IN
                             r.s = 0 /\ r.p = 0 /\ r.o = 0 /\ M.st = "rej" /\ r.e # M.err}}
Note(ns, line) == \A d \in ns : CSVWrite("%1$s %2$s %3$s %4$s", <<d[1], d[2], d[3], line>>, "note.txt")

TInit == /\ TLCSet(1, 0)
         /\ m = RunToEnd(Machine(<<>>, TRUE, FALSE)) /\ mp = RunToEnd(Machine(<<>>, TRUE, TRUE))
         /\ fed = <<>> /\ l = 1 /\ ndev = 0

Case == /\ l <= Len(Trace) /\ Trace[l].a = "Case"
        /\ LET inp == Inp(Trace[l])
               Mn == RunToEnd(Machine(inp, TRUE, FALSE))
               Mp == RunToEnd(Machine(inp, TRUE, TRUE))
               ds == Devs(Trace[l], Mn, Mp) IN
           /\ fed' = inp /\ m' = Mn /\ mp' = Mp
           /\ Report(ds, l)
           /\ Note(Notes(Trace[l], Mn, Mp), l)
           /\ ndev' = ndev + Cardinality(ds)
           /\ TLCSet(1, ndev + Cardinality(ds))
        /\ l' = l + 1

TNext == Case \/ (l = Len(Trace) + 1 /\ UNCHANGED <<m, mp, fed, l, ndev>>)
TSpec == TInit /\ [][TNext]_<<m, mp, fed, l, ndev>>

\* the model's own verdicts on the executed inputs are the property's (re-checked on every line)
ModelIsCanonical == /\ (m.st = "acc") <=> Canonical(fed, FALSE)
                    /\ (mp.st = "acc") <=> Canonical(fed, TRUE)
\* evaluated once, after the whole trace was consumed (POSTCONDITION; register 1 = ndev of the last line)
NoDeviation == TLCGet(1) = 0
=============================================================================
