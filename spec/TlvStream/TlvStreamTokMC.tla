---- MODULE TlvStreamTokMC ----
EXTENDS TlvStreamTok
====
