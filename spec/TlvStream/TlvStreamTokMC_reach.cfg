SPECIFICATION TSpec
CONSTANTS
  MaxRecs = 1
INVARIANTS ReachesHuge
CHECK_DEADLOCK FALSE
