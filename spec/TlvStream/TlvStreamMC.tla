----------------------------- MODULE TlvStreamMC -----------------------------
(* Exhaustive byte level: every byte string of length <= L over Alphabet,   *)
(* on both paths (p2p or not).  Every BigSize prefix class and its          *)
(* boundaries is in the alphabet: 00 01 02 03 | fc | fd | fe | ff.          *)
EXTENDS TlvStream
CONSTANTS L
Alphabet == {0, 1, 2, 3, 252, 253, 254, 255}

Init == \E n \in 0..L : \E bytes \in [1..n -> Alphabet] : \E p \in BOOLEAN :
          /\ fed = Runs(bytes)
          /\ m = Machine(Runs(bytes), TRUE, p)
Next == MStep
Spec == Init /\ [][Next]_vars
=============================================================================
