----------------------------- MODULE TlvStreamMC -----------------------------
(* Exhaustive byte level: every byte string of length <= L over Alphabet,   *)
(* on both paths (p2p or not).  Every BigSize prefix class and its          *)
(* boundaries is in the alphabet: 00 01 02 03 | fc | fd | fe | ff.          *)
EXTENDS TlvStream
CONSTANTS L
Alphabet == {0, 1, 2, 3, 252, 253, 254, 255}

\* every string of length n <= L, built as a 4-byte head and a tail (TLC does not enumerate sets above 10^6)
Min(a, b) == IF a < b THEN a ELSE b
Init == \E n \in 0..L : \E hd \in [1..Min(n, 4) -> Alphabet] : \E tl \in [1..(n - Min(n, 4)) -> Alphabet] :
        \E p \in BOOLEAN :
          /\ fed = Runs(hd \o tl)
          /\ m = Machine(Runs(hd \o tl), TRUE, p)
Next == MStep
Spec == Init /\ [][Next]_vars
=============================================================================
