---------------------------- MODULE TlvStreamGen ----------------------------
(* Input generator: the token-level enumeration, writing every complete     *)
(* input (the bytes fed when the recogniser reached a verdict) as one JSON  *)
(* line  {"inp": [[byte, count], ...], "toks": [...]}  to tok.ndjson.       *)
(* TLC evaluates an invariant once per distinct state, so every input of    *)
(* the tree is written once per path (p2p / non-p2p trees overlap; the      *)
(* orchestration removes duplicates).                                       *)
EXTENDS TlvStreamTok, Json, CSV

Pairs(inp) == [i \in 1..Len(inp) |-> <<inp[i].b, inp[i].n>>]
\* label: some complete length token claims 2^32-1 or 2^32 bytes (the executor's allocation guard)
Claim == IF \E i \in 1..Len(toks) : toks[i].k = "len" /\ toks[i].cut = 0 /\ toks[i].c \in {"cffffffff", "c2p32"}
           THEN 1 ELSE 0
Line(inp) == ToJson([inp |-> Pairs(inp), claim |-> Claim, toks |-> toks])

(* Where the recogniser rejects for a reason other than missing bytes, the  *)
(* input is ALSO emitted with a benign completion - what a decoder lacking  *)
(* that check would need in order to accept: after a rejected type token a  *)
(* zero length (or the 1 resp. 2 value bytes a known record wants), after a *)
(* rejected length token the claimed value.  The model's verdict on these   *)
(* inputs is computed by the trace spec like for any other input.           *)
Completions ==
  IF m.st # "rej" \/ m.err = "eof" THEN {}
  ELSE IF m.at = "type"
    THEN {Runs(<<0>>), Runs(<<1, FillerOf(nrec)>>), Runs(<<2, FillerOf(nrec), FillerOf(nrec)>>)}
  ELSE LET v == Class[toks[Len(toks)].c] IN
       IF Small(v) /\ v # <<>> THEN {<<[b |-> FillerOf(nrec), n |-> NatOfNum(v)]>>} ELSE {}

Dump == Terminal(m) =>
          /\ CSVWrite("%1$s", <<Line(fed)>>, "tok.ndjson")
          /\ \A c \in Completions : CSVWrite("%1$s", <<Line(fed \o c)>>, "tok.ndjson")
=============================================================================
