---------------------------- MODULE TlvStreamGen ----------------------------
(* Input generator: the token-level enumeration, writing every complete     *)
(* input (the bytes fed when the recogniser reached a verdict) as one JSON  *)
(* line  {"inp": [[byte, count], ...], "toks": [...]}  to tok.ndjson.       *)
(* TLC evaluates an invariant once per distinct state, so every input of    *)
(* the tree is written once per path (p2p / non-p2p trees overlap; the      *)
(* orchestration removes duplicates).                                       *)
EXTENDS TlvStreamTok, Json, CSV

Pairs(inp) == [i \in 1..Len(inp) |-> <<inp[i].b, inp[i].n>>]
\* label: some complete length token claims 2^32-1 or 2^32 bytes (the executor's allocation guard)
Claim == IF \E i \in 1..Len(toks) : toks[i].k = "len" /\ toks[i].cut = 0 /\ toks[i].c \in {"cffffffff", "c2p32"}
           THEN 1 ELSE 0
Dump == Terminal(m) =>
          CSVWrite("%1$s", <<ToJson([inp |-> Pairs(fed), claim |-> Claim, toks |-> toks])>>, "tok.ndjson")
=============================================================================
