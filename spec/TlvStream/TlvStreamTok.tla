---------------------------- MODULE TlvStreamTok ----------------------------
(* Token level: the environment feeds the recogniser one BigSize token (or  *)
(* one record value) at the moment it is needed, so that TLC enumerates the *)
(* whole tree of  <= MaxRecs records  whose type and length are drawn from  *)
(* the BigSize boundary classes, each in its minimal and in every wider     *)
(* (non-minimal) encoding, complete or cut short by one byte; values are    *)
(* supplied in full, one byte short, or not at all.  A subtree ends where   *)
(* the recogniser rejects.  This is where lengths >= 2^63 (finding F4) are  *)
(* reached - the byte-level enumeration can never contain a 9-byte length.  *)
EXTENDS TlvStream
CONSTANTS MaxRecs
VARIABLES nrec,    \* records started
          toks     \* history: the tokens chosen (labels for the evidence)

B8(x) == <<x, 255, 255, 255, 255, 255, 255, 255>>
Class == [ c0 |-> <<>>, c1 |-> <<1>>, c2 |-> <<2>>, c3 |-> <<3>>, cfc |-> <<252>>, cfd |-> <<253>>,
           cffff |-> <<255, 255>>, c10000 |-> <<1, 0, 0>>, cffffffff |-> <<255, 255, 255, 255>>,
           c2p32 |-> <<1, 0, 0, 0, 0>>, c2p63m1 |-> B8(127), c2p63 |-> <<128, 0, 0, 0, 0, 0, 0, 0>>,
           c2p64m1 |-> B8(255) ]
TypeClasses == DOMAIN Class
LenClasses  == DOMAIN Class \ {"c3"}
\* the value bytes differ from record to record (171, 172, ...), so that values that alias or get mixed up show
FillerOf(k) == 170 + k

Disc(w) == IF w = 3 THEN 253 ELSE IF w = 5 THEN 254 ELSE 255
TokBytes(v, w) == IF w = 1 THEN EncBig(v) ELSE <<Disc(w)>> \o Pad(v, w - 1)
WidthsOf(v) == {w \in Widths : Len(EncBig(v)) <= w}

TInit == \E p \in BOOLEAN :
           /\ m = Machine(<<>>, FALSE, p)
           /\ fed = <<>> /\ nrec = 0 /\ toks = <<>>

FeedNum ==
  /\ Starved(m) /\ m.st \in {"type", "len"} /\ m.w = 0
  /\ m.st = "type" => nrec < MaxRecs
  /\ \E c \in (IF m.st = "type" THEN TypeClasses ELSE LenClasses) :
     \E w \in WidthsOf(Class[c]) : \E cut \in (IF w = 1 THEN {0} ELSE {0, 1}) :
       LET full  == TokBytes(Class[c], w)
           bytes == SubSeq(full, 1, Len(full) - cut) IN
       /\ m' = [m EXCEPT !.inp = Runs(bytes), !.closed = (cut = 1)]
       /\ fed' = fed \o Runs(bytes)
       /\ toks' = Append(toks, [k |-> m.st, c |-> c, w |-> w, cut |-> cut])
  /\ nrec' = IF m.st = "type" THEN nrec + 1 ELSE nrec

Close == /\ Starved(m)
         /\ m' = [m EXCEPT !.closed = TRUE]
         /\ toks' = Append(toks, [k |-> "eof", c |-> "", w |-> 0, cut |-> 0])
         /\ UNCHANGED <<fed, nrec>>

FeedValue ==
  /\ Starved(m) /\ m.st = "value"
  /\ \/ /\ Small(m.rem)                                   \* the whole value
        /\ LET r == <<[b |-> FillerOf(nrec), n |-> NatOfNum(m.rem)]>> IN
           /\ m' = [m EXCEPT !.inp = r]
           /\ fed' = fed \o r
           /\ toks' = Append(toks, [k |-> "value", c |-> "full", w |-> 0, cut |-> 0])
     \/ /\ Small(m.rem) /\ m.rem # <<1>>                  \* one byte short, then EOF
        /\ LET r == <<[b |-> FillerOf(nrec), n |-> NatOfNum(m.rem) - 1]>> IN
           /\ m' = [m EXCEPT !.inp = r, !.closed = TRUE]
           /\ fed' = fed \o r
           /\ toks' = Append(toks, [k |-> "value", c |-> "short", w |-> 0, cut |-> 1])
     \/ /\ ~Small(m.rem)                                  \* a length no input can satisfy: one byte, EOF
        /\ LET r == <<[b |-> FillerOf(nrec), n |-> 1]>> IN
           /\ m' = [m EXCEPT !.inp = r, !.closed = TRUE]
           /\ fed' = fed \o r
           /\ toks' = Append(toks, [k |-> "value", c |-> "one", w |-> 0, cut |-> 1])
  /\ UNCHANGED nrec

TNext == \/ MStep /\ UNCHANGED <<nrec, toks>>
         \/ FeedNum \/ Close \/ FeedValue
TSpec == TInit /\ [][TNext]_<<m, fed, nrec, toks>>

\* the finding's neighbourhood is really reached (vacuity guard, checked with a negated invariant in tests)
ReachesHuge == ~(m.st = "value" /\ m.rem = Class["c2p63"])
=============================================================================
