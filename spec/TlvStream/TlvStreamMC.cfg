SPECIFICATION Spec
CONSTANTS
  L = 6
INVARIANTS AcceptIffCanonical Lossless Increasing Sane
CHECK_DEADLOCK FALSE
