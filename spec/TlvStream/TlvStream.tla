------------------------------ MODULE TlvStream ------------------------------
(***************************************************************************)
(* C10, TLV part: the stream decoder of lnd's tlv package                   *)
(* (tlv/stream.go Stream.decode, tlv/varint.go ReadVarInt/WriteVarInt) as a *)
(* byte-level recogniser, and - written independently, from the ENCODER -   *)
(* what a canonical TLV stream is.                                          *)
(*                                                                          *)
(* Numbers.  Types and lengths are 64-bit; TLC's integers are 32-bit.  A    *)
(* number ("Num") is therefore its big-endian byte sequence without leading *)
(* zero bytes (<<>> is 0); only order and equality are ever needed, plus    *)
(* "length <= bytes that are really there", which compares against a small  *)
(* natural.                                                                 *)
(*                                                                          *)
(* Input.  A sequence of runs [b |-> byte, n |-> count] (n copies of b), so *)
(* that the same module handles the exhaustive byte-level enumeration       *)
(* (every n = 1) and the token-level enumeration where a record value of    *)
(* 65535/65536 bytes is one element.                                        *)
(***************************************************************************)
EXTENDS Naturals, Sequences, FiniteSets, TLC

-----------------------------------------------------------------------------
(* Num arithmetic *)
RECURSIVE Norm(_)
Norm(bs) == IF bs = <<>> THEN <<>> ELSE IF bs[1] = 0 THEN Norm(Tail(bs)) ELSE bs

NumLess(a, b) == \/ Len(a) < Len(b)
                 \/ /\ Len(a) = Len(b)
                    /\ \E k \in 1..Len(a) : a[k] < b[k] /\ \A j \in 1..(k-1) : a[j] = b[j]
NumLeq(a, b) == a = b \/ NumLess(a, b)

RECURSIVE NumOfNat(_)
NumOfNat(n) == IF n = 0 THEN <<>> ELSE Append(NumOfNat(n \div 256), n % 256)

\* only for numbers known to be small (< 2^24)
RECURSIVE NatOfNum(_)
NatOfNum(a) == IF a = <<>> THEN 0 ELSE 256 * NatOfNum(SubSeq(a, 1, Len(a) - 1)) + a[Len(a)]

N65535 == <<255, 255>>
Small(a) == Len(a) <= 2 \/ a = <<1, 0, 0>>        \* a <= 65536: may be materialised as a run

RECURSIVE Zeros(_)
Zeros(k) == IF k = 0 THEN <<>> ELSE <<0>> \o Zeros(k - 1)
Pad(a, w) == Zeros(w - Len(a)) \o a

-----------------------------------------------------------------------------
(* The ENCODER (WriteVarInt): the minimal BigSize encoding of a number.     *)
EncBig(x) == IF Len(x) = 0 THEN <<0>>
             ELSE IF Len(x) = 1 /\ x[1] < 253 THEN x
             ELSE IF Len(x) <= 2 THEN <<253>> \o Pad(x, 2)
             ELSE IF Len(x) <= 4 THEN <<254>> \o Pad(x, 4)
             ELSE <<255>> \o Pad(x, 8)

-----------------------------------------------------------------------------
(* Run sequences *)
RECURSIVE Avail(_)
Avail(inp) == IF inp = <<>> THEN 0 ELSE inp[1].n + Avail(Tail(inp))

\* drop k bytes (k <= Avail)
RECURSIVE Drop(_, _)
Drop(inp, k) == IF k = 0 THEN inp
                ELSE IF inp[1].n <= k THEN Drop(Tail(inp), k - inp[1].n)
                ELSE <<[b |-> inp[1].b, n |-> inp[1].n - k]>> \o Tail(inp)

\* the first k bytes as a run sequence (k <= Avail)
RECURSIVE Take(_, _)
Take(inp, k) == IF k = 0 THEN <<>>
                ELSE IF inp[1].n <= k THEN <<inp[1]>> \o Take(Tail(inp), k - inp[1].n)
                ELSE <<[b |-> inp[1].b, n |-> k]>>

\* the first k bytes as a flat byte sequence (k small)
RECURSIVE Flat(_, _)
Flat(inp, k) == IF k = 0 THEN <<>> ELSE <<inp[1].b>> \o Flat(Drop(inp, 1), k - 1)

Runs(bytes) == [i \in 1..Len(bytes) |-> [b |-> bytes[i], n |-> 1]]

\* canonical run-length form: no empty runs, adjacent equal bytes merged
RECURSIVE Rle(_)
Rle(inp) == IF inp = <<>> THEN <<>>
            ELSE IF inp[1].n = 0 THEN Rle(Tail(inp))
            ELSE LET r == Rle(Tail(inp)) IN
                 IF r # <<>> /\ r[1].b = inp[1].b
                   THEN <<[b |-> inp[1].b, n |-> inp[1].n + r[1].n]>> \o Tail(r)
                   ELSE <<inp[1]>> \o r

-----------------------------------------------------------------------------
(* The record table of the stream under test: known types 1, 2, 3.          *)
(*   1: uint8  (static size 1, tlv.DUint8)                                  *)
(*   2: []byte (any length, tlv.DVarBytes)                                  *)
(*   3: uint16 (static size 2, tlv.DUint16)                                 *)
KnownNums == {<<1>>, <<2>>, <<3>>}
IsKnown(t) == t \in KnownNums
SizeOk(t, l) == CASE t = <<1>> -> l = <<1>>
                  [] t = <<3>> -> l = <<2>>
                  [] OTHER     -> TRUE

-----------------------------------------------------------------------------
(* CANONICAL, from the property statement and the encoder only:             *)
(* the input is the concatenation of  Enc(type) Enc(length) value  of       *)
(* records with strictly increasing types, every length within the input    *)
(* (and <= 65535 on the p2p path), known records having their size.         *)
(* "Guess the two widths, let the encoder reproduce the bytes."             *)
Widths == {1, 3, 5, 9}
RECURSIVE Canon(_, _, _, _)
Canon(inp, have, last, p2p) ==
  \/ inp = <<>>
  \/ \E wt \in Widths, wl \in Widths :
       /\ Avail(inp) >= wt + wl
       /\ LET tb == Flat(inp, wt)
              r1 == Drop(inp, wt)
              lb == Flat(r1, wl)
              r2 == Drop(r1, wl)
              t  == Norm(IF wt = 1 THEN tb ELSE Tail(tb))
              l  == Norm(IF wl = 1 THEN lb ELSE Tail(lb))
          IN /\ EncBig(t) = tb
             /\ EncBig(l) = lb
             /\ have => NumLess(last, t)
             /\ p2p => NumLeq(l, N65535)
             /\ NumLeq(l, NumOfNat(Avail(r2)))
             /\ IsKnown(t) => SizeOk(t, l)
             /\ Canon(Drop(r2, NatOfNum(l)), TRUE, t, p2p)

Canonical(inp, p2p) == Canon(inp, FALSE, <<>>, p2p)

-----------------------------------------------------------------------------
(* The RECOGNISER: Stream.decode, one step per byte of a BigSize and one     *)
(* step for the value (decoder ReadFull / io.CopyN).                        *)
(*   st      type | len | value | acc | rej                                 *)
(*   w, need, acc   BigSize sub-state: width being read (0 = at the         *)
(*                  discriminant), bytes still to read, bytes read          *)
(*   have, last     a record was parsed; its type (code: min = last+1 and   *)
(*                  the overflow flag)                                       *)
(*   typ, rem       type and length of the record being parsed              *)
(*   out            records parsed so far                                   *)
(*   err, at        why and in which state the input was rejected           *)
(*   closed         no more input will arrive (EOF is visible)              *)
(*   p2p            DecodeP2P / DecodeWithParsedTypesP2P: MaxRecordSize     *)
Machine(inp, closed, p2p) ==
  [st |-> "type", w |-> 0, need |-> 0, acc |-> <<>>, inp |-> inp, closed |-> closed, p2p |-> p2p,
   have |-> FALSE, last |-> <<>>, typ |-> <<>>, rem |-> <<>>, err |-> "", at |-> "", out |-> <<>>]

Terminal(m) == m.st \in {"acc", "rej"}
Reject(m, e) == [m EXCEPT !.st = "rej", !.err = e, !.at = m.st]

\* ReadVarInt's minimality rule for width w
Minimal(w, v) == CASE w = 2 -> ~(Len(v) = 0 \/ (Len(v) = 1 /\ v[1] < 253))
                   [] w = 4 -> Len(v) > 2
                   [] w = 8 -> Len(v) > 4
                   [] OTHER -> TRUE

\* a complete BigSize v was read in state st
GotNumber(m, v) ==
  IF m.st = "type"
    THEN IF m.have /\ ~NumLess(m.last, v)
           THEN Reject(m, "order")                       \* ErrStreamNotCanonical
           ELSE [m EXCEPT !.st = "len", !.typ = v, !.w = 0, !.need = 0, !.acc = <<>>]
    ELSE \* length
         IF m.p2p /\ NumLess(N65535, v)
           THEN Reject(m, "toolarge")                    \* ErrRecordTooLarge
         ELSE IF IsKnown(m.typ) /\ ~SizeOk(m.typ, v)
           THEN Reject(m, "size")                        \* ErrTypeForDecoding of the static decoder
         ELSE [m EXCEPT !.st = "value", !.rem = v, !.w = 0, !.need = 0, !.acc = <<>>]

Step(m) ==
  CASE m.st \in {"type", "len"} /\ m.w = 0 ->
         IF m.inp = <<>>
           THEN IF m.st = "type" THEN [m EXCEPT !.st = "acc"]        \* clean io.EOF
                ELSE Reject(m, "eof")                                \* io.ErrUnexpectedEOF
           ELSE LET d == m.inp[1].b
                    m1 == [m EXCEPT !.inp = Drop(m.inp, 1)] IN
                IF d < 253 THEN GotNumber(m1, Norm(<<d>>))
                ELSE [m1 EXCEPT !.w = IF d = 253 THEN 2 ELSE IF d = 254 THEN 4 ELSE 8,
                                !.need = IF d = 253 THEN 2 ELSE IF d = 254 THEN 4 ELSE 8,
                                !.acc = <<>>]
    [] m.st \in {"type", "len"} /\ m.w > 0 ->
         IF m.inp = <<>> THEN Reject(m, "eof")
         ELSE LET a == Append(m.acc, m.inp[1].b)
                  m1 == [m EXCEPT !.inp = Drop(m.inp, 1), !.acc = a, !.need = m.need - 1] IN
              IF m.need > 1 THEN m1
              ELSE IF ~Minimal(m.w, Norm(a)) THEN Reject(m1, "varint")   \* ErrVarIntNotCanonical
              ELSE GotNumber(m1, Norm(a))
    [] m.st = "value" ->
         IF NumLess(NumOfNat(Avail(m.inp)), m.rem) THEN Reject(m, "eof")
         ELSE LET k == NatOfNum(m.rem) IN
              [m EXCEPT !.inp = Drop(m.inp, k),
                        !.out = Append(m.out, [t |-> m.typ, v |-> Take(m.inp, k)]),
                        !.have = TRUE, !.last = m.typ, !.st = "type"]
    [] OTHER -> m

RECURSIVE RunToEnd(_)
RunToEnd(m) == IF Terminal(m) THEN m ELSE RunToEnd(Step(m))

\* the machine has to wait for the environment (online feeding only)
Starved(m) == /\ ~m.closed /\ m.inp = <<>>
              /\ \/ m.st \in {"type", "len"}
                 \/ m.st = "value" /\ m.rem # <<>>

-----------------------------------------------------------------------------
(* Encoding of the parsed records (Stream.Encode over known + TypeMap).     *)
RECURSIVE EncodeAll(_)
EncodeAll(recs) ==
  IF recs = <<>> THEN <<>>
  ELSE Runs(EncBig(recs[1].t)) \o Runs(EncBig(NumOfNat(Avail(recs[1].v)))) \o recs[1].v
       \o EncodeAll(Tail(recs))

\* value of known record t after an accepted decode, <<>>-run if absent
ValueOf(recs, t) == IF \E i \in 1..Len(recs) : recs[i].t = t
                      THEN Rle((recs[CHOOSE i \in 1..Len(recs) : recs[i].t = t]).v)
                      ELSE <<>>
Present(recs, t) == \E i \in 1..Len(recs) : recs[i].t = t

-----------------------------------------------------------------------------
(* State machine wrapper used by the model-checking configurations.         *)
VARIABLES m,       \* the recogniser
          fed      \* history: everything the environment supplied

vars == <<m, fed>>

MStep == /\ ~Terminal(m) /\ ~Starved(m)
         /\ m' = Step(m)
         /\ UNCHANGED fed

\* the property, at the end of a run on the complete input `fed`
AcceptIffCanonical == Terminal(m) => ((m.st = "acc") <=> Canonical(fed, m.p2p))
\* decode-then-encode reproduces the input
Lossless == m.st = "acc" => Rle(EncodeAll(m.out)) = Rle(fed)
\* strictly increasing types in whatever was parsed
Increasing == \A i \in 1..(Len(m.out) - 1) : NumLess(m.out[i].t, m.out[i+1].t)
\* nothing is accepted with input left over / sub-state sanity
Sane == /\ m.st = "acc" => m.inp = <<>>
        /\ m.w \in {0, 2, 4, 8} /\ m.need <= m.w /\ Len(m.acc) = m.w - m.need
        /\ (m.st = "rej") <=> (m.err # "")
=============================================================================
