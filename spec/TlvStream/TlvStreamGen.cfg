SPECIFICATION TSpec
CONSTANTS
  MaxRecs = 2
INVARIANTS Dump
CHECK_DEADLOCK FALSE
