SPECIFICATION TSpec
CONSTANTS
  MaxRecs = 2
INVARIANTS AcceptIffCanonical Lossless Increasing Sane
CHECK_DEADLOCK FALSE
