SPECIFICATION TSpec
CONSTANTS
  Apis = {"Decode", "DecodeP2P", "Parsed", "ParsedP2P"}
INVARIANTS ModelIsCanonical
POSTCONDITION NoDeviation
CHECK_DEADLOCK TRUE
