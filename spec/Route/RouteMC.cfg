SPECIFICATION MCSpec
CONSTANTS
  Universe = "small"
INVARIANTS Payable DeliveredIsHopValid BuildIsTight
CHECK_DEADLOCK FALSE
