SPECIFICATION MCSpec
CONSTANTS
  Universe = "small"
  Probe = "none"
INVARIANTS Payable DeliveredIsHopValid BuildIsTight DeliveredFits LimitsAreSums SizeIsExact
CHECK_DEADLOCK FALSE
