SPECIFICATION TSpec
INVARIANTS SizeModelAgrees SoundConnected SoundHopBounds SoundFeesPaid SoundDeltas SoundFinal SoundFinalPayload SoundFeeLimit SoundCltvLimit SoundRestrictions SoundPayload SoundTotals PaidThrough
CHECK_DEADLOCK TRUE
