SPECIFICATION TSpec
INVARIANTS SoundConnected SoundHopBounds SoundFeesPaid SoundDeltas SoundFinal SoundFeeLimit SoundCltvLimit SoundRestrictions SoundPayload SoundTotals PaidThrough
CHECK_DEADLOCK TRUE
