------------------------------ MODULE RouteGen ------------------------------
(***************************************************************************)
(* Generator of small multigraphs x requests for C19 (tlc -simulate).      *)
(*                                                                         *)
(* One behaviour = one graph and NQ requests against it:                   *)
(*   AddChannel x (2..MaxChans)  a channel between two of the 3-4 nodes    *)
(*       (parallel channels arise by drawing the same pair again), each    *)
(*       direction with its own policy or (rarely) without one; min/max    *)
(*       HTLC, capacity and local bandwidth are drawn from values at and   *)
(*       next to the amounts requests ask for; fees incl. zero, negative   *)
(*       (discounts larger than the outbound fee) and positive inbound     *)
(*       fees; some directions disabled.                                   *)
(*   Focus  picks one path of the finished graph and an amount, computes   *)
(*       with BuildRoute (the model of newRoute) what exactly that path    *)
(*       needs and - in most behaviours - moves ONE bound of ONE channel   *)
(*       on it exactly onto, or one msat beyond, that need (max_htlc,      *)
(*       min_htlc, local bandwidth).  Requests then ask for that amount    *)
(*       (+-1) with the fee limit / CLTV limit at, one below and one above *)
(*       what the path costs: only that route, or none, qualifies.         *)
(*   Ask x NQ  a request: target (incl. the source itself = self-payment), *)
(*       amount, limits, outgoing-channel set (incl. one of several        *)
(*       parallel channels), last hop, ignored node, ignored pair; one     *)
(*       request in three pays a private node "p" behind one or two route  *)
(*       hints (parallel, from different nodes, or a CHAINED route hint    *)
(*       x -> y -> p through a second private node y).                     *)
(* Follow-up b19c: every request names the ENTRY POINT it is to be served   *)
(* by (via: findPath+newRoute, ChannelRouter.FindRoute, the payment         *)
(* session's RequestRoute, ChannelRouter.BuildRoute) and the node that runs *)
(* the pathfinder (self = "a"); one graph in five is asked for routes from  *)
(* a FOREIGN source (FindRoute / findPath only), and Focus may also DISABLE *)
(* one direction of the focused path (kind "dis").  RequestRoute requests   *)
(* carry final-hop payload ingredients (payment secret, metadata, custom    *)
(* records, first-hop records) and multi-part settings (max parts, shards   *)
(* in flight, max / min shard size) - with a bound of the focused path one  *)
(* msat too tight only a halved shard finds a route.  The graphs in which   *)
(* limits bind late and the onion-size dimension are RouteGenD's subject.   *)
(* The draws use TLC's RandomElement, so every action has one successor    *)
(* and `-seed` reproduces the behaviours.                                  *)
(***************************************************************************)
EXTENDS Route, Json, SequencesExt

CONSTANTS NN,         \* number of nodes: 3 or 4
          MaxChans,   \* channels per graph (upper bound)
          NQ          \* requests per graph

VARIABLES phase,      \* "build" | "focus" | "ask" | "done"
          nch,        \* channels added so far
          want,       \* channels this graph will get
          focus,      \* what the focused path needs
          hist        \* the requests asked so far

gvars == <<vars, phase, nch, want, focus, hist>>

Nodes  == IF NN = 3 THEN {"a", "b", "c"} ELSE {"a", "b", "c", "d"}
Self   == "a"          \* the node that runs the pathfinder (the fixture's source node)
Height == 100

Pick(s) == s[RandomElement(1..Len(s))]
Lesser(a, b) == IF a <= b THEN a ELSE b

\* capacities are whole satoshis
Caps   == <<20000, 50000, 51000, 100000, 101000, 150000, 150000, 150000, 1000000, 1000000>>
Amts   == <<1, 1000, 19999, 20000, 20001, 50000, 50001, 99999, 100000>>

RandPolicy(id, from, to, cap, bw) ==
  [id |-> id, from |-> from, to |-> to, cap |-> cap, bw |-> bw,
   minHtlc  |-> Pick(<<0, 0, 0, 0, 0, 0, 0, 0, 1, 1000, 20000, 20001, 50000, 50001>>),
   maxHtlc  |-> Pick(<<0, 0, 0, 0, 0, 0, 120000, 120000, 100000, 99999, 50250, 50000, 49999, 20000>>),
   base     |-> Pick(<<0, 0, 1, 10, 250, 1000>>),
   rate     |-> Pick(<<0, 0, 1, 100, 999, 2500, 5000, 10000>>),
   inBase   |-> Pick(<<0, 0, 0, 0, -1, -10, -250, -1500, 5, 300, 1000>>),
   inRate   |-> Pick(<<0, 0, 0, 0, -100, -2500, -5000, -10000, 1000, 10000, 10000>>),
   delta    |-> Pick(<<1, 3, 9, 18, 40>>),
   disabled |-> Pick(<<0, 0, 0, 0, 0, 0, 0, 0, 0, 0, 0, 0, 0, 1>>)]

\* a hop hint of an invoice (zpay32.HopHint): private channel towards a node that is not in the graph;
\* it carries fee base, fee rate and CLTV delta only - no capacity, no min/max HTLC, no inbound fee.
\* rh = index of the route hint the hop hint belongs to: the hop hints of one route hint are CHAINED
\* (x -> y -> target, y private as well) and listed in forward order.
HintCap == 2000000000
RandHint(id, from, to, rh) ==
  [rh |-> rh] @@ [RandPolicy(id, from, to, HintCap, HintCap) EXCEPT !.inBase = 0, !.inRate = 0, !.disabled = 0,
                                                                   !.minHtlc = 0, !.maxHtlc = 0]

NoFocus == [amt |-> 50000, fee |-> 0, tl |-> 40, src |-> "a", dst |-> "b", first |-> 1, last |-> "a", fd |-> 9,
            nodes |-> <<"b">>]

GInit == /\ Init /\ phase = "build" /\ nch = 0 /\ focus = NoFocus /\ hist = <<>>
         /\ want \in 2..MaxChans

\* the first channels form the line a-b-c(-d), so that multi-hop routes are needed; the others
\* join any two nodes (parallel channels, shortcuts, channels back to the source)
Line == <<"a", "b", "c", "d">>
AddChannel ==
  /\ phase = "build" /\ nch < want
  /\ \E x \in {IF nch < NN - 1 THEN Line[nch + 1] ELSE Pick(<<"a", "b", "b", "c", "c", Line[NN]>>)} :
     \E y \in {IF nch < NN - 1 THEN Line[nch + 2] ELSE RandomElement(Nodes \ {x})} :
     \E cap \in {Pick(Caps)} :
     \E bw \in {Lesser(cap, Pick(<<cap, cap, cap, cap, cap, cap, 0, 20000, 50000, 50010, 100000>>))} :
     \E both \in {Pick(<<3, 3, 3, 3, 3, 3, 3, 3, 3, 3, 3, 3, 1, 2>>)} :      \* 3: both directions, 1/2: only one
     \E p1 \in {RandPolicy(nch + 1, x, y, cap, bw)}, p2 \in {RandPolicy(nch + 1, y, x, cap, bw)} :
       g' = g \cup (IF both \in {1, 3} THEN {p1} ELSE {}) \cup (IF both \in {2, 3} THEN {p2} ELSE {})
  /\ nch' = nch + 1
  /\ phase' = IF nch + 1 = want THEN "focus" ELSE "build"
  /\ UNCHANGED <<req, res, pos, htlc, status, want, focus, hist>>

\* all channel-id sequences of up to 3 hops that are paths of g from src and visit no node
\* twice (except that the last one may be the source again: self-payment)
Paths(src) ==
         LET ids == {p.id : p \in g} IN
         {p \in UNION {[1..n -> ids] : n \in 1..3} :
            /\ IsPath(g, src, p)
            /\ LET nd == PathNodes(g, src, p) IN
               \A i, j \in 0..Len(p) : (i < j /\ nd[i] = nd[j]) => (i = 0 /\ j = Len(p))}
Longest(S) == {p \in S : \A o \in S : Len(o) <= Len(p)}
Q0(src, amt, fd) == [NoReq EXCEPT !.self = Self, !.src = src, !.amt = amt, !.pay = amt, !.finalDelta = fd,
                                  !.height = Height]
\* the paths that the model itself considers payable for this amount
Feasible(src, amt, fd) ==
  {p \in Paths(src) : LET q == [Q0(src, amt, fd) EXCEPT !.dst = PathNodes(g, src, p)[Len(p)]] IN
                      ValidRoute(g, q, BuildRoute(g, q, p))}

Focus ==
  /\ phase = "focus"
  /\ \E src \in {Pick(<<Self, Self, Self, Self, RandomElement(Nodes \ {Self})>>)} :
     IF Paths(src) = {} THEN focus' = NoFocus /\ UNCHANGED g
     ELSE
     \E fd \in {Pick(<<9, 18, 40>>)} :
     \E good \in {{a \in {1000, 20000, 50000, 100000} : Feasible(src, a, fd) # {}}} :
     \E amt \in {IF good = {} THEN Pick(<<20000, 50000, 100000>>)
                  ELSE Pick(<<RandomElement(good), RandomElement(good), RandomElement(good), 50000>>)} :
     \E feas \in {Feasible(src, amt, fd)} :
     \E open \in {{p \in feas : PathNodes(g, src, p)[Len(p)] # src}} :
     \E path \in {IF feas = {} THEN RandomElement(Paths(src))
                   ELSE IF open = {} THEN RandomElement(feas)
                   ELSE Pick(<<RandomElement(Longest(open)), RandomElement(Longest(open)),
                               RandomElement(Longest(open)), RandomElement(feas)>>)} :
     \E k \in {RandomElement(1..Len(path))} :
     \E kind \in {Pick(<<"none", "max", "max-1", "min", "min+1", "bw", "bw-1", "max", "bw", "dis", "dis">>)} :
       LET q0 == Q0(src, amt, fd)
           r  == BuildRoute(g, q0, path)
           nd == PathNodes(g, src, path)
           \* the bandwidth that matters is that of the pathfinding node's own channel on the path
           loc == {i \in 1..Len(path) : nd[i - 1] = Self}
           kk == IF kind \in {"bw", "bw-1"} /\ loc # {} THEN CHOOSE i \in loc : TRUE ELSE k
           old == Pol(g, path[kk], nd[kk - 1])
           need == AmtOn(r, kk)
           new == IF kind = "max" THEN [old EXCEPT !.maxHtlc = need]
                  ELSE IF kind = "max-1" THEN [old EXCEPT !.maxHtlc = need - 1]
                  ELSE IF kind = "min" THEN [old EXCEPT !.minHtlc = need]
                  ELSE IF kind = "min+1" THEN [old EXCEPT !.minHtlc = need + 1]
                  ELSE IF kind = "bw" THEN [old EXCEPT !.bw = Lesser(need, old.cap)]
                  ELSE IF kind = "bw-1" THEN [old EXCEPT !.bw = Lesser(need - 1, old.cap)]
                  ELSE IF kind = "dis" THEN [old EXCEPT !.disabled = 1]
                  ELSE old
       IN /\ g' = (g \ {old}) \cup {new}
          /\ focus' = [amt |-> amt, fee |-> r.totalAmt - amt, tl |-> r.totalTL - Height, src |-> src,
                       dst |-> nd[Len(path)], first |-> path[1], last |-> nd[Len(path) - 1], fd |-> fd,
                       nodes |-> [i \in 1..Len(path) |-> nd[i]]]
  /\ phase' = "ask"
  /\ UNCHANGED <<req, res, pos, htlc, status, nch, want, hist>>

LocalChans == {p.id : p \in {x \in g : x.from = Self \/ x.to = Self}}
Pairs      == {<<p.from, p.to>> : p \in g}
SetSeq(S)  == SetToSeq(S)

\* custom records for the recipient: none, one small, two (sorted by type), one large
RecChoices == << <<>>, <<>>, <<>>, <<[t |-> 65537, n |-> 4]>>,
                 <<[t |-> 65537, n |-> 0], [t |-> 106823, n |-> 32]>>, <<[t |-> 70001, n |-> 300]>> >>

Ask ==
  /\ phase = "ask" /\ Len(hist) < NQ
  /\ \E via \in {IF focus.src # Self THEN Pick(<<"FindRoute", "FindRoute", "findPath">>)
                 ELSE Pick(<<"findPath", "findPath", "findPath", "FindRoute", "FindRoute", "RequestRoute",
                             "RequestRoute", "RequestRoute", "BuildRoute">>)} :
     \E dst \in {Pick(<<focus.dst, focus.dst, focus.dst, focus.dst, focus.dst, focus.dst, RandomElement(Nodes), focus.src>>)} :
     \E amt \in {Pick(<<focus.amt, focus.amt, focus.amt, focus.amt, focus.amt + 1, focus.amt - 1, Pick(Amts)>>)} :
     \E fl \in {Pick(<<-1, -1, -1, focus.fee, focus.fee, focus.fee - 1, focus.fee - 1, focus.fee - 6, focus.fee + 1, 0, 5000>>)} :
     \E cl \in {Pick(<<-1, -1, -1, focus.tl, focus.tl, focus.tl - 1, focus.tl + 1, 50, 100>>)} :
     \E oc \in {IF focus.src # Self THEN {}
                ELSE Pick(<<{}, {}, {}, {}, {}, {focus.first}, {focus.first}, {RandomElement(LocalChans)},
                            {RandomElement(LocalChans), RandomElement(LocalChans)}>>)} :
     \E lh \in {Pick(<<"", "", "", "", "", "", focus.last, focus.last, RandomElement(Nodes)>>)} :
     \E ig \in {Pick(<<{}, {}, {}, {}, {}, {}, {}, {RandomElement(Nodes)}>>) \ {focus.src, dst}} :
     \E ip \in {Pick(<<{}, {}, {}, {}, {}, {}, {}, {RandomElement(Pairs)}>>)} :
     \E hf \in {Pick(<<focus.dst, focus.dst, RandomElement(Nodes \ {focus.src})>>)} :
     \E h2 \in {RandomElement(Nodes \ {focus.src})} :
     \E hs \in {Pick(<< <<>>, <<>>, <<>>, <<>>, <<>>, <<>>, <<>>, <<>>,
                       <<RandHint(100, hf, "p", 1)>>,
                       <<RandHint(100, hf, "p", 1), RandHint(101, hf, "p", 2)>>,
                       <<RandHint(100, hf, "p", 1), RandHint(101, h2, "p", 2)>>,
                       <<RandHint(100, hf, "y", 1), RandHint(101, "y", "p", 1)>>,
                       <<RandHint(100, hf, "y", 1), RandHint(101, "y", "p", 1)>>,
                       <<RandHint(100, hf, "y", 1), RandHint(101, "y", "p", 1), RandHint(102, h2, "p", 2)>> >>)} :
     \* final-hop payload ingredients and multi-part settings (RequestRoute; custom records also FindRoute)
     \E pa \in {Pick(<<0, 1, 1, 1>>)} :
     \E me \in {Pick(<<-1, -1, -1, 0, 7, 300>>)} :
     \E rc \in {Pick(RecChoices)} :
     \E fh \in {Pick(<<0, 0, 1>>)} :
     \E md \in {Pick(<<0, 1, 1, 1>>)} :
     \E mp \in {Pick(<<1, 1, 2, 16, 16>>)} :
     \E sh \in {Pick(<<0, 0, 0, 1>>)} :
     \E ms \in {Pick(<<0, 0, 0, 0, focus.amt - 1, focus.amt \div 2 + 1>>)} :
     \E mn \in {Pick(<<1, 1, 1000, focus.amt \div 4, focus.amt \div 2 + 1>>)} :
     \E tot \in {Pick(<<0, 0, 0, 50000>>)} :
       LET session == via = "RequestRoute"
           build   == via = "BuildRoute"
           a1 == Max(amt, 1)
           q == IF build
                THEN [Q0(Self, focus.amt, focus.fd) EXCEPT !.via = via, !.dst = focus.dst, !.nodes = focus.nodes,
                         !.outChans = IF Cardinality(oc) = 1 THEN SetSeq(oc) ELSE <<>>,
                         !.payAddr = pa, !.pay = focus.amt]
                ELSE
                [via |-> via, self |-> Self, src |-> focus.src,
                 dst |-> IF hs = <<>> THEN dst ELSE "p", amt |-> a1,
                 feeLimit |-> Max(fl, -1),
                 cltvLimit |-> IF cl < 0 THEN -1
                               ELSE Max(cl, focus.fd + 1) + (IF session THEN 3 ELSE 0),
                 outChans |-> SetSeq(oc), lastHop |-> IF lh = dst /\ dst # focus.src THEN "" ELSE lh,
                 ignNodes |-> SetSeq(ig), ignPairs |-> SetSeq(ip), hints |-> hs, nodes |-> <<>>,
                 finalDelta |-> focus.fd, height |-> Height,
                 pay |-> IF session THEN a1 + tot ELSE a1,
                 payAddr |-> IF session THEN pa ELSE 0,
                 meta |-> IF session THEN me ELSE -1,
                 recs |-> IF via \in {"RequestRoute", "FindRoute"} THEN rc ELSE <<>>,
                 fhRecs |-> IF session THEN fh ELSE 0,
                 enc |-> -1,
                 mppDest |-> IF session THEN md ELSE 0,
                 maxParts |-> IF session THEN mp ELSE 1,
                 shards |-> IF session THEN sh ELSE 0,
                 maxShard |-> IF session THEN Max(ms, 0) ELSE 0,
                 minShard |-> IF session THEN Max(mn, 1) ELSE 1]
       IN /\ req' = q
          /\ hist' = Append(hist, [a |-> "Query", req |-> q])
  /\ phase' = IF Len(hist) + 1 = NQ THEN "done" ELSE "ask"
  /\ UNCHANGED <<g, res, pos, htlc, status, nch, want, focus>>

GNext == AddChannel \/ Focus \/ Ask
GSpec == GInit /\ [][GNext]_gvars

Dump == phase = "done" =>
          ndJsonSerialize("b_" \o ToString(TLCGet("stats").traces) \o ".ndjson",
                          <<[a |-> "Graph", fam |-> "rand", graph |-> SetSeq(g)]>> \o hist)
=============================================================================
