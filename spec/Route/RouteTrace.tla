----------------------------- MODULE RouteTrace -----------------------------
(***************************************************************************)
(* Trace validation for C19.  A trace is a sequence of                     *)
(*   Graph  - the graph the real graph DB was loaded with (also the Reset  *)
(*            line separating the traces of a batch)                       *)
(*   Query  - a request and what the real findPath + newRoute returned     *)
(*            (route field by field, or found = 0)                         *)
(* Every line is the corresponding action of Route.tla.  The real          *)
(* pathfinder is judged by the invariants Sound* (= ValidRoute, clause by  *)
(* clause, so that a rejected trace names the clause).  After every        *)
(* answered Query the payment simulation of Route.tla runs as silent steps *)
(* (Send, Forward.., Receive): PaidThrough demands that no node on the way *)
(* refuses the HTLC under the forwarding rules of C09.                     *)
(***************************************************************************)
EXTENDS Route, Json
VARIABLE l

Trace == ndJsonDeserialize("trace.ndjson")

TInit == Init /\ l = 1
Is(a) == l <= Len(Trace) /\ Trace[l].a = a /\ l' = l + 1
Settled == status \in {"idle", "delivered"}
GraphOf(e) == {e.graph[i] : i \in DOMAIN e.graph}

TNext == \/ Settled /\ Is("Graph") /\ NewGraph(GraphOf(Trace[l]))
         \/ Settled /\ Is("Query") /\ Query(Trace[l].req, Trace[l].res)
         \/ Pay /\ UNCHANGED l
         \/ (l = Len(Trace) + 1 /\ Settled /\ UNCHANGED <<vars, l>>)
TSpec == TInit /\ [][TNext]_<<vars, l>>

PaidThrough == ~Refused
=============================================================================
