----------------------------- MODULE RouteTrace -----------------------------
(***************************************************************************)
(* Trace validation for C19.  A trace is a sequence of                     *)
(*   Graph  - the graph the real graph DB was loaded with (also the Reset  *)
(*            line separating the traces of a batch; fam = the generator   *)
(*            family, "rand" or "diamond")                                 *)
(*   Query  - a request (with the ENTRY POINT it was served by: req.via =  *)
(*            findPath+newRoute | ChannelRouter.FindRoute |                *)
(*            paymentSession.RequestRoute | ChannelRouter.BuildRoute, the  *)
(*            pathfinding node req.self and the possibly foreign source    *)
(*            req.src) and what the real code returned: the route field by *)
(*            field incl. the payload records of every hop (payment_data   *)
(*            total, metadata length, encrypted data length, path key,     *)
(*            total_amount_msat, custom records) and the Go-side oracles   *)
(*            size / packed / onionOk, or found = 0                        *)
(* Every line is the corresponding action of Route.tla.  The real          *)
(* pathfinder is judged by the invariants Sound* (= ValidRoute, clause by  *)
(* clause, so that a rejected trace names the clause):                     *)
(*   SoundFinalPayload  the last hop carries exactly what the request      *)
(*                      wants delivered, no other hop carries any of it    *)
(*   SoundPayload       the payloads - sizes computed by Route.tla from    *)
(*                      the recorded payload contents - fit 1300 bytes and *)
(*                      sphinx accepted the route                          *)
(*   SizeModelAgrees    (fidelity, not a clause) that size computation     *)
(*                      equals the bytes of the serialized payloads        *)
(*   SoundConnected     a hop that does not leave the pathfinding node -   *)
(*                      e.g. the first hop of a foreign source - must be   *)
(*                      an enabled direction                               *)
(* After every answered Query the payment simulation of Route.tla runs as  *)
(* silent steps (Send, Forward.., Receive): PaidThrough demands that no    *)
(* node on the way refuses the HTLC under the forwarding rules of C09 and  *)
(* that the source can build the onion.                                    *)
(***************************************************************************)
EXTENDS Route, Json
VARIABLE l

Trace == ndJsonDeserialize("trace.ndjson")

TInit == Init /\ l = 1
Is(a) == l <= Len(Trace) /\ Trace[l].a = a /\ l' = l + 1
Settled == status \in {"idle", "delivered"}
GraphOf(e) == {e.graph[i] : i \in DOMAIN e.graph}

TNext == \/ Settled /\ Is("Graph") /\ NewGraph(GraphOf(Trace[l]))
         \/ Settled /\ Is("Query") /\ Query(Trace[l].req, Trace[l].res)
         \/ Pay /\ UNCHANGED l
         \/ (l = Len(Trace) + 1 /\ Settled /\ UNCHANGED <<vars, l>>)
TSpec == TInit /\ [][TNext]_<<vars, l>>

PaidThrough == ~Refused
=============================================================================
