----------------------------- MODULE RouteGenD -----------------------------
(***************************************************************************)
(* Second generator for C19 (follow-up b19c): graphs in which the limits   *)
(* BIND LATE and requests in the ONION-SIZE dimension (tlc -simulate).     *)
(*                                                                         *)
(* Family "diamond with tail" (5-8 nodes):                                 *)
(*                                                                         *)
(*        a --- b (--- c) --- n ------------------ t      direct  (1 hop)  *)
(*        |                   +--- m (--- k) ------+      detour (2-3 hops)*)
(*        +-------------- x -----------------------+      bypass (optional)*)
(*                                                                         *)
(* The junction n can continue to the target t directly or over the        *)
(* detour; one of the two is expensive with a SHORT time lock, the other   *)
(* cheap with a LONG one (which one is drawn), and one or two forwarding   *)
(* hops precede n.  A search that runs backwards from t reaches n first    *)
(* over the one and improves it over the other before the tail is added:   *)
(* whether the finished 3-5 hop route keeps a limit is decided only after  *)
(* the continuation has been chosen.  The bypass a-x-t is very expensive   *)
(* and short, so that some route stays within most limits.  Policies carry *)
(* (rarely) an inbound fee, a min/max HTLC or a disabled bit.              *)
(*                                                                         *)
(* FocusD computes with BuildRoute (the model of newRoute) for each of the *)
(* candidate paths - tail+direct, tail+detour, bypass - what it costs, the *)
(* time lock it needs and how many bytes of the onion its payloads take.   *)
(* AskD then places                                                        *)
(*   the CLTV limit / fee limit at, one below and one above what ONE of    *)
(*   the candidates needs (so that it lies BETWEEN the candidates' needs), *)
(*   the final-hop payload - payment metadata none / empty / small / such  *)
(*   that the payloads of one candidate fill the 1300 bytes of the onion   *)
(*   exactly, one byte less, one byte more; payment secret; custom records *)
(*   for the recipient; an introduction-node-only blinded path to t whose  *)
(*   encrypted data is sized the same way - so that the short candidate    *)
(*   fits and the long one does not (or of an ordinary 60 bytes); one      *)
(*   session request in five is for a SHARD of a larger payment whose      *)
(*   total needs one byte more than the shard amount in the payment_data   *)
(*   record (known finding F27 lives there),                               *)
(* and names the entry point (findPath+newRoute, FindRoute, RequestRoute;  *)
(* metadata and payment secret exist on RequestRoute only).                *)
(* One behaviour = one graph and NQ requests.  Variables, the dump and the *)
(* helper operators are RouteGen's.  NN and MaxChans are not used.         *)
(***************************************************************************)
EXTENDS RouteGen

\* policy of one direction; role: "short" (expensive, small delta), "long" (cheap, large delta),
\* "tail", "bypass", "back" (a direction no candidate uses; its inbound fee is what counts)
DPolicy(id, from, to, role) ==
  [id |-> id, from |-> from, to |-> to, cap |-> 1000000, bw |-> 1000000,
   minHtlc  |-> Pick(<<0, 0, 0, 0, 0, 0, 0, 0, 0, 0, 0, 1000>>),
   maxHtlc  |-> Pick(<<0, 0, 0, 0, 0, 0, 0, 0, 0, 0, 900000, 150000>>),
   base     |-> CASE role = "short"  -> Pick(<<5000, 20000, 50000>>)
                  [] role = "long"   -> Pick(<<0, 10, 1000>>)
                  [] role = "bypass" -> Pick(<<100000, 200000>>)
                  [] OTHER           -> Pick(<<0, 1, 1000, 1000>>),
   rate     |-> CASE role = "short"  -> Pick(<<0, 100, 1000>>)
                  [] role = "bypass" -> 0
                  [] OTHER           -> Pick(<<0, 0, 1, 100, 2500>>),
   inBase   |-> Pick(<<0, 0, 0, 0, 0, 0, 0, 0, -10, -1500, 300>>),
   inRate   |-> Pick(<<0, 0, 0, 0, 0, 0, 0, 0, -100, -2500, 1000>>),
   delta    |-> CASE role = "short"  -> Pick(<<1, 3, 9, 10>>)
                  [] role = "long"   -> Pick(<<18, 40, 40, 80>>)
                  [] role = "bypass" -> Pick(<<1, 3, 10>>)
                  [] OTHER           -> Pick(<<3, 9, 40, 40>>),
   disabled |-> Pick(<<0, 0, 0, 0, 0, 0, 0, 0, 0, 0, 0, 0, 0, 0, 0, 0, 0, 0, 0, 1>>)]

Chan(id, x, y, role) == {DPolicy(id, x, y, role), DPolicy(id, y, x, "back")}

\* shapes: <<forwarding nodes before n, forwarding nodes on the detour, bypass present>>
Shapes == << <<1, 1, 1>>, <<1, 1, 1>>, <<1, 1, 0>>, <<1, 2, 1>>, <<2, 1, 1>>, <<2, 1, 0>> >>

DInit == /\ Init /\ phase = "build" /\ nch = 0 /\ focus = NoFocus /\ hist = <<>>
         /\ want \in 1..Len(Shapes)

\* the candidate paths of a shape (channel ids from a): ids 1.. along the tail, then the direct
\* channel 10, the detour 11.., the bypass 20, 21
TailIds(sh)   == IF sh[1] = 1 THEN <<1, 2>> ELSE <<1, 2, 3>>
DetourIds(sh) == IF sh[2] = 1 THEN <<11, 12>> ELSE <<11, 12, 13>>
Cands(sh) == << TailIds(sh) \o <<10>>, TailIds(sh) \o DetourIds(sh) >> \o
             (IF sh[3] = 1 THEN << <<20, 21>> >> ELSE << >>)

BuildD ==
  /\ phase = "build"
  /\ LET sh == Shapes[want]
         last == IF sh[1] = 1 THEN "b" ELSE "c"
         dl   == IF sh[2] = 1 THEN "m" ELSE "k" IN
     \E swap \in {Pick(<<0, 0, 0, 1>>)} :         \* 1: the direct channel is the cheap, long one
       LET dir == IF swap = 0 THEN "short" ELSE "long"
           det == IF swap = 0 THEN "long" ELSE "short" IN
       g' = Chan(1, "a", "b", "tail")
            \cup (IF sh[1] = 2 THEN Chan(2, "b", "c", "tail") \cup Chan(3, "c", "n", "tail")
                               ELSE Chan(2, "b", "n", "tail"))
            \cup Chan(10, "n", "t", dir)
            \cup Chan(11, "n", "m", det)
            \cup (IF sh[2] = 2 THEN Chan(12, "m", "k", det) \cup Chan(13, "k", "t", det)
                               ELSE Chan(12, "m", "t", det))
            \cup (IF sh[3] = 1 THEN Chan(20, "a", "x", "tail") \cup Chan(21, "x", "t", "bypass") ELSE {})
  /\ nch' = 1 /\ phase' = "focus"
  /\ UNCHANGED <<req, res, pos, htlc, status, want, focus, hist>>

\* what the candidates need: focus.cands[i] = [path, fee, tl, len]
FocusD ==
  /\ phase = "focus"
  /\ \E amt \in {Pick(<<100000, 100000, 50000, 20000>>)} :
     \E fd \in {Pick(<<9, 18, 40>>)} :
       LET q0 == [Q0(Self, amt, fd) EXCEPT !.dst = "t"]
           cs == Cands(Shapes[want]) IN
       focus' = [amt |-> amt, fd |-> fd,
                 cands |-> [i \in 1..Len(cs) |->
                              LET r == BuildRoute(g, q0, cs[i]) IN
                              [path |-> cs[i], fee |-> r.totalAmt - amt, tl |-> r.totalTL - Height,
                               len |-> Len(cs[i])]]]
  /\ phase' = "ask"
  /\ UNCHANGED <<g, req, res, pos, htlc, status, nch, want, hist>>

\* the length of a final-hop field (metadata / encrypted data) with which the payloads of `path`
\* fill the onion exactly: both length prefixes are 3 bytes from 253 on, the size is linear there
FillMeta(q, path) == 1000 + MaxPayload - RouteSize(BuildRoute(g, [q EXCEPT !.meta = 1000], path))
FillEnc(q, path)  == 1000 + MaxPayload - RouteSize(BuildRoute(g, [q EXCEPT !.enc = 1000], path))

\* a payment total whose truncated encoding is one byte longer than that of the amount asked for now
\* (the request is for one shard of a multi-part payment)
WiderTotal(a) == IF a < 65536 THEN 70000 ELSE 20000000

AskD ==
  /\ phase = "ask" /\ Len(hist) < NQ
  /\ \E via \in {Pick(<<"findPath", "findPath", "FindRoute", "RequestRoute", "RequestRoute", "RequestRoute">>)} :
     \E c1 \in {Pick(focus.cands)}, c2 \in {Pick(focus.cands)}, c3 \in {Pick(focus.cands)} :
     \E e1 \in {Pick(<<-1, 0, 0, 0, 1>>)}, e2 \in {Pick(<<-1, 0, 0, 0, 1>>)}, e3 \in {Pick(<<-1, 0, 0, 1>>)} :
     \E useCl \in {Pick(<<0, 1, 1, 1>>)}, useFl \in {Pick(<<0, 0, 1>>)} :
     \E big \in {Pick(<<"none", "none", "meta", "meta", "meta", "meta", "meta", "enc">>)} :
     \E encFill \in {Pick(<<0, 0, 1>>)} :         \* 0: ordinary encrypted data (60 bytes), 1: sized to fill the onion
     \E pa \in {Pick(<<0, 1, 1>>)} :
     \E rc \in {Pick(RecChoices)} :
     \E small \in {Pick(<<-1, -1, 0, 30>>)} :
     \E wide \in {Pick(<<0, 0, 0, 0, 1>>)} :
       LET session == via = "RequestRoute"
           pad == IF session THEN 3 ELSE 0
           \* metadata exists on the session path only; a blinded path on FindRoute as well
           kind == IF big = "meta" /\ ~session THEN "none"
                   ELSE IF big = "enc" /\ via = "findPath" THEN "none" ELSE big
           base == [Q0(Self, focus.amt, focus.fd) EXCEPT
                      !.via = via, !.dst = "t",
                      !.pay = IF session /\ wide = 1 THEN WiderTotal(focus.amt) ELSE focus.amt,
                      !.feeLimit = IF useFl = 1 THEN Max(c2.fee + e2, 0) ELSE -1,
                      !.cltvLimit = IF useCl = 1 THEN Max(c1.tl + e1, focus.fd + 1) + pad ELSE -1,
                      !.payAddr = IF session /\ kind # "enc" THEN pa ELSE 0,
                      !.recs = IF via = "findPath" THEN <<>> ELSE rc,
                      !.meta = IF session THEN small ELSE -1,
                      !.mppDest = IF session THEN 1 ELSE 0]
           q == CASE kind = "meta" -> [base EXCEPT !.meta = Max(FillMeta(base, c3.path) + e3, 0)]
                  [] kind = "enc"  -> [base EXCEPT !.meta = -1,
                                                   !.enc = IF encFill = 0 THEN 60
                                                           ELSE Max(FillEnc([base EXCEPT !.meta = -1], c3.path) + e3, 1)]
                  [] OTHER         -> base
       IN /\ req' = q
          /\ hist' = Append(hist, [a |-> "Query", req |-> q])
  /\ phase' = IF Len(hist) + 1 = NQ THEN "done" ELSE "ask"
  /\ UNCHANGED <<g, res, pos, htlc, status, nch, want, focus>>

DNext == BuildD \/ FocusD \/ AskD
DSpec == DInit /\ [][DNext]_gvars

DumpD == phase = "done" =>
          ndJsonSerialize("b_" \o ToString(TLCGet("stats").traces) \o ".ndjson",
                          <<[a |-> "Graph", fam |-> "diamond", graph |-> SetSeq(g)]>> \o hist)
=============================================================================
