------------------------------- MODULE Route -------------------------------
(***************************************************************************)
(* C19 - every route the pathfinder returns is payable under all stated    *)
(* constraints (soundness only; nothing is said about finding a route or   *)
(* finding the cheapest one).                                              *)
(*                                                                         *)
(* The module has three layers.                                            *)
(*                                                                         *)
(*  1. ValidRoute(g, q, r) - the property statement, clause by clause, as  *)
(*     a predicate over a channel graph g, a request q and a returned      *)
(*     route r.  Written from properties.jsonl, not from pathfind.go.      *)
(*                                                                         *)
(*  2. BuildRoute(g, q, path) - the model of routing.newRoute: the         *)
(*     backward pass that turns a sequence of channel ids into per-hop     *)
(*     amounts and time locks.  Used by the generator (to place limits,    *)
(*     max_htlc, bandwidth exactly at / one below what a path needs) and   *)
(*     as the centre of the candidate lattice of the model checker.  It is *)
(*     NOT used to judge recorded routes.                                  *)
(*                                                                         *)
(*  3. A small state machine: the node holds a graph, the pathfinder       *)
(*     answers a request (Query), and the answered route is then paid for  *)
(*     hop by hop (Send, Forward, Receive): every node on the way applies  *)
(*     the forwarding decision of C09 (fee incl. signed inbound fee with   *)
(*     the per-node floor at zero, min/max HTLC, capacity, expiry gap) to  *)
(*     the HTLC it is offered.  `Payable` says that the HTLC of a valid    *)
(*     route is never refused: that is the link between C19 and C09 and is *)
(*     what TLC checks exhaustively in RouteMC.                            *)
(*                                                                         *)
(* A graph is a SET OF DIRECTED CHANNEL POLICIES                           *)
(*   [id, from, to, cap, bw, minHtlc, maxHtlc, base, rate, inBase, inRate, *)
(*    delta, disabled]                                                     *)
(* (amounts in msat; cap = channel capacity; bw = spendable local balance, *)
(* meaningful on the source's own channels; maxHtlc = 0 is lnd's encoding  *)
(* of "no max_htlc advertised"; inBase/inRate = the signed inbound fee the *)
(* publishing node `from` charges for HTLCs ARRIVING over this channel;    *)
(* disabled is 0/1).  A channel direction without a policy is simply not   *)
(* in the set and cannot be used.  Parallel channels = several ids between *)
(* the same pair of nodes.                                                 *)
(*                                                                         *)
(* A request is                                                            *)
(*   [via, self, src, dst, amt, feeLimit, cltvLimit, outChans, lastHop,    *)
(*    ignNodes, ignPairs, hints, nodes, finalDelta, height,                *)
(*    pay, payAddr, meta, recs, fhRecs, enc,                               *)
(*    mppDest, maxParts, shards, maxShard, minShard]                       *)
(* via  = the entry point the route was obtained through (follow-up b19c): *)
(*   "findPath"      findPath + newRoute composed as FindRoute does        *)
(*   "FindRoute"     ChannelRouter.FindRoute (QueryRoutes)                 *)
(*   "RequestRoute"  paymentSession.RequestRoute (SendPayment)             *)
(*   "BuildRoute"    ChannelRouter.BuildRoute (nodes = the hop list given) *)
(* self = the node that runs the pathfinder; src = the node the route      *)
(*   starts at (QueryRoutes may ask for a route from a FOREIGN node).  A   *)
(*   hop is LOCAL when it leaves self: self knows the spendable bandwidth  *)
(*   of its own channels and uses that instead of the gossip `disabled`    *)
(*   bit; every other hop - including the first hop of a foreign source -  *)
(*   must be an enabled direction.                                         *)
(* The final-hop payload ingredients (what the invoice / the caller wants  *)
(*   delivered to the recipient, BOLT 4 "payload for the last node"):      *)
(*   pay = total amount of the payment (amt = what is asked for now, a     *)
(*   shard when amt < pay); payAddr = 0/1 the invoice has a payment secret *)
(*   (payment_data record: secret + total); meta = length of the payment   *)
(*   metadata, -1 = none; recs = custom records for the recipient, a       *)
(*   sequence of [t, n] (type >= 65536, length) sorted by type; enc = -1   *)
(*   or the length of the encrypted recipient data of an introduction-node *)
(*   -only blinded path whose introduction node is dst (then the last hop  *)
(*   also carries the path key and total_amount_msat and no payment_data); *)
(*   fhRecs = 0/1 custom records for the FIRST hop's update_add_htlc were  *)
(*   given (wire message, NOT part of the onion - no clause depends on it).*)
(* Splitting (RequestRoute only): mppDest = 0/1 the recipient's features   *)
(*   allow multi-part payments; maxParts / shards = the limit on and the   *)
(*   current number of in-flight shards; maxShard = 0 or the largest shard *)
(*   allowed; minShard = the smallest shard the session will try.          *)
(* feeLimit / cltvLimit = -1 mean "unlimited"; cltvLimit bounds the total  *)
(* time lock relative to the current height INCLUDING the final delta (the *)
(* user-level meaning, lnrpc cltv_limit); outChans = <<>> and lastHop = "" *)
(* mean "unrestricted".  hints = route hints of the invoice: directed       *)
(* policies of private channels that are not in the graph; for the request *)
(* they are part of the graph (Known).  A hop hint carries no capacity    *)
(* (lnd assumes 10 BTC; recorded as 2*10^9 msat), no min/max HTLC and no   *)
(* inbound fee; its extra field rh names the route hint (chain of hop      *)
(* hints x -> y -> target) it belongs to and is not used by the judge.     *)
(*                                                                         *)
(* A route is                                                              *)
(*   [found, src, totalAmt, totalTL, totalFees, recvAmt, packed, onionOk,  *)
(*    hops]                                                                *)
(* hops[k] = [chan, to, amt, tl, fee, mpp, meta, enc, bp, tot, recs, size]:*)
(* channel id, node the hop leads to, amt_to_forward and                   *)
(* outgoing_cltv_value of that node's onion payload, the fee lnd reports   *)
(* for the hop (Route.HopFee), and the other records of that node's        *)
(* payload: mpp = -1 or the total_msat of the payment_data record, meta =  *)
(* -1 or the metadata length, enc = -1 or the length of the encrypted      *)
(* recipient data, bp = 0/1 path key present, tot = total_amount_msat (0 = *)
(* absent), recs = custom records [t, n].  The short_channel_id record of  *)
(* a payload is not recorded: it is the channel of the next hop.           *)
(* Oracle fields (Go side, never computed by lnd's own size estimate):     *)
(* size = the number of bytes the node's payload REALLY occupies in the    *)
(* onion (sphinx HopPayload.NumBytes of the serialized TLV stream: length  *)
(* prefix + stream + 32 byte HMAC; 0 when not packed), packed = 0/1 every  *)
(* payload could be serialized, onionOk = 0/1 sphinx.NewOnionPacket        *)
(* accepted the route.  The 1300-byte rule is stated over sizes computed   *)
(* HERE from the recorded payload contents (HopSize, BOLT 4 / BOLT 1 TLV   *)
(* encoding); SizeModelAgrees ties that computation to the real bytes.     *)
(*                                                                         *)
(* Known deviations of lnd in the payload clause (reported, not repaired;   *)
(* the trace judge reports them under the keys of known_findings.json):    *)
(* findPath estimates the final hop's payload before the route exists      *)
(* (lastHopPayloadSize) and leaves out (F27) the extra bytes of an MPP     *)
(* total wider than the shard amount, and for an introduction-node-only    *)
(* blinded path the whole blinded payload (RequestRoute) resp.             *)
(* total_amount_msat and the custom records (FindRoute).                   *)
(*                                                                         *)
(* Integers: TLC's are 32 bit.  All amounts of the generated universe are  *)
(* <= ~1.2*10^6 msat and |rates| <= 10^4 ppm, so every product stays below *)
(* 2^31 (chosen instead of Apalache: the arithmetic at 64-bit scale is     *)
(* C09's subject, here the subject is the composition along a path).       *)
(***************************************************************************)
EXTENDS Integers, Sequences, FiniteSets, TLC

Mil        == 1000000        \* fee rates are parts per million
MaxInRate  == 10 * Mil       \* InboundFee.CalcFee clamps the rate to +-1000 %
MaxPayload == 1300           \* sphinx.MaxRoutingPayloadSize

Max(a, b) == IF a >= b THEN a ELSE b
\* integer division truncating toward zero (\div rounds toward -infinity)
TruncDiv(a, b) == IF a >= 0 THEN a \div b ELSE -((-a) \div b)
Clamp(r) == IF r > MaxInRate THEN MaxInRate ELSE IF r < -MaxInRate THEN -MaxInRate ELSE r

(* ----- what a policy demands (the fee operators of C09 / ForwardPolicy) - *)
\* outbound fee of policy p for forwarding `out`: base + out*rate/10^6, rounded down
OutFee(p, out) == p.base + (out * p.rate) \div Mil
\* signed inbound fee of policy p, charged on out + outbound fee; positive fees are
\* rounded down, discounts are rounded up (truncation toward zero)
InFee(p, basis) == p.inBase + TruncDiv(Clamp(p.inRate) * basis, Mil)
\* what a forwarding node demands in total: never negative ("floored at zero per node")
NodeFee(outPol, inPol, out) ==
  LET of == OutFee(outPol, out) IN Max(0, of + InFee(inPol, out + of))

(* ----- graph look-ups --------------------------------------------------- *)
Dir(g, id, from)    == {p \in g : p.id = id /\ p.from = from}
HasDir(g, id, from) == Dir(g, id, from) # {}
Pol(g, id, from)    == CHOOSE p \in Dir(g, id, from) : TRUE
NoInbound == [inBase |-> 0, inRate |-> 0]
\* the inbound fee node n charges on channel id is part of the policy n publishes for it
InPol(g, id, n) == IF HasDir(g, id, n) THEN Pol(g, id, n) ELSE NoInbound

NoRoute == [found |-> 0, src |-> "", totalAmt |-> 0, totalTL |-> 0, totalFees |-> 0,
            recvAmt |-> 0, packed |-> 0, onionOk |-> 0, hops |-> <<>>]
NoReq   == [via |-> "findPath", self |-> "", src |-> "", dst |-> "", amt |-> 0, feeLimit |-> -1,
            cltvLimit |-> -1, outChans |-> <<>>, lastHop |-> "", ignNodes |-> <<>>, ignPairs |-> <<>>,
            hints |-> <<>>, nodes |-> <<>>, finalDelta |-> 0, height |-> 0,
            pay |-> 0, payAddr |-> 0, meta |-> -1, recs |-> <<>>, fhRecs |-> 0, enc |-> -1,
            mppDest |-> 0, maxParts |-> 1, shards |-> 0, maxShard |-> 0, minShard |-> 1]
\* the payload records of a hop that carries nothing but the forwarding instructions
PlainHop == [mpp |-> -1, meta |-> -1, enc |-> -1, bp |-> 0, tot |-> 0, recs |-> <<>>]

Range(s) == {s[i] : i \in DOMAIN s}
\* what the pathfinder may route over when serving q: the graph plus the request's route hints
Known(G, q) == G \cup Range(q.hints)

(***************************************************************************)
(* 1. The property.                                                        *)
(*    n hops; node 0 is the source, node k the node hop k leads to.        *)
(*    AmtOn(k) / TlOn(k) = amount / expiry of the HTLC travelling over the *)
(*    channel of hop k: the totals for k = 1, else what the payload of the *)
(*    previous node told it to forward.                                    *)
(***************************************************************************)
N(r)        == Len(r.hops)
NodeAt(q, r, k) == IF k = 0 THEN q.src ELSE r.hops[k].to
AmtOn(r, k) == IF k = 1 THEN r.totalAmt ELSE r.hops[k - 1].amt
TlOn(r, k)  == IF k = 1 THEN r.totalTL  ELSE r.hops[k - 1].tl
\* the directed policy hop k travels under (only meaningful when Connected)
HopPol(g, q, r, k) == Pol(g, r.hops[k].chan, NodeAt(q, r, k - 1))
\* hop k leaves the node that runs the pathfinder (its own channel)
Local(q, r, k) == NodeAt(q, r, k - 1) = q.self

\* "connected from source to target over existing enabled channel directions":
\* enabled unless the hop is LOCAL - on the pathfinding node's own channel usability is
\* the local bandwidth (HopBounds), the gossip `disabled` bit of our own channel does not
\* decide it.  The first hop of a foreign source is not local: it must be enabled.
Connected(g, q, r) ==
  /\ N(r) >= 1
  /\ r.src = q.src
  /\ \A k \in 1..N(r) :
       /\ HasDir(g, r.hops[k].chan, NodeAt(q, r, k - 1))
       /\ HopPol(g, q, r, k).to = r.hops[k].to
       /\ ~Local(q, r, k) => HopPol(g, q, r, k).disabled = 0
  /\ NodeAt(q, r, N(r)) = q.dst

\* "at each hop the amount forwarded lies within that channel's min/max HTLC and capacity
\*  (and local bandwidth on the first hop)" - local bandwidth wherever the hop is local
HopBounds(g, q, r) ==
  \A k \in 1..N(r) :
    LET p == HopPol(g, q, r, k)
        a == AmtOn(r, k) IN
    /\ a >= p.minHtlc
    /\ p.maxHtlc # 0 => a <= p.maxHtlc
    /\ a <= p.cap
    /\ Local(q, r, k) => a <= p.bw

\* "the fee left for each forwarding node is at least what its policy (including inbound
\*  fees, floored at zero per node) demands": node k receives over hop k, forwards over hop k+1
FeesPaid(g, q, r) ==
  \A k \in 1..(N(r) - 1) :
    LET out == AmtOn(r, k + 1)
        in  == AmtOn(r, k) IN
    in - out >= NodeFee(HopPol(g, q, r, k + 1), InPol(g, r.hops[k].chan, NodeAt(q, r, k)), out)

\* "and the expiry gap at least its time-lock delta"
Deltas(g, q, r) ==
  \A k \in 1..(N(r) - 1) : TlOn(r, k) - TlOn(r, k + 1) >= HopPol(g, q, r, k + 1).delta

(* ----- what the recipient is to be told ---------------------------------- *)
\* the amount this route is asked to carry: the request's amount, clamped to the largest
\* shard the payment allows
AskAmt(q) == IF q.maxShard > 0 /\ q.maxShard < q.amt THEN q.maxShard ELSE q.amt
\* a payment session may answer with a smaller shard when (and only when) the payment may
\* be split further: payment secret (or blinded path), a recipient that accepts multi-part
\* payments, and room for one more shard after this one
CanSplit(q) == /\ q.via = "RequestRoute"
               /\ q.payAddr = 1 \/ q.enc >= 0
               /\ q.mppDest = 1
               /\ q.shards + 1 < q.maxParts
\* the session halves the amount until a route exists, never below the minimum shard
Halved(a, k) == a \div (2 ^ k)
IsShardOf(x, a) == \E k \in 1..30 : x = Halved(a, k)

\* the recipient is told the requested amount (or an admissible shard of it) and gets an HTLC
\* that carries it and that expires no earlier than its final delta demands
Final(g, q, r) ==
  LET n == N(r) IN
  /\ \/ r.hops[n].amt = AskAmt(q)
     \/ CanSplit(q) /\ r.hops[n].amt >= q.minShard /\ IsShardOf(r.hops[n].amt, AskAmt(q))
  /\ AmtOn(r, n) >= r.hops[n].amt
  /\ TlOn(r, n) >= r.hops[n].tl
  /\ TlOn(r, n) >= q.height + q.finalDelta

\* and exactly the records the invoice / the caller wants delivered, on the last hop only
FinalPayload(g, q, r) ==
  LET n == N(r)
      h == r.hops[n] IN
  /\ h.meta = q.meta
  /\ h.recs = q.recs
  /\ h.enc = q.enc
  /\ h.mpp = IF q.payAddr = 1 THEN q.pay ELSE -1
  /\ h.bp = IF q.enc >= 0 THEN 1 ELSE 0
  /\ h.tot = IF q.enc >= 0 THEN q.pay ELSE 0
  /\ \A k \in 1..(n - 1) :
       LET x == r.hops[k] IN
       x.mpp = -1 /\ x.meta = -1 /\ x.enc = -1 /\ x.bp = 0 /\ x.tot = 0 /\ x.recs = <<>>

\* "total fees do not exceed the fee limit" (fees = what the sender pays beyond what arrives)
FeeLimitOk(g, q, r)  == q.feeLimit >= 0 => r.totalAmt - r.hops[N(r)].amt <= q.feeLimit
\* "total time lock does not exceed the CLTV limit"
CltvLimitOk(g, q, r) == q.cltvLimit >= 0 => r.totalTL - q.height <= q.cltvLimit

\* "outgoing-channel, last-hop and ignored-node/edge restrictions are respected"
\* (the outgoing-channel restriction names channels of the pathfinding node: it is defined for
\* routes that start there; BuildRoute's restriction is the list of nodes to visit)
Restrictions(g, q, r) ==
  /\ (q.outChans # <<>> /\ q.src = q.self) => r.hops[1].chan \in Range(q.outChans)
  /\ q.lastHop # "" => NodeAt(q, r, N(r) - 1) = q.lastHop
  /\ \A k \in 0..N(r) : NodeAt(q, r, k) \notin Range(q.ignNodes)
  /\ \A k \in 1..N(r) : <<NodeAt(q, r, k - 1), NodeAt(q, r, k)>> \notin Range(q.ignPairs)
  /\ q.nodes # <<>> => /\ N(r) = Len(q.nodes)
                       /\ \A k \in 1..N(r) : r.hops[k].to = q.nodes[k]

(* ----- "the onion payload fits" ------------------------------------------ *)
(* BOLT 4: the hop payloads share the 1300 bytes of the onion's routing     *)
(* info.  A payload is a BOLT 1 TLV stream: per record BigSize(type),       *)
(* BigSize(length), value; in the onion it is preceded by BigSize(stream    *)
(* length) and followed by a 32 byte HMAC.  Values: amt_to_forward (2) is a *)
(* tu64, outgoing_cltv_value (4) a tu32 (truncated: no leading zero bytes), *)
(* short_channel_id (6) 8 bytes - present iff there is a next hop -,        *)
(* payment_data (8) 32 bytes + tu64 total, encrypted_recipient_data (10),   *)
(* path key (12) 33 bytes, payment_metadata (16), total_amount_msat (18)    *)
(* tu64, custom records.  lnd leaves a zero amount / time lock out (blinded *)
(* relays); a route hop of an unblinded route never has them zero.          *)
TU(v)    == IF v <= 0 THEN 0 ELSE IF v < 256 THEN 1 ELSE IF v < 65536 THEN 2
            ELSE IF v < 16777216 THEN 3 ELSE 4            \* recorded values are < 2^31
BigSz(x) == IF x < 253 THEN 1 ELSE IF x < 65536 THEN 3 ELSE 5
Rec(t, len) == BigSz(t) + BigSz(len) + len
RECURSIVE RecsSize(_)
RecsSize(s) == IF s = <<>> THEN 0 ELSE Rec(Head(s).t, Head(s).n) + RecsSize(Tail(s))
\* the TLV stream of hop k's payload
HopStream(r, k) ==
  LET h == r.hops[k] IN
    (IF h.amt # 0 THEN Rec(2, TU(h.amt)) ELSE 0)
  + (IF h.tl # 0 THEN Rec(4, TU(h.tl)) ELSE 0)
  + (IF k < N(r) THEN Rec(6, 8) ELSE 0)
  + (IF h.mpp >= 0 THEN Rec(8, 32 + TU(h.mpp)) ELSE 0)
  + (IF h.enc >= 0 THEN Rec(10, h.enc) ELSE 0)
  + (IF h.bp = 1 THEN Rec(12, 33) ELSE 0)
  + (IF h.meta >= 0 THEN Rec(16, h.meta) ELSE 0)
  + (IF h.tot # 0 THEN Rec(18, TU(h.tot)) ELSE 0)
  + RecsSize(h.recs)
HopSize(r, k) == BigSz(HopStream(r, k)) + HopStream(r, k) + 32
RECURSIVE SizeUpTo(_, _)
SizeUpTo(r, k) == IF k = 0 THEN 0 ELSE HopSize(r, k) + SizeUpTo(r, k - 1)
RouteSize(r) == SizeUpTo(r, N(r))

\* "the onion payload fits": the payloads the route prescribes fit the onion, and the onion
\* can really be built (oracle: sphinx.NewOnionPacket accepts the route)
PayloadFits(g, q, r) == RouteSize(r) <= MaxPayload /\ r.packed = 1 /\ r.onionOk = 1
\* fidelity of the size computation above: it is the number of bytes each serialized payload
\* really takes (a disagreement is an error of this model or of the executor, not a verdict)
SizeModelOk(r) == r.packed = 1 => \A k \in 1..N(r) : r.hops[k].size = HopSize(r, k)

\* "the route's per-hop amounts and time locks add up consistently to its totals"
Totals(g, q, r) ==
  LET n == N(r) IN
  /\ r.recvAmt = r.hops[n].amt
  /\ r.totalFees = r.totalAmt - r.recvAmt
  /\ \A k \in 1..n : r.hops[k].fee = IF k = n THEN 0 ELSE AmtOn(r, k) - r.hops[k].amt
  /\ \A k \in 1..n : AmtOn(r, k) >= r.hops[k].amt /\ TlOn(r, k) >= r.hops[k].tl
  /\ r.totalTL >= q.height

ValidRoute(g, q, r) ==
  /\ Connected(g, q, r)
  /\ HopBounds(g, q, r)
  /\ FeesPaid(g, q, r)
  /\ Deltas(g, q, r)
  /\ Final(g, q, r)
  /\ FinalPayload(g, q, r)
  /\ FeeLimitOk(g, q, r)
  /\ CltvLimitOk(g, q, r)
  /\ Restrictions(g, q, r)
  /\ PayloadFits(g, q, r)
  /\ Totals(g, q, r)

\* the clauses a forwarding node or the recipient can see (no limits, no restrictions)
HopClauses(g, q, r) ==
  Connected(g, q, r) /\ HopBounds(g, q, r) /\ FeesPaid(g, q, r) /\ Deltas(g, q, r) /\ Final(g, q, r)

(***************************************************************************)
(* 2. newRoute: walk the path backwards from the recipient.                *)
(*    path = sequence of channel ids starting at src.                      *)
(***************************************************************************)
\* node reached after k channels; "" if the path is not a path of g
PathNodes(g, src, path) ==
  LET f[k \in 0..Len(path)] ==
        IF k = 0 THEN src
        ELSE IF f[k - 1] = "" \/ ~HasDir(g, path[k], f[k - 1]) THEN ""
        ELSE Pol(g, path[k], f[k - 1]).to
  IN f
IsPath(g, src, path) == Len(path) >= 1 /\ PathNodes(g, src, path)[Len(path)] # ""

\* RequestRoute adds BlockPadding = 3 blocks to the recipient's final delta (the recipient is
\* given MORE time than it demands, which Final allows); the other entry points add nothing
Pad(q) == IF q.via = "RequestRoute" THEN 3 ELSE 0

\* the records newRoute puts on the last hop: what the request wants delivered
LastHopRecs(q) == [mpp  |-> IF q.payAddr = 1 THEN q.pay ELSE -1,
                   meta |-> q.meta, enc |-> q.enc,
                   bp   |-> IF q.enc >= 0 THEN 1 ELSE 0,
                   tot  |-> IF q.enc >= 0 THEN q.pay ELSE 0,
                   recs |-> q.recs]

BuildRoute(g, q, path) ==
  LET n  == Len(path)
      nd == PathNodes(g, q.src, path)
      pol(k) == Pol(g, path[k], nd[k - 1])
      want == AskAmt(q)
      \* A[k]: amount on the channel of hop k; the node between hop k and k+1 keeps its fee
      A[k \in 1..n] == IF k = n THEN want
                       ELSE A[k + 1] + NodeFee(pol(k + 1), InPol(g, path[k], nd[k]), A[k + 1])
      T[k \in 1..n] == IF k = n THEN q.height + q.finalDelta + Pad(q) ELSE T[k + 1] + pol(k + 1).delta
      bare == [found |-> 1, src |-> q.src, totalAmt |-> A[1], totalTL |-> T[1],
               totalFees |-> A[1] - want, recvAmt |-> want, packed |-> 1, onionOk |-> 1,
               hops |-> [k \in 1..n |->
                 [chan |-> path[k], to |-> nd[k],
                  amt |-> IF k = n THEN want ELSE A[k + 1],
                  tl  |-> IF k = n THEN T[n] ELSE T[k + 1],
                  fee |-> IF k = n THEN 0 ELSE A[k] - A[k + 1],
                  size |-> 0] @@ (IF k = n THEN LastHopRecs(q) ELSE PlainHop)]]
  IN [bare EXCEPT !.hops = [k \in 1..n |-> [bare.hops[k] EXCEPT !.size = HopSize(bare, k)]]]

(***************************************************************************)
(* 3. The state machine.                                                   *)
(***************************************************************************)
VARIABLES g,       \* the channel graph the node knows (incl. local bandwidth)
          req,     \* the request being served
          res,     \* the pathfinder's answer: NoRoute or a route
          pos,     \* payment simulation: number of hops the HTLC has travelled
          htlc,    \* [amt, exp]: the HTLC as offered over hop `pos`
          status   \* "idle" | "answered" | "inflight" | "delivered" | a refusal (see below)

vars == <<g, req, res, pos, htlc, status>>

NoHtlc == [amt |-> 0, exp |-> 0]

Init == g = {} /\ req = NoReq /\ res = NoRoute /\ pos = 0 /\ htlc = NoHtlc /\ status = "idle"

\* the node learns a (new) graph
NewGraph(G) == /\ g' = G
               /\ req' = NoReq /\ res' = NoRoute /\ pos' = 0 /\ htlc' = NoHtlc /\ status' = "idle"

\* findPath + newRoute answer request q with r (a route or NoRoute).  The action itself
\* does not constrain r: soundness is the invariant `Sound` (trace validation judges the
\* real pathfinder with it; the abstract pathfinder of RouteMC answers with anything).
Query(q, r) == /\ status # "inflight"
               /\ req' = q /\ res' = r
               /\ pos' = 0 /\ htlc' = NoHtlc
               /\ status' = IF r.found = 1 THEN "answered" ELSE "idle"
               /\ UNCHANGED g

(* ----- paying the answered route: the forwarding decision per hop ------- *)
(* A node is handed an HTLC and an onion payload.  It forwards iff the     *)
(* C09 rules hold for ITS policy on the outgoing channel (and its inbound  *)
(* fee on the incoming one).  The refusal names the first rule in the      *)
(* order of link.go; the order is irrelevant for `Payable`.                *)
(* Local safety margins of C09 (expiry too soon / too far from the current *)
(* height) are not part of this property.                                  *)
Refusal(outPol, inPol, hasIn, in, inExp, out, outExp, bw) ==
  IF hasIn /\ (in < out \/ in - out < OutFee(outPol, out) + InFee(inPol, out + OutFee(outPol, out)))
       THEN "FeeInsufficient"
  ELSE IF out < outPol.minHtlc THEN "AmountBelowMinimum"
  ELSE IF outPol.maxHtlc # 0 /\ out > outPol.maxHtlc THEN "HtlcExceedsMax"
  ELSE IF out > bw THEN "InsufficientBalance"
  ELSE IF hasIn /\ inExp - outExp < outPol.delta THEN "IncorrectCltvExpiry"
  ELSE "ok"

\* what a channel can carry for the node that sends over it: the pathfinding node knows the
\* spendable balance of its own channels (never more than the capacity), of any other
\* channel only the capacity
Carry(q, me, p) == IF me = q.self /\ p.bw < p.cap THEN p.bw ELSE p.cap

\* the source builds the onion and hands the HTLC to the first channel.  The onion cannot be
\* built when the payloads need more than its 1300 bytes.  The source has no incoming side;
\* the pathfinding node sends over its own channel whatever gossip says about it, a foreign
\* source (QueryRoutes from another node) is held to its `disabled` announcement like any
\* forwarding node.
Send ==
  /\ status = "answered"
  /\ LET c == res.hops[1].chan
         K == Known(g, req) IN
     IF RouteSize(res) > MaxPayload
       THEN status' = "OnionTooLarge" /\ UNCHANGED <<pos, htlc>>
     ELSE IF ~HasDir(K, c, req.src) \/ Pol(K, c, req.src).to # res.hops[1].to \/ res.src # req.src
       THEN status' = "UnknownNextPeer" /\ UNCHANGED <<pos, htlc>>
     ELSE LET p == Pol(K, c, req.src) IN
          IF req.src # req.self /\ p.disabled = 1
            THEN status' = "ChannelDisabled" /\ UNCHANGED <<pos, htlc>>
          ELSE LET v == Refusal(p, NoInbound, FALSE, 0, 0, res.totalAmt, res.totalTL,
                                Carry(req, req.src, p)) IN
               IF v = "ok" THEN status' = "inflight" /\ pos' = 1 /\
                                htlc' = [amt |-> res.totalAmt, exp |-> res.totalTL]
                           ELSE status' = v /\ UNCHANGED <<pos, htlc>>
  /\ UNCHANGED <<g, req, res>>

\* node `pos` (not the last one) reads its payload res.hops[pos] and forwards over the
\* channel of hop pos+1; a remote channel can carry at most its capacity, the pathfinding
\* node's own channel (a route from a foreign source may pass through it) its bandwidth
Forward ==
  /\ status = "inflight" /\ pos < N(res)
  /\ LET me == res.hops[pos].to
         c  == res.hops[pos + 1].chan
         K  == Known(g, req) IN
     IF ~HasDir(K, c, me) \/ Pol(K, c, me).to # res.hops[pos + 1].to
       THEN status' = "UnknownNextPeer" /\ UNCHANGED <<pos, htlc>>
     ELSE LET p == Pol(K, c, me) IN
          IF me # req.self /\ p.disabled = 1 THEN status' = "ChannelDisabled" /\ UNCHANGED <<pos, htlc>>
          ELSE LET v == Refusal(p, InPol(K, res.hops[pos].chan, me), TRUE, htlc.amt, htlc.exp,
                                res.hops[pos].amt, res.hops[pos].tl, Carry(req, me, p)) IN
               IF v = "ok" THEN status' = "inflight" /\ pos' = pos + 1 /\
                                htlc' = [amt |-> res.hops[pos].amt, exp |-> res.hops[pos].tl]
                           ELSE status' = v /\ UNCHANGED <<pos, htlc>>
  /\ UNCHANGED <<g, req, res>>

\* the last node: BOLT 4 final-hop checks plus what the invoice (the request) demands
Receive ==
  /\ status = "inflight" /\ pos = N(res)
  /\ LET h == res.hops[pos] IN
     status' = IF h.to # req.dst THEN "UnknownRecipient"
               ELSE IF htlc.amt < h.amt THEN "FinalIncorrectHtlcAmount"
               ELSE IF htlc.exp < h.tl THEN "FinalIncorrectCltvExpiry"
               ELSE IF ~(h.amt = AskAmt(req) \/ (CanSplit(req) /\ h.amt >= req.minShard /\ IsShardOf(h.amt, AskAmt(req))))
                    THEN "IncorrectPaymentAmount"
               ELSE IF htlc.exp < req.height + req.finalDelta THEN "FinalExpiryTooSoon"
               ELSE "delivered"
  /\ UNCHANGED <<g, req, res, pos, htlc>>

Pay == Send \/ Forward \/ Receive

Refused == status \notin {"idle", "answered", "inflight", "delivered"}

-----------------------------------------------------------------------------
(* C19 *)
Sound == res.found = 1 => ValidRoute(Known(g, req), req, res)
\* the clauses one by one, so that a rejected trace names the clause
ConnectedR        == res.found = 1 /\ Connected(Known(g, req), req, res)
SoundConnected    == res.found = 1 => Connected(Known(g, req), req, res)
SoundHopBounds    == ConnectedR => HopBounds(Known(g, req), req, res)
SoundFeesPaid     == ConnectedR => FeesPaid(Known(g, req), req, res)
SoundDeltas       == ConnectedR => Deltas(Known(g, req), req, res)
SoundFinal        == ConnectedR => Final(Known(g, req), req, res)
SoundFinalPayload == (res.found = 1 /\ N(res) >= 1) => FinalPayload(Known(g, req), req, res)
SoundFeeLimit     == (res.found = 1 /\ N(res) >= 1) => FeeLimitOk(Known(g, req), req, res)
SoundCltvLimit    == res.found = 1 => CltvLimitOk(Known(g, req), req, res)
SoundRestrictions == (res.found = 1 /\ N(res) >= 1) => Restrictions(Known(g, req), req, res)
SoundPayload      == res.found = 1 => PayloadFits(Known(g, req), req, res)
SoundTotals       == (res.found = 1 /\ N(res) >= 1) => Totals(Known(g, req), req, res)
\* not a clause of the property: the size computation of this module equals the real bytes
SizeModelAgrees   == res.found = 1 => SizeModelOk(res)

(* the link to C09: a valid route is never refused by any node on the way *)
Payable == (res.found = 1 /\ ValidRoute(Known(g, req), req, res)) => ~Refused
\* and conversely what the nodes accept satisfies the per-hop clauses (ValidRoute is not
\* stricter than the forwarding rules it summarises) and fits the onion
DeliveredIsHopValid == status = "delivered" => HopClauses(Known(g, req), req, res)
DeliveredFits       == status = "delivered" => RouteSize(res) <= MaxPayload
=============================================================================
