SPECIFICATION GSpec
CONSTANTS
  NN = 4
  MaxChans = 6
  NQ = 8
INVARIANTS Dump
CHECK_DEADLOCK FALSE
