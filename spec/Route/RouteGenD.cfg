SPECIFICATION DSpec
CONSTANTS
  NN = 4
  MaxChans = 6
  NQ = 8
INVARIANTS DumpD
CHECK_DEADLOCK FALSE
