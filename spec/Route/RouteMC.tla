------------------------------ MODULE RouteMC ------------------------------
(***************************************************************************)
(* Exhaustive check of the model-level statement behind C19:               *)
(*                                                                         *)
(*   ValidRoute(g, q, r)  =>  no node on the way refuses the HTLC          *)
(*                                                                         *)
(* over a tiny universe of graphs (3 or 4 nodes in a line, a parallel      *)
(* channel on the forwarding hop, policy variants: free, base+rate fee,    *)
(* min/max HTLC exactly at / next to the amount, disabled, missing;        *)
(* inbound fee variants on the forwarder's incoming channel: none,         *)
(* discount, discount larger than the outbound fee (floor), surcharge;     *)
(* first hop: max_htlc / bandwidth at the amount, disabled) and, for every *)
(* path, the LATTICE of candidate routes around what newRoute would build: *)
(* every amount and every time lock of the route independently -1 / 0 / +1.*)
(* The abstract pathfinder answers with any candidate; the payment         *)
(* simulation of Route.tla then runs.                                      *)
(* Universes added by follow-up b19c (one per extension of Route.tla):     *)
(*   "foreign"  the 3-node graphs with requests whose source is not the    *)
(*              pathfinding node: (self b, a -> c: the second hop is the   *)
(*              LOCAL one, bandwidth at / below the amount), (self a,      *)
(*              b -> c: one foreign hop, possibly disabled), (self c,      *)
(*              a -> c: no local hop at all)                               *)
(*   "onion"    RequestRoute requests whose final-hop payload (metadata    *)
(*              none / empty / exactly filling / one byte over the 1300    *)
(*              bytes for that path, payment secret, custom record,        *)
(*              encrypted recipient data) is carried by 1-3 hop routes     *)
(*              over two graphs (fee variants on the middle hop; the last  *)
(*              hop's delta of 200 makes time locks two bytes wide);       *)
(*              besides the amount/time-lock lattice the candidates drop   *)
(*              or misplace the metadata                                   *)
(*   "diamond"  a "diamond with tail" a-b-n-{t | m-t} plus the bypass      *)
(*              a-x-t: 2-4 hop routes under fee / CLTV limits placed at    *)
(*              and one below what each path needs (LimitsAreSums)         *)
(* Invariants:                                                             *)
(*   Payable              valid => never refused                           *)
(*   DeliveredIsHopValid  delivered => the per-hop clauses hold            *)
(*   BuildIsTight         the unperturbed route satisfies the fee / delta /*)
(*                        final / totals clauses by construction           *)
(*   DeliveredFits        delivered => the payloads fit the onion          *)
(*   LimitsAreSums        for the unperturbed route the limit clauses say  *)
(*                        the same as the sums of the per-node fees and    *)
(*                        deltas along the path (an independent reading of *)
(*                        "total fees" / "total time lock")                *)
(*   SizeIsExact          BuildRoute's recorded sizes = HopSize            *)
(***************************************************************************)
EXTENDS Route

CONSTANTS Universe     \* "small" (quick) | "rich" (thorough): 3 nodes a-b-c, parallel channel b-c
                       \* "line4": 4 nodes a-b-c-d ; "probe": one graph (non-vacuity probes)
                       \* "foreign" | "onion" | "diamond": see above
CONSTANTS Probe        \* name of the non-vacuity probe checked by RouteMC_vacuity.cfg ("none" otherwise)

VARIABLE exact         \* the answered candidate is the unperturbed BuildRoute

mcvars == <<vars, exact>>

Amt    == 1000
Height == 100
FinalD == 3

Patch(p, x) == [f \in DOMAIN p |-> IF f \in DOMAIN x THEN x[f] ELSE p[f]]
Plain(id, from, to) ==
  [id |-> id, from |-> from, to |-> to, cap |-> 5000, bw |-> 5000, minHtlc |-> 0, maxHtlc |-> 0,
   base |-> 0, rate |-> 0, inBase |-> 0, inRate |-> 0, delta |-> 2, disabled |-> 0]

\* forwarding policies (outgoing side of the forwarder)
FwdFull == { [delta |-> 2],
             [base |-> 7, rate |-> 30000, delta |-> 5],
             [base |-> 1, rate |-> 1500, minHtlc |-> Amt + 1],
             [rate |-> 999, delta |-> 3, maxHtlc |-> Amt],
             [base |-> 2, maxHtlc |-> Amt - 1],
             [disabled |-> 1] }
FwdSmall == { [delta |-> 2],
              [base |-> 7, rate |-> 30000, delta |-> 5],
              [rate |-> 999, delta |-> 3, maxHtlc |-> Amt],
              [disabled |-> 1] }
\* inbound fee of the forwarder on its incoming channel
InFull == { [inBase |-> 0], [inBase |-> -5, inRate |-> -20000],
            [inBase |-> -50, inRate |-> -100000], [inBase |-> 3, inRate |-> 15000],
            [inBase |-> -7, inRate |-> 0] }
InSmall == { [inBase |-> 0], [inBase |-> -5, inRate |-> -20000],
             [inBase |-> -50, inRate |-> -100000], [inBase |-> 3, inRate |-> 15000] }
\* the source's own channel
FirstFull == { [delta |-> 2], [maxHtlc |-> Amt], [bw |-> Amt], [bw |-> Amt + 37], [disabled |-> 1],
               [cap |-> 1000, bw |-> 2000] }
FirstSmall == { [delta |-> 2], [maxHtlc |-> Amt], [bw |-> Amt + 37], [disabled |-> 1] }

Fwd3 == { [delta |-> 2], [base |-> 7, rate |-> 30000, delta |-> 5], [rate |-> 999, delta |-> 3, maxHtlc |-> Amt] }
In3  == { [inBase |-> 0], [inBase |-> -50, inRate |-> -100000], [inBase |-> 3, inRate |-> 15000] }
Rich   == Universe = "rich"
Par    == FwdSmall
NNodes == IF Universe = "line4" THEN 4 ELSE 3
Fwd   == IF Rich THEN FwdFull ELSE FwdSmall
In    == IF Rich THEN InFull ELSE InSmall
First == IF Rich THEN FirstFull ELSE FirstSmall

\* channel 1: a-b, channels 2 and 3: b-c (3 may be missing), channel 4: c-d (NNodes = 4)
Graphs3 ==
  { {Patch(Plain(1, "a", "b"), f), Patch(Plain(1, "b", "a"), i), Patch(Plain(2, "b", "c"), o2),
     Plain(2, "c", "b")} \cup par
    : f \in First, i \in In, o2 \in Fwd,
      par \in {{}} \cup { {Patch(Plain(3, "b", "c"), o3), Plain(3, "c", "b")} : o3 \in Par } }
\* in the 4-node line c forwards too: its inbound fee sits on channel 2 (direction c->b)
Graphs4 ==
  { {Plain(1, "a", "b"), Patch(Plain(1, "b", "a"), i), Patch(Plain(2, "b", "c"), o2),
     Patch(Plain(2, "c", "b"), i2), Patch(Plain(4, "c", "d"), o4), Plain(4, "d", "c")}
    : i \in InSmall, o2 \in FwdSmall, i2 \in In3, o4 \in FwdSmall }
\* outbound fee 7 + 3 % and an inbound discount that exceeds it: the floor is active
ProbeGraphs ==
  { {Plain(1, "a", "b"), Patch(Plain(1, "b", "a"), [inBase |-> -50, inRate |-> -100000]),
     Patch(Plain(2, "b", "c"), [base |-> 7, rate |-> 30000, delta |-> 5]), Plain(2, "c", "b")} }
\* "foreign": the forwarding hop b -> c is the local one when self = b: bandwidth variants
FwdForeign == FwdSmall \cup { [base |-> 7, rate |-> 30000, delta |-> 5, bw |-> Amt],
                              [base |-> 7, rate |-> 30000, delta |-> 5, bw |-> Amt - 1],
                              [disabled |-> 1, bw |-> Amt + 500] }
GraphsForeign ==
  { {Patch(Plain(1, "a", "b"), f), Patch(Plain(1, "b", "a"), i), Patch(Plain(2, "b", "c"), o2),
     Plain(2, "c", "b")}
    : f \in FirstSmall, i \in InSmall, o2 \in FwdForeign }
\* "onion": fees only so that amounts differ per hop; the subject is the payload
GraphsOnion ==
  { {Plain(1, "a", "b"), Plain(1, "b", "a"), Patch(Plain(2, "b", "c"), o2), Plain(2, "c", "b"),
     Patch(Plain(4, "c", "d"), o4), Plain(4, "d", "c")}
    : o2 \in {[delta |-> 2], [base |-> 7, rate |-> 30000, delta |-> 5]},
      o4 \in {[base |-> 300, delta |-> 200]} }
\* "diamond": tail a-b-n (1, 2), direct n-t (3), detour n-m-t (4, 5), bypass a-x-t (6, 7)
DDirect == { [base |-> 500, delta |-> 1], [base |-> 50, delta |-> 9] }
DDetour == { [base |-> 10, delta |-> 18], [base |-> 10, delta |-> 4, inBase |-> -5] }
GraphsDiamond ==
  { {Plain(1, "a", "b"), Plain(1, "b", "a"), Patch(Plain(2, "b", "n"), tl), Plain(2, "n", "b"),
     Patch(Plain(3, "n", "t"), di), Plain(3, "t", "n"),
     Patch(Plain(4, "n", "m"), d1), Patch(Plain(4, "m", "n"), [inBase |-> -3]),
     Patch(Plain(5, "m", "t"), d2), Plain(5, "t", "m"),
     Plain(6, "a", "x"), Plain(6, "x", "a"), Patch(Plain(7, "x", "t"), [base |-> 900, delta |-> 1]),
     Plain(7, "t", "x")}
    : tl \in {[base |-> 1, delta |-> 6], [rate |-> 1500, delta |-> 40]}, di \in DDirect,
      d1 \in DDetour, d2 \in DDetour }
Graphs == CASE Universe = "probe"   -> ProbeGraphs
            [] Universe = "line4"   -> Graphs4
            [] Universe = "foreign" -> GraphsForeign
            [] Universe = "onion"   -> GraphsOnion
            [] Universe = "diamond" -> GraphsDiamond
            [] OTHER                -> Graphs3

Req(dst) == [NoReq EXCEPT !.self = "a", !.src = "a", !.dst = dst, !.amt = Amt, !.pay = Amt,
                          !.finalDelta = FinalD, !.height = Height]
MaxHops == CASE Universe \in {"line4", "onion"} -> 3 [] Universe = "diamond" -> 4 [] OTHER -> 2
PathsFrom(G, src, dst) ==
  LET ids == {p.id : p \in G}
      cand == UNION {[1..n -> ids] : n \in 1..MaxHops} IN
  {p \in cand : /\ IsPath(G, src, p) /\ PathNodes(G, src, p)[Len(p)] = dst
                /\ \A i, j \in 0..Len(p) : i < j => PathNodes(G, src, p)[i] # PathNodes(G, src, p)[j]}

\* the metadata length with which the payloads of `path` fill the onion exactly (both length
\* prefixes are 3 bytes from 253 on, so the size is linear in the length there)
MetaFill(G, q, path) == 1000 + MaxPayload - RouteSize(BuildRoute(G, [q EXCEPT !.meta = 1000], path))

\* the requests of a universe against graph G, each with the paths that serve it
Asks(G) ==
  CASE Universe = "foreign" ->
         UNION { { <<[Req(t[3]) EXCEPT !.via = "FindRoute", !.self = t[1], !.src = t[2]], p>> :
                     p \in PathsFrom(G, t[2], t[3]) }
                 : t \in {<<"b", "a", "c">>, <<"a", "b", "c">>, <<"c", "a", "c">>} }
    [] Universe = "onion" ->
         LET Xs == { <<0, <<>>, -1>>, <<1, <<>>, -1>>, <<1, <<[t |-> 65537, n |-> 5]>>, -1>>, <<0, <<>>, 40>> }
             Q(dst, x) == [Req(dst) EXCEPT !.via = "RequestRoute", !.payAddr = x[1], !.recs = x[2], !.enc = x[3]]
         IN UNION { UNION { UNION { { <<[Q(dst, x) EXCEPT !.meta = m], p>> :
                                        m \in {-1, 0} \cup {MetaFill(G, Q(dst, x), p) + e : e \in {-1, 0, 1}} }
                                    : x \in Xs }
                            : p \in PathsFrom(G, "a", dst) }
                    : dst \in {"b", "c", "d"} }
    [] Universe = "diamond" ->
         UNION { { <<[Req("t") EXCEPT !.feeLimit = fl, !.cltvLimit = cl], p>> :
                     fl \in {-1, BuildRoute(G, Req("t"), p).totalFees, BuildRoute(G, Req("t"), p).totalFees - 1},
                     cl \in {-1, BuildRoute(G, Req("t"), p).totalTL - Height,
                             BuildRoute(G, Req("t"), p).totalTL - Height - 1} }
                 : p \in PathsFrom(G, "a", "t") }
    [] OTHER -> UNION { { <<Req(dst), p>> : p \in PathsFrom(G, "a", dst) }
                        : dst \in (IF NNodes = 3 THEN {"b", "c"} ELSE {"d"}) }

\* the candidate lattice around r: da[k] is added to the amount on hop k's channel
\* (k = 1: the total), dt[k] to its expiry, df to the amount the recipient is told,
\* dl to the recipient's outgoing_cltv_value; the reported fees and totals follow
D == {-1, 0, 1}
Perturb(r, da, dt, df, dl) ==
  LET n == Len(r.hops)
      amtOf(k) == IF k = n THEN r.hops[k].amt + df ELSE r.hops[k].amt + da[k + 1]
      tlOf(k)  == IF k = n THEN r.hops[k].tl + dl ELSE r.hops[k].tl + dt[k + 1]
      onAmt(k) == IF k = 1 THEN r.totalAmt + da[1] ELSE amtOf(k - 1) IN
  [r EXCEPT !.totalAmt = r.totalAmt + da[1],
            !.totalTL = r.totalTL + dt[1],
            !.recvAmt = amtOf(n),
            !.totalFees = r.totalAmt + da[1] - amtOf(n),
            !.hops = [k \in 1..n |-> [r.hops[k] EXCEPT !.amt = amtOf(k), !.tl = tlOf(k),
                                                        !.fee = IF k = n THEN 0 ELSE onAmt(k) - amtOf(k)]]]
\* the whole lattice for the 2-3 hop universes, at most one coordinate moved in the new ones
Big == Universe \in {"onion", "diamond", "foreign"}
Lattice(n) == IF Big THEN {f \in [1..n -> D] : Cardinality({k \in 1..n : f[k] # 0}) <= 1} ELSE [1..n -> D]
\* payload candidates (universe "onion"): the metadata dropped, or carried by the first hop
Payloads == IF Universe = "onion" THEN {"asked", "dropMeta", "metaFirst"} ELSE {"asked"}
Repack(r, how) ==
  LET n == Len(r.hops)
      moved == CASE how = "dropMeta"  -> [r EXCEPT !.hops[n].meta = -1]
                 [] how = "metaFirst" -> [r EXCEPT !.hops[1].meta = r.hops[n].meta]
                 [] OTHER             -> r
  IN [moved EXCEPT !.hops = [k \in 1..n |-> [moved.hops[k] EXCEPT !.size = HopSize(moved, k)]]]

MCInit == Init /\ exact = FALSE
Install == /\ status = "idle" /\ g = {}
           /\ \E G \in Graphs : NewGraph(G)
           /\ exact' = FALSE
Ask == /\ g # {} /\ status = "idle" /\ res = NoRoute
       /\ \E ask \in Asks(g) :
            LET q == ask[1]
                path == ask[2]
                r == BuildRoute(g, q, path)
                n == Len(path) IN
            \E da \in Lattice(n), dt \in Lattice(n), how \in Payloads,
               df \in (IF NNodes = 4 \/ Big THEN {0} ELSE {0, 1}), dl \in (IF NNodes = 4 \/ Big THEN {0} ELSE D) :
              /\ Query(q, Repack(Perturb(r, da, dt, df, dl), how))
              /\ exact' = (df = 0 /\ dl = 0 /\ how = "asked" /\ \A k \in 1..n : da[k] = 0 /\ dt[k] = 0)
MCNext == Install \/ Ask \/ (Pay /\ UNCHANGED exact)
MCSpec == MCInit /\ [][MCNext]_mcvars

\* newRoute's construction meets the fee, delta, final and totals clauses with equality;
\* whether the path is usable (bounds, enabled) is the pathfinder's part
BuildIsTight == (exact /\ res.found = 1) =>
  /\ FeesPaid(g, req, res) /\ Deltas(g, req, res) /\ Final(g, req, res) /\ Totals(g, req, res)
  /\ \A k \in 1..(N(res) - 1) :
       AmtOn(res, k) - AmtOn(res, k + 1) =
         NodeFee(HopPol(g, req, res, k + 1), InPol(g, res.hops[k].chan, NodeAt(req, res, k)), AmtOn(res, k + 1))

\* the limit clauses read "total" as the route's totals; for the unperturbed route that is the
\* sum of what the forwarding nodes charge and of their deltas (+ final delta and padding)
RECURSIVE SumFrom(_, _, _)
SumFrom(f, k, n) == IF k > n THEN 0 ELSE f[k] + SumFrom(f, k + 1, n)
LimitsAreSums == (exact /\ res.found = 1) =>
  LET n == N(res)
      fees == [k \in 1..n |-> IF k = n THEN 0 ELSE
                 NodeFee(HopPol(g, req, res, k + 1), InPol(g, res.hops[k].chan, NodeAt(req, res, k)), AmtOn(res, k + 1))]
      dels == [k \in 1..n |-> IF k = n THEN 0 ELSE HopPol(g, req, res, k + 1).delta] IN
  /\ FeeLimitOk(g, req, res) <=> (req.feeLimit < 0 \/ SumFrom(fees, 1, n) <= req.feeLimit)
  /\ CltvLimitOk(g, req, res) <=> (req.cltvLimit < 0 \/
                                   SumFrom(dels, 1, n) + req.finalDelta + Pad(req) <= req.cltvLimit)
SizeIsExact == (exact /\ res.found = 1) => SizeModelOk(res)

\* non-vacuity probes (expected to be VIOLATED; the orchestrator checks that they are)
NoValidRoute      == ~(res.found = 1 /\ ValidRoute(g, req, res))
NoValidTwoHop     == ~(res.found = 1 /\ N(res) >= 2 /\ ValidRoute(g, req, res) /\ status = "delivered")
NoFloorCase       == ~(res.found = 1 /\ N(res) >= 2 /\ ValidRoute(g, req, res) /\ status = "delivered" /\
                       \E k \in 1..(N(res) - 1) : AmtOn(res, k) = AmtOn(res, k + 1) /\
                          OutFee(HopPol(g, req, res, k + 1), AmtOn(res, k + 1)) > 0)
NoRefusal         == ~Refused
NoOnionRefusal    == status # "OnionTooLarge"
NoFullOnion       == ~(status = "delivered" /\ RouteSize(res) = MaxPayload /\ N(res) >= 2)
NoForeignDisabled == status # "ChannelDisabled"
NoLocalMiddle     == ~(status = "delivered" /\ N(res) >= 2 /\ Local(req, res, 2))
NoLateLimit       == ~(res.found = 1 /\ N(res) = 4 /\ exact /\ req.cltvLimit >= 0 /\
                       ~CltvLimitOk(g, req, res))
ProbeInv == CASE Probe = "NoFloorCase"       -> NoFloorCase
               [] Probe = "NoOnionRefusal"    -> NoOnionRefusal
               [] Probe = "NoFullOnion"       -> NoFullOnion
               [] Probe = "NoForeignDisabled" -> NoForeignDisabled
               [] Probe = "NoLocalMiddle"     -> NoLocalMiddle
               [] Probe = "NoLateLimit"       -> NoLateLimit
               [] OTHER                       -> TRUE
=============================================================================
