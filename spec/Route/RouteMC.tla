------------------------------ MODULE RouteMC ------------------------------
(***************************************************************************)
(* Exhaustive check of the model-level statement behind C19:               *)
(*                                                                         *)
(*   ValidRoute(g, q, r)  =>  no node on the way refuses the HTLC          *)
(*                                                                         *)
(* over a tiny universe of graphs (3 or 4 nodes in a line, a parallel      *)
(* channel on the forwarding hop, policy variants: free, base+rate fee,    *)
(* min/max HTLC exactly at / next to the amount, disabled, missing;        *)
(* inbound fee variants on the forwarder's incoming channel: none,         *)
(* discount, discount larger than the outbound fee (floor), surcharge;     *)
(* first hop: max_htlc / bandwidth at the amount, disabled) and, for every *)
(* path, the LATTICE of candidate routes around what newRoute would build: *)
(* every amount and every time lock of the route independently -1 / 0 / +1.*)
(* The abstract pathfinder answers with any candidate; the payment         *)
(* simulation of Route.tla then runs.  Invariants:                         *)
(*   Payable              valid => never refused                           *)
(*   DeliveredIsHopValid  delivered => the per-hop clauses hold            *)
(*   BuildIsTight         the unperturbed route satisfies the fee / delta /*)
(*                        final / totals clauses by construction           *)
(***************************************************************************)
EXTENDS Route

CONSTANTS Universe     \* "small" (quick) | "rich" (thorough): 3 nodes a-b-c, parallel channel b-c
                       \* "line4": 4 nodes a-b-c-d ; "probe": one graph (non-vacuity probes)

VARIABLE exact         \* the answered candidate is the unperturbed BuildRoute

mcvars == <<vars, exact>>

Amt    == 1000
Height == 100
FinalD == 3

Patch(p, x) == [f \in DOMAIN p |-> IF f \in DOMAIN x THEN x[f] ELSE p[f]]
Plain(id, from, to) ==
  [id |-> id, from |-> from, to |-> to, cap |-> 5000, bw |-> 5000, minHtlc |-> 0, maxHtlc |-> 0,
   base |-> 0, rate |-> 0, inBase |-> 0, inRate |-> 0, delta |-> 2, disabled |-> 0]

\* forwarding policies (outgoing side of the forwarder)
FwdFull == { [delta |-> 2],
             [base |-> 7, rate |-> 30000, delta |-> 5],
             [base |-> 1, rate |-> 1500, minHtlc |-> Amt + 1],
             [rate |-> 999, delta |-> 3, maxHtlc |-> Amt],
             [base |-> 2, maxHtlc |-> Amt - 1],
             [disabled |-> 1] }
FwdSmall == { [delta |-> 2],
              [base |-> 7, rate |-> 30000, delta |-> 5],
              [rate |-> 999, delta |-> 3, maxHtlc |-> Amt],
              [disabled |-> 1] }
\* inbound fee of the forwarder on its incoming channel
InFull == { [inBase |-> 0], [inBase |-> -5, inRate |-> -20000],
            [inBase |-> -50, inRate |-> -100000], [inBase |-> 3, inRate |-> 15000],
            [inBase |-> -7, inRate |-> 0] }
InSmall == { [inBase |-> 0], [inBase |-> -5, inRate |-> -20000],
             [inBase |-> -50, inRate |-> -100000], [inBase |-> 3, inRate |-> 15000] }
\* the source's own channel
FirstFull == { [delta |-> 2], [maxHtlc |-> Amt], [bw |-> Amt], [bw |-> Amt + 37], [disabled |-> 1],
               [cap |-> 1000, bw |-> 2000] }
FirstSmall == { [delta |-> 2], [maxHtlc |-> Amt], [bw |-> Amt + 37], [disabled |-> 1] }

Fwd3 == { [delta |-> 2], [base |-> 7, rate |-> 30000, delta |-> 5], [rate |-> 999, delta |-> 3, maxHtlc |-> Amt] }
In3  == { [inBase |-> 0], [inBase |-> -50, inRate |-> -100000], [inBase |-> 3, inRate |-> 15000] }
Rich   == Universe = "rich"
Par    == FwdSmall
NNodes == IF Universe = "line4" THEN 4 ELSE 3
Fwd   == IF Rich THEN FwdFull ELSE FwdSmall
In    == IF Rich THEN InFull ELSE InSmall
First == IF Rich THEN FirstFull ELSE FirstSmall

\* channel 1: a-b, channels 2 and 3: b-c (3 may be missing), channel 4: c-d (NNodes = 4)
Graphs3 ==
  { {Patch(Plain(1, "a", "b"), f), Patch(Plain(1, "b", "a"), i), Patch(Plain(2, "b", "c"), o2),
     Plain(2, "c", "b")} \cup par
    : f \in First, i \in In, o2 \in Fwd,
      par \in {{}} \cup { {Patch(Plain(3, "b", "c"), o3), Plain(3, "c", "b")} : o3 \in Par } }
\* in the 4-node line c forwards too: its inbound fee sits on channel 2 (direction c->b)
Graphs4 ==
  { {Plain(1, "a", "b"), Patch(Plain(1, "b", "a"), i), Patch(Plain(2, "b", "c"), o2),
     Patch(Plain(2, "c", "b"), i2), Patch(Plain(4, "c", "d"), o4), Plain(4, "d", "c")}
    : i \in InSmall, o2 \in FwdSmall, i2 \in In3, o4 \in FwdSmall }
\* outbound fee 7 + 3 % and an inbound discount that exceeds it: the floor is active
ProbeGraphs ==
  { {Plain(1, "a", "b"), Patch(Plain(1, "b", "a"), [inBase |-> -50, inRate |-> -100000]),
     Patch(Plain(2, "b", "c"), [base |-> 7, rate |-> 30000, delta |-> 5]), Plain(2, "c", "b")} }
Graphs == IF Universe = "probe" THEN ProbeGraphs ELSE IF NNodes = 3 THEN Graphs3 ELSE Graphs4

Req(dst) == [src |-> "a", dst |-> dst, amt |-> Amt, feeLimit |-> -1, cltvLimit |-> -1,
             outChans |-> <<>>, lastHop |-> "", ignNodes |-> <<>>, ignPairs |-> <<>>, hints |-> <<>>,
             finalDelta |-> FinalD, height |-> Height]
Targets == IF NNodes = 3 THEN {"b", "c"} ELSE {"d"}
PathsTo(G, dst) ==
  LET ids == {p.id : p \in G}
      cand == UNION {[1..n -> ids] : n \in 1..(NNodes - 1)} IN
  {p \in cand : IsPath(G, "a", p) /\ PathNodes(G, "a", p)[Len(p)] = dst}

\* the candidate lattice around r: da[k] is added to the amount on hop k's channel
\* (k = 1: the total), dt[k] to its expiry, df to the amount the recipient is told,
\* dl to the recipient's outgoing_cltv_value; the reported fees and totals follow
D == {-1, 0, 1}
Perturb(r, da, dt, df, dl) ==
  LET n == Len(r.hops)
      amtOf(k) == IF k = n THEN r.hops[k].amt + df ELSE r.hops[k].amt + da[k + 1]
      tlOf(k)  == IF k = n THEN r.hops[k].tl + dl ELSE r.hops[k].tl + dt[k + 1]
      onAmt(k) == IF k = 1 THEN r.totalAmt + da[1] ELSE amtOf(k - 1) IN
  [r EXCEPT !.totalAmt = r.totalAmt + da[1],
            !.totalTL = r.totalTL + dt[1],
            !.recvAmt = amtOf(n),
            !.totalFees = r.totalAmt + da[1] - amtOf(n),
            !.hops = [k \in 1..n |-> [r.hops[k] EXCEPT !.amt = amtOf(k), !.tl = tlOf(k),
                                                        !.fee = IF k = n THEN 0 ELSE onAmt(k) - amtOf(k)]]]

MCInit == Init /\ exact = FALSE
Install == /\ status = "idle" /\ g = {}
           /\ \E G \in Graphs : NewGraph(G)
           /\ exact' = FALSE
Ask == /\ g # {} /\ status = "idle" /\ res = NoRoute
       /\ \E dst \in Targets : \E path \in PathsTo(g, dst) :
            LET q == Req(dst)
                r == BuildRoute(g, q, path)
                n == Len(path) IN
            \E da \in [1..n -> D], dt \in [1..n -> D],
               df \in (IF NNodes = 4 THEN {0} ELSE {0, 1}), dl \in (IF NNodes = 4 THEN {0} ELSE D) :
              /\ Query(q, Perturb(r, da, dt, df, dl))
              /\ exact' = (df = 0 /\ dl = 0 /\ \A k \in 1..n : da[k] = 0 /\ dt[k] = 0)
MCNext == Install \/ Ask \/ (Pay /\ UNCHANGED exact)
MCSpec == MCInit /\ [][MCNext]_mcvars

\* newRoute's construction meets the fee, delta, final and totals clauses with equality;
\* whether the path is usable (bounds, enabled) is the pathfinder's part
BuildIsTight == (exact /\ res.found = 1) =>
  /\ FeesPaid(g, req, res) /\ Deltas(g, req, res) /\ Final(g, req, res) /\ Totals(g, req, res)
  /\ \A k \in 1..(N(res) - 1) :
       AmtOn(res, k) - AmtOn(res, k + 1) =
         NodeFee(HopPol(g, req, res, k + 1), InPol(g, res.hops[k].chan, NodeAt(req, res, k)), AmtOn(res, k + 1))

\* non-vacuity probes (expected to be VIOLATED; the orchestrator checks that they are)
NoValidRoute      == ~(res.found = 1 /\ ValidRoute(g, req, res))
NoValidTwoHop     == ~(res.found = 1 /\ N(res) >= 2 /\ ValidRoute(g, req, res) /\ status = "delivered")
NoFloorCase       == ~(res.found = 1 /\ N(res) >= 2 /\ ValidRoute(g, req, res) /\ status = "delivered" /\
                       \E k \in 1..(N(res) - 1) : AmtOn(res, k) = AmtOn(res, k + 1) /\
                          OutFee(HopPol(g, req, res, k + 1), AmtOn(res, k + 1)) > 0)
NoRefusal         == ~Refused
=============================================================================
