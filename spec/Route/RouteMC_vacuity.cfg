SPECIFICATION MCSpec
CONSTANTS
  Universe = "probe"
  Probe = "NoFloorCase"
INVARIANTS ProbeInv
CHECK_DEADLOCK FALSE
