SPECIFICATION MCSpec
CONSTANTS
  Universe = "probe"
INVARIANTS NoFloorCase
CHECK_DEADLOCK FALSE
