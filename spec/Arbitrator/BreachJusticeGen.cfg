SPECIFICATION GSpec
CONSTANTS
  MaxCrashes = 3
  NC = 2
  CrashOdds = 6
INVARIANTS Dump
CHECK_DEADLOCK FALSE
