---------------------------- MODULE ChainArbTrace ----------------------------
(* Trace validation for the start-up layer of C13 (ChainArb).  Every line     *)
(* recorded by harness/contractcourt/c13_chainarb_test.go from the real       *)
(* ChainArbitrator (Start -> loadPendingCloseChannels on a real channeldb     *)
(* with 1-3 pending-close channels, real arbitrator logs, real resolvers)     *)
(* must be one action of ChainArb.  A Write line names the channel whose      *)
(* arbitrator-log scope the database transaction touched (`c`), the contract  *)
(* whose record changed (`k`) and the channel whose report bucket changed     *)
(* (`rc`); a MarkResolved line names the channel that left the pending-close  *)
(* set.  After every line the durable state of EVERY channel read back from   *)
(* the database (pending/closed, log state, resolutions present, contracts    *)
(* bucket, reports) must equal the model's (ConformChans) and the invariants  *)
(* of ChainArb must hold - the closure-mediated effects (fully-closed mark,   *)
(* log wipe, report, channel type of a restored resolver) are applied to the  *)
(* channel the database says they landed on.  At End every channel must have  *)
(* reached the reference outcome (VerdictInv).                                *)
EXTENDS ChainArb, Json
VARIABLE l

Trace == ndJsonDeserialize("trace.ndjson")
Last  == Trace[l - 1]
Is(a) == l <= Len(Trace) /\ Trace[l].a = a /\ l' = l + 1
IsW(w) == Is("Write") /\ Trace[l].w = w
B(x) == IF x THEN 1 ELSE 0
Ch == Trace[l].c
K  == Trace[l].k

TraceSets == {{"c1", "c2"}}
TInit == Init /\ l = 1

Reset ==
  /\ Is("Reset")
  /\ chans' = {Trace[l].cs[i] : i \in DOMAIN Trace[l].cs}
  /\ pend' = [c \in AllChans |-> "pending"] /\ lstate' = [c \in AllChans |-> "Default"]
  /\ hasRes' = [c \in AllChans |-> TRUE] /\ unres' = [c \in AllChans |-> [k \in Kinds |-> NoRec]]
  /\ reports' = [c \in AllChans |-> {}]
  /\ sweepReq' = {} /\ spent' = {}
  /\ alive' = FALSE /\ arb' = [c \in AllChans |-> "none"] /\ mq' = [c \in AllChans |-> <<>>]
  /\ res' = [c \in AllChans |-> [k \in Kinds |-> NoRes]] /\ rcpc' = "idle"
  /\ upstream' = [c \in AllChans |-> {}] /\ ncrash' = 0

\* the recorded sweep input is of ITS channel's type: a taproot witness type and a control block iff the channel is a
\* taproot channel
SignableT == Trace[l].cb = B(Taproot(Ch)) /\ Trace[l].tw = B(Taproot(Ch))
\* the channel under which the report of this checkpoint was filed
RepTarget == IF Trace[l].rc = "" THEN Ch ELSE Trace[l].rc
\* whose notification the resolveContracts goroutine is serving: the channel's own if it has one pending
Notifier(c) == IF NotifyReady(c) THEN {c} ELSE {x \in chans : NotifyReady(x)}

TNext ==
  \/ Reset
  \/ Is("Start") /\ Start
  \/ Is("Crash") /\ Crash
  \/ IsW("CommitState") /\ Ch \in chans /\ ACommit(Ch)
  \/ IsW("InsertUnresolved") /\ Ch \in chans /\ AIns(Ch)
  \/ IsW("Checkpoint") /\ Ch \in chans /\ K \in Kinds /\ RepTarget \in AllChans /\ RCheckpoint(Ch, K, RepTarget)
  \/ IsW("Resolve") /\ Ch \in chans /\ K \in Kinds /\ RResolve(Ch, K)
  \/ IsW("MarkResolved") /\ Ch \in chans /\ \E from \in Notifier(Ch) : MarkClosed(from, Ch)
  \/ IsW("Wipe") /\ Ch \in chans /\ Wipe(Ch)
  \/ Is("Sweep") /\ Ch \in chans /\ K \in Kinds /\ RLaunch(Ch, K, SignableT)
  \/ Is("Sweep") /\ Ch \in chans /\ K = "anchor" /\ RAnchor(Ch, TRUE, Trace[l].tw = 1)
  \/ Is("SweepDone") /\ Ch \in chans /\ K \in Kinds /\ SweepDone(Ch, K)
  \/ Is("Up") /\ Ch \in chans /\ K = "fail" /\ RUp(Ch)
  \* the live node stopped answering (reported by the orchestrator)
  \/ Is("Stall") /\ UNCHANGED vars
  \/ Is("End") /\ UNCHANGED vars
  \/ (l = Len(Trace) + 1 /\ UNCHANGED <<vars, l>>)

TSpec == TInit /\ [][TNext]_<<vars, l>>

Live == l > 1
ChRec(c) == LET i == CHOOSE j \in DOMAIN Last.chs : Last.chs[j].id = c IN Last.chs[i]
UnSet(u) == {[k |-> u[i].k, r |-> u[i].r] : i \in DOMAIN u}
RpSet(u) == {[k |-> u[i].k, own |-> u[i].own] : i \in DOMAIN u}
\* the durable state of every channel read back from the database after the line
ConformChans ==
  Live => \A c \in chans :
    /\ ChRec(c).pd = (IF pend[c] = "closed" THEN 2 ELSE 1)
    /\ ChRec(c).st = lstate[c]
    /\ ChRec(c).rs = B(hasRes[c])
    /\ UnSet(ChRec(c).un) = {[k |-> k, r |-> B(unres[c][k].resolved)] : k \in {x \in Kinds : unres[c][x].here}}
    /\ RpSet(ChRec(c).rp) = reports[c]
\* same terminal outcome as the uninterrupted run, for every channel
VerdictInv == (Live /\ Last.a = "End") => ReferenceOutcome
NoLossT == (l <= Len(Trace) /\ Trace[l].a = "Reset") \/ NoLoss
NoLossTProp == [][NoLossT]_<<vars, l>>
=============================================================================
