SPECIFICATION GSpec
CONSTANTS
  ChanSets <- GenSets
  MaxCrashes = 3
  NC = 2
  CrashOdds = 10
  EnvAtomic = TRUE
  CommitBeforeCheckpoint = TRUE
INVARIANTS Dump
CHECK_DEADLOCK FALSE
