--------------------------- MODULE ArbitratorTrace ---------------------------
(* Trace validation for C13.  Every line recorded from the real             *)
(* ChannelArbitrator (harness/contractcourt/c13_test.go) must be exactly    *)
(* one action of Arbitrator - the code as it is: F8Fixed = F9Fixed =        *)
(* FccFixed = FALSE unless a repair is overlaid - and after every line the  *)
(* durable state read back from the database (log state, contracts bucket   *)
(* with stage and resolved flag, resolutions, commit set) and the durable   *)
(* flags of the rest of the node must equal the model's.  Crash and Restart *)
(* lines are the model's Crash and Restart.  A Sweep line (an input handed   *)
(* to the sweeper) names the outpoint by its role - it must be the one the   *)
(* resolver's persisted stage calls for - and says whether the input is of   *)
(* the channel's type (taproot witness type + control block): SweepsSignable.*)
(* A Watch line (a resolver registers for the spend of an outpoint) must     *)
(* name an outpoint that Exists on the model's chain; for zero-fee channel   *)
(* types the output of the PRE-SIGNED second-level tx ("pre2", "prein2")     *)
(* never exists, only the one the re-signed tx created.  At the End line the *)
(* terminal                                                                  *)
(* outcome must be the reference outcome of the scenario (or nothing of the *)
(* close was ever durable or visible): invariant Verdict in the strict      *)
(* configuration; the batch configuration prints one C13VERDICT tuple per   *)
(* run so that every run of a batch is judged.                              *)
EXTENDS Arbitrator, Json
VARIABLE l

Trace == ndJsonDeserialize("trace.ndjson")
Last  == Trace[l - 1]
Is(a) == l <= Len(Trace) /\ Trace[l].a = a /\ l' = l + 1
IsW(w) == Is("Write") /\ Trace[l].w = w
B(x) == IF x THEN 1 ELSE 0

TInit == Init /\ l = 1
\* the recorded sweep input is of the channel's type: a taproot witness type and a control block iff the channel is
\* a taproot channel
SignableT == Trace[l].cb = B(CType = "taproot") /\ Trace[l].tw = B(CType = "taproot")

Reset ==
  /\ Is("Reset")
  /\ scen' = Trace[l].sc
  /\ logState' = "Default" /\ hasRes' = FALSE /\ hasCS' = FALSE /\ unres' = [r \in Rid |-> NoRec]
  /\ wiped' = FALSE /\ rcpc' = "idle"
  /\ closedDb' = FALSE /\ bmark' = FALSE /\ nursery' = FALSE /\ resolvedDb' = FALSE
  /\ finalOut' = [h \in HTLCs |-> "none"] /\ preimg' = FALSE
  /\ late' = FALSE /\ vlate' = FALSE /\ published' = FALSE /\ sweepReq' = {}
  /\ spent1' = "none" /\ spent2' = FALSE /\ spentIn' = "none" /\ breachDone' = FALSE /\ userAsked' = FALSE
  /\ alive' = TRUE /\ state' = "Default" /\ mq' = <<>> /\ tg' = "chain" /\ res' = NoVol
  /\ pendUser' = FALSE /\ pendClose' = FALSE /\ closeSent' = FALSE
  /\ upstream' = [h \in HTLCs |-> {}] /\ ncrash' = 0 /\ quirks' = {} /\ nw' = 0

\* a block: the two thresholds of the scenarios (closing height 5; expiry - delta = 15)
Block ==
  /\ Is("Block")
  /\ late' = (late \/ Trace[l].ht >= 5)
  /\ vlate' = (vlate \/ Trace[l].ht >= 15)
  /\ UNCHANGED <<scen, logVars, extVars, published, sweepReq, spent1, spent2, spentIn, breachDone, userAsked,
                 volVars, histVars>>

Verdict == ReferenceOutcome \/ Untouched
End == /\ Is("End")
       /\ PrintT(<<"C13VERDICT", l, IF Verdict THEN "ok" ELSE "bad", quirks>>)
       /\ UNCHANGED vars

TNext ==
  \/ Reset
  \/ Block
  \/ End
  \/ Is("UserClose") /\ UserReq
  \/ Is("CloseEvent") /\ DeliverClose
  \/ Is("Spend") /\ Trace[l].k \in {"timeout", "claim"} /\ SpendHtlc(Trace[l].k)
  \/ Is("Spend") /\ Trace[l].k = "sweep2" /\ SpendSecond
  \/ Is("Spend") /\ Trace[l].k = "sweepin" /\ SpendIn
  \/ Is("Spend") /\ Trace[l].k = "successtx" /\ SpendIn1
  \* a resolver registers for the spend of an outpoint: it must be one that exists on the model's chain
  \/ Is("Watch") /\ Exists(Trace[l].k) /\ UNCHANGED vars
  \/ Is("BreachDone") /\ BreachDoneEv
  \/ Is("Crash") /\ Crash
  \/ Is("Restart") /\ Restart
  \/ Is("Up") /\ Trace[l].k = "fail" /\ \E src \in Srcs : MUps(src, Trace[l].h)
  \/ Is("Up") /\ \E r \in Rid : RUp(r, Trace[l].k) /\ Trace[l].h = "o"
  \/ Is("Publish") /\ ((\E src \in Srcs : MPublish(src)) \/ (\E r \in Rid : RPublish(r)))
  \* an input handed to the sweeper: the recorded outpoint must be the one the resolver's stage calls for; whether
  \* it can be signed (taproot: control block present) is taken from the line and judged by SweepsSignable
  \/ Is("Sweep") /\ (\E r \in Rid : LaunchOp(r) = Trace[l].k /\ RLaunch(r, SignableT))
  \/ Is("Sweep") /\ (\E r \in Rid : ZfLocal(r) /\ Sweep2Op(r) = Trace[l].k /\ RSweep2(r, SignableT))
  \/ Is("Sweep") /\ Trace[l].k = "anchor" /\ RAnchor(TRUE, Trace[l].tw = B(CType = "taproot"))
  \/ IsW("CommitState") /\ \E src \in Srcs : MCommit(src)
  \/ IsW("LogResolutions") /\ \E src \in Srcs : MLogRes(src)
  \/ IsW("InsertCommitSet") /\ \E src \in Srcs : MInsCS(src)
  \/ IsW("MarkClosed") /\ \E src \in Srcs : MMarkClosed(src)
  \/ IsW("MarkBroadcast") /\ \E src \in Srcs : MMarkB(src)
  \/ IsW("MarkResolved") /\ \E src \in Srcs : MNotify(src)
  \/ IsW("Wipe") /\ RCWipe
  \* the live node stopped answering (judged by the orchestrator: C13:no-progress)
  \/ Is("Stall") /\ UNCHANGED vars
  \/ IsW("InsertUnresolved") /\ \E src \in Srcs : MInsUnres(src)
  \/ IsW("FinalHtlc") /\ Trace[l].h = "id" /\ \E src \in Srcs : MFinal(src)
  \/ IsW("FinalHtlc") /\ Trace[l].h = "i" /\ RFinal("i")
  \/ IsW("Nursery") /\ \E r \in Rid : RNursery(r)
  \/ IsW("Checkpoint") /\ \E r \in Rid : RCheckpoint(r)
  \/ IsW("Swap") /\ \E r \in Rid : RSwap(r)
  \/ IsW("Resolve") /\ \E r \in Rid : RResolve(r)
  \/ IsW("Preimage") /\ \E r \in Rid : RPreimage(r)
  \/ (l = Len(Trace) + 1 /\ UNCHANGED <<vars, l>>)

TSpec == TInit /\ [][TNext]_<<vars, l>>

Live == l > 1 /\ Last.a # "Reset"
UnSet(u) == {[k |-> u[i].k, s |-> u[i].s, r |-> u[i].r] : i \in DOMAIN u}
ModelUn == {[k |-> unres[r].kind, s |-> unres[r].stage, r |-> B(unres[r].resolved)] :
              r \in {x \in Rid : unres[x] # NoRec}}
\* the durable arbitrator log read back from the database after the line
ConformLog == Live => /\ Last.st = logState
                      /\ Last.rs = B(hasRes) /\ Last.cs = B(hasCS) /\ Last.wp = B(wiped)
                      /\ UnSet(Last.un) = ModelUn
\* the durable facts outside the log
ConformExt == Live => /\ Last.cl = B(closedDb) /\ Last.bm = B(bmark)
                      /\ Last.nu = B(nursery) /\ Last.rd = B(resolvedDb)
\* the property at the end of a run (strict configuration)
VerdictInv == (Live /\ Last.a = "End") => Verdict
NoLossT == (l <= Len(Trace) /\ Trace[l].a = "Reset") \/ NoLoss
NoLossTProp == [][NoLossT]_<<vars, l>>
=============================================================================
