SPECIFICATION TSpec
CONSTANTS
  MaxCrashes = 99
INVARIANTS Conform ResolvedOnlyAfterJustice ClosedOnlyAfterJustice RetKept VerdictInv
CHECK_DEADLOCK TRUE
