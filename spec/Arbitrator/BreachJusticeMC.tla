--------------------------- MODULE BreachJusticeMC ---------------------------
(* Exhaustive bounded configuration of BreachJustice: every interleaving of the *)
(* hand-off, the close observer, the breach resolver, the exactRetribution      *)
(* goroutine, the chain (confirmation, counterparty spends, justice tx) and up  *)
(* to MaxCrashes stops at any instant.  All invariants hold and no behaviour    *)
(* gets stuck short of the reference outcome (CHECK_DEADLOCK).                  *)
(* Controls (must_hold = FALSE in the orchestrator):                            *)
(*   DropSpec  - start() also drops the retribution of a PENDING-close channel  *)
(*               (the reconciliation without its IsPending guard): must break   *)
(*               RetKept / ResolvedOnlyAfterJustice;                            *)
(*   EarlySpec - the resolver checkpoints without waiting: must break           *)
(*               ResolvedOnlyAfterJustice.                                      *)
EXTENDS BreachJustice
DropPending == /\ ~up /\ ret /\ chan = "pending" /\ ret' = FALSE
               /\ UNCHANGED <<chan, rrec, handed, worldVars, volVars, ncrash>>
DropSpec == Init /\ [][Next \/ DropPending]_vars
Early == /\ up /\ rrec = "unres" /\ rpc = "waiting" /\ rrec' = "res" /\ rpc' = "done"
         /\ UNCHANGED <<ret, chan, handed, worldVars, up, acked, watch, view, pubd, wpc, ncrash>>
EarlySpec == Init /\ [][Next \/ Early]_vars
=============================================================================
