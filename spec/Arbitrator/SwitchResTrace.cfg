SPECIFICATION TSpec
CONSTANTS
  MaxRestarts = 1000000
  ReplayIsResolution = TRUE
  MaxSends = 1000000
INVARIANTS SameWay NoContradiction NoLoss Held NothingBeforeIssue ConformStore ConformCircuit
CHECK_DEADLOCK TRUE
