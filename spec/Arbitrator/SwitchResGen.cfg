SPECIFICATION GSpec
CONSTANTS
  MaxRestarts = 3
  ReplayIsResolution = TRUE
  MaxSends = 2
  MaxLen = 12
INVARIANTS Dump
CHECK_DEADLOCK FALSE
