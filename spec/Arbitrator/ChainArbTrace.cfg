SPECIFICATION TSpec
CONSTANTS
  ChanSets <- TraceSets
  MaxCrashes = 99
  EnvAtomic = FALSE
  CommitBeforeCheckpoint = FALSE
INVARIANTS ConformChans ClosedOnlyAfterOwnContracts WipedOnlyWhenClosed ReportsBelong SweepsSignable UpstreamOnce VerdictInv
PROPERTIES NoLossTProp
CHECK_DEADLOCK TRUE
