------------------------------ MODULE ChainArbMC ------------------------------
(* Exhaustive bounded configuration of ChainArb: every set of 1-3 pending-close *)
(* channels, every interleaving of the channels' attendants, resolvers, sweep   *)
(* confirmations and the resolveContracts goroutine, up to MaxCrashes stops at  *)
(* any instant.  All invariants + NoLossProp hold and no behaviour gets stuck   *)
(* short of the reference outcome of every channel (CHECK_DEADLOCK).            *)
(* MCSets: the channel sets as a definition override (cfg cannot write sets of  *)
(* sets of strings portably).                                                   *)
EXTENDS ChainArb
MCSets == {{"c2"}, {"c1", "c2"}, {"c1", "c3"}, {"c2", "c3"}, {"c1", "c2", "c3"}}
MCPairs == {{"c1", "c2"}, {"c2", "c3"}}
\* control: the notification of one channel resolves ANOTHER one - must break ClosedOnlyAfterOwnContracts
CrossNext == Next \/ \E a \in chans, b \in chans : a # b /\ MarkClosed(a, b)
CrossSpec == Init /\ [][CrossNext]_vars
\* control: a report filed under another channel - must break ReportsBelong
RepNext == Next \/ \E a \in chans, b \in chans, k \in Kinds : a # b /\ RCheckpoint(a, k, b)
RepSpec == Init /\ [][RepNext]_vars
View == <<chans, durVars, worldVars, volVars, upstream, ncrash>>
=============================================================================
