SPECIFICATION TSpec
CONSTANTS
  Scenarios = {"local", "remote", "localfar", "contest", "claim", "success", "breach", "coop", "shift", "rshift"}
  MaxCrashes = 99
  F8Fixed = TRUE
  F9Fixed = FALSE
  FccFixed = TRUE
  CommitBeforeCheckpoint = FALSE
  EnvAtomic = FALSE
INVARIANTS ConformLog ConformExt ResolvedOnlyWhenEmpty MarkedOnlyWhenResolved NoPendingCloseWithEmptyLog UpstreamConsistent VerdictInv
PROPERTIES NoLossTProp
CHECK_DEADLOCK TRUE
