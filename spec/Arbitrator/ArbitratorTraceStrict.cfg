SPECIFICATION TSpec
CONSTANTS
  Scenarios = {"local", "remote", "localfar", "contest", "rcontest", "claim", "success", "breach", "coop", "shift", "rshift", "alocal", "aremote", "acontest", "arcontest", "aclaim", "asuccess", "tlocal", "tremote", "tcontest", "trcontest", "tclaim", "tsuccess"}
  MaxCrashes = 99
  F8Fixed = TRUE
  F9Fixed = FALSE
  FccFixed = TRUE
  CommitBeforeCheckpoint = FALSE
  EnvAtomic = FALSE
INVARIANTS ConformLog ConformExt ResolvedOnlyWhenEmpty MarkedOnlyWhenResolved NoPendingCloseWithEmptyLog UpstreamConsistent SweepsSignable VerdictInv
PROPERTIES NoLossTProp
CHECK_DEADLOCK TRUE
