SPECIFICATION Spec
CONSTANTS
  MaxRestarts = 2
  ReplayIsResolution = FALSE
  MaxSends = 2
INVARIANTS SameWay
CHECK_DEADLOCK FALSE
