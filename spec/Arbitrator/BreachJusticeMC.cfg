SPECIFICATION Spec
CONSTANTS
  MaxCrashes = 3
INVARIANTS TypeOK ResolvedOnlyAfterJustice ClosedOnlyAfterJustice RetKept
CHECK_DEADLOCK TRUE
