---------------------------- MODULE SwitchResMC ----------------------------
(* Exhaustive check of SwitchRes for both kinds, both initial link states.  *)
EXTENDS SwitchRes
=============================================================================
