--------------------------- MODULE BreachJusticeGen ---------------------------
(* Behaviour generator for part B of C13: simulated behaviours of BreachJustice *)
(* with up to NC stops.  The history keeps one token per step that the driver   *)
(* of harness/contractcourt/c13_breach_test.go can cause: H (hand-off: Add or   *)
(* the duplicate ACK), M, I, L (resolver subscribes), C, Tl/Tr, J, X (stop;     *)
(* the start follows by itself); steps of the node's own goroutines are "-".    *)
EXTENDS BreachJustice, Json, Sequences, TLC
CONSTANTS NC, CrashOdds
VARIABLE hist

Tok == IF up /\ ~up' THEN "X"
       ELSE IF ~conf /\ conf' THEN "C"
       ELSE IF spent' # spent THEN (IF spent' \ spent = {"local"} /\ pub # {"local"} THEN "Tl"
                                    ELSE IF spent' \ spent = {"remote"} /\ pub # {"remote"} THEN "Tr" ELSE "J")
       ELSE IF ~acked /\ acked' THEN "H"
       ELSE IF chan = "open" /\ chan' = "pending" THEN "M"
       ELSE IF rrec = "none" /\ rrec' = "unres" THEN "I"
       ELSE IF rpc = "idle" /\ rpc' # "idle" THEN "L"
       ELSE "-"
GInit == Init /\ hist = <<>>
GNext == /\ ~Reference
         /\ \/ (Next /\ up' = up)
            \/ (Next /\ ~up)
            \/ (Crash /\ ncrash < NC /\ RandomElement(1..CrashOdds) = 1)
         /\ hist' = Append(hist, [t |-> Tok])
GSpec == GInit /\ [][GNext]_<<vars, hist>>
Dump == Reference => ndJsonSerialize("b_" \o ToString(TLCGet("stats").traces) \o ".ndjson", hist)
=============================================================================
