SPECIFICATION Spec
CONSTANTS
  ChanSets <- MCSets
  MaxCrashes = 2
  EnvAtomic = TRUE
  CommitBeforeCheckpoint = TRUE
INVARIANTS TypeOK ClosedOnlyAfterOwnContracts WipedOnlyWhenClosed ReportsBelong SweepsSignable UpstreamOnce
PROPERTIES NoLossProp
CHECK_DEADLOCK TRUE
