---------------------------- MODULE ArbitratorGen ----------------------------
(* Behaviour generator for C13: simulated behaviours of Arbitrator (the code  *)
(* as it is) with NC crashes; the history records, per step, whether it was a *)
(* durable write, a crash, a restart or something else.  A behaviour is       *)
(* dumped right after its last crash: the orchestrator turns it into a crash  *)
(* plan for the executor - per incarnation the number of durable writes       *)
(* before the stop and whether the stop came right after a write (variant A)  *)
(* or after further non-durable effects (variant B).                          *)
EXTENDS Arbitrator, Json
CONSTANTS NC, CrashOdds
VARIABLE hist

Tag == IF alive /\ ~alive' THEN "C"
       ELSE IF ~alive /\ alive' THEN "R"
       ELSE IF nw' > nw THEN "w" ELSE "x"

GInit == Init /\ hist = <<>>
GNext == /\ ncrash < NC \/ alive
         /\ \/ Main \/ Resolver \/ RAnchor(FALSE, TRUE) \/ Env \/ Restart \/ RCWipe
            \/ (Crash /\ RandomElement(1..CrashOdds) = 1)
         /\ hist' = Append(hist, [t |-> Tag, sc |-> scen])
GSpec == GInit /\ [][GNext]_<<vars, hist>>

Dump == (ncrash = NC /\ ~alive) =>
          ndJsonSerialize("b_" \o ToString(TLCGet("stats").traces) \o ".ndjson", hist)
=============================================================================
