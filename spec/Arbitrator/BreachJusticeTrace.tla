-------------------------- MODULE BreachJusticeTrace --------------------------
(* Trace validation for part B of C13 (BreachJustice).  Every line recorded by  *)
(* harness/contractcourt/c13_breach_test.go from the real BreachArbitrator +    *)
(* real RetributionStore + real breachResolver in a real arbitrator log must be *)
(* one action of BreachJustice:                                                 *)
(*   Write Add / MarkFullyClosed / Remove / Checkpoint  the durable writes      *)
(*         (Remove while the node is starting = the reconciliation StartRemove) *)
(*   Ack, MarkPending, InsertRes, Subscribe(cp), Publish(ins)                   *)
(*   Conf, Take(o), Justice   environment;  Crash, Started;  Stop = the         *)
(*         injected failing write (no effect, the Crash line follows)           *)
(* and after every line the durable state read back from the database (ret,     *)
(* ch, rr) must equal the model's (Conform); the invariants of BreachJustice    *)
(* hold on the recorded run and at End the reference outcome of the             *)
(* uninterrupted run is reached (VerdictInv).                                   *)
EXTENDS BreachJustice, Json, Sequences
VARIABLE l

Trace == ndJsonDeserialize("trace.ndjson")
Last  == Trace[l - 1]
Is(a) == l <= Len(Trace) /\ Trace[l].a = a /\ l' = l + 1
IsW(w) == Is("Write") /\ Trace[l].w = w /\ Trace[l].err = 0
InsSet == {Trace[l].ins[i] : i \in DOMAIN Trace[l].ins}

TInit == Init /\ l = 1
Reset ==
  /\ Is("Reset")
  /\ ret' = FALSE /\ chan' = "open" /\ rrec' = "none" /\ handed' = FALSE
  /\ conf' = FALSE /\ spent' = {} /\ pub' = {}
  /\ up' = TRUE /\ acked' = FALSE /\ watch' = FALSE /\ view' = {} /\ pubd' = FALSE /\ wpc' = "gone" /\ rpc' = "idle"
  /\ ncrash' = 0

TNext ==
  \/ Reset
  \/ Is("Handoff") /\ up /\ UNCHANGED vars
  \/ IsW("Add") /\ Add
  \/ Is("Ack") /\ Trace[l].err = 0 /\ Ack
  \/ Is("MarkPending") /\ Trace[l].err = 0 /\ MarkPending
  \/ Is("InsertRes") /\ Trace[l].err = 0 /\ InsertRes
  \/ Is("Subscribe") /\ Trace[l].err = 0 /\ Trace[l].cp = 0 /\ SubWait
  \/ Is("Subscribe") /\ Trace[l].err = 0 /\ Trace[l].cp = 1 /\ SubDone
  \/ IsW("Checkpoint") /\ Trace[l].r = 1 /\ RCheckpoint
  \/ Is("Publish") /\ InsSet \subseteq Outs /\ \E S \in SUBSET Outs : Publish(S) /\ view' = InsSet
  \/ IsW("MarkFullyClosed") /\ Cleanup1
  \/ IsW("Remove") /\ (Cleanup2 \/ StartRemove)
  \/ Is("Conf") /\ ConfEv
  \/ Is("Take") /\ Take(Trace[l].o)
  \/ Is("Justice") /\ JusticeConf
  \/ Is("Crash") /\ Crash
  \/ Is("Started") /\ Started
  \/ Is("Stop") /\ UNCHANGED vars
  \/ Is("End") /\ UNCHANGED vars
  \/ (l = Len(Trace) + 1 /\ UNCHANGED <<vars, l>>)

TSpec == TInit /\ [][TNext]_<<vars, l>>

Live == l > 1
B(x) == IF x THEN 1 ELSE 0
Conform ==
  Live => /\ Last.ret = B(ret)
          /\ Last.ch = chan
          /\ Last.rr = rrec
VerdictInv == (Live /\ Last.a = "End") => Reference
=============================================================================
