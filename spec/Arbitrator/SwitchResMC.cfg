SPECIFICATION Spec
CONSTANTS
  MaxRestarts = 2
  ReplayIsResolution = TRUE
  MaxSends = 2
INVARIANTS TypeOK SameWay NoContradiction NoLoss Held MarkOk NothingBeforeIssue
CHECK_DEADLOCK FALSE
