----------------------------- MODULE SwitchRes -----------------------------
(* C13, part S: the last leg of "each upstream HTLC is settled or failed    *)
(* back the same way after a restart as in an uninterrupted run, and never  *)
(* gets contradictory resolutions": the contract court's ResolutionMsg for  *)
(* the outgoing HTLC of ONE forwarded payment (incoming link A, outgoing    *)
(* channel B resolved on chain) handed to the htlcswitch.                   *)
(*                                                                          *)
(* Code modelled (htlcswitch/switch.go, resolution_store.go, mailbox.go,    *)
(* circuit_map.go):                                                         *)
(*   Deliver  = Switch.ProcessContractResolution -> htlcForwarder case      *)
(*              resolutionMsgs: resMsgStore.addResolutionMsg (durable),     *)
(*              errChan <- nil (ACK: the resolver checkpoints itself and    *)
(*              never sends again), handlePacketForward(isResolution=true)  *)
(*              -> closeCircuit: circuits.CloseCircuit marks the OPEN       *)
(*              circuit "closing" in memory (a second response is dropped   *)
(*              with ErrCircuitClosing; ErrUnknownCircuit once deleted) ->  *)
(*              handlePacketFail: reason := EncryptFirstHop(FailPermanent-  *)
(*              ChannelFailure) / handlePacketSettle -> mailOrchestrator.   *)
(*              Deliver(incoming chan): the packet is put into link A's     *)
(*              mailbox (or the unclaimed list until AddLink binds it) and  *)
(*              STAYS there, whether or not link A is registered.           *)
(*   Recv     = the mailbox courier hands the packet to the registered      *)
(*              link A (once per link session; AddLink -> link.Start ->     *)
(*              ResetPackets re-delivers un-ACKed packets).                 *)
(*   Teardown = link A, after it got the packet: Switch.teardownCircuit ->  *)
(*              circuits.DeleteCircuits (durable) + mailbox.AckPacket.      *)
(*   LinkDown / LinkUp = Switch.RemoveLink / AddLink of A.                  *)
(*   Restart  = Switch.Stop, DB reopened, New + Start: mailboxes and the    *)
(*              "closing" marks are gone, no link registered;               *)
(*              reforwardResolutions: stored msg whose circuit is still     *)
(*              open -> replayed through the forwarder exactly as Deliver   *)
(*              does; circuit gone -> deleteResolutionMsg.                  *)
(*                                                                          *)
(* `delivered` is what link A (= the upstream peer) was told. In the design *)
(* spec it is what the model's mailbox holds; in SwitchResTrace it is what  *)
(* the REAL link received, so the invariants below judge the real packets.  *)
EXTENDS Naturals, FiniteSets, Sequences
CONSTANTS MaxRestarts, MaxSends,
          ReplayIsResolution   \* TRUE = the code: reforwardResolutions rebuilds the packet with isResolution = true.
                               \* FALSE only in the control SwitchResMCQuirk.cfg, which must break SameWay

VARIABLES kind,      \* "fail" | "settle": how the contract court resolved the outgoing HTLC
          circuit,   \* durable circuit map: "open" | "gone"
          closing,   \* volatile: circuit marked closing (cm.closed) by a response in this process
          store,     \* durable resMsgStore: "none" | "fail" | "settle"
          linkA,     \* "up" | "down": incoming link registered with the switch
          mbox,      \* volatile: packet retained for link A (mailbox / unclaimed list), or None
          handed,    \* the current link session was handed the packet
          delivered, \* set of packets link A has been handed, ever
          acked,     \* the resolver got nil from ProcessContractResolution
          restarts, sends
vars == <<kind, circuit, closing, store, linkA, mbox, handed, delivered, acked, restarts, sends>>

Kinds == {"fail", "settle"}
None  == [kind |-> "none", reason |-> "none", pi |-> 0]
\* the response an uninterrupted run produces (isResolution = TRUE in handlePacketFail)
Pkt(k) == [kind |-> k, reason |-> IF k = "fail" THEN "perm" ELSE "none", pi |-> IF k = "settle" THEN 1 ELSE 0]
\* a fail that is not flagged as a resolution goes through IntermediateEncrypt(nil): no reason the upstream can read
Replayed(k) == IF ReplayIsResolution \/ k # "fail" THEN Pkt(k) ELSE [Pkt(k) EXCEPT !.reason = "unreadable"]

Init == /\ kind \in Kinds /\ circuit = "open" /\ closing = FALSE /\ store = "none"
        /\ linkA \in {"up", "down"} /\ mbox = None /\ handed = FALSE /\ delivered = {}
        /\ acked = FALSE /\ restarts = 0 /\ sends = 0

\* handlePacketForward of a resolution packet of kind k
Forward(k) == IF circuit = "open" /\ ~closing
              THEN closing' = TRUE /\ mbox' = Pkt(k)
              ELSE UNCHANGED <<closing, mbox>>     \* ErrCircuitClosing / ErrUnknownCircuit: dropped

Deliver == /\ sends < MaxSends /\ sends' = sends + 1
           /\ store' = kind /\ acked' = TRUE /\ Forward(kind)
           /\ UNCHANGED <<kind, circuit, linkA, handed, delivered, restarts>>

RecvEnabled == linkA = "up" /\ mbox # None /\ ~handed
RecvPkt(p) == /\ RecvEnabled /\ handed' = TRUE /\ delivered' = delivered \cup {p}
              /\ UNCHANGED <<kind, circuit, closing, store, linkA, mbox, acked, restarts, sends>>
Recv == RecvPkt(mbox)

Teardown == /\ linkA = "up" /\ handed
            /\ circuit' = "gone" /\ closing' = FALSE /\ mbox' = None /\ handed' = FALSE
            /\ UNCHANGED <<kind, store, linkA, delivered, acked, restarts, sends>>

LinkDown == /\ linkA' = "down" /\ handed' = FALSE
            /\ UNCHANGED <<kind, circuit, closing, store, mbox, delivered, acked, restarts, sends>>
LinkUp   == /\ linkA = "down" /\ linkA' = "up" /\ handed' = FALSE
            /\ UNCHANGED <<kind, circuit, closing, store, mbox, delivered, acked, restarts, sends>>

Restart == /\ restarts < MaxRestarts /\ restarts' = restarts + 1
           /\ linkA' = "down" /\ handed' = FALSE
           /\ IF store = "none" THEN closing' = FALSE /\ mbox' = None /\ store' = store
              ELSE IF circuit = "open" THEN closing' = TRUE /\ mbox' = Replayed(store) /\ store' = store
              ELSE closing' = FALSE /\ mbox' = None /\ store' = "none"
           /\ UNCHANGED <<kind, circuit, delivered, acked, sends>>

Next == Deliver \/ Recv \/ Teardown \/ LinkDown \/ LinkUp \/ Restart
Spec == Init /\ [][Next]_vars

TypeOK == /\ kind \in Kinds /\ circuit \in {"open", "gone"} /\ closing \in BOOLEAN
          /\ store \in Kinds \cup {"none"} /\ linkA \in {"up", "down"} /\ handed \in BOOLEAN
          /\ acked \in BOOLEAN /\ mbox \in {None} \cup {Pkt(k) : k \in Kinds}

\* every response the upstream link gets is the one an uninterrupted run gives
SameWay == \A p \in delivered :
             /\ p.kind = kind
             /\ (kind = "fail"   => p.reason = "perm")
             /\ (kind = "settle" => p.reason = "none" /\ p.pi = 1)
NoContradiction == ~(\E p, q \in delivered : p.kind = "fail" /\ q.kind = "settle")
\* an ACKed resolution is never lost while its circuit is open (the resolver never re-sends) ...
NoLoss == (acked /\ circuit = "open") => store = kind
\* ... and while it is open the response is held for link A
Held   == (acked /\ circuit = "open") => mbox = Pkt(kind)
MarkOk == (mbox # None) => (closing /\ circuit = "open")
NothingBeforeIssue == ~acked => delivered = {}
=============================================================================
