SPECIFICATION RepSpec
CONSTANTS
  ChanSets <- MCPairs
  MaxCrashes = 0
  EnvAtomic = TRUE
  CommitBeforeCheckpoint = TRUE
INVARIANTS ReportsBelong
CHECK_DEADLOCK FALSE
