----------------------------- MODULE ChainArbGen -----------------------------
(* Behaviour generator for the start-up layer of C13: simulated behaviours of *)
(* ChainArb with up to NC stops.  The history records per step whether it was *)
(* a durable write ("w"), a stop ("C"), a start ("R"), a sweep confirmation   *)
(* ("d" with channel and contract) or something else; the orchestrator turns  *)
(* a behaviour into a plan for the executor: the channel set, the order in    *)
(* which the sweeps confirm, and per incarnation the number of durable writes *)
(* before the stop (variant A: right after a write, B: after further          *)
(* non-durable effects).                                                      *)
EXTENDS ChainArb, Json
CONSTANTS NC, CrashOdds
VARIABLE hist
GenSets == {{"c1", "c2"}, {"c1", "c3"}, {"c2", "c3"}, {"c1", "c2", "c3"}}

Ev(t, c, k) == [t |-> t, c |-> c, k |-> k, cs |-> chans]
Tag == IF alive /\ ~alive' THEN Ev("C", "", "")
       ELSE IF ~alive /\ alive' THEN Ev("R", "", "")
       ELSE IF spent' # spent THEN LET d == CHOOSE x \in spent' \ spent : TRUE IN Ev("d", d[1], d[2])
       ELSE IF durVars' # durVars THEN Ev("w", "", "") ELSE Ev("x", "", "")

Step == \/ Start
        \/ \E c \in chans :
             \/ ACommit(c) \/ AIns(c) \/ RAnchor(c, FALSE, TRUE) \/ RUp(c) \/ MarkClosed(c, c) \/ Wipe(c)
             \/ \E k \in Kinds : RLaunch(c, k, TRUE) \/ RCheckpoint(c, k, c) \/ RResolve(c, k) \/ SweepDone(c, k)
GInit == Init /\ hist = <<>>
GNext == /\ ~(alive /\ ReferenceOutcome)
         /\ Step \/ (Crash /\ ncrash < NC /\ RandomElement(1..CrashOdds) = 1)
         /\ hist' = Append(hist, Tag)
GSpec == GInit /\ [][GNext]_<<vars, hist>>

Dump == (alive /\ ReferenceOutcome) =>
          ndJsonSerialize("b_" \o ToString(TLCGet("stats").traces) \o ".ndjson", hist)
=============================================================================
