--------------------------- MODULE SwitchResTrace --------------------------
(* Trace validation of the real htlcswitch against SwitchRes.  Every line   *)
(* is one step of the executor (harness/htlcswitch/c13_res_test.go): the    *)
(* step must be the SwitchRes action of that name; the durable state read   *)
(* back after the step (stored resolution messages, open circuits) must be  *)
(* the model's; every packet the REAL incoming link was handed ("Recv") is  *)
(* put into `delivered` as recorded (kind, reason class as the upstream     *)
(* peer can read it, preimage bit), so SameWay / NoContradiction judge the  *)
(* real packets.  A Recv the model has no packet for, or a step taken while *)
(* the model says link A must have been handed a packet (the executor       *)
(* drains link A after every step), is a deadlock at that line.             *)
EXTENDS SwitchRes, Json
VARIABLE l

Trace == ndJsonDeserialize("trace.ndjson")
Last == Trace[l - 1]

TInit == Init /\ l = 1
Is(a) == l <= Len(Trace) /\ Trace[l].a = a /\ l' = l + 1
Step(a) == Is(a) /\ ~RecvEnabled
Noop == UNCHANGED vars

Reset == /\ Step("Reset")
         /\ kind' = Trace[l].kind /\ kind' \in Kinds
         /\ circuit' = "open" /\ closing' = FALSE /\ store' = "none"
         /\ linkA' = "up" /\ mbox' = None /\ handed' = FALSE /\ delivered' = {}
         /\ acked' = FALSE /\ restarts' = 0 /\ sends' = 0

TNext == \/ Reset
         \/ Step("Deliver") /\ Trace[l].e = 0 /\ Trace[l].kind = kind /\ Deliver
         \/ Is("Recv") /\ RecvPkt([kind |-> Trace[l].pk, reason |-> Trace[l].rs, pi |-> Trace[l].pi])
         \/ Step("Teardown") /\ Trace[l].e = 0 /\ Teardown
         \/ Step("Teardown") /\ Trace[l].e = 1 /\ ~(linkA = "up" /\ handed) /\ Noop   \* nothing to tear down: no packet in hand
         \/ Step("LinkDown") /\ LinkDown
         \/ Step("LinkUp") /\ Trace[l].e = 0 /\ LinkUp
         \/ Step("LinkUp") /\ Trace[l].e = 1 /\ linkA = "up" /\ Noop                  \* AddLink: already active
         \/ Step("Restart") /\ Trace[l].e = 0 /\ Restart
         \/ Step("End") /\ Noop
         \/ (l = Len(Trace) + 1 /\ UNCHANGED <<vars, l>>)
TSpec == TInit /\ [][TNext]_<<vars, l>>

Live == l > 1 /\ Last.a # "Reset"
\* durable state read back from the real stores after the step
ConformStore   == Live => /\ Last.st = (IF store = "none" THEN 0 ELSE 1)
                          /\ Last.stk = store
ConformCircuit == Live => Last.op = (IF circuit = "open" THEN 1 ELSE 0)
=============================================================================
