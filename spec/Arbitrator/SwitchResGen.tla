---------------------------- MODULE SwitchResGen ---------------------------
(* Behaviour generator: SwitchRes + the history of the steps taken, one     *)
(* NDJSON file per simulated behaviour.  The executor drains link A after   *)
(* every step, so a pending Recv is taken before anything else; Recv is a   *)
(* consequence, not a step of the schedule (it is logged but the plan keeps *)
(* only the other events).                                                  *)
EXTENDS SwitchRes, Json, TLC
CONSTANTS MaxLen
VARIABLE hist

Ev(a) == [a |-> a, kind |-> kind, link |-> linkA]
Rec(a) == hist' = Append(hist, Ev(a))

GInit == Init /\ hist = <<>>
GNext == /\ Len(hist) < MaxLen
         /\ IF RecvEnabled THEN Recv /\ Rec("Recv")
            ELSE \/ Deliver /\ Rec("Deliver")
                 \/ Teardown /\ Rec("Teardown")
                 \/ linkA = "up" /\ LinkDown /\ Rec("LinkDown")
                 \/ LinkUp /\ Rec("LinkUp")
                 \/ Restart /\ Rec("Restart")
GSpec == GInit /\ [][GNext]_<<vars, hist>>

Dump == (Len(hist) = MaxLen) =>
          ndJsonSerialize("b_" \o ToString(TLCGet("stats").traces) \o ".ndjson", hist)
=============================================================================
