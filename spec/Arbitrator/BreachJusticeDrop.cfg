SPECIFICATION DropSpec
CONSTANTS
  MaxCrashes = 2
INVARIANTS TypeOK ResolvedOnlyAfterJustice ClosedOnlyAfterJustice RetKept
CHECK_DEADLOCK FALSE
