SPECIFICATION EarlySpec
CONSTANTS
  MaxCrashes = 1
INVARIANTS TypeOK ResolvedOnlyAfterJustice ClosedOnlyAfterJustice
CHECK_DEADLOCK FALSE
