SPECIFICATION CrossSpec
CONSTANTS
  ChanSets <- MCPairs
  MaxCrashes = 0
  EnvAtomic = TRUE
  CommitBeforeCheckpoint = TRUE
INVARIANTS ClosedOnlyAfterOwnContracts
CHECK_DEADLOCK FALSE
