------------------------------- MODULE ChainArb -------------------------------
(***************************************************************************)
(* C13, start-up layer (follow-up b13): contractcourt.ChainArbitrator with *)
(* SEVERAL channels that are pending close when the node starts.           *)
(*                                                                          *)
(* spec/Arbitrator/Arbitrator.tla follows ONE channel through its close.   *)
(* This module is the layer above: ChainArbitrator.Start ->                 *)
(* loadPendingCloseChannels creates one ChannelArbitrator per channel that *)
(* is pending close in the channel database, each with its own arbitrator  *)
(* log (scope = chain hash + channel point) and a configuration whose      *)
(* closures (NotifyChannelResolved -> ChainArbitrator.ResolveContract,     *)
(* PutResolverReport, FetchHistoricalChannel) act on "the channel".  The   *)
(* property, per channel: a channel is marked fully closed (and its log    *)
(* wiped) only after all ITS contracts are resolved, the reports of its    *)
(* resolvers are filed under it, its restored resolvers get ITS channel    *)
(* type back (sweep inputs stay signable), and with any number of stops    *)
(* every channel reaches the outcome of the uninterrupted run.             *)
(*                                                                          *)
(* Channels (profiles fixed, the SET of channels is a dimension):          *)
(*   c1  legacy,  contracts {commit}          (our output on their commit) *)
(*   c2  legacy,  contracts {commit, htlc}    (+ an expired offered HTLC)  *)
(*   c3  taproot, contracts {commit, htlc}    (+ our anchor)               *)
(* All were closed by the remote party's commitment; the close handler's   *)
(* three durable writes (LogContractResolutions, InsertConfirmedCommitSet, *)
(* MarkChannelClosed) are the initial state, the log state is still        *)
(* StateDefault: everything from there on is done by the code under the    *)
(* ChainArbitrator, in any interleaving of the channels.                   *)
(*                                                                          *)
(* Durable: pend (closed-channel bucket: pending / fully closed), lstate,  *)
(* hasRes (contract resolutions logged = the log exists), unres (contracts *)
(* bucket: per contract its persisted `resolved` flag), reports (resolver  *)
(* reports filed under a channel: contract kind + the channel whose        *)
(* commitment the reported outpoint is on).  World: sweepReq (sweep        *)
(* requests [channel, outpoint role, signable]), spent.  Volatile: alive,  *)
(* arb (arbitrator object of a channel), mq (the attendant's remaining     *)
(* steps), res (resolver goroutines), rcpc (the ChainArbitrator's          *)
(* resolveContracts goroutine: idle, or the channel whose log it is about  *)
(* to wipe).                                                                *)
(*                                                                          *)
(* Actions that go through a closure of the channel's configuration take   *)
(* the ACTOR and the TARGET channel; the specification only ever uses      *)
(* target = actor (Next), the trace specification takes the target from    *)
(* the recorded database effect and the invariants judge it.               *)
(*                                                                          *)
(* Invariants: ClosedOnlyAfterOwnContracts, WipedOnlyWhenClosed,           *)
(* ReportsBelong, SweepsSignable, UpstreamOnce, action property NoLossProp;*)
(* "same terminal outcome as the uninterrupted run" = deadlock check (only *)
(* Finished may stay for ever).  Measured (ChainArbMC, 4 workers): <= 1    *)
(* stop 1.13 M distinct states / 40 s, <= 3 stops 5.6 M / 2 min 16 s.      *)
(* Controls (ChainArbCross.cfg, ChainArbRep.cfg): a cross-channel          *)
(* notification / report must break the respective invariant.              *)
(***************************************************************************)
EXTENDS Naturals, Sequences, FiniteSets, TLC

CONSTANTS ChanSets,     \* the sets of pending-close channels explored (subsets of AllChans)
          MaxCrashes,
          EnvAtomic,    \* sweeps confirm only while every attendant is idle (as the executor's environment does)
          CommitBeforeCheckpoint  \* assume StateWaitingFullResolution is committed before a resolver checkpoints
                                  \* (finding H3 of Arbitrator.tla: a re-executed StateContractClosed writes fresh
                                  \* resolvers over checkpointed ones); the trace specification does not assume it

VARIABLES chans,
          pend, lstate, hasRes, unres, reports,     \* durable
          sweepReq, spent,                          \* the world
          alive, arb, mq, res, rcpc,                \* volatile
          upstream, ncrash                          \* history

durVars   == <<pend, lstate, hasRes, unres, reports>>
worldVars == <<sweepReq, spent>>
volVars   == <<alive, arb, mq, res, rcpc>>
vars      == <<chans, durVars, worldVars, volVars, upstream, ncrash>>

AllChans == {"c1", "c2", "c3"}
Kinds    == {"commit", "htlc"}
Contracts(c) == IF c = "c1" THEN {"commit"} ELSE {"commit", "htlc"}
Taproot(c)   == c = "c3"
States == {"Default", "ContractClosed", "WaitingFullResolution", "FullyResolved"}

NoRec == [here |-> FALSE, resolved |-> FALSE]
Rec(r) == [here |-> TRUE, resolved |-> r]
NoRes == [pc |-> "none", launched |-> FALSE]
UnresEmptyIn(u, c) == \A k \in Kinds : ~u[c][k].here
UnresEmpty(c) == UnresEmptyIn(unres, c)
Running(c) == alive /\ c \in chans /\ arb[c] = "run"
AllIdle == \A c \in chans : mq[c] = <<>>

SReq(c, op, ok) == [c |-> c, op |-> op, ok |-> ok]
Swept(c, op) == SReq(c, op, TRUE) \in sweepReq
Rep(k, owner) == [k |-> k, own |-> owner]

(* ---- ChainArbitrator.Start ----------------------------------------------- *)
\* the steps a freshly created arbitrator of a pending-close channel has before it (progressStateMachineAfterRestart
\* with the close trigger derived from the close summary)
BootQ(c) == CASE lstate[c] = "Default" -> <<"CC", "Ins", "WFR">>
              [] lstate[c] = "ContractClosed" -> <<"Ins", "WFR">>
              [] lstate[c] = "WaitingFullResolution" -> (IF UnresEmpty(c) THEN <<"FR", "Notify">> ELSE <<>>)
              [] OTHER -> <<"Notify">>
\* relaunchResolvers: a contract persisted as resolved is removed and signalled, the others start again
Restored(c, k) == IF ~unres[c][k].here THEN NoRes
                  ELSE [pc |-> IF unres[c][k].resolved THEN "rm" ELSE "start", launched |-> FALSE]
Start ==
  /\ ~alive /\ alive' = TRUE /\ rcpc' = "idle"
  \* loadPendingCloseChannels: one arbitrator per channel that is pending close - a fully closed channel gets none
  /\ arb' = [c \in AllChans |-> IF c \in chans /\ pend[c] = "pending" THEN "run" ELSE "none"]
  /\ mq'  = [c \in AllChans |-> IF c \in chans /\ pend[c] = "pending" THEN BootQ(c) ELSE <<>>]
  /\ res' = [c \in AllChans |-> [k \in Kinds |->
               IF c \in chans /\ pend[c] = "pending" /\ lstate[c] = "WaitingFullResolution" /\ ~UnresEmpty(c)
               THEN Restored(c, k) ELSE NoRes]]
  /\ UNCHANGED <<chans, durVars, worldVars, upstream, ncrash>>

(* ---- the channel attendant -------------------------------------------------- *)
StateOf(op) == CASE op = "CC" -> "ContractClosed" [] op = "WFR" -> "WaitingFullResolution" [] OTHER -> "FullyResolved"
\* the attendant's queue as it sees it: an idle attendant in StateWaitingFullResolution that receives a
\* resolutionSignal re-examines the contracts bucket and moves on iff it is empty
Signalled(c) == \E k \in Kinds : res[c][k].pc = "signal"
EffQ(c) == IF mq[c] = <<>> /\ lstate[c] = "WaitingFullResolution" /\ Signalled(c) /\ UnresEmpty(c)
           THEN <<"FR", "Notify">> ELSE mq[c]
\* CommitState; stateStep(StateWaitingFullResolution) goes on to StateFullyResolved iff the contracts bucket is empty
ACommit(c) ==
  /\ Running(c) /\ EffQ(c) # <<>> /\ Head(EffQ(c)) \in {"CC", "WFR", "FR"}
  /\ lstate' = [lstate EXCEPT ![c] = StateOf(Head(EffQ(c)))]
  /\ mq' = [mq EXCEPT ![c] = IF Head(EffQ(c)) = "WFR" /\ UnresEmpty(c) THEN <<"FR", "Notify">> ELSE Tail(EffQ(c))]
  /\ res' = [res EXCEPT ![c] = [k \in Kinds |-> IF @[k].pc = "signal" /\ mq[c] = <<>> THEN [@[k] EXCEPT !.pc = "done"]
                                                                                      ELSE @[k]]]
  /\ UNCHANGED <<chans, pend, hasRes, unres, reports, worldVars, alive, arb, rcpc, upstream, ncrash>>

\* StateContractClosed: InsertUnresolvedContracts (fresh resolvers over whatever the bucket holds) + resolveContracts
AIns(c) ==
  /\ Running(c) /\ mq[c] # <<>> /\ Head(mq[c]) = "Ins"
  /\ unres' = [unres EXCEPT ![c] = [k \in Kinds |-> IF k \in Contracts(c) THEN Rec(FALSE) ELSE NoRec]]
  /\ res'   = [res EXCEPT ![c] = [k \in Kinds |-> IF k \in Contracts(c) THEN [pc |-> "start", launched |-> FALSE]
                                                                         ELSE NoRes]]
  /\ mq' = [mq EXCEPT ![c] = Tail(@)]
  /\ UNCHANGED <<chans, pend, lstate, hasRes, reports, worldVars, alive, arb, rcpc, upstream, ncrash>>

(* ---- resolvers ------------------------------------------------------------------ *)
\* Launch: the resolver offers its output to the sweeper; `ok` = the input can be signed (a taproot channel's
\* resolver carries the control block - a restored one only if the restart re-attached it for ITS channel type)
RLaunch(c, k, ok) ==
  /\ Running(c) /\ res[c][k].pc = "start" /\ ~res[c][k].launched
  /\ res' = [res EXCEPT ![c][k].launched = TRUE]
  /\ sweepReq' = sweepReq \cup {SReq(c, k, ok)}
  /\ UNCHANGED <<chans, durVars, spent, alive, arb, mq, rcpc, upstream, ncrash>>
\* the anchor resolver of an anchor-type channel (stateless, re-created at every start; never worth sweeping here)
RAnchor(c, again, ok) ==
  /\ Running(c) /\ Taproot(c) /\ \E k \in Kinds : res[c][k].pc # "none"
  /\ again \/ SReq(c, "anchor", TRUE) \notin sweepReq
  /\ sweepReq' = sweepReq \cup {SReq(c, "anchor", ok)}
  /\ UNCHANGED <<chans, durVars, spent, volVars, upstream, ncrash>>
\* the timeout resolver fails the HTLC back once its sweep has confirmed
RUp(c) ==
  /\ Running(c) /\ res[c]["htlc"].pc = "start" /\ res[c]["htlc"].launched /\ <<c, "htlc">> \in spent
  /\ upstream' = [upstream EXCEPT ![c] = @ \cup {"fail"}]
  /\ res' = [res EXCEPT ![c]["htlc"].pc = "cp"]
  /\ UNCHANGED <<chans, durVars, worldVars, alive, arb, mq, rcpc, ncrash>>
\* final Checkpoint: the resolver is persisted as resolved and, in the same transaction, its report is filed
\* through cfg.PutResolverReport - under channel `rt`
CkptOK(c) == CommitBeforeCheckpoint => lstate[c] # "ContractClosed"
RCheckpoint(c, k, rt) ==
  /\ Running(c) /\ CkptOK(c)
  /\ \/ k = "commit" /\ res[c][k].pc = "start" /\ res[c][k].launched /\ <<c, k>> \in spent
     \/ k = "htlc" /\ res[c][k].pc = "cp"
  /\ unres' = [unres EXCEPT ![c][k] = Rec(TRUE)]
  /\ reports' = [reports EXCEPT ![rt] = @ \cup {Rep(k, c)}]
  /\ res' = [res EXCEPT ![c][k].pc = "rm"]
  /\ UNCHANGED <<chans, pend, lstate, hasRes, worldVars, alive, arb, mq, rcpc, upstream, ncrash>>
\* ResolveContract (log): the contract leaves the bucket, then the resolver raises resolutionSignal
RResolve(c, k) ==
  /\ Running(c) /\ CkptOK(c) /\ res[c][k].pc = "rm"
  /\ unres' = [unres EXCEPT ![c][k] = NoRec]
  /\ res' = [res EXCEPT ![c][k].pc = "signal"]
  /\ UNCHANGED <<chans, pend, lstate, hasRes, reports, worldVars, alive, arb, mq, rcpc, upstream, ncrash>>

(* ---- ChainArbitrator.ResolveContract ------------------------------------------------- *)
NotifyReady(c) == Running(c) /\ mq[c] = <<"Notify">>
\* stateStep(StateFullyResolved) of channel `from` calls cfg.NotifyChannelResolved; the resolveContracts goroutine
\* marks channel `c` fully closed in the channel database and stops c's arbitrator (the hand-over is volatile and
\* fused with the write) ...
MarkClosed(from, c) ==
  /\ NotifyReady(from) /\ rcpc = "idle" /\ c \in chans
  /\ pend' = [pend EXCEPT ![c] = "closed"]
  /\ mq'  = [mq EXCEPT ![from] = <<>>, ![c] = <<>>]
  /\ arb' = [arb EXCEPT ![c] = "stopped"]
  /\ res' = [res EXCEPT ![c] = [k \in Kinds |-> NoRes]]
  /\ rcpc' = c
  /\ UNCHANGED <<chans, lstate, hasRes, unres, reports, worldVars, alive, upstream, ncrash>>
\* ... and then wipes c's arbitrator log
Wipe(c) ==
  /\ alive /\ rcpc = c
  /\ hasRes' = [hasRes EXCEPT ![c] = FALSE]
  /\ lstate' = [lstate EXCEPT ![c] = "Default"]
  /\ unres'  = [unres EXCEPT ![c] = [k \in Kinds |-> NoRec]]
  /\ rcpc' = "idle"
  /\ UNCHANGED <<chans, pend, reports, worldVars, alive, arb, mq, res, upstream, ncrash>>

(* ---- the world ------------------------------------------------------------------------ *)
\* a sweep confirms: only a signable request for exactly that output ever produces a spend
SweepDone(c, k) ==
  /\ c \in chans /\ k \in Contracts(c) /\ Swept(c, k) /\ <<c, k>> \notin spent
  /\ EnvAtomic => AllIdle
  /\ spent' = spent \cup {<<c, k>>}
  /\ UNCHANGED <<chans, durVars, sweepReq, volVars, upstream, ncrash>>

Crash ==
  /\ alive /\ ncrash < MaxCrashes
  /\ alive' = FALSE /\ rcpc' = "idle"
  /\ arb' = [c \in AllChans |-> "none"] /\ mq' = [c \in AllChans |-> <<>>]
  /\ res' = [c \in AllChans |-> [k \in Kinds |-> NoRes]]
  /\ ncrash' = ncrash + 1
  /\ UNCHANGED <<chans, durVars, worldVars, upstream>>

(* ---- outcome --------------------------------------------------------------------------- *)
RefReports(c) == {Rep(k, c) : k \in Contracts(c)}
RefUp(c) == IF "htlc" \in Contracts(c) THEN {"fail"} ELSE {}
\* the outcome of the uninterrupted run, per channel (the log is wiped, or - stop between the two writes of
\* ResolveContract - left behind in its final state; nothing reads it again)
ChanDone(c) == /\ pend[c] = "closed" /\ UnresEmpty(c)
               /\ (~hasRes[c] /\ lstate[c] = "Default") \/ (hasRes[c] /\ lstate[c] = "FullyResolved")
               /\ reports[c] = RefReports(c) /\ upstream[c] = RefUp(c)
ReferenceOutcome == rcpc = "idle" /\ \A c \in chans : ChanDone(c)
Finished == alive /\ ReferenceOutcome /\ UNCHANGED vars

Init ==
  /\ chans \in ChanSets
  /\ pend = [c \in AllChans |-> "pending"] /\ lstate = [c \in AllChans |-> "Default"]
  /\ hasRes = [c \in AllChans |-> TRUE] /\ unres = [c \in AllChans |-> [k \in Kinds |-> NoRec]]
  /\ reports = [c \in AllChans |-> {}]
  /\ sweepReq = {} /\ spent = {}
  /\ alive = FALSE /\ arb = [c \in AllChans |-> "none"] /\ mq = [c \in AllChans |-> <<>>]
  /\ res = [c \in AllChans |-> [k \in Kinds |-> NoRes]] /\ rcpc = "idle"
  /\ upstream = [c \in AllChans |-> {}] /\ ncrash = 0

Next ==
  \/ Start \/ Crash \/ Finished
  \/ \E c \in chans :
       \/ ACommit(c) \/ AIns(c) \/ RAnchor(c, FALSE, TRUE) \/ RUp(c) \/ MarkClosed(c, c) \/ Wipe(c)
       \/ \E k \in Kinds : RLaunch(c, k, TRUE) \/ RCheckpoint(c, k, c) \/ RResolve(c, k)
                           \/ SweepDone(c, k)
Spec == Init /\ [][Next]_vars

(* ---- the property ------------------------------------------------------------------------ *)
\* a channel is marked fully closed only after all ITS contracts are resolved (and its own state machine is done)
ClosedOnlyAfterOwnContracts ==
  \A c \in chans : pend[c] = "closed" => UnresEmpty(c) /\ (lstate[c] = "FullyResolved" \/ ~hasRes[c])
\* a log is wiped only once its channel has left the set of pending-close channels
WipedOnlyWhenClosed == \A c \in chans : ~hasRes[c] => pend[c] = "closed"
\* the reports filed under a channel are those of its own contracts
ReportsBelong == \A c \in AllChans : \A r \in reports[c] : c \in chans /\ r.own = c /\ r.k \in Contracts(c)
\* every input handed to the sweeper can be signed
SweepsSignable == \A q \in sweepReq : q.ok
UpstreamOnce == \A c \in chans : upstream[c] \subseteq RefUp(c)
\* no contract and no checkpointed progress is lost: a record leaves the bucket only once it is persisted as
\* resolved (or with the wipe of a fully closed channel), and never goes back to unresolved
NoLoss == \A c \in chans : \A k \in Kinds :
            unres[c][k].here =>
              /\ ~unres'[c][k].here => (unres[c][k].resolved \/ pend[c] = "closed")
              /\ unres'[c][k].here => (unres[c][k].resolved => unres'[c][k].resolved)
NoLossProp == [][NoLoss]_vars
TypeOK == /\ chans \subseteq AllChans
          /\ \A c \in AllChans : pend[c] \in {"pending", "closed"} /\ lstate[c] \in States
          /\ rcpc \in AllChans \cup {"idle"} /\ ncrash \in 0..MaxCrashes
=============================================================================
