SPECIFICATION Spec
CONSTANTS
  Scenarios = {"local", "remote", "localfar", "contest", "rcontest", "claim", "success", "breach", "coop", "shift", "rshift", "alocal", "aremote", "acontest", "arcontest", "aclaim", "asuccess", "tlocal", "tremote", "tcontest", "trcontest", "tclaim", "tsuccess"}
  MaxCrashes = 2
  F8Fixed = TRUE
  F9Fixed = TRUE
  FccFixed = TRUE
  CommitBeforeCheckpoint = TRUE
  EnvAtomic = TRUE
INVARIANTS TypeOK ResolvedOnlyWhenEmpty MarkedOnlyWhenResolved NoPendingCloseWithEmptyLog UpstreamConsistent SweepsSignable
PROPERTIES NoLossProp
VIEW View
CHECK_DEADLOCK TRUE
