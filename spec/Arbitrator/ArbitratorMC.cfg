SPECIFICATION Spec
CONSTANTS
  Scenarios = {"local", "remote", "localfar", "contest", "claim", "success", "breach", "coop", "shift", "rshift"}
  MaxCrashes = 2
  F8Fixed = TRUE
  F9Fixed = TRUE
  FccFixed = TRUE
  CommitBeforeCheckpoint = TRUE
  EnvAtomic = TRUE
INVARIANTS TypeOK ResolvedOnlyWhenEmpty MarkedOnlyWhenResolved NoPendingCloseWithEmptyLog UpstreamConsistent
PROPERTIES NoLossProp
VIEW View
CHECK_DEADLOCK TRUE
