---------------------------- MODULE BreachJustice ----------------------------
(* C13, part B: the breach scenario's terminal outcome with BOTH sides of the  *)
(* hand-off restarted - the BreachArbitrator (contractcourt/breach_arbitrator  *)
(* .go: handleBreachHandoff, start() with its reconciliation of the            *)
(* retribution store against closed channels, exactRetribution, cleanupBreach) *)
(* and the channel arbitrator's breachResolver (breach_resolver.go: Resolve -> *)
(* SubscribeBreachComplete -> Checkpoint(resolved)).  In the main module       *)
(* (Arbitrator.tla) the breach arbitrator is one world bit `breachDone`; here  *)
(* it is the real subsystem with its own durable store.                        *)
(*                                                                             *)
(* Durable state (what the code keeps on disk):                                *)
(*   ret   retribution record of the channel in the RetributionStore           *)
(*   chan  channeldb: "open" | "pending" (CloseChannel, IsPending) | "closed"  *)
(*         (MarkChanFullyClosed)                                               *)
(*   rrec  the breach resolver's record in the arbitrator log's contracts      *)
(*         bucket: "none" | "unres" | "res" (checkpointed resolved = true)     *)
(* World: conf (breach tx confirmed), spent (breached outputs spent on chain), *)
(*   pub (inputs of the justice tx published last - the mempool survives us).  *)
(* Volatile (lost by a stop): up, acked (hand-off ACKed: the close observer    *)
(*   may mark the channel pending), watch (an exactRetribution goroutine       *)
(*   exists), view (its in-memory set of outputs still to sweep), pubd (it has *)
(*   published once), wpc (its pc inside cleanupBreach), rpc (the resolver).   *)
(*                                                                             *)
(* One action per critical section: Add (Store.Add + goroutine), Ack/AckDup,   *)
(* MarkPending, InsertRes, SubWait/SubDone (SubscribeBreachComplete), Publish  *)
(* (createJusticeTx of the current view after having seen a set S of spends),  *)
(* Cleanup1 (MarkChanFullyClosed), Cleanup2 (Store.Remove + notify),           *)
(* RCheckpoint, Crash, StartRemove (start(): retribution of a FULLY closed     *)
(* channel is dropped), Started (start(): one exactRetribution per remaining   *)
(* retribution); environment: ConfEv, Take(o) (the counterparty spends a       *)
(* commitment output itself), JusticeConf (the justice tx published last       *)
(* confirms: spends all its inputs).                                           *)
(*                                                                             *)
(* Invariants (from the property statement):                                   *)
(*   ResolvedOnlyAfterJustice  the breach contract is checkpointed resolved    *)
(*        only after every breached output is spent ("marked fully resolved    *)
(*        only after all contracts are resolved")                              *)
(*   ClosedOnlyAfterJustice    the same for MarkChanFullyClosed                *)
(*   RetKept   a handed-off retribution stays in the store until the channel   *)
(*        is fully closed ("resumes from the recorded stage": the record IS    *)
(*        the stage of the breach arbitrator)                                  *)
(*   CHECK_DEADLOCK: a behaviour that can go no further has reached the        *)
(*        reference outcome of the uninterrupted run (Reference).              *)
(* Assumption EnvPending: outputs are spent on chain only once the channel is  *)
(* marked pending (the ACK -> CloseChannel step is immediate, spends take      *)
(* blocks); without it cleanupBreach can run into an OPEN channel.             *)
EXTENDS Naturals, FiniteSets
CONSTANTS MaxCrashes
VARIABLES ret, chan, rrec, handed,                \* durable (+ history bit handed)
          conf, spent, pub,                       \* world
          up, acked, watch, view, pubd, wpc, rpc, \* volatile
          ncrash

durVars == <<ret, chan, rrec, handed>>
worldVars == <<conf, spent, pub>>
volVars == <<up, acked, watch, view, pubd, wpc, rpc>>
vars == <<durVars, worldVars, volVars, ncrash>>

Outs == {"local", "remote", "htlc"}

TypeOK ==
  /\ ret \in BOOLEAN /\ chan \in {"open", "pending", "closed"} /\ rrec \in {"none", "unres", "res"}
  /\ handed \in BOOLEAN /\ conf \in BOOLEAN /\ spent \subseteq Outs /\ pub \subseteq Outs
  /\ up \in BOOLEAN /\ acked \in BOOLEAN /\ watch \in BOOLEAN /\ view \subseteq Outs /\ pubd \in BOOLEAN
  /\ wpc \in {"run", "remove", "gone"} /\ rpc \in {"idle", "waiting", "complete", "notified", "done"}
  /\ ncrash \in 0..MaxCrashes

Init ==
  /\ ret = FALSE /\ chan = "open" /\ rrec = "none" /\ handed = FALSE
  /\ conf = FALSE /\ spent = {} /\ pub = {}
  /\ up = TRUE /\ acked = FALSE /\ watch = FALSE /\ view = {} /\ pubd = FALSE /\ wpc = "gone" /\ rpc = "idle"
  /\ ncrash = 0

\* ---------------------------------------------------------------- hand-off (handleBreachHandoff)
\* Store.Add, then the conf registration and the exactRetribution goroutine
Add ==
  /\ up /\ chan = "open" /\ ~ret /\ ~acked
  /\ ret' = TRUE /\ handed' = TRUE
  /\ watch' = TRUE /\ view' = Outs /\ pubd' = FALSE /\ wpc' = "run"
  /\ UNCHANGED <<chan, rrec, worldVars, up, acked, rpc, ncrash>>
\* ProcessACK(nil): after Add, or at once when the store already knows the breach
Ack ==
  /\ up /\ chan = "open" /\ ret /\ ~acked
  /\ acked' = TRUE
  /\ UNCHANGED <<durVars, worldVars, up, watch, view, pubd, wpc, rpc, ncrash>>
\* the close observer, after the ACK: CloseChannel(BreachClose, IsPending)
MarkPending ==
  /\ up /\ acked /\ chan = "open"
  /\ chan' = "pending"
  /\ UNCHANGED <<ret, rrec, handed, worldVars, volVars, ncrash>>
\* the channel arbitrator writes the breach resolver (StateContractClosed)
InsertRes ==
  /\ up /\ chan # "open" /\ rrec = "none"
  /\ rrec' = "unres"
  /\ UNCHANGED <<ret, chan, handed, worldVars, volVars, ncrash>>

\* ---------------------------------------------------------------- breachResolver.Resolve
SubWait ==
  /\ up /\ rrec = "unres" /\ rpc = "idle" /\ ret
  /\ rpc' = "waiting"
  /\ UNCHANGED <<durVars, worldVars, up, acked, watch, view, pubd, wpc, ncrash>>
SubDone ==
  /\ up /\ rrec = "unres" /\ rpc = "idle" /\ ~ret
  /\ rpc' = "complete"
  /\ UNCHANGED <<durVars, worldVars, up, acked, watch, view, pubd, wpc, ncrash>>
RCheckpoint ==
  /\ up /\ rrec = "unres" /\ rpc \in {"complete", "notified"}
  /\ rrec' = "res" /\ rpc' = "done"
  /\ UNCHANGED <<ret, chan, handed, worldVars, up, acked, watch, view, pubd, wpc, ncrash>>

\* ---------------------------------------------------------------- exactRetribution
\* (re)create and publish the justice tx for the outputs still in view, after having seen the spends S
Publish(S) ==
  /\ up /\ watch /\ wpc = "run" /\ conf
  /\ S \subseteq (view \cap spent)
  /\ (S = {}) = (~pubd)
  /\ view \ S # {}
  /\ view' = view \ S /\ pub' = view \ S /\ pubd' = TRUE
  /\ UNCHANGED <<durVars, conf, spent, up, acked, watch, wpc, rpc, ncrash>>
\* every remaining output seen spent: cleanupBreach, first write
Cleanup1 ==
  /\ up /\ watch /\ wpc = "run" /\ conf /\ pubd /\ view \subseteq spent
  /\ chan' = "closed" /\ wpc' = "remove" /\ view' = {}
  /\ UNCHANGED <<ret, rrec, handed, worldVars, up, acked, watch, pubd, rpc, ncrash>>
\* cleanupBreach, second write + notifyBreachComplete
Cleanup2 ==
  /\ up /\ watch /\ wpc = "remove"
  /\ ret' = FALSE /\ wpc' = "gone" /\ watch' = FALSE
  /\ rpc' = IF rpc = "waiting" THEN "notified" ELSE rpc
  /\ UNCHANGED <<chan, rrec, handed, worldVars, up, acked, view, pubd, ncrash>>

\* ---------------------------------------------------------------- environment
ConfEv == ~conf /\ handed /\ conf' = TRUE /\ UNCHANGED <<durVars, spent, pub, volVars, ncrash>>
EnvPending == chan = "pending"
Take(o) ==
  /\ conf /\ EnvPending /\ o \in {"local", "remote"} /\ o \notin spent
  /\ spent' = spent \cup {o}
  /\ UNCHANGED <<durVars, conf, pub, volVars, ncrash>>
JusticeConf ==
  /\ conf /\ EnvPending /\ pub # {} /\ pub \cap spent = {}
  /\ spent' = spent \cup pub
  /\ UNCHANGED <<durVars, conf, pub, volVars, ncrash>>

\* ---------------------------------------------------------------- stop / start
Crash ==
  /\ up /\ ncrash < MaxCrashes
  /\ up' = FALSE /\ acked' = FALSE /\ watch' = FALSE /\ view' = {} /\ pubd' = FALSE /\ wpc' = "gone" /\ rpc' = "idle"
  /\ ncrash' = ncrash + 1
  /\ UNCHANGED <<durVars, worldVars>>
\* start(): the retribution of a channel that is FULLY closed (not pending) is finished business
StartRemove ==
  /\ ~up /\ ret /\ chan = "closed"
  /\ ret' = FALSE
  /\ UNCHANGED <<chan, rrec, handed, worldVars, volVars, ncrash>>
\* start(): one exactRetribution goroutine per retribution that is left
Started ==
  /\ ~up /\ ~(ret /\ chan = "closed")
  /\ up' = TRUE /\ watch' = ret /\ view' = (IF ret THEN Outs ELSE {}) /\ pubd' = FALSE
  /\ wpc' = (IF ret THEN "run" ELSE "gone")
  /\ UNCHANGED <<durVars, worldVars, acked, rpc, ncrash>>

Reference == chan = "closed" /\ ~ret /\ rrec = "res" /\ spent = Outs /\ up
Done == Reference /\ UNCHANGED vars

Next == Add \/ Ack \/ MarkPending \/ InsertRes \/ SubWait \/ SubDone \/ RCheckpoint
        \/ (\E S \in SUBSET Outs : Publish(S)) \/ Cleanup1 \/ Cleanup2
        \/ ConfEv \/ (\E o \in Outs : Take(o)) \/ JusticeConf
        \/ Crash \/ StartRemove \/ Started \/ Done
Spec == Init /\ [][Next]_vars

\* ---------------------------------------------------------------- invariants
ResolvedOnlyAfterJustice == rrec = "res" => spent = Outs
ClosedOnlyAfterJustice == chan = "closed" => spent = Outs
RetKept == (handed /\ chan # "closed") => ret
=============================================================================
