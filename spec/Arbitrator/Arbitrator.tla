------------------------------ MODULE Arbitrator ------------------------------
(***************************************************************************)
(* C13  Contract resolution survives restarts.                              *)
(*                                                                          *)
(* One channel under contractcourt.ChannelArbitrator, structured like the   *)
(* code: the attendant goroutine works through a queue of steps (`mq`) -    *)
(* one step per durable write or externally visible effect of              *)
(* advanceState/stateStep and of the close-event handlers -, every         *)
(* contract resolver is a goroutine of its own with a program counter, the *)
(* world (chain, rest of the node) produces events, and Crash/Restart are  *)
(* ordinary actions: Crash is enabled in EVERY state of a live node, from  *)
(* the very first step of a close (crash point 0).                          *)
(*                                                                          *)
(* Durable state: the arbitrator log (logState, hasRes = contract          *)
(* resolutions, hasCS = confirmed commit set, unres = contracts bucket: a  *)
(* record per resolver key with kind, persisted stage and persisted        *)
(* `resolved` flag - presence in the bucket and the flag are separate) and *)
(* the durable facts the rest of the node keeps (closedDb = channel marked *)
(* closed, bmark = commitment marked broadcast, nursery request, final     *)
(* HTLC outcomes, witness cache, resolvedDb = channel marked fully closed).*)
(*                                                                          *)
(* Three places where the code deviates from the property are named and    *)
(* can be switched to the repaired behaviour:                               *)
(*   F8Fixed  - a restored resolver that is persisted as resolved is       *)
(*              removed and signalled (code: skipped, never removed);      *)
(*   F9Fixed  - the dust fail-back of a user/chain triggered close is      *)
(*              delivered after CommitState(BroadcastCommit) (code: before *)
(*              the first durable write);                                   *)
(*   (H3: re-executing StateContractClosed writes fresh resolvers over      *)
(*    records that were already swapped/checkpointed - reachable only if a  *)
(*    resolver checkpoints before StateWaitingFullResolution is committed;  *)
(*    CommitBeforeCheckpoint assumes it away, the trace spec does not.)     *)
(* Channel type (follow-up b13): a scenario is a close scenario x a channel *)
(* type (legacy / anchor = zero-fee second level / taproot), the type is    *)
(* part of the scenario name ("alocal" = anchor local force close, "tclaim" *)
(* = taproot remote close with a contested HTLC that the peer claims ...).  *)
(* For zero-fee types the second-level transactions go through the sweeper  *)
(* (sweep requests instead of the nursery), the transaction that confirms   *)
(* is a sweeper-re-signed one, so the second-level output that exists on    *)
(* chain ("out2"/"in2") is NOT the output of the pre-signed transaction     *)
(* ("pre2"/"prein2", which never exists).  The chain model is faithful      *)
(* about outpoints: `Exists(op)` says which outpoints a resolver can wait   *)
(* for, a spend is only produced for a signable sweep request of exactly    *)
(* that outpoint (sweepReq is a set of [op, ok] records, ok = the input     *)
(* carries what is needed to sign it - for taproot channels the control     *)
(* block that the resolver encoding does not persist and the restart must   *)
(* re-attach from the taproot briefcase).  Invariant SweepsSignable.        *)
(*                                                                          *)
(*   FccFixed - a restart in StateContractClosed re-derives the close      *)
(*              trigger (code: uses chainTrigger, whose classification is  *)
(*              EMPTY unless some HTLC is within the broadcast delta at    *)
(*              the closing height, so no resolver is created at all).     *)
(***************************************************************************)
EXTENDS Naturals, Sequences, FiniteSets, TLC

CONSTANTS Scenarios,               \* subset of the scenario names below
          MaxCrashes,              \* bound on Crash steps per behaviour
          F8Fixed, F9Fixed, FccFixed,
          CommitBeforeCheckpoint,  \* assume StateWaitingFullResolution is committed before a resolver checkpoints (H3)
          EnvAtomic                \* chain events only arrive while the attendant is idle

VARIABLES scen,
          logState, hasRes, hasCS, unres, wiped,                  \* durable: arbitrator log
          closedDb, bmark, nursery, resolvedDb, finalOut, preimg, \* durable: rest of the node
          late, vlate, published, sweepReq, spent1, spent2, spentIn, breachDone, userAsked, \* the world
          alive, state, mq, tg, res, pendUser, pendClose, closeSent, rcpc, \* volatile
          upstream, ncrash, quirks, nw                            \* history / bookkeeping

logVars   == <<logState, hasRes, hasCS, unres, wiped>>
extVars   == <<closedDb, bmark, nursery, resolvedDb, finalOut, preimg>>
worldVars == <<late, vlate, published, sweepReq, spent1, spent2, spentIn, breachDone, userAsked>>
volVars   == <<alive, state, mq, tg, res, pendUser, pendClose, closeSent, rcpc>>
histVars  == <<upstream, ncrash, quirks, nw>>
vars      == <<scen, logVars, extVars, worldVars, volVars, histVars>>

\* close scenarios; "rcontest": remote force close with an offered HTLC that is not yet expired (contested, then
\* timed out by the direct sweep)
BaseScenarios == {"local", "remote", "localfar", "contest", "rcontest", "claim", "success", "breach", "coop",
                  "shift", "rshift"}
\* ... x channel type: the scenarios with HTLC outputs on an anchor (zero-fee HTLC) resp. simple-taproot channel
AnchorScen == {"alocal", "aremote", "acontest", "arcontest", "aclaim", "asuccess"}
TapScen    == {"tlocal", "tremote", "tcontest", "trcontest", "tclaim", "tsuccess"}
AllScenarios == BaseScenarios \cup AnchorScen \cup TapScen
Base(s) == CASE s \in {"alocal", "tlocal"} -> "local"
             [] s \in {"aremote", "tremote"} -> "remote"
             [] s \in {"acontest", "tcontest"} -> "contest"
             [] s \in {"arcontest", "trcontest"} -> "rcontest"
             [] s \in {"aclaim", "tclaim"} -> "claim"
             [] s \in {"asuccess", "tsuccess"} -> "success"
             [] OTHER -> s
bs == Base(scen)
CType == IF scen \in AnchorScen THEN "anchor" ELSE IF scen \in TapScen THEN "taproot" ELSE "legacy"
\* second-level HTLC transactions are signed SINGLE|ANYONECANPAY and handed to the sweeper
ZeroFee == CType # "legacy"
\* offered with output, offered dust, received dust, received with output (preimage known), and "n": a newer offered
\* HTLC that is only on a commitment that did NOT confirm (an update was in flight at close time) - there it takes
\* output 0 and shifts "o" to output 1, so the output layouts of the commitments in the CommitSet differ
HTLCs == {"o", "od", "id", "i", "n"}
Rid   == {"o", "i", "b"}            \* resolver keys: HTLC o, HTLC i, breach
States == {"Default", "BroadcastCommit", "CommitmentBroadcasted", "ContractClosed",
           "WaitingFullResolution", "FullyResolved"}

(* ---- scenario parameters ------------------------------------------------ *)
Kind == CASE bs \in {"local", "localfar", "contest", "success", "shift"} -> "local"
          [] bs \in {"remote", "rcontest", "claim", "rshift"} -> "remote"
          [] bs = "breach" -> "breach"
          [] OTHER -> "coop"
UserCloses == bs \in {"local", "localfar", "contest", "success", "shift"}
HasOD == bs # "coop"
HasID == bs \notin {"coop", "success"}
HasO  == bs \in {"local", "remote", "contest", "rcontest", "claim", "breach", "shift", "rshift"}
HasN  == bs \in {"shift", "rshift"}
HasI  == bs = "success"
\* some HTLC is within the broadcast delta from the closing height on
Near  == bs \in {"local", "remote", "breach", "shift", "rshift"}
\* HTLC o has expired (for the arbitrator's classification) when the commitment confirms
ExpiredAtClose == bs \in {"local", "remote", "breach", "shift", "rshift"}
\* the chain trigger in StateDefault finds something to do
ChainFires == (Near /\ late) \/ (bs \in {"contest", "rcontest", "claim"} /\ vlate)
CloseTrig == Kind          \* localCloseTrigger / remoteCloseTrigger / breachCloseTrigger / coopCloseTrigger
Confirmed == late /\ (published \/ Kind # "local")

NoRec == [kind |-> "none", stage |-> 0, resolved |-> FALSE]
NoRes == [kind |-> "none", stage |-> 0, resolved |-> FALSE, pc |-> "none", launched |-> FALSE]
Rec(k, s, r) == [kind |-> k, stage |-> s, resolved |-> r]
UnresEmpty == \A r \in Rid : unres[r] = NoRec
\* progress of a persisted resolver record: swapped, first stage done, resolved
Rank(rec) == (CASE rec.kind \in {"contest", "incontest"} -> 0 [] OTHER -> 4)
             + 2 * rec.stage + (IF rec.resolved THEN 1 ELSE 0)

NewRids == (IF HasO THEN {"o"} ELSE {}) \cup (IF HasI THEN {"i"} ELSE {})
FreshKind(r) == CASE r = "o" -> (IF ExpiredAtClose THEN "timeout" ELSE "contest")
                  [] r = "i" -> "incontest"
                  [] OTHER -> "breach"
Fresh(r)    == Rec(FreshKind(r), 0, FALSE)
FreshVol(r) == [kind |-> FreshKind(r), stage |-> 0, resolved |-> FALSE, pc |-> "start", launched |-> FALSE]
Restored(r) == IF unres[r] = NoRec THEN NoRes
               ELSE [kind |-> unres[r].kind, stage |-> unres[r].stage, resolved |-> unres[r].resolved,
                     pc |-> IF unres[r].resolved THEN (IF F8Fixed THEN "rm" ELSE "dead") ELSE "start",
                     launched |-> FALSE]

(* ---- the attendant's step queue ---------------------------------------------- *)
Op(o, a, s) == [op |-> o, a |-> a, s |-> s]
StepOp == Op("Step", "", {})
Go(s)  == <<Op("Commit", s, {}), StepOp>>
Dust   == IF HasOD THEN <<Op("Ups", "fail", {"od"})>> ELSE <<>>
AfterClose(t) == IF t = "coop" THEN "FullyResolved" ELSE "ContractClosed"
\* the chain-triggered classification of a restart in StateContractClosed is complete only if ...
Full(t) == FccFixed \/ t # "chain" \/ Near

ClosedOps(t) ==
  IF Kind = "breach"
  THEN <<Op("Ups", "fail", (IF HasO THEN {"o"} ELSE {}) \cup (IF HasOD THEN {"od"} ELSE {})),
         Op("InsUnres", "", {"b"})>> \o Go("WaitingFullResolution")
  ELSE (IF Full(t) /\ HasID THEN <<Op("Final", "id", {})>> ELSE <<>>)
       \* an HTLC that is only on a commitment that did not confirm is failed back now (HtlcFailDanglingAction)
       \o (IF Full(t) /\ HasN THEN <<Op("Ups", "fail", {"n"})>> ELSE <<>>)
       \o <<Op("InsUnres", IF Full(t) THEN "" ELSE "partial", IF Full(t) THEN NewRids ELSE {})>>
       \o Go("WaitingFullResolution")

\* stateStep(st, trigger) as the list of its writes/effects (StateWaitingFullResolution reads the
\* contracts bucket and is evaluated lazily, see EffQ)
StepOps(st, t) ==
  CASE st = "Default" ->
         IF t \in {"chain", "user"}
         THEN IF t = "chain" /\ ~ChainFires THEN <<>>
              ELSE (IF F9Fixed THEN <<>> ELSE Dust) \o Go("BroadcastCommit")
         ELSE Dust \o Go(AfterClose(t))
    [] st = "BroadcastCommit" ->
         IF t \in {"chain", "user"}
         THEN (IF F9Fixed THEN Dust ELSE <<>>)
              \o <<Op("MarkB", "", {}), Op("Publish", "", {})>> \o Go("CommitmentBroadcasted")
         ELSE Go(AfterClose(t))
    [] st = "CommitmentBroadcasted" ->
         IF t \in {"chain", "user"} THEN <<>> ELSE Go(AfterClose(t))
    [] st = "ContractClosed" -> ClosedOps(t)
    [] st = "FullyResolved" -> <<Op("NotifyResolved", "", {})>>
    [] OTHER -> <<>>

Norm(q, st, t) == IF q # <<>> /\ Head(q) = StepOp /\ st # "WaitingFullResolution"
                  THEN StepOps(st, t) \o Tail(q) ELSE q

\* the queue as the attendant sees it: a pending stateStep(StateWaitingFullResolution) is decided by
\* the contracts bucket at the moment the attendant moves on
EffQ == IF mq # <<>> /\ Head(mq) = StepOp
        THEN (IF UnresEmpty THEN Go("FullyResolved") ELSE <<>>)
        ELSE mq

Srcs == {"cont", "close", "user", "chain", "signal"}
TrigOf(src) == CASE src = "cont" -> tg [] src = "user" -> "user" [] src = "close" -> CloseTrig
                 [] OTHER -> "chain"
\* the work the attendant picks up: continue the current handler, or - when idle - an event
Begin(src) ==
  CASE src = "cont" -> EffQ
    [] src = "close" ->
         IF EffQ = <<>> /\ pendClose
         THEN (IF Kind = "coop" THEN <<Op("MarkClosed", "", {})>>
               ELSE <<Op("LogRes", "", {}), Op("InsCS", "", {}), Op("MarkClosed", "", {})>>) \o <<StepOp>>
         ELSE <<>>
    [] src = "user" ->
         IF EffQ = <<>> /\ pendUser /\ ~pendClose /\ state = "Default"
         THEN Norm(<<StepOp>>, state, "user") ELSE <<>>
    [] src = "chain" ->
         IF EffQ = <<>> /\ ~pendUser /\ ~pendClose /\ state = "Default"
         THEN Norm(<<StepOp>>, state, "chain") ELSE <<>>
    [] OTHER ->  \* resolutionSignal
         IF EffQ = <<>> /\ mq = <<>> /\ state = "WaitingFullResolution" /\ UnresEmpty
            /\ \E r \in Rid : res[r].pc = "signal"
         THEN Go("FullyResolved") ELSE <<>>

ResAfter(src) == IF src = "signal"
                 THEN LET r == CHOOSE x \in Rid : res[x].pc = "signal" IN [res EXCEPT ![r].pc = "done"]
                 ELSE res
\* bookkeeping common to every attendant step
Took(src, rest, st) ==
  /\ mq' = Norm(rest, st, TrigOf(src))
  /\ tg' = TrigOf(src)
  /\ pendUser' = (pendUser /\ src # "user")
  /\ pendClose' = (pendClose /\ src # "close")
  /\ UNCHANGED <<alive, closeSent, scen, ncrash>>
\* rcpc: the ChainArbitrator goroutine that executes ResolveContract for this channel
\* (once the channel is fully closed in the channel db its arbitrator is stopped / never created again)
Head1(src, name) == alive /\ ~resolvedDb /\ Begin(src) # <<>> /\ Head(Begin(src)).op = name

MUps(src, h) ==
  /\ Head1(src, "Ups")
  /\ LET q == Begin(src)  o == Head(q) IN
     /\ h \in o.s
     /\ upstream' = [upstream EXCEPT ![h] = @ \cup {o.a}]
     /\ Took(src, IF o.s = {h} THEN Tail(q) ELSE <<Op("Ups", o.a, o.s \ {h})>> \o Tail(q), state)
  /\ res' = ResAfter(src)
  /\ UNCHANGED <<logVars, extVars, worldVars, state, quirks, nw, rcpc>>

MCommit(src) ==
  /\ Head1(src, "Commit")
  /\ LET q == Begin(src)  o == Head(q) IN
     /\ logState' = o.a /\ state' = o.a
     /\ Took(src, Tail(q), o.a)
  /\ res' = ResAfter(src) /\ nw' = nw + 1
  /\ UNCHANGED <<hasRes, hasCS, unres, wiped, extVars, worldVars, upstream, quirks, rcpc>>

\* durable writes of the attendant outside / inside the log that set one flag
MFlag(src, name) ==
  /\ Head1(src, name)
  /\ Took(src, Tail(Begin(src)), state)
  /\ res' = ResAfter(src) /\ nw' = nw + 1
  /\ bmark'      = (bmark \/ name = "MarkB")
  /\ hasRes'     = (hasRes \/ name = "LogRes")
  /\ hasCS'      = (hasCS \/ name = "InsCS")
  /\ closedDb'   = (closedDb \/ name = "MarkClosed")
  /\ UNCHANGED <<logState, unres, wiped, nursery, resolvedDb, finalOut, preimg, worldVars, state, upstream,
                 quirks, rcpc>>
MMarkB(src)      == MFlag(src, "MarkB")
MLogRes(src)     == MFlag(src, "LogRes")
MInsCS(src)      == MFlag(src, "InsCS")
MMarkClosed(src) == MFlag(src, "MarkClosed")

\* stateStep(StateFullyResolved): NotifyChannelResolved hands the channel to the ChainArbitrator, whose
\* ResolveContract FIRST marks the channel fully closed in the channel db (so that no arbitrator is ever
\* created for it again) - the hand-off itself is volatile and is fused with that write - and only then
\* wipes the arbitrator log (RCWipe)
MNotify(src) ==
  /\ Head1(src, "NotifyResolved") /\ rcpc = "idle"
  /\ Took(src, Tail(Begin(src)), state)
  /\ res' = ResAfter(src) /\ nw' = nw + 1
  /\ resolvedDb' = TRUE /\ rcpc' = "wipe"
  /\ UNCHANGED <<logVars, closedDb, bmark, nursery, finalOut, preimg, worldVars, state, upstream, quirks>>

MPublish(src) ==
  /\ Head1(src, "Publish")
  /\ Took(src, Tail(Begin(src)), state)
  /\ res' = ResAfter(src) /\ published' = TRUE
  /\ UNCHANGED <<logVars, extVars, late, vlate, sweepReq, spent1, spent2, spentIn, breachDone, userAsked,
                 state, upstream, quirks, nw, rcpc>>

MFinal(src) ==
  /\ Head1(src, "Final")
  /\ finalOut' = [finalOut EXCEPT ![Head(Begin(src)).a] = "failed"]
  /\ Took(src, Tail(Begin(src)), state)
  /\ res' = ResAfter(src) /\ nw' = nw + 1
  /\ UNCHANGED <<logVars, closedDb, bmark, nursery, resolvedDb, preimg, worldVars, state, upstream, quirks, rcpc>>

\* InsertUnresolvedContracts + resolveContracts: fresh resolvers are written OVER whatever the bucket
\* holds under their keys, the active set is replaced, one goroutine per resolver is started
MInsUnres(src) ==
  /\ Head1(src, "InsUnres")
  /\ LET s == Head(Begin(src)).s IN
     /\ unres' = [r \in Rid |-> IF r \in s THEN Fresh(r) ELSE unres[r]]
     /\ res'   = [r \in Rid |-> IF r \in s THEN FreshVol(r) ELSE NoRes]
     /\ quirks' = quirks \cup (IF Head(Begin(src)).a = "partial" THEN {"FCC"} ELSE {})
                          \cup (IF \E r \in s : unres[r] # NoRec /\ Rank(Fresh(r)) < Rank(unres[r])
                                THEN {"H3"} ELSE {})
  /\ Took(src, Tail(Begin(src)), state)
  /\ nw' = nw + 1
  /\ UNCHANGED <<logState, hasRes, hasCS, wiped, extVars, worldVars, state, upstream, rcpc>>

Main == \E src \in Srcs :
          \/ \E h \in HTLCs : MUps(src, h)
          \/ MCommit(src) \/ MMarkB(src) \/ MLogRes(src) \/ MInsCS(src) \/ MMarkClosed(src)
          \/ MNotify(src) \/ MPublish(src) \/ MFinal(src) \/ MInsUnres(src)

(* ---- resolver goroutines -------------------------------------------------------- *)
Active(r) == alive /\ res[r].kind # "none"
\* a resolver checkpoint-type write; CommitBeforeCheckpoint is the timing assumption H3
CkptOK == CommitBeforeCheckpoint => logState # "ContractClosed"
RSame == UNCHANGED <<scen, alive, state, mq, tg, pendUser, pendClose, closeSent, ncrash, quirks, rcpc>>

\* a sweep request: the outpoint offered to the sweeper and whether the input can be signed
SReq(op, ok) == [op |-> op, ok |-> ok]
Swept(op)    == SReq(op, TRUE) \in sweepReq
\* Launch: the input a resolver offers to the sweeper when it is launched ("none": Launch leaves no trace).
\* Remote commitment: the direct timeout sweep of the HTLC output.  Our commitment, zero-fee channel types: the
\* second-level transaction (input = the HTLC output) or - if the resolver was checkpointed with its first stage
\* done (outputIncubating) - the second-level output that was really created on chain.
LaunchOp(r) ==
  CASE Kind = "remote" /\ (res[r].kind = "timeout" \/ (res[r].kind = "contest" /\ vlate)) -> "htlc"
    [] Kind = "local" /\ ZeroFee /\ (res[r].kind = "timeout" \/ (res[r].kind = "contest" /\ vlate)) ->
         (IF res[r].stage = 0 THEN "htlc" ELSE "out2")
    [] Kind = "local" /\ ZeroFee /\ res[r].kind \in {"success", "incontest"} ->
         (IF res[r].stage = 0 THEN "in" ELSE "in2")
    [] OTHER -> "none"
RLaunch(r, ok) ==
  /\ Active(r) /\ ~res[r].launched /\ ~res[r].resolved /\ LaunchOp(r) # "none"
  \* the stage-two launch first waits for the (historical) spend of the HTLC output to learn the real outpoint
  /\ LaunchOp(r) = "out2" => spent1 = "timeout"
  /\ LaunchOp(r) = "in2" => spentIn # "none"
  /\ res' = [res EXCEPT ![r].launched = TRUE]
  /\ sweepReq' = sweepReq \cup {SReq(LaunchOp(r), ok)}
  /\ RSame /\ UNCHANGED <<logVars, extVars, late, vlate, published, spent1, spent2, spentIn, breachDone,
                          userAsked, upstream, nw>>

\* zero-fee channel types, our commitment: once the re-signed second-level transaction has confirmed the resolver
\* offers the output it created (NOT the output of the pre-signed transaction) to the sweeper
ZfLocal(r) == Active(r) /\ Kind = "local" /\ ZeroFee /\ res[r].launched /\ ~res[r].resolved
Sweep2Op(r) == IF res[r].kind = "timeout" THEN "out2" ELSE "in2"
RSweep2(r, ok) ==
  /\ ZfLocal(r)
  /\ \/ res[r].kind = "timeout" /\ res[r].pc = "start" /\ res[r].stage = 0 /\ spent1 = "timeout"
        /\ res' = [res EXCEPT ![r].pc = "up1"]
     \/ res[r].kind = "success" /\ res[r].pc = "sw2"
        /\ res' = [res EXCEPT ![r].pc = "wait"]
  /\ sweepReq' = sweepReq \cup {SReq(Sweep2Op(r), ok)}
  /\ RSame /\ UNCHANGED <<logVars, extVars, late, vlate, published, spent1, spent2, spentIn, breachDone,
                          userAsked, upstream, nw>>

\* the anchor resolver (stateless, re-created at every start) offers our anchor to the sweeper; the anchor is
\* never worth sweeping here, so the resolver stays until the arbitrator stops
RAnchor(again, ok) ==
  /\ alive /\ ZeroFee /\ state \in {"ContractClosed", "WaitingFullResolution"}
  /\ \E r \in Rid : res[r].kind # "none"
  /\ again \/ SReq("anchor", TRUE) \notin sweepReq
  /\ sweepReq' = sweepReq \cup {SReq("anchor", ok)}
  /\ UNCHANGED <<scen, logVars, extVars, late, vlate, published, spent1, spent2, spentIn, breachDone, userAsked,
                 volVars, histVars>>

\* nursery request (legacy second-level paths on our own commitment)
RNursery(r) ==
  /\ Active(r) /\ Kind = "local" /\ ~ZeroFee
  /\ \/ res[r].kind = "timeout" /\ res[r].pc = "start"
        /\ res' = [res EXCEPT ![r].pc = IF res[r].stage = 1 THEN "wait2" ELSE "wait1"]
     \/ res[r].kind = "success" /\ res[r].pc = "pub"
        /\ res' = [res EXCEPT ![r].pc = "cp1"]
  /\ nursery' = TRUE /\ nw' = nw + 1
  /\ RSame /\ UNCHANGED <<logVars, closedDb, bmark, resolvedDb, finalOut, preimg, worldVars, upstream>>

\* the remote party's preimage spend: witness cache first (claimCleanUp)
RPreimage(r) ==
  /\ Active(r) /\ res[r].kind \in {"contest", "timeout"} /\ res[r].pc \in {"start", "wait1"}
  /\ spent1 = "claim" /\ ~res[r].resolved
  /\ preimg' = TRUE /\ nw' = nw + 1
  /\ res' = [res EXCEPT ![r].pc = "pre"]
  /\ RSame /\ UNCHANGED <<logVars, closedDb, bmark, nursery, resolvedDb, finalOut, worldVars, upstream>>

\* resolution message to the switch
RUp(r, k) ==
  /\ Active(r) /\ r = "o"
  /\ \/ k = "fail" /\ res[r].kind = "timeout" /\ Kind = "local" /\ res[r].pc = "wait1" /\ spent1 = "timeout"
        /\ res' = [res EXCEPT ![r].pc = "cp1"]
     \/ k = "fail" /\ res[r].kind = "timeout" /\ Kind = "local" /\ res[r].pc = "up1"
        /\ res' = [res EXCEPT ![r].pc = "cp1"]
     \/ k = "fail" /\ res[r].kind = "timeout" /\ Kind = "remote" /\ res[r].pc = "start" /\ spent1 = "timeout"
        /\ ~res[r].resolved
        /\ res' = [res EXCEPT ![r].pc = "cpf"]
     \/ k = "settle" /\ res[r].pc = "pre"
        /\ res' = [res EXCEPT ![r].pc = "cpf"]
  /\ upstream' = [upstream EXCEPT !["o"] = @ \cup {k}]
  /\ RSame /\ UNCHANGED <<logVars, extVars, worldVars, nw>>

\* Checkpoint: the in-memory resolver is written under its key (whatever the bucket held)
RCheckpoint(r) ==
  /\ Active(r) /\ CkptOK
  /\ \/ res[r].pc = "cp1"                              \* first stage done (outputIncubating)
        /\ res' = [res EXCEPT ![r].stage = 1, ![r].pc = IF res[r].kind = "success" THEN "wait" ELSE "wait2"]
     \/ (res[r].pc = "wait2" \/ (ZfLocal(r) /\ res[r].kind = "timeout" /\ res[r].pc = "start" /\ res[r].stage = 1))
        /\ spent2                                       \* second-level output swept
        /\ res' = [res EXCEPT ![r].resolved = TRUE, ![r].pc = "rm"]
     \/ ZfLocal(r) /\ res[r].kind = "success" /\ res[r].pc = "start" /\ res[r].stage = 0 /\ spentIn = "first"
        /\ res' = [res EXCEPT ![r].stage = 1, ![r].pc = "sw2"]   \* re-signed success tx confirmed
     \/ res[r].pc = "cpf"                              \* direct spend / preimage claim: final
        /\ res' = [res EXCEPT ![r].kind = "timeout", ![r].resolved = TRUE, ![r].pc = "rm"]
     \/ res[r].pc = "fin2"                             \* success resolver: final
        /\ res' = [res EXCEPT ![r].resolved = TRUE, ![r].pc = "rm"]
     \/ res[r].kind = "breach" /\ res[r].pc = "start" /\ breachDone
        /\ res' = [res EXCEPT ![r].resolved = TRUE, ![r].pc = "rm"]
  /\ unres' = [unres EXCEPT ![r] = Rec(res'[r].kind, res'[r].stage, res'[r].resolved)]
  /\ nw' = nw + 1
  /\ RSame /\ UNCHANGED <<logState, hasRes, hasCS, wiped, extVars, worldVars, upstream>>

\* SwapContract: contest resolver -> timeout resolver at expiry; incoming contest -> success resolver
RSwap(r) ==
  /\ Active(r) /\ CkptOK /\ res[r].pc = "start"
  /\ \/ res[r].kind = "contest" /\ vlate
        /\ res' = [res EXCEPT ![r].kind = "timeout"]
     \/ res[r].kind = "incontest"
        /\ res' = [res EXCEPT ![r].kind = "success"]
  /\ unres' = [unres EXCEPT ![r] = Rec(res'[r].kind, res'[r].stage, FALSE)]
  /\ nw' = nw + 1
  /\ RSame /\ UNCHANGED <<logState, hasRes, hasCS, wiped, extVars, worldVars, upstream>>

\* success resolver on our commitment (legacy): publish the second-level tx
RPublish(r) ==
  /\ Active(r) /\ ~ZeroFee /\ res[r].kind = "success" /\ res[r].pc = "start" /\ ~res[r].resolved
  /\ res' = [res EXCEPT ![r].pc = IF res[r].stage = 1 THEN "wait" ELSE "pub"]
  /\ RSame /\ UNCHANGED <<logVars, extVars, worldVars, upstream, nw>>

\* success resolver: final outcome of the incoming HTLC, then the final checkpoint
RFinal(r) ==
  /\ Active(r) /\ res[r].kind = "success" /\ spentIn = "second"
  /\ res[r].pc = "wait" \/ (ZfLocal(r) /\ res[r].pc = "start" /\ res[r].stage = 1)
  /\ finalOut' = [finalOut EXCEPT !["i"] = "settled"]
  /\ res' = [res EXCEPT ![r].pc = "fin2"]
  /\ nw' = nw + 1
  /\ RSame /\ UNCHANGED <<logVars, closedDb, bmark, nursery, resolvedDb, preimg, worldVars, upstream>>

\* ResolveContract: the arbitrator removes a contract whose resolver reports resolved, then signals
RResolve(r) ==
  /\ Active(r) /\ CkptOK /\ res[r].pc = "rm"
  /\ unres' = [unres EXCEPT ![r] = NoRec]
  /\ res' = [res EXCEPT ![r].pc = "signal"]
  /\ nw' = nw + 1
  /\ RSame /\ UNCHANGED <<logState, hasRes, hasCS, wiped, extVars, worldVars, upstream>>

Resolver == \E r \in Rid : \/ RLaunch(r, TRUE) \/ RSweep2(r, TRUE) \/ RNursery(r) \/ RPreimage(r) \/ RCheckpoint(r) \/ RSwap(r)
                           \/ RPublish(r) \/ RFinal(r) \/ RResolve(r)
                           \/ \E k \in {"fail", "settle"} : RUp(r, k)

(* ---- the world --------------------------------------------------------------------- *)
EnvOK == EnvAtomic => (~alive \/ EffQ = <<>>)
ESame == UNCHANGED <<scen, logVars, extVars, alive, state, mq, tg, res, rcpc, histVars>>

Tick1 == ~late /\ late' = TRUE
         /\ ESame /\ UNCHANGED <<vlate, published, sweepReq, spent1, spent2, spentIn, breachDone, userAsked,
                                 pendUser, pendClose, closeSent>>
Tick2 == late /\ ~vlate /\ vlate' = TRUE
         /\ ESame /\ UNCHANGED <<late, published, sweepReq, spent1, spent2, spentIn, breachDone, userAsked,
                                 pendUser, pendClose, closeSent>>
UserReq == alive /\ UserCloses /\ ~userAsked /\ userAsked' = TRUE /\ pendUser' = TRUE
           /\ ESame /\ UNCHANGED <<late, vlate, published, sweepReq, spent1, spent2, spentIn, breachDone,
                                   pendClose, closeSent>>
\* the chain watcher reports the confirmed close while the channel is open in channeldb
DeliverClose == alive /\ Confirmed /\ ~closedDb /\ ~closeSent
                /\ pendClose' = TRUE /\ closeSent' = TRUE
                /\ ESame /\ UNCHANGED <<worldVars, pendUser>>
SpendHtlc(k) ==
  /\ EnvOK /\ Confirmed /\ HasO /\ spent1 = "none"
  /\ \/ k = "claim" /\ bs = "claim"
     \* our timeout path: the nursery publishes the pre-signed tx (legacy), otherwise only a signable sweep
     \* request for the HTLC output ever produces a spend
     \/ k = "timeout" /\ bs # "claim" /\ (ExpiredAtClose \/ vlate)
        /\ ((Kind = "local" /\ ~ZeroFee /\ nursery) \/ (Kind = "local" /\ ZeroFee /\ Swept("htlc"))
            \/ (Kind = "remote" /\ Swept("htlc")))
  /\ spent1' = k
  /\ ESame /\ UNCHANGED <<late, vlate, published, sweepReq, spent2, spentIn, breachDone, userAsked,
                          pendUser, pendClose, closeSent>>
SpendSecond == EnvOK /\ Kind = "local" /\ spent1 = "timeout" /\ ~spent2 /\ (ZeroFee => Swept("out2")) /\ spent2' = TRUE
               /\ ESame /\ UNCHANGED <<late, vlate, published, sweepReq, spent1, spentIn, breachDone, userAsked,
                                       pendUser, pendClose, closeSent>>
\* the incoming HTLC: first level (zero-fee types only: the re-signed success tx), then the second-level output
SpendIn1 == EnvOK /\ HasI /\ ZeroFee /\ spentIn = "none" /\ Swept("in") /\ spentIn' = "first"
            /\ ESame /\ UNCHANGED <<late, vlate, published, sweepReq, spent1, spent2, breachDone, userAsked,
                                    pendUser, pendClose, closeSent>>
SpendIn == EnvOK /\ HasI /\ spentIn' = "second"
           /\ (IF ZeroFee THEN spentIn = "first" /\ Swept("in2") ELSE nursery /\ spentIn = "none")
           /\ ESame /\ UNCHANGED <<late, vlate, published, sweepReq, spent1, spent2, breachDone, userAsked,
                                   pendUser, pendClose, closeSent>>
BreachDoneEv == EnvOK /\ Kind = "breach" /\ Confirmed /\ ~breachDone /\ breachDone' = TRUE
                /\ ESame /\ UNCHANGED <<late, vlate, published, sweepReq, spent1, spent2, spentIn, userAsked,
                                        pendUser, pendClose, closeSent>>
\* the outpoints that exist on chain (a resolver can only wait for one of these): the HTLC outputs of the confirmed
\* commitment, and the second-level outputs once the transaction that creates them is out - for zero-fee types that
\* is the RE-SIGNED transaction, the output of the pre-signed one ("pre2", "prein2") never exists
Exists(op) == CASE op = "htlc" -> Confirmed /\ HasO
                [] op = "out2" -> Kind = "local" /\ spent1 = "timeout"
                [] op = "in"   -> Confirmed /\ HasI
                [] op = "in2"  -> HasI /\ (IF ZeroFee THEN spentIn # "none" ELSE res["i"].kind = "success")
                [] OTHER -> FALSE
Env == Tick1 \/ Tick2 \/ UserReq \/ DeliverClose \/ SpendSecond \/ SpendIn1 \/ SpendIn \/ BreachDoneEv
       \/ \E k \in {"claim", "timeout"} : SpendHtlc(k)

(* ---- crash and restart ---------------------------------------------------------------- *)
NoVol == [r \in Rid |-> NoRes]
\* a resolution has reached the switch although nothing durable says that the channel is closing
FailbackBeforeDecision == logState = "Default" /\ ~closedDb /\ \E h \in HTLCs : upstream[h] # {}

Crash ==
  /\ alive /\ ncrash < MaxCrashes
  /\ alive' = FALSE /\ mq' = <<>> /\ res' = NoVol
  /\ pendUser' = FALSE /\ pendClose' = FALSE /\ closeSent' = FALSE /\ rcpc' = "idle"
  /\ ncrash' = ncrash + 1
  /\ quirks' = IF FailbackBeforeDecision THEN quirks \cup {"F9"} ELSE quirks
  /\ UNCHANGED <<scen, logVars, extVars, worldVars, state, tg, upstream, nw>>

\* ChainArbitrator.Start + ChannelArbitrator.Start/progressStateMachineAfterRestart/relaunchResolvers
Restart ==
  /\ ~alive /\ alive' = TRUE /\ rcpc' = "idle"
  /\ state' = logState
  /\ LET t == IF closedDb /\ (logState \in {"Default", "BroadcastCommit", "CommitmentBroadcasted"}
                              \/ (FccFixed /\ logState = "ContractClosed"))
              THEN CloseTrig ELSE "chain" IN
     /\ tg' = t
     /\ IF resolvedDb
        THEN \* fully closed in the channel db: no arbitrator is created for the channel any more
             mq' = <<>> /\ res' = NoVol /\ quirks' = quirks
        ELSE IF logState = "WaitingFullResolution"
        THEN IF UnresEmpty
             THEN mq' = Go("FullyResolved") /\ res' = NoVol /\ quirks' = quirks
             ELSE /\ mq' = <<>>
                  /\ res' = [r \in Rid |-> Restored(r)]
                  /\ quirks' = IF ~F8Fixed /\ \E r \in Rid : unres[r].resolved
                               THEN quirks \cup {"F8"} ELSE quirks
        ELSE mq' = Norm(<<StepOp>>, logState, t) /\ res' = NoVol /\ quirks' = quirks
  \* a stored closing tx of a channel that is still open is republished at start-up
  /\ published' = (published \/ (bmark /\ ~closedDb))
  /\ UNCHANGED <<scen, logVars, extVars, late, vlate, sweepReq, spent1, spent2, spentIn, breachDone, userAsked,
                 pendUser, pendClose, closeSent, upstream, ncrash, nw>>

\* ChainArbitrator.ResolveContract, second durable effect: the arbitrator log of the channel is wiped
\* (the arbitrator has been stopped in between)
RCWipe ==
  /\ alive /\ rcpc = "wipe"
  /\ logState' = "Default" /\ hasRes' = FALSE /\ hasCS' = FALSE /\ unres' = [r \in Rid |-> NoRec]
  /\ wiped' = TRUE /\ rcpc' = "done" /\ nw' = nw + 1
  /\ UNCHANGED <<scen, extVars, worldVars, alive, state, mq, tg, res, pendUser, pendClose, closeSent,
                 upstream, ncrash, quirks>>

(* ---- outcome ---------------------------------------------------------------------------- *)
RefUp == [h \in HTLCs |-> CASE h = "od" -> (IF HasOD THEN {"fail"} ELSE {})
                            [] h = "o"  -> (IF ~HasO THEN {} ELSE IF bs = "claim" THEN {"settle"} ELSE {"fail"})
                            [] h = "n"  -> (IF HasN THEN {"fail"} ELSE {})
                            [] OTHER -> {}]
RefFin == [h \in HTLCs |-> CASE h = "id" -> (IF HasID /\ Kind # "breach" THEN "failed" ELSE "none")
                             [] h = "i"  -> (IF HasI THEN "settled" ELSE "none")
                             [] OTHER -> "none"]
\* the terminal outcome of the uninterrupted run (MaxCrashes = 0 reaches exactly this, see ArbitratorMC)
\* the channel is marked fully closed; the log is wiped, or - if the stop came between the two writes of
\* ResolveContract - left behind in its final state (nothing will ever read it again)
ReferenceOutcome == /\ resolvedDb /\ UnresEmpty
                    /\ (wiped /\ logState = "Default") \/ (~wiped /\ logState = "FullyResolved")
                    /\ upstream = RefUp /\ finalOut = RefFin
\* the stop came before anything of the close was durable or visible: nothing to resume
Untouched == /\ logState = "Default" /\ ~closedDb /\ ~bmark /\ ~published /\ ~hasRes /\ ~hasCS /\ ~wiped
             /\ \A h \in HTLCs : upstream[h] = {} /\ finalOut[h] = "none"
Finished == alive /\ (ReferenceOutcome \/ Untouched) /\ UNCHANGED vars

(* ---- specification -------------------------------------------------------------------------- *)
Init ==
  /\ scen \in Scenarios
  /\ logState = "Default" /\ hasRes = FALSE /\ hasCS = FALSE /\ unres = [r \in Rid |-> NoRec]
  /\ wiped = FALSE /\ rcpc = "idle"
  /\ closedDb = FALSE /\ bmark = FALSE /\ nursery = FALSE /\ resolvedDb = FALSE
  /\ finalOut = [h \in HTLCs |-> "none"] /\ preimg = FALSE
  /\ late = FALSE /\ vlate = FALSE /\ published = FALSE /\ sweepReq = {}
  /\ spent1 = "none" /\ spent2 = FALSE /\ spentIn = "none" /\ breachDone = FALSE /\ userAsked = FALSE
  /\ alive = TRUE /\ state = "Default" /\ mq = <<>> /\ tg = "chain" /\ res = NoVol
  /\ pendUser = FALSE /\ pendClose = FALSE /\ closeSent = FALSE
  /\ upstream = [h \in HTLCs |-> {}] /\ ncrash = 0 /\ quirks = {} /\ nw = 0

Next == Main \/ Resolver \/ RAnchor(FALSE, TRUE) \/ Env \/ Crash \/ Restart \/ RCWipe \/ Finished
Spec == Init /\ [][Next]_vars

(* ---- the property ------------------------------------------------------------------------------ *)
\* the channel is marked fully resolved only after all contracts are resolved
ResolvedOnlyWhenEmpty == (logState = "FullyResolved" \/ resolvedDb) => UnresEmpty
MarkedOnlyWhenResolved == resolvedDb => (logState = "FullyResolved" \/ wiped)
\* the log is wiped only after the channel has left the set of pending-close channels: no restart ever finds a
\* channel that is pending close with an empty log
NoPendingCloseWithEmptyLog == wiped => resolvedDb
\* never contradictory upstream resolutions
UpstreamConsistent == \A h \in HTLCs : Cardinality(upstream[h]) <= 1
\* every input handed to the sweeper can be signed (same inputs as the uninterrupted run: a restored resolver of a
\* taproot channel carries the control blocks again)
SweepsSignable == \A q \in sweepReq : q.ok
\* no resolver and no checkpointed progress is lost: a record leaves the bucket only once it is
\* persisted as resolved, and a rewrite never moves it backwards
NoLoss == \A r \in Rid :
            unres[r] # NoRec =>
              /\ unres'[r] = NoRec => unres[r].resolved
              /\ unres'[r] # NoRec => Rank(unres'[r]) >= Rank(unres[r])
NoLossProp == [][NoLoss]_vars
\* same terminal outcome: every behaviour that can go no further (deadlock check) has reached the
\* reference outcome - `Finished` is the only way to stay for ever
TypeOK == /\ logState \in States /\ state \in States /\ scen \in AllScenarios
          /\ ncrash \in 0..MaxCrashes
\* observation-free view for exhaustive runs
View == <<scen, logVars, extVars, worldVars, volVars, upstream, ncrash>>
=============================================================================
