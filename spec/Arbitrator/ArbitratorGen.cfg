SPECIFICATION GSpec
CONSTANTS
  Scenarios = {"local", "remote", "localfar"}
  MaxCrashes = 3
  NC = 2
  CrashOdds = 4
  F8Fixed = TRUE
  F9Fixed = FALSE
  FccFixed = TRUE
  CommitBeforeCheckpoint = TRUE
  EnvAtomic = TRUE
INVARIANTS Dump
CHECK_DEADLOCK FALSE
