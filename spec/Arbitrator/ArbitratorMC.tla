---------------------------- MODULE ArbitratorMC ----------------------------
(* Exhaustive bounded configurations of Arbitrator.  ArbitratorMC.cfg is the  *)
(* repaired design (F8Fixed = F9Fixed = FccFixed = TRUE): every invariant     *)
(* holds and no behaviour gets stuck short of the reference outcome           *)
(* (CHECK_DEADLOCK).  The orchestrator re-runs it with one repair switched    *)
(* off at a time and expects TLC to exhibit the corresponding finding.        *)
EXTENDS Arbitrator
=============================================================================
