SPECIFICATION GSpec
CONSTANTS
  MaxPay = 6
  MaxFault = 2
  Amounts = {4000, 5000, 150000, 199000, 200000, 201000, 799000, 800000, 801000, 1000000, 2500000, 20000000, 50000000}
  PayKinds = {"ok", "okay", "leak", "unknown", "wrongamt", "hold_settle", "hold_cancel", "underpaid"}
  FaultKinds = {"net", "linkAB", "linkBC", "discAB", "discBC", "cutAB", "cutBC", "lostAB", "lostBC"}
  PayAts = {0, 0, 0, 12, 40, 90}
  HoldAts = {0, 30, 80}
  FaultAts = {6, 12, 20, 30, 45, 60, 80, 110, 150}
INVARIANTS Dump
CHECK_DEADLOCK FALSE
