--------------------------- MODULE ForwardingGen ---------------------------
(* Fault-plan generator for the C08 executor.  One simulated behaviour = one *)
(* plan: a batch of payments Alice->Bob->Carol and back (amounts around the  *)
(* fixture's policy minimum and dust limits; valid, unknown, wrong-amount,   *)
(* hold and under-paid invoices; launched at the start or at a tap count)    *)
(* followed by faults, each triggered by a tap count: restart of the whole   *)
(* network, reconnect of one channel, disconnect of one channel (messages    *)
(* lost until the reconnect), and a cut of one channel between a             *)
(* revoke_and_ack and the signature its sender owes.  The goroutine schedule *)
(* is the Go runtime's.  The history is dumped as NDJSON (one item a line).  *)
EXTENDS Integers, Sequences, TLC, Json

CONSTANTS MaxPay, MaxFault, Amounts, PayKinds, FaultKinds, PayAts, HoldAts, FaultAts
VARIABLES hist, np, nf, done
gvars == <<hist, np, nf, done>>

Item(a, d, m, k, at, hat) == [a |-> a, dir |-> d, amt |-> m, kind |-> k, at |-> at, hat |-> hat]

GInit == hist = <<>> /\ np = 0 /\ nf = 0 /\ done = FALSE

AddPay == /\ ~done /\ nf = 0 /\ np < MaxPay
          /\ \E d \in {"fwd", "rev"}, k \in PayKinds :
             \E m \in {RandomElement(Amounts)}, at \in {RandomElement(PayAts)}, hat \in {RandomElement(HoldAts)} :
                hist' = Append(hist, Item("Pay", d, m, k, at,
                                          IF k \in {"hold_settle", "hold_cancel"} /\ hat > 0 THEN at + hat ELSE 0))
          /\ np' = np + 1 /\ UNCHANGED <<nf, done>>

AddFault == /\ ~done /\ np >= 1 /\ nf < MaxFault
            /\ \E k \in FaultKinds : \E at \in {RandomElement(FaultAts)} :
                 hist' = Append(hist, Item("Fault", "", 0, k, at, 0))
            /\ nf' = nf + 1 /\ UNCHANGED <<np, done>>

Finish == /\ ~done /\ np >= 2 /\ done' = TRUE /\ UNCHANGED <<hist, np, nf>>

GNext == AddPay \/ AddFault \/ Finish
GSpec == GInit /\ [][GNext]_gvars

Dump == done => ndJsonSerialize("b_" \o ToString(TLCGet("stats").traces) \o ".ndjson", hist)
=============================================================================
