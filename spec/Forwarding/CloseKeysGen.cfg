SPECIFICATION GSpec
CONSTANTS
  N = 3
  DropFailKeys = FALSE
  MaxLen = 9
INVARIANTS Dump
CHECK_DEADLOCK FALSE
