---- MODULE SwitchAckGen ----
(* Schedules for the switch-level executor: every simulated behaviour of SwitchAck, as its step names. *)
EXTENDS SwitchAck, TLC, Json
CONSTANT MaxLen
VARIABLE hist
GInit == SInit /\ hist = <<>>
Step(a, A) == A /\ hist' = Append(hist, [a |-> a, kind |-> kind])
GNext == /\ Len(hist) < MaxLen
         /\ \/ Step("Pipe", Pipe) \/ Step("Revoke", Revoke) \/ Step("Hand", Hand) \/ Step("Lock", Lock)
            \/ Step("Commit", Commit) \/ Step("Tick", Tick) \/ Step("GC", GC) \/ Step("Restart", Restart)
GSpec == GInit /\ [][GNext]_<<svars, hist>>
Dump == Len(hist) = MaxLen => ndJsonSerialize("b_" \o ToString(TLCGet("stats").traces) \o ".ndjson", hist)
====
