SPECIFICATION TSpec
INVARIANTS
  TypeOK
  SettleOnlyWithDownstreamPreimage
  FailOnlyAfterDownstreamGone
  OneAnswer
  ForwardOnlyLockedIn
  ForwardOnce
  PolicyRespected
  AmountsAsPlanned
  QRules
  QChannels
  QConservation
  QCircuits
  QResults
CONSTANTS
  OwedSigQuirk = FALSE
  StrandQuirk = FALSE
CHECK_DEADLOCK TRUE
