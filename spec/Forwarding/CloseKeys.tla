------------------------------ MODULE CloseKeys ------------------------------
(* C08, incoming-link level: which circuits does a signed commitment close,   *)
(* and what of that is DURABLE?  The forwarding node's incoming link puts the *)
(* downstream settle/fail of HTLC k into its update log (SettleHTLC/FailHTLC  *)
(* with the circuit's key), signs (SignNextCommitment: the CommitDiff with    *)
(* ClosedCircuitKeys is written atomically with the signature) and only then  *)
(* deletes the circuits (ackDownStreamPackets -> DeleteCircuits) from the     *)
(* volatile list it kept.  If the node dies between the two, the signature    *)
(* stands - the HTLC is finished - and the only record of which circuits it   *)
(* closed is the CommitDiff: at the next link start ProcessChanSyncMsg hands  *)
(* its keys to the link (syncChanStates), which deletes the circuits and      *)
(* retransmits the updates and the signature.  N incoming HTLCs with an open  *)
(* circuit each, answered by a settle or a fail:                              *)
(*   st[k]   "in" locked in and unanswered / "signed" its answer is covered   *)
(*           by our persisted signature, the peer has not revoked / "done"    *)
(*   circ[k] the circuit (and keystone) is in the circuit map (durable)       *)
(*   up      the link is running (FALSE after the crash until the restart)    *)
(*   closed  the keys ProcessChanSyncMsg returned at the last restart         *)
(* Steps:                                                                     *)
(*   Deliver(k)      handleDownstreamPkt of the response: update log, sign,   *)
(*                   delete the circuit (one signature outstanding at most)   *)
(*   DeliverCrash(k) the same, the node dies after the signature is on disk   *)
(*                   and before DeleteCircuits                                *)
(*   PeerAck         the peer receives updates + signature, revokes and signs *)
(*                   back; we revoke                                          *)
(*   Restart         both ends reload the channel (unsigned updates are       *)
(*                   forgotten), the circuit map is reloaded, the link syncs: *)
(*                   keys of the outstanding CommitDiff -> DeleteCircuits     *)
(* Rule (quiescence): while the link runs, no HTLC whose answer is covered by *)
(* a persisted signature still has a circuit - settle and fail alike.         *)
EXTENDS Integers, FiniteSets

CONSTANTS N,             \* HTLCs 1..N
          DropFailKeys   \* FALSE = the code; TRUE = the defect (the CommitDiff names the circuits of settles only)

K == 1..N
VARIABLES kind,   \* [K -> {"settle", "fail"}]
          st, circ, up, closed
cvars == <<kind, st, circ, up, closed>>

CInit == /\ kind \in [K -> {"settle", "fail"}]
         /\ st = [k \in K |-> "in"] /\ circ = [k \in K |-> TRUE] /\ up = TRUE /\ closed = {}

Outstanding == {k \in K : st[k] = "signed"}
Durable == {k \in Outstanding : ~(DropFailKeys /\ kind[k] = "fail")}

Deliver(k) == /\ up /\ st[k] = "in" /\ Outstanding = {}
              /\ st' = [st EXCEPT ![k] = "signed"] /\ circ' = [circ EXCEPT ![k] = FALSE]
              /\ UNCHANGED <<kind, up, closed>>

DeliverCrash(k) == /\ up /\ st[k] = "in" /\ Outstanding = {}
                   /\ st' = [st EXCEPT ![k] = "signed"] /\ up' = FALSE
                   /\ UNCHANGED <<kind, circ, closed>>

PeerAck == /\ up /\ Outstanding # {}
           /\ st' = [k \in K |-> IF st[k] = "signed" THEN "done" ELSE st[k]]
           /\ UNCHANGED <<kind, circ, up, closed>>

Restart == /\ up' = TRUE /\ closed' = Durable
           /\ circ' = [k \in K |-> circ[k] /\ k \notin Durable]
           /\ UNCHANGED <<kind, st>>

CNext == (\E k \in K : Deliver(k) \/ DeliverCrash(k)) \/ PeerAck \/ Restart
CSpec == CInit /\ [][CNext]_cvars

\* the rule
NoCircuitLeftBehind == up => \A k \in K : st[k] \in {"signed", "done"} => ~circ[k]
\* and nothing is torn down early
CircuitWhileUnanswered == \A k \in K : st[k] = "in" => circ[k]
=============================================================================
