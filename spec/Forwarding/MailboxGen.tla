---- MODULE MailboxGen ----
(* Schedules for the mailbox executor: simulated behaviours of Mailbox; the courier's Pick is silent, a      *)
(* delivery or an empty read is recorded as "Recv" (the real courier decides what the link actually reads).  *)
EXTENDS Mailbox, TLC, Json
CONSTANT MaxLen
VARIABLE hist
Ev(a, x) == [a |-> a, id |-> x, k |-> IF x \in RepIds THEN "rep" ELSE "add"]
Rec(e) == hist' = Append(hist, e)
GInit == MInit /\ hist = <<>>
GNext == /\ Len(hist) < MaxLen
         /\ \/ \E x \in Ids \ used : AddPacket(x, TRUE) /\ Rec(Ev("Add", x))
            \/ \E x \in Range(rep) \cup Range(adds) : AddPacket(x, FALSE) /\ Rec(Ev("Add", x))
            \/ Pick /\ UNCHANGED hist
            \/ RecvNone /\ Rec(Ev("Recv", 0))
            \/ ResetPackets /\ Rec(Ev("Reset", 0))
            \/ \E x \in Ids : Deliver(x) /\ Rec(Ev("Recv", 0))
            \/ \E x \in used : \E b \in BOOLEAN : AckPacket(x, b) /\ Rec(Ev("Ack", x))
GSpec == GInit /\ [][GNext]_<<mvars, hist>>
Dump == Len(hist) = MaxLen => ndJsonSerialize("b_" \o ToString(TLCGet("stats").traces) \o ".ndjson", hist)
====
