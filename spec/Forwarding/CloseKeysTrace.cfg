SPECIFICATION TSpec
CONSTANTS
  N = 3
  DropFailKeys = FALSE
INVARIANTS ConformClosed ConformCircuits ConformChannel NoCircuitLeftBehind CircuitWhileUnanswered
CHECK_DEADLOCK TRUE
