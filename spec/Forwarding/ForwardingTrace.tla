-------------------------- MODULE ForwardingTrace --------------------------
(* Trace validation of the real three-hop network at WIRE granularity.       *)
(*                                                                           *)
(* The executor stamps every message twice under one mutex: when a link      *)
(* hands it to its peer object (io = "s") and when the receiving server      *)
(* takes it off its queue, before processing (io = "r"; "d" if the           *)
(* connection it was sent on is gone and the message is lost).  This module  *)
(* replays the stamped sequence through the BOLT 2 commitment bookkeeping    *)
(* of all four channel ends (which updates each commitment covers, which     *)
(* signature a revocation answers, what a restart forgets), derives from it  *)
(* the stage of every payment's HTLC on both channels (st), records the      *)
(* facts about Bob's own steps (hs), and judges every state by the rules of  *)
(* ForwardingRules.tla, and the recorded quiescent state (balances of the    *)
(* four channel ends, active HTLCs, circuits, payment results, invoice       *)
(* states) by what the bookkeeping implies.  Every step is deterministic:    *)
(* a deadlock before the end means "the model does not allow this message".  *)
EXTENDS ForwardingRules, Json, TLC

VARIABLES
  l,      \* next trace line
  snt,    \* snt[c][x]: updates x has sent on c and still has in its log
  rcv,    \* rcv[c][x]: peer updates x has received on c and still has in its log
  lc,     \* lc[c][x]:  x's own commitment (x revokes as soon as it receives a signature): [h, own, th]
  rtl,    \* rtl[c][x]: the peer's commitment x has signed and the peer has revoked to
  rtp,    \* rtp[c][x]: the peer's commitment x has signed and the peer has not yet answered: [on, h, own, th]
  idm,    \* idm[c][x]: htlc id -> payment, for the adds x has offered on c
  rmk,    \* rmk[p][c]: kind of the removal update of p on c ("-", "settle", "fail")
  amt,    \* amt[c][p]: amount of p's add as seen on c
  rsy,    \* rsy[c][x]: x may retransmit on c (set by a restart of the link)
  und,    \* und[c][x]: [lc, rtl, rtp] before the last signature / revocation x took off the wire (see Reest)
  hold,   \* hold[p]: how p's hold invoice was resolved ("-", "settle", "cancel")
  ib      \* initial balances <<A(AB), B(AB), B(BC), C(BC)>>

wire == <<snt, rcv, lc, rtl, rtp, idm, rmk, amt, rsy, und, hold, ib>>
vars == <<pl, st, hs, wire, l>>

Trace == ndJsonDeserialize("trace.ndjson")
Last  == Trace[l - 1]
E     == Trace[l]

Chans == {"AB", "BC"}
Ends(c)    == IF c = "AB" THEN {"A", "B"} ELSE {"B", "C"}
Peer(c, x) == CHOOSE y \in Ends(c) : y # x
InCh(p)    == IF pl[p].dir = "fwd" THEN "AB" ELSE "BC"
OutCh(p)   == IF pl[p].dir = "fwd" THEN "BC" ELSE "AB"
\* who offers p's add on c: the sender on the incoming channel, Bob on the outgoing one
Offerer(p, c) == IF c = InCh(p) THEN (IF pl[p].dir = "fwd" THEN "A" ELSE "C") ELSE "B"

NoCm  == [h |-> 0, own |-> {}, th |-> {}]
NoTip == [on |-> FALSE, h |-> 0, own |-> {}, th |-> {}]
NoUndo == [lc |-> NoCm, rtl |-> NoCm, rtp |-> NoTip]
Per(v) == [c \in Chans |-> [x \in Ends(c) |-> v]]
Put(f, k, v) == [i \in DOMAIN f \cup {k} |-> IF i = k THEN v ELSE f[i]]
Add(p) == <<p, "add">>
Rm(p)  == <<p, "rm">>

Is(a) == l <= Len(Trace) /\ E.a = a /\ l' = l + 1
IsE(io, ks) == Is("E") /\ E.io = io /\ E.k \in ks

-----------------------------------------------------------------------------
(* Stages derived from the bookkeeping (arguments: the NEW values).          *)

Signed(u, c, x, tl, tp) == u \in tl[c][x].own \/ (tp[c][x].on /\ u \in tp[c][x].own)
\* an update of the peer is irrevocable at x when it is in x's own commitment and in the peer's revoked-to one
LockedAt(u, c, x, lcc, tl) == u \in lcc[c][x].th /\ u \in tl[c][x].th

AddSt(p, c, s, lcc, tl, tp) ==
  LET o == Offerer(p, c)  r == Peer(c, o) IN
  IF LockedAt(Add(p), c, r, lcc, tl) THEN "locked"
  ELSE IF Signed(Add(p), c, o, tl, tp) THEN "signed"
  ELSE IF Add(p) \in s[c][o] THEN "offered" ELSE "none"

RmSt(p, c, s, lcc, tl, tp) ==
  LET o == Offerer(p, c)  r == Peer(c, o) IN
  IF LockedAt(Rm(p), c, o, lcc, tl) THEN "removed"
  ELSE IF Signed(Rm(p), c, r, tl, tp) THEN "signed"
  ELSE IF Rm(p) \in s[c][r] THEN "offered" ELSE "none"

Stages(s, lcc, tl, tp, rk) ==
  [p \in P |-> [ia  |-> AddSt(p, InCh(p), s, lcc, tl, tp),
                ir  |-> RmSt(p, InCh(p), s, lcc, tl, tp),
                irk |-> rk[p][InCh(p)],
                oa  |-> AddSt(p, OutCh(p), s, lcc, tl, tp),
                or  |-> RmSt(p, OutCh(p), s, lcc, tl, tp),
                ork |-> rk[p][OutCh(p)]]]

\* O3: x has an update of p in its own commitment that no signature of x covers, x has nothing of its own
\* to sign, and the channel was restarted (rsy) - nothing will make x sign
OwesSig(c, x, s, lcc, tl, tp, ry) ==
  /\ ry[c][x]
  /\ s[c][x] \subseteq (tl[c][x].own \cup (IF tp[c][x].on THEN tp[c][x].own ELSE {}))
  /\ ~tp[c][x].on
  /\ ~(lcc[c][x].th \subseteq tl[c][x].th)
OwedUpd(p, c, s, lcc, tl, tp, ry) ==
  \E x \in Ends(c) : /\ OwesSig(c, x, s, lcc, tl, tp, ry)
                      /\ \E u \in {Add(p), Rm(p)} : u \in lcc[c][x].th /\ u \notin tl[c][x].th

\* the part of the history that follows from the stages
Mono(h, s) == [p \in P |-> [h[p] EXCEPT !.upLocked = @ \/ s[p].ia = "locked",
                                       !.dnSigned = @ \/ s[p].oa \in {"signed", "locked"},
                                       !.owed = \E c \in Chans : OwedUpd(p, c, snt', lc', rtl', rtp', rsy')]]

\* every action ends with this: stages and history from the new bookkeeping; hnew = event-specific history
Finish(hnew) == /\ st' = Stages(snt', lc', rtl', rtp', rmk')
                /\ hs' = Mono(hnew, st')

-----------------------------------------------------------------------------
TInit == /\ l = 1
         /\ pl = <<>> /\ st = <<>> /\ hs = <<>>
         /\ snt = Per({}) /\ rcv = Per({}) /\ lc = Per(NoCm) /\ rtl = Per(NoCm) /\ rtp = Per(NoTip)
         /\ idm = Per(<<>>) /\ rmk = <<>> /\ amt = [c \in Chans |-> <<>>] /\ rsy = Per(TRUE)
         /\ und = Per(NoUndo)
         /\ hold = <<>> /\ ib = <<0, 0, 0, 0>>

Reset == /\ Is("Reset")
         /\ pl' = E.pays
         /\ st' = [p \in DOMAIN E.pays |-> NoStage]
         /\ hs' = [p \in DOMAIN E.pays |-> NoHist]
         /\ snt' = Per({}) /\ rcv' = Per({}) /\ lc' = Per(NoCm) /\ rtl' = Per(NoCm) /\ rtp' = Per(NoTip)
         /\ idm' = Per(<<>>)
         /\ rmk' = [p \in DOMAIN E.pays |-> [c \in Chans |-> "-"]]
         /\ amt' = [c \in Chans |-> [p \in DOMAIN E.pays |-> 0]]
         /\ rsy' = Per(TRUE) /\ und' = Per(NoUndo)
         /\ hold' = [p \in DOMAIN E.pays |-> "-"]
         /\ ib' = E.bal

\* ---- updates ----------------------------------------------------------------
SendAdd ==
  /\ IsE("s", {"add"})
  /\ LET c == E.ch  n == E.n  p == E.p  u == Add(E.p) IN
     /\ p \in P /\ n = Offerer(p, c)
     /\ IF u \in snt[c][n]
        THEN \* only a retransmission of a signed, unanswered add after a reconnect is legal; anything
             \* else is a second outgoing HTLC for the same payment
             LET legal == rsy[c][n] /\ rtp[c][n].on /\ u \in rtp[c][n].own
                          /\ E.id \in DOMAIN idm[c][n] /\ idm[c][n][E.id] = p IN
             /\ UNCHANGED wire
             /\ Finish([hs EXCEPT ![p].dbl = @ \/ ~legal])
        ELSE /\ snt' = [snt EXCEPT ![c][n] = @ \cup {u}]
             /\ idm' = [idm EXCEPT ![c][n] = Put(@, E.id, p)]
             /\ amt' = [amt EXCEPT ![c][p] = E.amt]
             /\ rsy' = [rsy EXCEPT ![c][n] = FALSE]
             /\ UNCHANGED <<rcv, lc, rtl, rtp, rmk, und, hold, ib>>
             /\ Finish([hs EXCEPT ![p].dnOffered = @ \/ (n = "B")])
  /\ UNCHANGED pl

RecvAdd ==
  /\ IsE("r", {"add"})
  /\ E.p \in P
  /\ rcv' = [rcv EXCEPT ![E.ch][E.n] = @ \cup {Add(E.p)}]
  /\ UNCHANGED <<snt, lc, rtl, rtp, idm, rmk, amt, rsy, und, hold, ib, pl>>
  /\ Finish(hs)

Kind(k) == IF k = "ful" THEN "settle" ELSE "fail"

SendRm ==
  /\ IsE("s", {"ful", "fail"})
  /\ LET c == E.ch  n == E.n  m == Peer(E.ch, E.n) IN
     /\ E.id \in DOMAIN idm[c][m]
     /\ LET q == idm[c][m][E.id]  u == Rm(idm[c][m][E.id]) IN
        /\ IF u \in snt[c][n]
           THEN /\ rsy[c][n] /\ rtp[c][n].on /\ u \in rtp[c][n].own /\ rmk[q][c] = Kind(E.k)
                /\ UNCHANGED wire
           ELSE /\ snt' = [snt EXCEPT ![c][n] = @ \cup {u}]
                /\ rmk' = [rmk EXCEPT ![q][c] = Kind(E.k)]
                /\ rsy' = [rsy EXCEPT ![c][n] = FALSE]
                /\ UNCHANGED <<rcv, lc, rtl, rtp, idm, amt, und, hold, ib>>
        /\ Finish(IF n = "B" /\ c = InCh(q)
                  THEN IF E.k = "ful"
                       THEN [hs EXCEPT ![q].upSettle = TRUE, ![q].upPre = IF E.p = q THEN "P" ELSE "X"]
                       ELSE [hs EXCEPT ![q].upFail = TRUE]
                  ELSE hs)
  /\ UNCHANGED pl

RecvRm ==
  /\ IsE("r", {"ful", "fail"})
  /\ LET c == E.ch  n == E.n IN
     /\ E.id \in DOMAIN idm[c][n]
     /\ LET q == idm[c][n][E.id] IN
        /\ rcv' = [rcv EXCEPT ![c][n] = @ \cup {Rm(q)}]
        /\ UNCHANGED <<snt, lc, rtl, rtp, idm, rmk, amt, rsy, und, hold, ib, pl>>
        /\ Finish(IF n = "B" /\ c = OutCh(q)
                  THEN IF E.k = "ful"
                       THEN [hs EXCEPT ![q].dnSettle = TRUE, ![q].dnPre = IF E.p = q THEN "P" ELSE "X"]
                       ELSE [hs EXCEPT ![q].dnFail = TRUE]
                  ELSE hs)

\* ---- commitment dance ---------------------------------------------------------
\* x signs the peer's next commitment: all of x's updates, and the peer's updates x has in its own commitment
SendSig ==
  /\ IsE("s", {"sig"})
  /\ LET c == E.ch  n == E.n IN
     IF rtp[c][n].on
     THEN /\ rsy[c][n]                        \* retransmission after a reconnect
          /\ UNCHANGED wire
     ELSE /\ rtp' = [rtp EXCEPT ![c][n] = [on |-> TRUE, h |-> rtl[c][n].h + 1,
                                           own |-> snt[c][n], th |-> lc[c][n].th]]
          /\ rsy' = [rsy EXCEPT ![c][n] = FALSE]
          /\ UNCHANGED <<snt, rcv, lc, rtl, idm, rmk, amt, und, hold, ib>>
  /\ UNCHANGED pl
  /\ Finish(hs)

\* x receives a signature: it must have received every update the signature covers; it revokes at once
RecvSig ==
  /\ IsE("r", {"sig"})
  /\ LET c == E.ch  n == E.n  m == Peer(E.ch, E.n) IN
     /\ rtp[c][m].on
     /\ rtp[c][m].own \subseteq rcv[c][n]
     /\ lc' = [lc EXCEPT ![c][n] = [h |-> rtp[c][m].h, own |-> rtp[c][m].th, th |-> rtp[c][m].own]]
     /\ und' = [und EXCEPT ![c][n].lc = lc[c][n]]
  /\ UNCHANGED <<snt, rcv, rtl, rtp, idm, rmk, amt, rsy, hold, ib, pl>>
  /\ Finish(hs)

\* x receives the revocation that answers its outstanding signature
RecvRev ==
  /\ IsE("r", {"rev"})
  /\ LET c == E.ch  n == E.n  m == Peer(E.ch, E.n) IN
     /\ rtp[c][n].on
     /\ lc[c][m].h = rtp[c][n].h
     /\ rtl' = [rtl EXCEPT ![c][n] = [h |-> rtp[c][n].h, own |-> rtp[c][n].own, th |-> rtp[c][n].th]]
     /\ rtp' = [rtp EXCEPT ![c][n] = NoTip]
     /\ und' = [und EXCEPT ![c][n].rtl = rtl[c][n], ![c][n].rtp = rtp[c][n]]
  /\ UNCHANGED <<snt, rcv, lc, idm, rmk, amt, rsy, hold, ib, pl>>
  /\ Finish(hs)

\* messages that change nothing here: revocations being sent, re-establish, channel_ready, lost messages
Other ==
  /\ \/ IsE("s", {"rev", "ready"})
     \/ IsE("r", {"reest", "ready"})
     \/ (Is("E") /\ E.io = "d")
     \/ Is("Disc") \/ Is("Abort") \/ Is("Note")
  /\ UNCHANGED <<pl, st, hs, wire>>

\* ---- faults -----------------------------------------------------------------------
\* both links of a channel restart from disk: unsigned own updates and uncommitted peer updates are gone
Restart ==
  /\ Is("Restart")
  /\ LET cs == IF E.ch = "all" THEN Chans ELSE {E.ch} IN
     /\ snt' = [c \in Chans |-> [x \in Ends(c) |->
                  IF c \in cs THEN rtl[c][x].own \cup (IF rtp[c][x].on THEN rtp[c][x].own ELSE {})
                  ELSE snt[c][x]]]
     /\ rcv' = [c \in Chans |-> [x \in Ends(c) |-> IF c \in cs THEN lc[c][x].th ELSE rcv[c][x]]]
     /\ rsy' = [c \in Chans |-> [x \in Ends(c) |-> IF c \in cs THEN TRUE ELSE rsy[c][x]]]
  /\ UNCHANGED <<lc, rtl, rtp, idm, rmk, amt, und, hold, ib, pl>>
  \* O4: a reconnect of the incoming channel may strand an add that is locked in at Bob and neither forwarded
  \* nor answered yet; a restart of the switch clears it (the circuit is then "loaded from disk": failed back)
  /\ Finish([p \in P |-> [hs[p] EXCEPT !.strand =
                IF E.kind = "net" THEN FALSE
                ELSE @ \/ (InCh(p) = E.ch /\ st[p].ia = "locked" /\ ~hs[p].dnOffered
                           /\ ~hs[p].upSettle /\ ~hs[p].upFail)]])

\* A restarted link opens with channel_reestablish, which states what the link has on DISK: the number of
\* the next commitment it expects (id) and the number of revocations it has received (amt).  The receipt stamp
\* is taken when a server takes a message off its queue; the link may have been stopped before it processed
\* the last signature / revocation so taken (at most one of each can be outstanding).  The bookkeeping of that
\* end is wound back accordingly, and what the restart forgets is recomputed from the corrected commitments.
Reest ==
  /\ IsE("s", {"reest"})
  /\ LET c == E.ch  n == E.n
         nlc  == IF lc[c][n].h = E.id - 1 THEN lc[c][n] ELSE und[c][n].lc
         back == rtl[c][n].h # E.amt
         ntl  == IF back THEN und[c][n].rtl ELSE rtl[c][n]
         ntp  == IF back THEN und[c][n].rtp ELSE rtp[c][n] IN
     /\ nlc.h = E.id - 1 /\ ntl.h = E.amt
     /\ lc' = [lc EXCEPT ![c][n] = nlc]
     /\ rtl' = [rtl EXCEPT ![c][n] = ntl]
     /\ rtp' = [rtp EXCEPT ![c][n] = ntp]
     /\ snt' = [snt EXCEPT ![c][n] = IF rsy[c][n] THEN ntl.own \cup (IF ntp.on THEN ntp.own ELSE {}) ELSE @]
     /\ rcv' = [rcv EXCEPT ![c][n] = IF rsy[c][n] THEN nlc.th ELSE @]
  /\ UNCHANGED <<idm, rmk, amt, rsy, und, hold, ib, pl>>
  /\ Finish(hs)

HoldRes ==
  /\ Is("HoldRes")
  /\ hold' = IF E.ok = 1 THEN [hold EXCEPT ![E.p] = E.act] ELSE hold
  /\ UNCHANGED <<pl, st, hs, snt, rcv, lc, rtl, rtp, idm, rmk, amt, rsy, und, ib>>

Quiesce == Is("Quiesce") /\ UNCHANGED <<pl, st, hs, wire>>

Done == l = Len(Trace) + 1 /\ UNCHANGED vars

TNext == Reset \/ SendAdd \/ RecvAdd \/ SendRm \/ RecvRm \/ SendSig \/ RecvSig \/ RecvRev
         \/ Other \/ Restart \/ Reest \/ HoldRes \/ Quiesce \/ Done
TSpec == TInit /\ [][TNext]_vars

-----------------------------------------------------------------------------
(* Judging the recorded quiescent state.                                     *)
AtQ == l > 1 /\ Last.a = "Quiesce" /\ Last.ok = 1

\* amounts on the wire are the planned ones (Bob keeps exactly his fee)
AmountsAsPlanned == \A p \in P : /\ amt[InCh(p)][p] \in {0, pl[p].inamt}
                                /\ amt[OutCh(p)][p] \in {0, pl[p].amt}

\* the rules of the property at quiescence
QRules == AtQ => QuiescentOK

\* index of a channel end in the recorded arrays
EndIx(c, x) == IF c = "AB" THEN (IF x = "A" THEN 1 ELSE 2) ELSE (IF x = "B" THEN 3 ELSE 4)
Alive(p, k) == Add(p) \in (k.own \cup k.th) /\ Rm(p) \notin (k.own \cup k.th)
Gone(p, k)  == Add(p) \in (k.own \cup k.th) /\ Rm(p) \in (k.own \cup k.th)
\* OpenChannel.ActiveHtlcs: the HTLCs on BOTH of x's persisted commitments
ActiveAt(c, x) == Cardinality({p \in P : Alive(p, lc[c][x]) /\ Alive(p, rtl[c][x])})
\* value moved on c in x's own commitment: settled HTLCs offered by x are debits, by the peer credits
Moved(c, x) == Sum([p \in P |-> IF Gone(p, lc[c][x]) /\ rmk[p][c] = "settle"
                                THEN (IF Offerer(p, c) = x THEN 0 - amt[c][p] ELSE amt[c][p])
                                ELSE 0], P)
\* (the balance of an end whose own commitment still carries an HTLC - held, or one of the named deviations -
\* also depends on the commitment fee of that HTLC's output and is not compared)
QChannels == AtQ => \A c \in Chans : \A x \in Ends(c) :
                      /\ Last.act[EndIx(c, x)] = ActiveAt(c, x)
                      /\ (\A p \in P : ~Alive(p, lc[c][x])) =>
                            Last.bal[EndIx(c, x)] = ib[EndIx(c, x)] + Moved(c, x)

\* the statement's sums, on the RECORDED balances
QConservation == (AtQ /\ NoneOwed /\ \A c \in Chans : \A x \in Ends(c) : \A p \in P : ~Alive(p, lc[c][x])) =>
  LET d(i) == Last.bal[i] - ib[i] IN
  /\ d(2) + d(3) = FeesOfSucceeded
  /\ 0 - d(1) = ReceiverCredit("fwd") + FeesDir("fwd") - ReceiverCredit("rev")
  /\ d(4) = ReceiverCredit("fwd") - ReceiverCredit("rev") - FeesDir("rev")

\* circuits: Bob keeps none (held payments keep theirs); observation O2: a sender keeps the
\* half-open circuit of a payment whose add was lost before it was signed
NHeld == Cardinality({p \in P : Held(p)})
NOwed(d) == Cardinality({p \in P : pl[p].dir = d /\ (hs[p].owed \/ Stranded(p))})
Lost(d) == Cardinality({p \in P : pl[p].dir = d /\ Untouched(p)})
QCircuits == AtQ => /\ Last.pend[2] >= NHeld /\ Last.pend[2] <= NHeld + NOwed("fwd") + NOwed("rev")
                    /\ Last.open[2] >= NHeld /\ Last.open[2] <= NHeld + NOwed("fwd") + NOwed("rev")
                    /\ Last.pend[1] <= NHeld + Lost("fwd") + NOwed("fwd")
                    /\ Last.pend[3] <= NHeld + Lost("rev") + NOwed("rev")

\* what the sender was told and what the receiver's invoice says
QResults == AtQ => \A p \in P :
              /\ Last.res[p] = "ok" => Settled(p)
              /\ Last.res[p] = "fail" => ~SettledIn(p) /\ ~SettledOut(p)
              /\ Last.inv[p] = "settled" <=> SettledOut(p)
=============================================================================
