SPECIFICATION GSpec
CONSTANTS
  Ids = {1, 2, 3, 4, 5}
  RepIds = {1, 2, 3}
  ResetKeepsOffered = FALSE
  MaxLen = 14
INVARIANTS Dump
CHECK_DEADLOCK FALSE
