SPECIFICATION Spec
CONSTANTS
  NP = 1
  Kinds = {"ok", "reject", "hold", "underpaid"}
  Dirs = {"fwd"}
  MaxNet = 1
  MaxLink = 1
  ReplayOnLinkStart = TRUE
  OwedSigQuirk = FALSE
  StrandQuirk = FALSE
INVARIANTS
  TypeOK
  SettleOnlyWithDownstreamPreimage
  FailOnlyAfterDownstreamGone
  OneAnswer
  ForwardOnlyLockedIn
  ForwardOnce
  PolicyRespected
  MechanismOK
  QuiescenceRules
CHECK_DEADLOCK FALSE
