-------------------------- MODULE ForwardingRules --------------------------
(* C08  "A forwarding node never ends up out of pocket: hops settle or fail  *)
(* together" - the property, written from its statement, over the state the  *)
(* statement talks about.  Both the design model (Forwarding.tla: Bob's      *)
(* mechanism, explored exhaustively under restarts and message loss) and     *)
(* the trace specification (ForwardingTrace.tla: real executions at wire     *)
(* granularity) maintain these variables and are judged by these invariants. *)
(*                                                                           *)
(* Three nodes, two channels.  A payment p is offered by its sender U to     *)
(* Bob on the incoming channel and forwarded by Bob to D on the outgoing     *)
(* channel ("fwd": U=Alice, in=AB, out=BC, D=Carol; "rev": the mirror image).*)
(* st[p] is the stage of p's HTLC on each channel, as BOLT 2 defines it:     *)
(*   add:     none -> offered (update sent, in no signed commitment: volatile*)
(*            on both sides) -> signed (the offerer has signed a commitment  *)
(*            containing it: from here on it is "committed") -> locked       *)
(*            (irrevocably in both commitments: the receiver may act on it)  *)
(*   removal: none -> offered -> signed -> removed (update_fulfill/fail      *)
(*            travelling the other way; "removed" = irrevocably out of both  *)
(*            commitments, the old ones revoked)                             *)
(* hs[p] holds the facts about Bob's own steps that the statement orders;    *)
(* all of them are monotone, so every ordering rule is a state invariant.    *)
EXTENDS Integers, Sequences, FiniteSets

CONSTANT OwedSigQuirk   \* the named deviation O3 / finding F17 (see Owed below) is admitted iff TRUE; FALSE since /repo 1abb1ae

CONSTANT StrandQuirk    \* the named deviation O4 (see Stranded below) is admitted iff TRUE

VARIABLES
  pl,   \* pl[p] = [dir, kind, amt, inamt]: the payment (amt delivered, inamt = amt + Bob's fee as offered to Bob)
  st,   \* st[p] = [ia, ir, irk, oa, or, ork]: stages on the incoming (i) and outgoing (o) channel
  hs    \* hs[p] = history of Bob's steps, see NoHist

P == DOMAIN pl

AddStages == {"none", "offered", "signed", "locked"}
RmStages  == {"none", "offered", "signed", "removed"}
RmKinds   == {"-", "settle", "fail"}

NoStage == [ia |-> "none", ir |-> "none", irk |-> "-", oa |-> "none", or |-> "none", ork |-> "-"]
NoHist  == [upLocked  |-> FALSE,   \* the incoming add was locked in at Bob
            dnOffered |-> FALSE,   \* Bob has sent an outgoing add for p
            dnSigned  |-> FALSE,   \* Bob has signed a commitment containing the outgoing add ("committed downstream")
            dnSettle  |-> FALSE,   \* Bob has received update_fulfill for the outgoing HTLC ...
            dnPre     |-> "-",     \* ... with this preimage ("P" hashes to the payment hash, "X" does not)
            dnFail    |-> FALSE,   \* Bob has received update_fail for the outgoing HTLC
            upSettle  |-> FALSE,   \* Bob has sent update_fulfill for the incoming HTLC ...
            upPre     |-> "-",     \* ... with this preimage
            upFail    |-> FALSE,   \* Bob has sent update_fail for the incoming HTLC
            dbl       |-> FALSE,   \* Bob has offered a second outgoing HTLC for p while/after the first was committed
            strand    |-> FALSE,   \* O4: the incoming link was restarted (the switch was not) while the locked-in add of p
                                   \* was on its way from that link to the forwarder
            owed      |-> FALSE]   \* O3: an update of p sits in its receiver's commitment only, and the signature the
                                   \* receiver owes for it was cut off by a restart (nothing re-sends it until the
                                   \* channel's next update)

TypeOK == /\ \A p \in P : /\ st[p].ia \in AddStages /\ st[p].oa \in AddStages
                          /\ st[p].ir \in RmStages /\ st[p].or \in RmStages
                          /\ st[p].irk \in RmKinds /\ st[p].ork \in RmKinds
                          /\ pl[p].dir \in {"fwd", "rev"}
          /\ DOMAIN st = P /\ DOMAIN hs = P

-----------------------------------------------------------------------------
(* The hop-atomicity rules.                                                  *)

\* "the incoming HTLC is settled only with the preimage learned from the outgoing HTLC"
SettleOnlyWithDownstreamPreimage ==
  \A p \in P : hs[p].upSettle => /\ hs[p].dnSettle
                                 /\ hs[p].upPre = hs[p].dnPre
                                 /\ hs[p].upPre = "P"

\* "and is failed back only once the outgoing HTLC was irrevocably removed or never committed".
\* dnSigned is monotone: a fail sent while the outgoing add was not committed becomes a violation
\* the moment Bob commits it afterwards.
FailOnlyAfterDownstreamGone ==
  \A p \in P : hs[p].upFail => \/ ~hs[p].dnSigned
                               \/ (st[p].or = "removed" /\ st[p].ork = "fail")

\* one answer per incoming HTLC
OneAnswer == \A p \in P : ~(hs[p].upSettle /\ hs[p].upFail)

\* an add is forwarded only when it is locked in on both commitments of the incoming channel
ForwardOnlyLockedIn == \A p \in P : hs[p].dnOffered => hs[p].upLocked

\* at most one outgoing HTLC is ever committed for one incoming HTLC
ForwardOnce == \A p \in P : ~hs[p].dbl

\* Bob forwards exactly what the onion tells him to (inamt - amt is his fee); an under-paid add is
\* never forwarded
PolicyRespected == \A p \in P : hs[p].dnOffered => pl[p].kind # "underpaid"

-----------------------------------------------------------------------------
(* Quiescence: "the forwarder's total balance over both channels equals its  *)
(* starting total plus exactly the fees of the payments that succeeded,      *)
(* sender debits equal receiver credits plus those fees, and no HTLC or      *)
(* circuit is left dangling".                                                *)

SettledIn(p)  == st[p].ir = "removed" /\ st[p].irk = "settle"
SettledOut(p) == st[p].or = "removed" /\ st[p].ork = "settle"

\* the terminal shapes of one payment
Untouched(p)  == st[p] = NoStage      \* never offered, or offered and lost before its sender signed (O2)
Settled(p)    == /\ st[p].ia = "locked" /\ st[p].oa = "locked" /\ SettledIn(p) /\ SettledOut(p)
FailedBack(p) == /\ st[p].ia = "locked" /\ st[p].ir = "removed" /\ st[p].irk = "fail"
                 /\ \/ st[p].oa = "none" /\ st[p].or = "none"
                    \/ st[p].oa = "locked" /\ st[p].or = "removed" /\ st[p].ork = "fail"
Held(p)       == /\ pl[p].kind \in {"hold", "hold_settle", "hold_cancel"}
                 /\ st[p].ia = "locked" /\ st[p].oa = "locked" /\ st[p].ir = "none" /\ st[p].or = "none"

\* Named deviation O3 (finding F17, found by this check, repaired in /repo 1abb1ae): a link signed "because it
\* owes a commitment" only while handling a commit_sig or a revoke_and_ack.  If both links of a channel restarted
\* after one side had revoked but before it signed back, that side resumed with no local update pending and
\* never sent the owed signature: the update stayed on one commitment until some other update moved the channel.
\* Kept as a switch: with TRUE the pre-repair behaviour validates (mutation control mutations/C08/revert_F17.diff).
Owed(p) == OwedSigQuirk /\ hs[p].owed
NoneOwed == \A p \in P : ~hs[p].owed

\* Named deviation O4 (real lnd behaviour, found by this check): Switch.ForwardPackets commits the circuit of a
\* locked-in add (CommitCircuits) and then hands the packet to the forwarder with routeAsync, which gives up when
\* the SENDING link is being stopped.  A reconnect of the incoming channel in that window loses the packet while
\* its circuit stays committed; the restarted link forwards the add again, and CommitCircuits drops it as a
\* duplicate ("no keystone, not loaded from disk: the packet is still in the outgoing mailbox" - it is not).  The
\* incoming HTLC then stays locked in and unanswered until the switch itself restarts (or the HTLC times out).
Stranded(p) == /\ StrandQuirk /\ hs[p].strand
               /\ st[p].ia = "locked" /\ st[p].oa = "none" /\ st[p].ir = "none" /\ st[p].or = "none"

NothingDangling == \A p \in P : Untouched(p) \/ Settled(p) \/ FailedBack(p) \/ Held(p) \/ Owed(p) \/ Stranded(p)

RECURSIVE Sum(_, _)
Sum(f, S) == IF S = {} THEN 0 ELSE LET x == CHOOSE y \in S : TRUE IN f[x] + Sum(f, S \ {x})

\* balance movements implied by the stages (an HTLC moves value when its settle is irrevocable)
BobGain      == Sum([p \in P |-> IF SettledIn(p) THEN pl[p].inamt ELSE 0], P)
                - Sum([p \in P |-> IF SettledOut(p) THEN pl[p].amt ELSE 0], P)
FeesOfSucceeded == Sum([p \in P |-> IF SettledOut(p) THEN pl[p].inamt - pl[p].amt ELSE 0], P)
SenderDebit(d)   == Sum([p \in P |-> IF pl[p].dir = d /\ SettledIn(p) THEN pl[p].inamt ELSE 0], P)
ReceiverCredit(d) == Sum([p \in P |-> IF pl[p].dir = d /\ SettledOut(p) THEN pl[p].amt ELSE 0], P)
FeesDir(d)       == Sum([p \in P |-> IF pl[p].dir = d /\ SettledOut(p) THEN pl[p].inamt - pl[p].amt ELSE 0], P)

Conservation == /\ BobGain = FeesOfSucceeded
                /\ \A d \in {"fwd", "rev"} : SenderDebit(d) = ReceiverCredit(d) + FeesDir(d)

\* what must hold whenever the system is quiescent
QuiescentOK == NothingDangling /\ (NoneOwed => Conservation)
=============================================================================
