---- MODULE CloseKeysMC ----
EXTENDS CloseKeys
====
