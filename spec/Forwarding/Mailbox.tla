------------------------------- MODULE Mailbox -------------------------------
(* C08, the packet half of htlcswitch.memoryMailBox (mailbox.go): the only   *)
(* place from which a settle/fail or an add is handed again to a link that   *)
(* restarts while the switch keeps running.                                  *)
(*   rep, adds   the two queues (settles/fails, adds) in arrival order; a    *)
(*               packet stays queued until AckPacket removes it              *)
(*   rh, ah      the head pointers (index; Len+1 = nil): next to hand out    *)
(*   cour        what the courier goroutine is blocked offering on the       *)
(*               outbox channel: it peeks the heads under the lock (replies  *)
(*               first), then blocks in a select; AddPacket does not make it *)
(*               look again                                                  *)
(*   seen        history: packets handed to the link since the last reset    *)
(* Steps: AddPacket (duplicates of a queued circuit key are refused), Pick   *)
(* (courier, silent), Deliver (the link reads the offered packet; the head   *)
(* advances only if it still is that element), AckPacket (removes; a removed *)
(* head moves on), ResetPackets (link stop/start: both heads back to the     *)
(* front, the courier starts over), RecvNone (the link finds the outbox      *)
(* empty: only possible when nothing is left to hand out).                   *)
EXTENDS Integers, Sequences, FiniteSets

CONSTANTS Ids,                 \* packet identities (incoming circuit keys); each is added at most once
          RepIds,              \* those that are settles/fails; the others are adds
          ResetKeepsOffered    \* FALSE = the code; TRUE = the defect: a reset served while a reply is being
                               \* offered leaves the reply head where it is

VARIABLES rep, adds, rh, ah, cour, seen, used
mvars == <<rep, adds, rh, ah, cour, seen, used>>

NoOffer == [k |-> "none", id |-> 0]
MInit == rep = <<>> /\ adds = <<>> /\ rh = 1 /\ ah = 1 /\ cour = NoOffer /\ seen = {} /\ used = {}

Range(q) == {q[i] : i \in 1..Len(q)}
IndexOf(q, x) == CHOOSE i \in 1..Len(q) : q[i] = x
Without(q, i) == [j \in 1..(Len(q) - 1) |-> IF j < i THEN q[j] ELSE q[j + 1]]

\* AddPacket: ok = FALSE iff ErrPacketAlreadyExists
AddPacket(x, ok) ==
  /\ ok = (x \notin Range(rep) \cup Range(adds))
  /\ IF ~ok THEN UNCHANGED <<rep, adds>>
     ELSE IF x \in RepIds THEN rep' = Append(rep, x) /\ UNCHANGED adds
     ELSE adds' = Append(adds, x) /\ UNCHANGED rep
  /\ used' = used \cup {x}
  /\ UNCHANGED <<rh, ah, cour, seen>>

\* the courier peeks: replies before adds
Pick == /\ cour.k = "none"
        /\ \/ rh <= Len(rep) /\ cour' = [k |-> "rep", id |-> rep[rh]]
           \/ rh > Len(rep) /\ ah <= Len(adds) /\ cour' = [k |-> "add", id |-> adds[ah]]
        /\ UNCHANGED <<rep, adds, rh, ah, seen, used>>

\* the link reads the offered packet
Deliver(x) ==
  /\ cour.k # "none" /\ cour.id = x
  /\ rh' = IF cour.k = "rep" /\ rh <= Len(rep) /\ rep[rh] = x THEN rh + 1 ELSE rh
  /\ ah' = IF cour.k = "add" /\ ah <= Len(adds) /\ adds[ah] = x THEN ah + 1 ELSE ah
  /\ cour' = NoOffer
  /\ seen' = seen \cup {x}
  /\ UNCHANGED <<rep, adds, used>>

\* the link waited and got nothing: nothing is on offer and nothing is left to offer
RecvNone == /\ cour.k = "none" /\ rh > Len(rep) /\ ah > Len(adds)
            /\ UNCHANGED mvars

\* AckPacket: ok = whether something was removed.  Removing the head moves it to the next element.
AckPacket(x, ok) ==
  /\ ok = (x \in Range(rep) \cup Range(adds))
  /\ IF x \in Range(rep)
     THEN LET i == IndexOf(rep, x) IN
          /\ rep' = Without(rep, i) /\ rh' = IF i < rh THEN rh - 1 ELSE rh
          /\ UNCHANGED <<adds, ah>>
     ELSE IF x \in Range(adds)
     THEN LET i == IndexOf(adds, x) IN
          /\ adds' = Without(adds, i) /\ ah' = IF i < ah THEN ah - 1 ELSE ah
          /\ UNCHANGED <<rep, rh>>
     ELSE UNCHANGED <<rep, adds, rh, ah>>
  /\ UNCHANGED <<cour, seen, used>>

\* ResetPackets, served by the courier wherever it is
ResetPackets ==
  /\ rh' = IF ResetKeepsOffered /\ cour.k = "rep" THEN rh ELSE 1
  /\ ah' = 1
  /\ cour' = NoOffer
  /\ seen' = {}
  /\ UNCHANGED <<rep, adds, used>>

MNext == \/ \E x \in Ids \ used : AddPacket(x, TRUE)
         \/ \E x \in Range(rep) \cup Range(adds) : AddPacket(x, FALSE)
         \/ Pick \/ RecvNone \/ ResetPackets
         \/ \E x \in Ids : Deliver(x) \/ \E b \in BOOLEAN : AckPacket(x, b)
MSpec == MInit /\ [][MNext]_mvars

-----------------------------------------------------------------------------
(* What the links rely on.                                                   *)
\* everything queued before the head has been handed out since the last reset: after a reset every packet
\* that was delivered but not acked is delivered again before anything later, nothing is skipped
NothingSkipped == /\ \A i \in 1..Len(rep) : i < rh => rep[i] \in seen
                  /\ \A i \in 1..Len(adds) : i < ah => adds[i] \in seen
\* when the courier has nothing left to offer, every queued packet has been handed out since the last reset
NothingLost == (cour.k = "none" /\ rh > Len(rep) /\ ah > Len(adds)) => (Range(rep) \cup Range(adds)) \subseteq seen
\* heads stay inside their queues; the queues hold no duplicates
WellFormed == /\ rh \in 1..(Len(rep) + 1) /\ ah \in 1..(Len(adds) + 1)
              /\ Cardinality(Range(rep)) = Len(rep) /\ Cardinality(Range(adds)) = Len(adds)
              /\ Range(rep) \subseteq RepIds /\ Range(adds) \cap RepIds = {}
=============================================================================
