---- MODULE SwitchAckTrace ----
(* Trace validation of the real Switch (real circuit map, real forwarding package in the switch's DB, mock   *)
(* links): every recorded step is the SwitchAck step of that name, and what the real switch shows afterwards  *)
(* (circuits pending/open, SettleFailFilter bit, packet handed to the incoming link) equals the model.        *)
EXTENDS SwitchAck, Json
VARIABLE l
Trace == ndJsonDeserialize("trace.ndjson")
Last == Trace[l - 1]
Is(a) == l <= Len(Trace) /\ Trace[l].a = a /\ l' = l + 1
TInit == SInit /\ l = 1
Reset == /\ Is("Reset") /\ kind' = Trace[l].kind
         /\ circ' = "open" /\ mb' = FALSE /\ pkg' = "none" /\ pend' = FALSE /\ got' = 0
TNext == \/ Reset
         \/ (Is("Pipe") /\ Pipe) \/ (Is("Lock") /\ Lock) \/ (Is("Commit") /\ Commit)
         \/ (Is("Tick") /\ Tick) \/ (Is("Restart") /\ Restart)
         \/ (l = Len(Trace) + 1 /\ UNCHANGED <<svars, l>>)
TSpec == TInit /\ [][TNext]_<<svars, l>>
Live == l > 1
B(x) == IF x THEN 1 ELSE 0
ConformCircuits == Live => Last.pending = B(circ # "gone") /\ Last.open = B(circ # "gone")
ConformDelivery == Live => Last.got = got
\* the SettleFailFilter bit as read from the database
ConformAck == Live => Last.acked = B(pkg = "acked")
====
