---- MODULE SwitchAckTrace ----
(* Trace validation of the real Switch (real circuit map, real forwarding package of a real channel in the   *)
(* switch's DB, real channelLink.loadAndRemove as the garbage collector, mock links): every recorded step is  *)
(* the SwitchAck step of that name, and what the real node shows afterwards (circuits pending/open, package   *)
(* present / its state / its SettleFailFilter bit as read from the database, packet handed to the incoming    *)
(* link) equals the model.                                                                                   *)
EXTENDS SwitchAck, Json
VARIABLE l
Trace == ndJsonDeserialize("trace.ndjson")
Last == Trace[l - 1]
Is(a) == l <= Len(Trace) /\ Trace[l].a = a /\ l' = l + 1
TInit == SInit /\ l = 1
Reset == /\ Is("Reset") /\ kind' = Trace[l].kind
         /\ circ' = "open" /\ mb' = FALSE /\ pkg' = "none" /\ proc' = FALSE /\ owed' = FALSE /\ pend' = FALSE /\ got' = 0
TNext == \/ Reset
         \/ (Is("Pipe") /\ Pipe) \/ (Is("Revoke") /\ Revoke) \/ (Is("Hand") /\ Hand) \/ (Is("Lock") /\ Lock)
         \/ (Is("Commit") /\ Commit) \/ (Is("Tick") /\ Tick) \/ (Is("GC") /\ GC) \/ (Is("Restart") /\ Restart)
         \/ (l = Len(Trace) + 1 /\ UNCHANGED <<svars, l>>)
TSpec == TInit /\ [][TNext]_<<svars, l>>
Live == l > 1
B(x) == IF x THEN 1 ELSE 0
Exists == pkg \in {"new", "acked"}
ConformCircuits == Live => Last.pending = B(circ # "gone") /\ Last.open = B(circ # "gone")
ConformDelivery == Live => Last.got = got
\* the package as read from the database: present, FwdState beyond LockedIn, SettleFailFilter bit
ConformPkg == Live => Last.npkg = B(Exists) /\ Last.proc = B(Exists /\ proc)
ConformAck == Live => Last.acked = B(pkg = "acked")
====
