SPECIFICATION TSpec
CONSTANTS
  AckWhileClosing = FALSE
INVARIANTS ConformCircuits ConformDelivery ConformAck AckOnlyAfterTeardown ResponseRecoverable
CHECK_DEADLOCK TRUE
