SPECIFICATION TSpec
CONSTANTS
  AckWhileClosing = FALSE
  GCIgnoresSettleFails = FALSE
  ReforwardSkipsLockedIn = FALSE
INVARIANTS ConformCircuits ConformDelivery ConformPkg ConformAck AckOnlyAfterTeardown RemovedOnlyWhenDone ResponseRecoverable NothingStranded
CHECK_DEADLOCK TRUE
