SPECIFICATION CSpec
CONSTANTS
  N = 3
  DropFailKeys = FALSE
INVARIANTS NoCircuitLeftBehind CircuitWhileUnanswered
CHECK_DEADLOCK FALSE
