---- MODULE CloseKeysTrace ----
(* Trace validation of the real incoming channelLink (real lnwallet channel pair, real Switch circuit map on  *)
(* the channel's database; handleDownstreamPkt and syncChanStates are the link's own methods): every recorded *)
(* step is the CloseKeys step of that name, and what the real node shows afterwards equals the model: the     *)
(* circuits still in the circuit map, the keys the link got back from ProcessChanSyncMsg at a restart, which  *)
(* HTLCs the two ends' commitments still carry.                                                              *)
EXTENDS CloseKeys, Json, Sequences
VARIABLE l
Trace == ndJsonDeserialize("trace.ndjson")
Last == Trace[l - 1]
Is(a) == l <= Len(Trace) /\ Trace[l].a = a /\ l' = l + 1
TInit == CInit /\ l = 1
ToSet(s) == {s[i] : i \in 1..Len(s)}
Reset == /\ Is("Reset") /\ kind' = [k \in K |-> Trace[l].kinds[k]]
         /\ st' = [k \in K |-> "in"] /\ circ' = [k \in K |-> TRUE] /\ up' = TRUE /\ closed' = {}
TNext == \/ Reset
         \/ (\E k \in K : Is("Deliver") /\ Trace[l].k = k /\ Deliver(k))
         \/ (\E k \in K : Is("DeliverCrash") /\ Trace[l].k = k /\ DeliverCrash(k))
         \/ (Is("PeerAck") /\ PeerAck) \/ (Is("Restart") /\ Restart)
         \/ (l = Len(Trace) + 1 /\ UNCHANGED <<cvars, l>>)
TSpec == TInit /\ [][TNext]_<<cvars, l>>
Live == l > 1
\* the circuit map as read back (LookupCircuit per HTLC)
ConformCircuits == Live => ToSet(Last.circs) = {k \in K : circ[k]}
\* the keys syncChanStates received from ProcessChanSyncMsg (0 outside a Restart step)
ConformClosed == (Live /\ Last.a = "Restart") => ToSet(Last.closed) = closed
\* the HTLCs our latest local commitment still carries = those not yet irrevocably answered
ConformChannel == Live => ToSet(Last.active) = {k \in K : st[k] # "done"}
====
