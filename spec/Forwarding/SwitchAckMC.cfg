SPECIFICATION SSpec
CONSTANTS
  AckWhileClosing = FALSE
  GCIgnoresSettleFails = FALSE
  ReforwardSkipsLockedIn = FALSE
INVARIANTS AckOnlyAfterTeardown RemovedOnlyWhenDone ResponseRecoverable NothingStranded
CHECK_DEADLOCK FALSE
