SPECIFICATION SSpec
CONSTANTS
  AckWhileClosing = FALSE
INVARIANTS AckOnlyAfterTeardown ResponseRecoverable
CHECK_DEADLOCK FALSE
