---- MODULE ForwardingMC ----
EXTENDS Forwarding
====
