----------------------------- MODULE Forwarding -----------------------------
(* Design model of forwarding through one node (Bob) between two channels:   *)
(* the mechanism of htlcswitch (link.go, switch.go, circuit_map.go,          *)
(* mailbox.go) and of the forwarding packages, one action per critical       *)
(* section / durable transaction, explored exhaustively by TLC under         *)
(* network restarts, link restarts (peer reconnects) and the message loss    *)
(* that comes with them, for every mix of successful, rejected, held and     *)
(* under-paid payments in both directions.  The property (ForwardingRules)   *)
(* is checked in every reachable state; the quiescence clauses in every      *)
(* state in which nothing but a fault can happen.                            *)
(*                                                                           *)
(* The commitment dance of a channel is abstracted to the stages of          *)
(* ForwardingRules (offered -> signed -> locked; a restart forgets what is   *)
(* only offered and retransmits what is signed); ForwardingTrace refines     *)
(* these stages to single wire messages.                                     *)
(*                                                                           *)
(* Per payment p, Bob keeps (b[p]):                                          *)
(*   durable  fp   forwarding package of the incoming add: none/new/done     *)
(*                 (FwdStateLockedIn / FwdStateProcessed), fwd = FwdFilter   *)
(*                 bit, ack = AckFilter bit                                  *)
(*            circ circuit: none / half (committed) / open (keystone)        *)
(*            fpo  settle/fail of the outgoing HTLC in that channel's        *)
(*                 package: none / new / acked (SettleFailFilter)            *)
(*            pre  preimage known                                            *)
(*   volatile disk (circuit LoadedFromDisk), clos (circuit in `closed`),     *)
(*            sw   the incoming link is about to call ForwardPackets for it, *)
(*            rt   add queued for the switch's forwarder (policy check),     *)
(*            mbo  add in the outgoing link's mailbox, ks keystone queued,   *)
(*            mbi  response in the incoming link's mailbox (src: made        *)
(*                 locally or received; dref: carries a SettleFailRef;       *)
(*                 mbu: already handed to the link in its current life),     *)
(*            cq   circuit queued for deletion by the incoming link,         *)
(*            got  the outgoing link has received the peer's settle/fail,    *)
(*            ps   a received settle is being pipelined to the switch,       *)
(*            rp / rr  (re-)processing of the packages' adds / responses due *)
(* A link that stops loses what it was handing to the switch (ps, rr: the    *)
(* hand-over runs in a goroutine that gives up with ErrLinkShuttingDown);    *)
(* what is in a forwarding package is replayed when the link starts again.   *)
EXTENDS ForwardingRules, TLC

CONSTANTS NP,        \* number of payments
          Kinds,     \* subset of {"ok", "reject", "hold", "underpaid"}
          Dirs,      \* subset of {"fwd", "rev"}
          MaxNet,    \* bound on restarts of the whole network
          MaxLink,   \* bound on link restarts (reconnects)
          ReplayOnLinkStart  \* TRUE = the code: a starting link replays the unacked settles/fails of its packages
                             \* (resolveFwdPkg -> processRemoteSettleFails); FALSE only in the witness run that shows
                             \* the quiescence rules need it

VARIABLES b,         \* Bob's mechanism state
          env,       \* senders and receivers: [dec, started, umb, orph]
          stall,     \* stall[p] = [i, o]: O3 - a signature owed on the incoming / outgoing channel was cut off
          nNet, nLink

vars == <<pl, st, hs, b, env, stall, nNet, nLink>>

NoBob == [fp |-> "none", fwd |-> FALSE, ack |-> FALSE, circ |-> "none", fpo |-> "none", pre |-> FALSE,
          disk |-> FALSE, clos |-> FALSE, sw |-> FALSE, mbo |-> FALSE, ks |-> FALSE,
          rt |-> FALSE, mbi |-> "none", mbu |-> FALSE, src |-> "-", dref |-> FALSE, cq |-> FALSE, got |-> FALSE,
          rp |-> FALSE, rr |-> FALSE, pa |-> FALSE, ps |-> FALSE]
NoEnv == [dec |-> "-", started |-> FALSE, umb |-> FALSE, orph |-> FALSE]

\* amounts: Bob's fee is 1, an under-paid add offers one unit less
Plan(d, k) == [dir |-> d, kind |-> k, amt |-> 10, inamt |-> IF k = "underpaid" THEN 10 ELSE 11]

Init == /\ pl \in [1..NP -> {Plan(d, k) : d \in Dirs, k \in Kinds}]
        /\ st = [p \in 1..NP |-> NoStage]
        /\ hs = [p \in 1..NP |-> NoHist]
        /\ b = [p \in 1..NP |-> NoBob]
        /\ env = [p \in 1..NP |-> NoEnv]
        /\ stall = [p \in 1..NP |-> [i |-> FALSE, o |-> FALSE]]
        /\ nNet = 0 /\ nLink = 0

InCh(p)  == IF pl[p].dir = "fwd" THEN "AB" ELSE "BC"
OutCh(p) == IF pl[p].dir = "fwd" THEN "BC" ELSE "AB"

Set(f, p, fld, v) == [f EXCEPT ![p][fld] = v]
\* any signature on a physical channel carries the signatures owed on it
Unstall(c) == [q \in P |-> [i |-> stall[q].i /\ InCh(q) # c, o |-> stall[q].o /\ OutCh(q) # c]]

-----------------------------------------------------------------------------
(* The sender U and the incoming channel.                                    *)
U_Offer(p) == /\ st[p].ia = "none" /\ ~env[p].orph /\ (~env[p].started \/ env[p].umb)
              /\ st' = Set(st, p, "ia", "offered")
              /\ env' = [env EXCEPT ![p].started = TRUE, ![p].umb = TRUE]
              /\ UNCHANGED <<pl, hs, b, stall, nNet, nLink>>

U_Sign(p) == /\ st[p].ia = "offered"
             /\ st' = Set(st, p, "ia", "signed")
             /\ env' = [env EXCEPT ![p].umb = FALSE]
             /\ stall' = Unstall(InCh(p))
             /\ UNCHANGED <<pl, hs, b, nNet, nLink>>

\* Bob receives the revocation that locks the add in: the forwarding package is written in the same transaction
In_Lock(p) == /\ st[p].ia = "signed" /\ ~stall[p].i
              /\ st' = Set(st, p, "ia", "locked")
              /\ hs' = Set(hs, p, "upLocked", TRUE)
              /\ b' = Set(b, p, "fp", "new")
              /\ UNCHANGED <<pl, env, stall, nNet, nLink>>

-----------------------------------------------------------------------------
(* Bob: from the incoming link through the switch to the outgoing link.      *)

\* processRemoteAdds, first time: SetFwdFilter (durable), then the packet leaves for the switch
B_Process(p) == /\ b[p].fp = "new"
                /\ b' = [b EXCEPT ![p].fp = "done", ![p].fwd = TRUE, ![p].sw = TRUE]
                /\ UNCHANGED <<pl, st, hs, env, stall, nNet, nLink>>

\* what CommitCircuits answers for the add of p (ForwardPackets calls it synchronously; failed circuits are
\* failed back at once, added ones are queued for the forwarder)
Commit(r) == CASE r.circ = "none" -> [r EXCEPT !.circ = "half", !.disk = FALSE, !.rt = TRUE]
               [] r.circ = "open" -> r                                   \* waiting for the peer's answer: drop
               [] r.circ = "half" /\ ~r.disk -> r                        \* still in a mailbox: drop
               [] OTHER -> IF r.mbi = "none"                             \* packet lost by a restart: fail back
                           THEN [r EXCEPT !.mbi = "fail", !.mbu = FALSE, !.src = "local", !.dref = FALSE] ELSE r

\* processRemoteAdds after a restart: adds of a processed package that are not acked are forwarded again,
\* unless a response already waits in the incoming mailbox (forwardBatch)
B_Reforward(p) == /\ b[p].rp /\ b[p].fp = "done" /\ b[p].fwd /\ ~b[p].ack
                  /\ b' = [b EXCEPT ![p] = IF @.mbi # "none" THEN [@ EXCEPT !.rp = FALSE]
                                           ELSE Commit([@ EXCEPT !.rp = FALSE])]
                  /\ UNCHANGED <<pl, st, hs, env, stall, nNet, nLink>>

\* first processing: ForwardPackets -> CommitCircuits (a second transaction after SetFwdFilter)
B_Commit(p) == /\ b[p].sw
               /\ b' = [b EXCEPT ![p] = IF @.mbi # "none" THEN [@ EXCEPT !.sw = FALSE]
                                        ELSE Commit([@ EXCEPT !.sw = FALSE])]
               /\ UNCHANGED <<pl, st, hs, env, stall, nNet, nLink>>

\* the forwarder: policy check of the outgoing link, then its mailbox - or a failure into the incoming one
B_Route(p) == /\ b[p].rt
              /\ b' = [b EXCEPT ![p] =
                    IF pl[p].kind = "underpaid"
                    THEN IF @.mbi = "none"
                         THEN [@ EXCEPT !.rt = FALSE, !.mbi = "fail", !.mbu = FALSE, !.src = "local", !.dref = FALSE]
                         ELSE [@ EXCEPT !.rt = FALSE]
                    ELSE [@ EXCEPT !.rt = FALSE, !.mbo = TRUE]]
              /\ UNCHANGED <<pl, st, hs, env, stall, nNet, nLink>>

\* the outgoing link takes the add from its mailbox: AddHTLC, update_add_htlc, keystone queued
B_OutAdd(p) == /\ b[p].mbo /\ st[p].oa = "none"
               /\ st' = Set(st, p, "oa", "offered")
               /\ hs' = [hs EXCEPT ![p].dnOffered = TRUE, ![p].dbl = @ \/ hs[p].dnSigned]
               /\ b' = Set(b, p, "ks", TRUE)
               /\ UNCHANGED <<pl, env, stall, nNet, nLink>>

\* updateCommitTx, first transaction: OpenCircuits
B_OpenCircuit(p) == /\ st[p].oa = "offered" /\ b[p].ks /\ b[p].circ = "half"
                    /\ b' = [b EXCEPT ![p].circ = "open", ![p].ks = FALSE]
                    /\ UNCHANGED <<pl, st, hs, env, stall, nNet, nLink>>

\* second transaction: SignNextCommitment - the add is committed, its AddRef acked, the mailbox packet acked
B_OutSign(p) == /\ st[p].oa = "offered" /\ ~b[p].ks /\ b[p].circ = "open"
                /\ st' = Set(st, p, "oa", "signed")
                /\ hs' = Set(hs, p, "dnSigned", TRUE)
                /\ b' = [b EXCEPT ![p].ack = TRUE, ![p].mbo = FALSE]
                /\ stall' = Unstall(OutCh(p))
                /\ UNCHANGED <<pl, env, nNet, nLink>>

Out_Lock(p) == /\ st[p].oa = "signed" /\ ~stall[p].o
               /\ st' = Set(st, p, "oa", "locked")
               /\ UNCHANGED <<pl, hs, b, env, stall, nNet, nLink>>

-----------------------------------------------------------------------------
(* The receiver D (exit hop): invoice registry decision is durable.          *)
D_Decide(p) == /\ st[p].oa = "locked" /\ env[p].dec = "-"
               /\ env' = Set(env, p, "dec", CASE pl[p].kind = "ok" -> "settle"
                                              [] pl[p].kind = "hold" -> "hold"
                                              [] OTHER -> "fail")
               /\ UNCHANGED <<pl, st, hs, b, stall, nNet, nLink>>

D_HoldResolve(p) == /\ env[p].dec = "hold"
                    /\ \E d \in {"settle", "fail"} : env' = Set(env, p, "dec", d)
                    /\ UNCHANGED <<pl, st, hs, b, stall, nNet, nLink>>

D_Answer(p) == /\ st[p].oa = "locked" /\ st[p].or = "none" /\ env[p].dec \in {"settle", "fail"}
               /\ st' = [st EXCEPT ![p].or = "offered", ![p].ork = env[p].dec]
               /\ UNCHANGED <<pl, hs, b, env, stall, nNet, nLink>>

D_Sign(p) == /\ st[p].or = "offered"
             /\ st' = Set(st, p, "or", "signed")
             /\ stall' = Unstall(OutCh(p))
             /\ UNCHANGED <<pl, hs, b, env, nNet, nLink>>

-----------------------------------------------------------------------------
(* Bob: the answer travels back.                                             *)

\* closeCircuit + mailbox of the incoming link; a response for an unknown circuit is only acknowledged
Close(r, kind, withRef) ==
  IF r.circ = "open" /\ ~r.clos
  THEN IF r.mbi = "none"
       THEN [r EXCEPT !.clos = TRUE, !.mbi = kind, !.mbu = FALSE, !.src = "remote", !.dref = withRef]
       ELSE [r EXCEPT !.clos = TRUE]             \* the mailbox keeps one response per circuit
  ELSE IF r.circ = "open" THEN r
  ELSE [r EXCEPT !.pa = @ \/ withRef]

\* the outgoing link receives update_fulfill / update_fail; a settle is pipelined to the switch at once
B_RecvAnswer(p) == /\ st[p].or \in {"offered", "signed"} /\ ~b[p].got
                   /\ IF st[p].ork = "settle"
                      THEN /\ hs' = [hs EXCEPT ![p].dnSettle = TRUE, ![p].dnPre = "P"]
                           /\ b' = [b EXCEPT ![p].got = TRUE, ![p].pre = TRUE, ![p].ps = TRUE]
                      ELSE /\ hs' = Set(hs, p, "dnFail", TRUE)
                           /\ b' = Set(b, p, "got", TRUE)
                   /\ UNCHANGED <<pl, st, env, stall, nNet, nLink>>

\* the pipelined settle reaches the switch (go forwardBatch)
B_Pipeline(p) == /\ b[p].ps
                 /\ b' = [b EXCEPT ![p] = Close([@ EXCEPT !.ps = FALSE], "settle", FALSE)]
                 /\ UNCHANGED <<pl, st, hs, env, stall, nNet, nLink>>

\* the removal is irrevocable: package written with the revocation, processRemoteSettleFails due
Out_RmLock(p) == /\ st[p].or = "signed" /\ b[p].got /\ ~stall[p].o
                 /\ st' = Set(st, p, "or", "removed")
                 /\ b' = [b EXCEPT ![p].fpo = "new", ![p].rr = TRUE]
                 /\ UNCHANGED <<pl, hs, env, stall, nNet, nLink>>

\* processRemoteSettleFails / reforwardResponses: through the switch to the incoming mailbox
B_ForwardAnswer(p) == /\ b[p].rr /\ b[p].fpo = "new"
                      /\ b' = [b EXCEPT ![p] = Close([@ EXCEPT !.rr = FALSE], st[p].ork, TRUE)]
                      /\ UNCHANGED <<pl, st, hs, env, stall, nNet, nLink>>

\* the switch's ack ticker: settle/fail references of responses that found no circuit
B_AckTick(p) == /\ b[p].pa /\ b[p].fpo = "new"
                /\ b' = [b EXCEPT ![p].fpo = "acked", ![p].pa = FALSE]
                /\ UNCHANGED <<pl, st, hs, env, stall, nNet, nLink>>

\* the incoming link takes the response: SettleHTLC / FailHTLC and the wire message ...
B_AnswerUp(p) == /\ b[p].mbi # "none" /\ ~b[p].mbu /\ ~b[p].sw /\ st[p].ia = "locked" /\ st[p].ir = "none"
                 /\ st' = [st EXCEPT ![p].ir = "offered", ![p].irk = b[p].mbi]
                 /\ hs' = IF b[p].mbi = "settle"
                          THEN [hs EXCEPT ![p].upSettle = TRUE, ![p].upPre = IF b[p].pre THEN "P" ELSE "X"]
                          ELSE Set(hs, p, "upFail", TRUE)
                 /\ b' = [b EXCEPT ![p].cq = TRUE, ![p].mbu = TRUE]
                 /\ UNCHANGED <<pl, env, stall, nNet, nLink>>

\* ... or finds the HTLC already answered in its log: the packet is only taken off the mailbox ...
B_DupAnswer(p) == /\ b[p].mbi # "none" /\ ~b[p].mbu /\ st[p].ir \in {"offered", "signed"}
                  /\ b' = [b EXCEPT ![p].mbi = "none", ![p].src = "-", ![p].dref = FALSE]
                  /\ UNCHANGED <<pl, st, hs, env, stall, nNet, nLink>>

\* ... or does not know the HTLC any more: cleanupSpuriousResponse acks the references and deletes the circuit
B_Spurious(p) == /\ b[p].mbi # "none" /\ ~b[p].mbu /\ st[p].ir = "removed"
                 /\ b' = [b EXCEPT ![p].mbi = "none", ![p].src = "-", ![p].ack = TRUE,
                                   ![p].fpo = IF b[p].dref /\ @ = "new" THEN "acked" ELSE @,
                                   ![p].dref = FALSE, ![p].circ = "none", ![p].clos = FALSE, ![p].cq = FALSE]
                 /\ UNCHANGED <<pl, st, hs, env, stall, nNet, nLink>>

\* SignNextCommitment on the incoming channel: the answer is committed; AddRef and SettleFailRef acked with it
B_InSign(p) == /\ st[p].ir = "offered"
               /\ st' = Set(st, p, "ir", "signed")
               /\ b' = [b EXCEPT ![p].ack = TRUE, ![p].fpo = IF b[p].dref /\ @ = "new" THEN "acked" ELSE @]
               /\ stall' = Unstall(InCh(p))
               /\ UNCHANGED <<pl, hs, env, nNet, nLink>>

\* ackDownStreamPackets: DeleteCircuits, then the mailbox packet is acked; only then is the signature sent
B_DeleteCircuit(p) == /\ b[p].cq /\ st[p].ir = "signed"
                      /\ b' = [b EXCEPT ![p].circ = "none", ![p].clos = FALSE, ![p].cq = FALSE,
                                        ![p].mbi = "none", ![p].mbu = FALSE, ![p].src = "-", ![p].dref = FALSE]
                      /\ UNCHANGED <<pl, st, hs, env, stall, nNet, nLink>>

In_RmLock(p) == /\ st[p].ir = "signed" /\ ~b[p].cq /\ ~stall[p].i
                /\ st' = Set(st, p, "ir", "removed")
                /\ UNCHANGED <<pl, hs, b, env, stall, nNet, nLink>>

-----------------------------------------------------------------------------
(* Faults.                                                                   *)

\* what a restart of the links of physical channel set C forgets (applied to every payment)
\* net = TRUE: the switches restart too (mailboxes, `closed`, in-flight packets gone; circuits reloaded)
AfterRestart(C, net) ==
  /\ st' = [p \in P |->
       LET i == InCh(p) \in C  o == OutCh(p) \in C IN
       [st[p] EXCEPT !.ia = IF i /\ @ = "offered" THEN "none" ELSE @,
                     !.ir = IF i /\ @ = "offered" THEN "none" ELSE @,
                     !.irk = IF i /\ st[p].ir = "offered" THEN "-" ELSE @,
                     !.oa = IF o /\ @ = "offered" THEN "none" ELSE @,
                     !.or = IF o /\ @ = "offered" THEN "none" ELSE @,
                     !.ork = IF o /\ st[p].or = "offered" THEN "-" ELSE @]]
  /\ env' = [p \in P |-> [env[p] EXCEPT !.orph = @ \/ (net /\ env[p].started /\ st[p].ia \in {"none", "offered"}),
                                        !.umb = IF net THEN FALSE ELSE @]]
  \* O4: a reconnect of the incoming channel may catch ForwardPackets between CommitCircuits and the hand-over
  \* to the forwarder (routeAsync gives up when the sending link stops): the packet is lost, the circuit stays
  /\ \E L \in IF StrandQuirk /\ ~net THEN SUBSET {p \in P : InCh(p) \in C /\ b[p].rt} ELSE {{}} :
     /\ hs' = [p \in P |-> [hs[p] EXCEPT !.strand = IF net THEN FALSE ELSE @ \/ p \in L]]
     /\ b' = [p \in P |->
          LET i == InCh(p) \in C  o == OutCh(p) \in C  r == b[p]
              trimmed == IF o /\ r.circ = "open" /\ st[p].oa \in {"none", "offered"} THEN "half" ELSE r.circ IN
          [r EXCEPT !.circ = trimmed,
                    !.disk = IF net THEN trimmed # "none" ELSE @,
                    !.clos = IF net THEN FALSE ELSE @,
                    !.sw   = IF net \/ i THEN FALSE ELSE @,
                    !.rt   = IF net \/ p \in L THEN FALSE ELSE @,
                    !.mbu  = IF net \/ i THEN FALSE ELSE @,
                    !.mbo  = IF net THEN FALSE ELSE @,
                    !.mbi  = IF net THEN "none" ELSE @,
                    !.src  = IF net THEN "-" ELSE @,
                    !.dref = IF net THEN FALSE ELSE @,
                    !.pa   = IF net THEN FALSE ELSE @,
                    !.ks   = IF o THEN FALSE ELSE @,
                    !.cq   = IF i THEN (@ /\ st[p].ir = "signed") ELSE @,
                    !.got  = IF o THEN (@ /\ st[p].or \in {"signed", "removed"}) ELSE @,
                    !.rp   = IF i THEN TRUE ELSE @,
                    !.ps   = IF o \/ net THEN FALSE ELSE @,
                    !.rr   = IF net THEN TRUE ELSE IF o THEN ReplayOnLinkStart ELSE @]]
  \* O3: a restart may fall between a revocation and the signature its sender owes
  /\ IF OwedSigQuirk
     THEN \E S \in SUBSET {<<p, w>> \in P \X {"i", "o"} :
                             \/ w = "i" /\ InCh(p) \in C /\ (st[p].ia = "signed" \/ st[p].ir = "signed")
                             \/ w = "o" /\ OutCh(p) \in C /\ (st[p].oa = "signed" \/ st[p].or = "signed")} :
            stall' = [p \in P |-> [i |-> stall[p].i \/ <<p, "i">> \in S, o |-> stall[p].o \/ <<p, "o">> \in S]]
     ELSE UNCHANGED stall

NetRestart == /\ nNet < MaxNet /\ nNet' = nNet + 1
              /\ AfterRestart({"AB", "BC"}, TRUE)
              /\ UNCHANGED <<pl, nLink>>

LinkRestart(c) == /\ nLink < MaxLink /\ nLink' = nLink + 1
                  /\ AfterRestart({c}, FALSE)
                  /\ UNCHANGED <<pl, nNet>>

-----------------------------------------------------------------------------
Progress(p) == \/ U_Offer(p)
               \/ U_Sign(p)
               \/ In_Lock(p)
               \/ B_Process(p)
               \/ B_Reforward(p)
               \/ B_Commit(p)
               \/ B_Route(p)
               \/ B_OutAdd(p)
               \/ B_OpenCircuit(p)
               \/ B_OutSign(p)
               \/ Out_Lock(p)
               \/ D_Decide(p)
               \/ D_Answer(p)
               \/ D_Sign(p)
               \/ B_RecvAnswer(p)
               \/ B_Pipeline(p)
               \/ Out_RmLock(p)
               \/ B_ForwardAnswer(p)
               \/ B_AckTick(p)
               \/ B_AnswerUp(p)
               \/ B_DupAnswer(p)
               \/ B_Spurious(p)
               \/ B_InSign(p)
               \/ B_DeleteCircuit(p)
               \/ In_RmLock(p)

aU_Offer == \E p \in P : U_Offer(p)
aU_Sign == \E p \in P : U_Sign(p)
aIn_Lock == \E p \in P : In_Lock(p)
aB_Process == \E p \in P : B_Process(p)
aB_Reforward == \E p \in P : B_Reforward(p)
aB_Commit == \E p \in P : B_Commit(p)
aB_Route == \E p \in P : B_Route(p)
aB_OutAdd == \E p \in P : B_OutAdd(p)
aB_OpenCircuit == \E p \in P : B_OpenCircuit(p)
aB_OutSign == \E p \in P : B_OutSign(p)
aOut_Lock == \E p \in P : Out_Lock(p)
aD_Decide == \E p \in P : D_Decide(p)
aD_Answer == \E p \in P : D_Answer(p)
aD_Sign == \E p \in P : D_Sign(p)
aB_RecvAnswer == \E p \in P : B_RecvAnswer(p)
aB_Pipeline == \E p \in P : B_Pipeline(p)
aOut_RmLock == \E p \in P : Out_RmLock(p)
aB_ForwardAnswer == \E p \in P : B_ForwardAnswer(p)
aB_AckTick == \E p \in P : B_AckTick(p)
aB_AnswerUp == \E p \in P : B_AnswerUp(p)
aB_DupAnswer == \E p \in P : B_DupAnswer(p)
aB_Spurious == \E p \in P : B_Spurious(p)
aB_InSign == \E p \in P : B_InSign(p)
aB_DeleteCircuit == \E p \in P : B_DeleteCircuit(p)
aIn_RmLock == \E p \in P : In_RmLock(p)
aD_HoldResolve == \E p \in P : D_HoldResolve(p)

Next == \/ aU_Offer
        \/ aU_Sign
        \/ aIn_Lock
        \/ aB_Process
        \/ aB_Reforward
        \/ aB_Commit
        \/ aB_Route
        \/ aB_OutAdd
        \/ aB_OpenCircuit
        \/ aB_OutSign
        \/ aOut_Lock
        \/ aD_Decide
        \/ aD_Answer
        \/ aD_Sign
        \/ aB_RecvAnswer
        \/ aB_Pipeline
        \/ aOut_RmLock
        \/ aB_ForwardAnswer
        \/ aB_AckTick
        \/ aB_AnswerUp
        \/ aB_DupAnswer
        \/ aB_Spurious
        \/ aB_InSign
        \/ aB_DeleteCircuit
        \/ aIn_RmLock
        \/ aD_HoldResolve
        \/ NetRestart \/ \E c \in {"AB", "BC"} : LinkRestart(c)

Spec == Init /\ [][Next]_vars

-----------------------------------------------------------------------------
(* Quiescence: nothing but a fault (or the resolution of a held invoice) can happen.  The O3 flag of the  *)
(* rules is the stall.                                                                                     *)
Quiescent == \A p \in P : ~ENABLED Progress(p)

WithOwed == [p \in P |-> [hs[p] EXCEPT !.owed = stall[p].i \/ stall[p].o]]

QuiescenceRules ==
  Quiescent => /\ \A p \in P : \/ Untouched(p) \/ Settled(p) \/ FailedBack(p) \/ Held(p) \/ Stranded(p)
                               \/ (OwedSigQuirk /\ \E q \in P : stall[q].i \/ stall[q].o)
               /\ (\A q \in P : ~stall[q].i /\ ~stall[q].o) => Conservation
               \* no circuit is left behind (a held payment keeps its open circuit)
               /\ (\A q \in P : ~stall[q].i /\ ~stall[q].o) =>
                     \A p \in P : b[p].circ = "none" \/ (Held(p) /\ b[p].circ = "open") \/ Stranded(p)

\* Bob's own bookkeeping never contradicts the channel state
MechanismOK == \A p \in P : b[p].circ = "open" => hs[p].dnOffered

View == <<pl, st, hs, b, env, stall, nNet, nLink>>
=============================================================================
