------------------------------ MODULE SwitchAck ------------------------------
(* C08, switch level: when may the switch acknowledge a settle/fail in the   *)
(* forwarding package of the OUTGOING channel?  In production both channels' *)
(* packages and the circuit map live in one database; the package entry      *)
(* (SettleFailFilter bit) is the only durable copy of the downstream         *)
(* response until the incoming link has put it into a signed commitment and  *)
(* torn the circuit down.  One forwarded HTLC, one circuit:                  *)
(*   circ  open -> closing (CloseCircuit: volatile mark, the response is in  *)
(*         the incoming link's in-memory mailbox) -> gone (DeleteCircuits)   *)
(*   mb    the incoming mailbox holds the response (volatile)                *)
(*   pkg   none / new / acked: the response in the outgoing package          *)
(*   pend  the switch's pendingSettleFails holds the reference (volatile)    *)
(* Steps = what the links and the node do to the switch:                     *)
(*   Pipe    the pipelined copy of a settle (no package reference)           *)
(*   Lock    the peer's revocation: entry written, locked-in copy with its   *)
(*           reference handed to the switch (again on every replay)          *)
(*   Commit  the incoming link commits the response it holds: teardown       *)
(*   Tick    the ack ticker flushes pendingSettleFails into the package      *)
(*   Restart node restart: memory lost, circuits reloaded, unacked package   *)
(*           entries re-forwarded (reforwardResponses)                       *)
(* Rule: the entry is acked only after the teardown, never while the circuit *)
(* is merely closing; hence as long as the circuit exists the response can   *)
(* still be delivered (mailbox or unacked package).                          *)
EXTENDS Integers, Sequences

CONSTANT AckWhileClosing   \* FALSE = the code; TRUE = the defect (reference queued also on ErrCircuitClosing)

VARIABLES kind,   \* "settle" | "fail"
          circ, mb, pkg, pend,
          got     \* 1 iff the last step handed a packet to the incoming link
svars == <<kind, circ, mb, pkg, pend, got>>

SInit == /\ kind \in {"settle", "fail"}
         /\ circ = "open" /\ mb = FALSE /\ pkg = "none" /\ pend = FALSE /\ got = 0

\* handlePacketSettle/Fail -> closeCircuit for a response with (ref) or without a package reference
Arrive(ref) ==
  CASE circ = "open"    -> /\ circ' = "closing" /\ mb' = TRUE /\ got' = 1 /\ UNCHANGED pend
    [] circ = "closing" -> /\ UNCHANGED <<circ, mb>> /\ got' = 0
                           /\ pend' = (pend \/ (ref /\ AckWhileClosing))
    [] OTHER            -> /\ UNCHANGED <<circ, mb>> /\ got' = 0 /\ pend' = (pend \/ ref)

Pipe == /\ kind = "settle" /\ Arrive(FALSE) /\ UNCHANGED <<kind, pkg>>

Lock == /\ pkg' = IF pkg = "none" THEN "new" ELSE pkg
        /\ Arrive(TRUE) /\ UNCHANGED kind

Commit == /\ mb /\ circ' = "gone" /\ mb' = FALSE /\ got' = 0 /\ UNCHANGED <<kind, pkg, pend>>

Tick == /\ pkg' = IF pend /\ pkg = "new" THEN "acked" ELSE pkg
        /\ pend' = FALSE /\ got' = 0 /\ UNCHANGED <<kind, circ, mb>>

Restart ==
  LET c0 == IF circ = "closing" THEN "open" ELSE circ IN
  /\ IF pkg = "new"
     THEN IF c0 = "open" THEN /\ circ' = "closing" /\ mb' = TRUE /\ got' = 1 /\ pend' = FALSE
                         ELSE /\ circ' = c0 /\ mb' = FALSE /\ got' = 0 /\ pend' = TRUE
     ELSE /\ circ' = c0 /\ mb' = FALSE /\ got' = 0 /\ pend' = FALSE
  /\ UNCHANGED <<kind, pkg>>

SNext == Pipe \/ Lock \/ Commit \/ Tick \/ Restart
SSpec == SInit /\ [][SNext]_svars

\* the rule
AckOnlyAfterTeardown == pkg = "acked" => circ = "gone"
\* its consequence: a recorded response is never lost while its circuit exists
ResponseRecoverable == (circ # "gone" /\ pkg # "none") => (mb \/ pkg = "new")
=============================================================================
