------------------------------ MODULE SwitchAck ------------------------------
(* C08, switch level: what is DURABLE for a settle/fail on its way back       *)
(* through the forwarding node, and what a restart re-creates from it.        *)
(* In production both channels' forwarding packages and the circuit map live  *)
(* in one database; the package of the OUTGOING channel is the only durable   *)
(* copy of the downstream response until the incoming link has put it into a  *)
(* signed commitment and torn the circuit down.  One forwarded HTLC, one      *)
(* circuit, one package (no adds, one settle/fail):                           *)
(*   circ  open -> closing (CloseCircuit: volatile mark, the response is in   *)
(*         the incoming link's in-memory mailbox) -> gone (DeleteCircuits)    *)
(*   mb    the incoming mailbox holds the response (volatile)                 *)
(*   pkg   none / new / acked / gone: the package and its SettleFailFilter    *)
(*         bit in the database (gone = removed by the garbage collector)      *)
(*   proc  the package's forwarding filter is on disk (FwdStateProcessed;     *)
(*         FALSE = FwdStateLockedIn)                                          *)
(*   owed  the outgoing link has written the package and not yet handed the   *)
(*         response to the switch (volatile: it is inside its revocation      *)
(*         handler)                                                           *)
(*   pend  the switch's pendingSettleFails holds the reference (volatile)     *)
(* Steps = what the links and the node do to the switch and the package:      *)
(*   Pipe    the pipelined copy of a settle (no package reference)            *)
(*   Revoke  the peer's revocation (ReceiveRevocation): package written,      *)
(*           FwdStateLockedIn, nothing handed over yet                        *)
(*   Hand    processRemoteSettleFails of a package that is still LockedIn:    *)
(*           the locked-in copy with its reference goes to the switch; the    *)
(*           link stops / fails / is quiescent before processRemoteAdds       *)
(*           writes the forwarding filter                                     *)
(*   Lock    the whole revocation handler (package written if there is none,  *)
(*           response handed over with its reference, forwarding filter set); *)
(*           again on every replay by the link (resolveFwdPkgs)               *)
(*   Commit  the incoming link commits the response it holds: teardown        *)
(*   Tick    the ack ticker flushes pendingSettleFails into the package       *)
(*   GC      channelLink.loadAndRemove of the outgoing channel (link start    *)
(*           and FwdPkgGCTicker): a COMPLETED package (forwarding filter set, *)
(*           every add acked - there are none - and every settle/fail acked)  *)
(*           is deleted                                                       *)
(*   Restart node restart: memory lost, circuits reloaded, the un-acked       *)
(*           settles/fails of EVERY package - whatever its state - are        *)
(*           re-forwarded (reforwardResponses/reforwardSettleFails); the      *)
(*           outgoing link may never come back                                *)
(* Rules: the entry is acked only after the teardown, never while the circuit *)
(* is merely closing, and the package is removed only when acked; hence as    *)
(* long as the circuit exists the response can still be delivered (mailbox or *)
(* un-acked package), and whenever no link owes the hand-over it IS in the    *)
(* incoming mailbox (nothing waits for an outgoing link that may be gone).    *)
EXTENDS Integers, Sequences

CONSTANTS AckWhileClosing,        \* FALSE = the code; TRUE = the defect (reference queued also on ErrCircuitClosing)
          GCIgnoresSettleFails,   \* FALSE = the code; TRUE = the defect (GC looks at the adds' AckFilter only)
          ReforwardSkipsLockedIn  \* FALSE = the code; TRUE = the defect (start-up skips FwdStateLockedIn packages)

VARIABLES kind,   \* "settle" | "fail"
          circ, mb, pkg, proc, owed, pend,
          got     \* 1 iff the last step handed a packet to the incoming link
svars == <<kind, circ, mb, pkg, proc, owed, pend, got>>

SInit == /\ kind \in {"settle", "fail"}
         /\ circ = "open" /\ mb = FALSE /\ pkg = "none" /\ proc = FALSE /\ owed = FALSE /\ pend = FALSE /\ got = 0

\* handlePacketSettle/Fail -> closeCircuit for a response with (ref) or without a package reference
Arrive(ref) ==
  CASE circ = "open"    -> /\ circ' = "closing" /\ mb' = TRUE /\ got' = 1 /\ UNCHANGED pend
    [] circ = "closing" -> /\ UNCHANGED <<circ, mb>> /\ got' = 0
                           /\ pend' = (pend \/ (ref /\ AckWhileClosing))
    [] OTHER            -> /\ UNCHANGED <<circ, mb>> /\ got' = 0 /\ pend' = (pend \/ ref)

Pipe == /\ kind = "settle" /\ Arrive(FALSE) /\ UNCHANGED <<kind, pkg, proc, owed>>

Revoke == /\ pkg = "none" /\ pkg' = "new" /\ proc' = FALSE /\ owed' = TRUE /\ got' = 0
          /\ UNCHANGED <<kind, circ, mb, pend>>

Hand == /\ pkg \in {"new", "acked"} /\ ~proc
        /\ Arrive(TRUE) /\ owed' = FALSE /\ UNCHANGED <<kind, pkg, proc>>

Lock == /\ pkg # "gone"
        /\ pkg' = IF pkg = "none" THEN "new" ELSE pkg
        /\ proc' = TRUE /\ owed' = FALSE
        /\ Arrive(TRUE) /\ UNCHANGED kind

Commit == /\ mb /\ circ' = "gone" /\ mb' = FALSE /\ got' = 0 /\ UNCHANGED <<kind, pkg, proc, owed, pend>>

Tick == /\ pkg' = IF pend /\ pkg = "new" THEN "acked" ELSE pkg
        /\ pend' = FALSE /\ got' = 0 /\ UNCHANGED <<kind, circ, mb, proc, owed>>

GC == /\ pkg' = IF proc /\ (pkg = "acked" \/ (GCIgnoresSettleFails /\ pkg = "new")) THEN "gone" ELSE pkg
      /\ got' = 0 /\ UNCHANGED <<kind, circ, mb, proc, owed, pend>>

Restart ==
  LET c0 == IF circ = "closing" THEN "open" ELSE circ IN
  /\ IF pkg = "new" /\ (proc \/ ~ReforwardSkipsLockedIn)
     THEN IF c0 = "open" THEN /\ circ' = "closing" /\ mb' = TRUE /\ got' = 1 /\ pend' = FALSE
                         ELSE /\ circ' = c0 /\ mb' = FALSE /\ got' = 0 /\ pend' = TRUE
     ELSE /\ circ' = c0 /\ mb' = FALSE /\ got' = 0 /\ pend' = FALSE
  /\ owed' = FALSE
  /\ UNCHANGED <<kind, pkg, proc>>

SNext == Pipe \/ Revoke \/ Hand \/ Lock \/ Commit \/ Tick \/ GC \/ Restart
SSpec == SInit /\ [][SNext]_svars

\* the rules
AckOnlyAfterTeardown == pkg = "acked" => circ = "gone"
\* the garbage collector removes a package only when it is complete, its SettleFailFilter included
RemovedOnlyWhenDone == pkg = "gone" => circ = "gone"
\* consequence: a recorded response is never lost while its circuit exists (the garbage collector included)
ResponseRecoverable == (circ # "gone" /\ pkg # "none") => (mb \/ pkg = "new")
\* and it does not wait for the outgoing link: outside that link's revocation handler it is with the incoming link
NothingStranded == (pkg = "new" /\ circ # "gone" /\ ~owed) => mb
=============================================================================
