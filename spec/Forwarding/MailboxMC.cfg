SPECIFICATION MSpec
CONSTANTS
  Ids = {1, 2, 3, 4}
  RepIds = {1, 2, 3}
  ResetKeepsOffered = FALSE
INVARIANTS NothingSkipped NothingLost WellFormed
CHECK_DEADLOCK FALSE
