---- MODULE CloseKeysGen ----
(* Schedules for the incoming-link executor: every simulated behaviour of CloseKeys, as its step names. *)
EXTENDS CloseKeys, TLC, Json, Sequences
CONSTANT MaxLen
VARIABLE hist
GInit == CInit /\ hist = <<>>
Step(a, k, A) == A /\ hist' = Append(hist, [a |-> a, k |-> k, kinds |-> [i \in K |-> kind[i]]])
GNext == /\ Len(hist) < MaxLen
         /\ \/ \E k \in K : Step("Deliver", k, Deliver(k)) \/ Step("DeliverCrash", k, DeliverCrash(k))
            \/ Step("PeerAck", 0, PeerAck) \/ Step("Restart", 0, Restart)
GSpec == GInit /\ [][GNext]_<<cvars, hist>>
Dump == Len(hist) = MaxLen => ndJsonSerialize("b_" \o ToString(TLCGet("stats").traces) \o ".ndjson", hist)
====
