SPECIFICATION TSpec
CONSTANTS
  Ids = {1, 2, 3, 4, 5}
  RepIds = {1, 2, 3}
  ResetKeepsOffered = FALSE
INVARIANTS NothingSkipped NothingLost WellFormed NotDone
CONSTRAINT HighWater
CHECK_DEADLOCK FALSE
