---- MODULE SwitchAckMC ----
EXTENDS SwitchAck
====
