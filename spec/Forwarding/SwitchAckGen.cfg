SPECIFICATION GSpec
CONSTANTS
  AckWhileClosing = FALSE
  GCIgnoresSettleFails = FALSE
  ReforwardSkipsLockedIn = FALSE
  MaxLen = 10
INVARIANTS Dump
CHECK_DEADLOCK FALSE
