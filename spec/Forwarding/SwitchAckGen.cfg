SPECIFICATION GSpec
CONSTANTS
  AckWhileClosing = FALSE
  MaxLen = 8
INVARIANTS Dump
CHECK_DEADLOCK FALSE
