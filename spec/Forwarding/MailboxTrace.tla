---- MODULE MailboxTrace ----
(* Trace validation of the real memoryMailBox with its real courier goroutine.  The executor records the calls   *)
(* (Add, Ack with their answers, Reset) and what the link end of the outbox channel read (Recv id, 0 = nothing   *)
(* within the wait).  When the courier peeked is not observable: Pick is a silent step, so a trace is accepted   *)
(* iff SOME placement of the silent steps explains every recorded answer (TLC reaches the end of the file, i.e.  *)
(* violates NotDone); the invariants of Mailbox hold in every state on the way.                                  *)
EXTENDS Mailbox, Json, TLC
VARIABLE l
Trace == ndJsonDeserialize("trace.ndjson")
E == Trace[l]
Is(a) == l <= Len(Trace) /\ E.a = a /\ l' = l + 1
TInit == MInit /\ l = 1 /\ TLCSet(1, 0)
New == /\ Is("New")
       /\ rep' = <<>> /\ adds' = <<>> /\ rh' = 1 /\ ah' = 1 /\ cour' = NoOffer /\ seen' = {} /\ used' = {}
TNext == \/ New
         \/ (Is("Add") /\ AddPacket(E.id, E.ok = 1))
         \/ (Is("Ack") /\ AckPacket(E.id, E.ok = 1))
         \/ (Is("Reset") /\ ResetPackets)
         \/ (Is("Recv") /\ E.id # 0 /\ Deliver(E.id))
         \/ (Is("Recv") /\ E.id = 0 /\ RecvNone)
         \/ (l <= Len(Trace) /\ Pick /\ UNCHANGED l)
TSpec == TInit /\ [][TNext]_<<mvars, l>>
NotDone == l <= Len(Trace)
HighWater == IF l > TLCGet(1) THEN TLCSet(1, l) /\ PrintT(<<"highwater", l>>) ELSE TRUE
====
