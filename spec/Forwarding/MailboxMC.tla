---- MODULE MailboxMC ----
EXTENDS Mailbox
====
