SPECIFICATION ESpec
CONSTANTS
  AllocFactor = 64
  AllocSlack = 262144
  MaxRecs = 2
INVARIANTS ETypeOK TMapOK Partition EmptyKept Lossless
CHECK_DEADLOCK FALSE
