SPECIFICATION TSpec
CONSTANTS
  AllocBound = 4194304
  Reps = 4
INVARIANTS TypeOK
POSTCONDITION NoDeviation
CHECK_DEADLOCK TRUE
