SPECIFICATION TSpec
CONSTANTS
  AllocFactor = 64
  AllocSlack = 262144
  Reps = 4
  RecReps = 4
INVARIANTS TypeOK
POSTCONDITION NoDeviation
CHECK_DEADLOCK TRUE
