------------------------------- MODULE WireExt -------------------------------
(***************************************************************************)
(* C10, record level: how an lnwire message handles the TLV extension that  *)
(* follows its fixed layout.  One action per critical section of the code:  *)
(*                                                                         *)
(*   Put(r)   the peer writes one more record (strictly increasing types:   *)
(*            the wire stream is canonical by construction; a record is     *)
(*            <<type class, value-length class>>, the classes are the ones  *)
(*            of the plan in WireLaws plus "k0" / "k10000": a typed record  *)
(*            of the message below / inside the custom range)               *)
(*   Extract  Message.Decode, first half: ExtraOpaqueData.Decode reads the  *)
(*            rest of the message and ExtractRecords runs the tlv stream    *)
(*            over it with the message's typed records: the typed fields    *)
(*            are set and the tlv.TypeMap `tmap` is returned, in which a    *)
(*            parsed typed record is marked by the value nil and every      *)
(*            other record carries its bytes - possibly zero of them        *)
(*            (value length class "l0" is NOT nil)                          *)
(*   Split    second half: the entries of tmap that are nil are dropped     *)
(*            (they live in the typed fields); of the rest, path "split"    *)
(*            (ParseAndExtractCustomRecords / ParseAndExtractExtraData)     *)
(*            moves types >= 65536 into CustomRecords when the message has  *)
(*            that field and re-serialises the remainder into ExtraData     *)
(*            (NewExtraOpaqueData -> TlvMapToRecords); path "signed"        *)
(*            (pure-TLV messages) keeps the remainder as ExtraSignedFields; *)
(*            path "opaque" (update_fee, the v1 gossip messages, ...) keeps *)
(*            the raw bytes of all non-typed records as they came           *)
(*   Encode   Message.Encode: MergeAndEncode / AllRecords merge the three   *)
(*            parts, sort them by type and write them; path "opaque"        *)
(*            writes the raw bytes back with the typed records              *)
(*                                                                         *)
(* written from the property: "decodes back to an equal value with unknown  *)
(* records and trailing extension data preserved", "decode-then-encode      *)
(* reproduces the input".  Invariants: the three parts partition the wire   *)
(* records (nothing lost, nothing twice, custom part only custom types,     *)
(* an EMPTY unknown record is a record), and after Encode the output is the *)
(* wire stream.  The real code is bound to it through the rec-ins cells of  *)
(* the WireLaws plan (one Put on top of a generated extension) and the law  *)
(* RecPreserved of WireLawsTrace: the observation `rkept = 1 /\ same = 1`   *)
(* is Lossless for that stream.  What the code does differently is NOT an   *)
(* action here (the property forbids it) and is reported as a deviation:    *)
(* messages whose Encode re-packs only their typed records (PackRecords     *)
(* overwrites ExtraData) and the unsigned ranges of the pure-TLV messages.  *)
(***************************************************************************)
EXTENDS WireLaws

CONSTANT MaxRecs
VARIABLES path, hasCustom, wire, phase, tmap, typed, custom, extra, out
evars == <<path, hasCustom, wire, phase, tmap, typed, custom, extra, out>>

\* the type universe in canonical order: the message's own typed records and the plan's unknown classes
Universe == <<"k0">> \o SubSeq(RecTypeClasses, 1, 6) \o <<"k10000">> \o SubSeq(RecTypeClasses, 7, 10)
URank(c)  == CHOOSE i \in 1..Len(Universe) : Universe[i] = c
IsTyped(c)  == c \in {"k0", "k10000"}
InCustomRange(c) == c = "k10000" \/ (c \in Range(RecTypeClasses) /\ TcCustom(c))
Recs == [tc : Range(Universe), lc : Range(LenClasses)]
Paths == {"split", "signed", "opaque"}

\* sort a set of records with distinct types by type
RECURSIVE Sorted(_)
Sorted(S) == IF S = {} THEN <<>>
             ELSE LET m == CHOOSE r \in S : \A q \in S : URank(r.tc) <= URank(q.tc) IN <<m>> \o Sorted(S \ {m})
Canonical(w) == \A i \in 1..(Len(w) - 1) : URank(w[i].tc) < URank(w[i + 1].tc)

EInit == /\ path \in Paths /\ hasCustom \in BOOLEAN
         /\ (path # "split" => hasCustom = FALSE)
         /\ wire = <<>> /\ phase = "build" /\ tmap = <<>> /\ typed = {} /\ custom = {} /\ extra = {} /\ out = <<>>

Put(r) == /\ phase = "build" /\ Len(wire) < MaxRecs
          /\ (wire # <<>> => URank(wire[Len(wire)].tc) < URank(r.tc))
          /\ wire' = Append(wire, r)
          /\ UNCHANGED <<path, hasCustom, phase, tmap, typed, custom, extra, out>>

\* tmap: type class -> "nil" (parsed into a typed field) or the length class of the bytes it carries
Extract == /\ phase = "build"
           /\ typed' = {r \in Range(wire) : IsTyped(r.tc)}
           /\ tmap' = [c \in {wire[i].tc : i \in 1..Len(wire)} |->
                         IF IsTyped(c) THEN "nil" ELSE (CHOOSE r \in Range(wire) : r.tc = c).lc]
           /\ phase' = "extracted"
           /\ UNCHANGED <<path, hasCustom, wire, custom, extra, out>>

Split == /\ phase = "extracted"
         /\ LET rest == {c \in DOMAIN tmap : tmap[c] # "nil"}
                rec(c) == [tc |-> c, lc |-> tmap[c]] IN
            /\ custom' = IF hasCustom THEN {rec(c) : c \in {c \in rest : InCustomRange(c)}} ELSE {}
            /\ extra' = {rec(c) : c \in {c \in rest : hasCustom => ~InCustomRange(c)}}
         /\ phase' = "decoded"
         /\ UNCHANGED <<path, hasCustom, wire, tmap, typed, out>>

Encode == /\ phase = "decoded"
          /\ out' = Sorted(typed \cup custom \cup extra)
          /\ phase' = "encoded"
          /\ UNCHANGED <<path, hasCustom, wire, tmap, typed, custom, extra>>

ENext == (\E r \in Recs : Put(r)) \/ Extract \/ Split \/ Encode
ESpec == EInit /\ [][ENext]_evars

ETypeOK   == /\ Len(wire) <= MaxRecs /\ Canonical(wire) /\ phase \in {"build", "extracted", "decoded", "encoded"}
             /\ typed \subseteq Recs /\ custom \subseteq Recs /\ extra \subseteq Recs
\* the TypeMap has one entry per wire record; nil exactly for the typed ones; an empty value is not nil
TMapOK    == phase # "build" => /\ DOMAIN tmap = {wire[i].tc : i \in 1..Len(wire)}
                                /\ \A i \in 1..Len(wire) : tmap[wire[i].tc] = (IF IsTyped(wire[i].tc) THEN "nil" ELSE wire[i].lc)
Partition == phase \in {"decoded", "encoded"} =>
               /\ typed \cup custom \cup extra = Range(wire)
               /\ typed \cap custom = {} /\ typed \cap extra = {} /\ custom \cap extra = {}
               /\ \A r \in custom : InCustomRange(r.tc)
               /\ Cardinality(typed \cup custom \cup extra) = Len(wire)
\* an unknown record with an EMPTY value is a record like any other: it is in exactly one part
EmptyKept == phase \in {"decoded", "encoded"} => \A i \in 1..Len(wire) : wire[i].lc = "l0" => wire[i] \in typed \cup custom \cup extra
Lossless  == phase = "encoded" => out = wire
\* vacuity guard (must be violated): a stream with an empty unknown record below the custom range next to a typed
\* record and a custom one reaches the encoded phase
ReachEmptyMix == ~(phase = "encoded" /\ hasCustom /\ Len(wire) = 3 /\ wire[1].tc = "k0"
                   /\ wire[2] = [tc |-> "ofd", lc |-> "l0"] /\ TcCustom(wire[3].tc))
=============================================================================
