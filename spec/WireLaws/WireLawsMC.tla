---- MODULE WireLawsMC ----
EXTENDS WireLawsGen
\* framing model sanity over the whole 16-bit space (evaluated once)
ASSUME \A t \in 0..65535 : Dispatch(t) \in {"known", "custom", "unknown"}
ASSUME \A t \in MsgTypes : t < CustomStart
ASSUME Cardinality(MsgTypes) = 42 /\ Cardinality(FailCodes) = 25
ASSUME WriteOk(MaxMsgBody) /\ ~WriteOk(MaxMsgBody + 1) /\ BufAfter(5, MaxMsgBody) = 5 + MaxMsg
\* value-boundary part of the plan: every message type and every failure code (both failure codecs) gets every
\* class of every value operator, and nothing else
ASSUME Len(Ops) = 21 /\ Len(Poss) = 25 + 1 + 60 + 18
ASSUME \A k \in {"msg", "fail", "pkt"} : \A t \in TypesOf(k) : \A op \in ValOps :
          {c.pos : c \in {c \in PlanCells : c.kind = k /\ c.t = t /\ c.op = op}} = PosOf(op)
ASSUME Cardinality({c \in PlanCells : c.op \in ValOps}) = (42 + 25 + 25) * (8 + 4 + 6)
\* the integer classes sit on both sides of every BigSize width boundary (1|3, 3|5, 5|9 bytes) and of every
\* fixed-width boundary (1|2, 2|4 (3 for the narrow ones), 4|8 bytes), in increasing order
ASSUME \A i \in 1..(Len(IntClasses) - 1) : BigSizeWidth(IntClasses[i], 8) <= BigSizeWidth(IntClasses[i + 1], 8)
                                          /\ Need(IntClasses[i], 8) <= Need(IntClasses[i + 1], 8)
ASSUME \A b \in {<<1, 3>>, <<3, 5>>, <<5, 9>>} : \E i \in 1..(Len(IntClasses) - 1) :
          BigSizeWidth(IntClasses[i], 8) = b[1] /\ BigSizeWidth(IntClasses[i + 1], 8) = b[2]
ASSUME {Need(IntClasses[i], 8) : i \in 1..Len(IntClasses)} = {0, 1, 2, 3, 4, 5, 8}
\* which classes exist for which field width: a bool has two, a byte four (0, 0xfc, 0xfd, 0xff), ...
ASSUME \A w \in {0, 1, 2, 4, 8} : Cardinality({c \in Range(IntClasses) : Fits("val-int", c, w)})
          = CASE w = 0 -> 2 [] w = 1 -> 4 [] w = 2 -> 5 [] w = 4 -> 7 [] OTHER -> 8
\* the field selection covers every leaf once the repetitions reach the number of leaves
ASSUME \A nf \in 1..24 : {FieldOf(rep, nf) : rep \in 1..24} = 1..nf
\* domains: a 3-byte field takes 0x10000 but not 0xffffffff nor "all ones of the uint32"; an encoding type only 0
ASSUME LET o(f, c, w) == [op |-> "val-int", fld |-> f, pos |-> c, w |-> w, gotype |-> "", t |-> 0] IN
         /\ InDomain(o("ShortChannelID.BlockHeight", "i10000", 4)) /\ ~InDomain(o("ShortChannelID.BlockHeight", "iffffffff", 4))
         /\ ~InDomain(o("ShortChannelID.BlockHeight", "imax", 4)) /\ InDomain(o("ShortChannelID.TxPosition", "imax", 2))
         /\ InDomain(o("OutPoint.Index", "iffff", 4)) /\ ~InDomain(o("OutPoint.Index", "i10000", 4))
         /\ InDomain(o("InvalidOnionPayload.Type", "imax", 8)) /\ ~InDomain(o("DNSAddress.Port", "i0", 2))
         /\ InDomain(o("QueryShortChanIDs.EncodingType", "i0", 1)) /\ ~InDomain(o("QueryShortChanIDs.EncodingType", "ifc", 1))
ASSUME LET o(g, c) == [op |-> "val-bytes", fld |-> "x", pos |-> c, w |-> 32, gotype |-> g, t |-> 257] IN
         /\ InDomain(o("NodeAlias", "bz")) /\ ~InDomain(o("NodeAlias", "butf")) /\ InDomain(o("ChannelID", "butf"))
         /\ ~InDomain(o("Musig2Nonce", "b00"))
\* record-level part of the plan: every message type gets every (type class x length class) of rec-ins, the four
\* rec-drop selections and every (record selection x resize) of rec-len; of the failure messages only the one
\* with an extension, as a bare failure message
ASSUME \A t \in MsgTypes : \A op \in RecOps :
          {c.pos : c \in {c \in PlanCells : c.kind = "msg" /\ c.t = t /\ c.op = op}} = PosOf(op)
ASSUME \A op \in RecOps : {c.pos : c \in {c \in PlanCells : c.kind = "fail" /\ c.t = 16399 /\ c.op = op}} = PosOf(op)
ASSUME Cardinality({c \in PlanCells : c.op \in RecOps}) = (42 + 1) * (10 * 6 + 4 + 3 * 6)
ASSUME \A c \in PlanCells : c.op \in RecOps => (c.kind = "msg" \/ (c.kind = "fail" /\ c.t \in FailExtCodes))
ASSUME FailExtCodes \subseteq FailCodes /\ NoExtTypes \subseteq MsgTypes
ASSUME \A c \in PlanCells : InPlan(c)
ASSUME Cardinality(Range(Poss)) = Len(Poss)
\* the type classes are in canonical (numeric) order, cover every BigSize width of a type, both parities below the
\* custom range, and both sides of the custom-range and of the signed-range boundaries
ASSUME \A i \in 1..(Len(RecTypeClasses) - 1) : TcWidth(RecTypeClasses[i]) <= TcWidth(RecTypeClasses[i + 1])
                                               /\ (TcCustom(RecTypeClasses[i]) => TcCustom(RecTypeClasses[i + 1]))
ASSUME {TcWidth(c) : c \in Range(RecTypeClasses)} = {1, 3, 5, 9}
ASSUME \A w \in {1, 3} : \E c, d \in Range(RecTypeClasses) : TcWidth(c) = w /\ TcWidth(d) = w /\ TcOdd(c) /\ ~TcOdd(d)
                                                              /\ ~TcCustom(c) /\ ~TcCustom(d)
ASSUME \E c, d \in Range(RecTypeClasses) : TcSigned(c) /\ ~TcCustom(c) /\ TcSigned(d) /\ TcCustom(d)
ASSUME \A c \in Range(RecTypeClasses) : TcRank(c) \in 1..Len(RecTypeClasses) /\ RecTypeClasses[TcRank(c)] = c
\* the length classes of a record value sit on both sides of the 1|3-byte BigSize length boundary and include EMPTY
ASSUME {LenOf(LenClasses[i]) : i \in 1..Len(LenClasses)} = {0, 1, 252, 253, 255, 256}
ASSUME {DeltaNeed(DeltaClasses[i]) : i \in 1..Len(DeltaClasses)} = {0, 1, 8}
\* the laws: an accepted rec-ins case that lost its record, or came back different, is a deviation; an odd one
\* that was refused is one; an even one that was refused is not
ASSUME LET o(tc, d1, e1, rk, sm) == [op |-> "rec-ins", tcls |-> tc, d1 |-> d1, e1 |-> e1, rkept |-> rk, same |-> sm] IN
         /\ RecAccept(o("o9d", 1, 1, 1, 1)) /\ ~RecAccept(o("o9d", 0, 0, 0, 0)) /\ RecAccept(o("efc", 0, 0, 0, 0))
         /\ RecPreserved(o("ofb", 1, 1, 1, 1)) /\ ~RecPreserved(o("ofb", 1, 1, 0, 0)) /\ ~RecPreserved(o("ofb", 1, 1, 1, 0))
         /\ ~RecPreserved(o("efc", 1, 0, 0, 0)) /\ RecPreserved(o("efc", 0, 0, 0, 0))
====
