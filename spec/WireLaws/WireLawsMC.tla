---- MODULE WireLawsMC ----
EXTENDS WireLawsGen
\* framing model sanity over the whole 16-bit space (evaluated once)
ASSUME \A t \in 0..65535 : Dispatch(t) \in {"known", "custom", "unknown"}
ASSUME \A t \in MsgTypes : t < CustomStart
ASSUME Cardinality(MsgTypes) = 42 /\ Cardinality(FailCodes) = 25
ASSUME WriteOk(MaxMsgBody) /\ ~WriteOk(MaxMsgBody + 1) /\ BufAfter(5, MaxMsgBody) = 5 + MaxMsg
====
