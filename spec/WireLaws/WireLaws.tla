------------------------------ MODULE WireLaws ------------------------------
(***************************************************************************)
(* C10, message part.  Deliberately thin: the ~60 field layouts of lnwire   *)
(* are NOT modelled (that would be a second copy of the codec).  What is    *)
(* specified:                                                               *)
(*  - the framing of lnwire.ReadMessage/WriteMessage: type dispatch over    *)
(*    the whole 16-bit type space (registered / unknown / custom range),    *)
(*    the 65533-byte payload bound with all-or-nothing buffer semantics,    *)
(*    and the same for onion failure codes;                                 *)
(*  - the codec LAWS of the property as predicates over one observation of  *)
(*    the real codec on one input (totality, bound, canonical fixpoint,     *)
(*    value round trip, extension data preserved);                          *)
(*  - the mutation PLAN (message type or failure code x operator x position *)
(*    class) that TLC enumerates and the executor has to cover exactly;     *)
(*  - the VALUE-BOUNDARY part of that plan (operators val-int, val-bytes,   *)
(*    val-len): every scalar, fixed-size and length-prefixed field of a     *)
(*    generated message / failure value (found by walking the Go value:     *)
(*    nested structs, embedded channel_update, optional TLV records,        *)
(*    unexported failure fields) is driven through the boundary classes of  *)
(*    its encoding (BigSize width boundaries 0xfc|0xfd, 0xffff|0x10000,     *)
(*    0xffffffff|0x100000000, the maximum; byte arrays all-zero / interior  *)
(*    zero followed by non-zero / all-0xff / invalid UTF-8; lengths 0, 1,   *)
(*    0xfc, 0xfd, 0xff, 0x100).  The operator names the class, the          *)
(*    repetition number selects the field (FieldOf).  What a well-formed    *)
(*    value is for such a case is stated here (InDomain: the value domains  *)
(*    BOLT gives the fields, not the Go types), and ValueLaw is the         *)
(*    property's "decodes back to an equal value" for it.                   *)
(*  - the RECORD-LEVEL part of the plan for the TLV extension every message *)
(*    type carries after its fixed layout (operators rec-ins, rec-drop,     *)
(*    rec-len; messages, and the failure message that has one).  The        *)
(*    extension of the generated valid                                      *)
(*    encoding is taken apart into its records <<type, value>> and          *)
(*      rec-ins   ONE unknown record is put at its canonical position: its  *)
(*                type from RecTypeClasses (odd / even, one per BigSize     *)
(*                width of the type, below / inside the custom range        *)
(*                >= 65536, inside / outside the signed ranges of the       *)
(*                pure-TLV gossip messages), its value length from          *)
(*                LenClasses (EMPTY, 1, and both sides of the 1|3-byte      *)
(*                BigSize length boundary);                                 *)
(*      rec-drop  the first / middle / last record present, or all of them, *)
(*                is removed (presence / absence of the optional records);  *)
(*      rec-len   the value of the first / middle / last record present is  *)
(*                emptied, shortened or lengthened by one byte or by one    *)
(*                8-byte element, or doubled, its length prefix adjusted:   *)
(*                the stream stays a canonical TLV stream while the record  *)
(*                no longer agrees with its own layout or with the fields   *)
(*                of the message it has to be consistent with.              *)
(*    The inputs of all three are canonical TLV streams after an intact     *)
(*    fixed part.  RecAccept / RecPreserved are the property's "unknown     *)
(*    records and trailing extension data preserved" for rec-ins (the       *)
(*    partition / merge model that shows WHY a correct codec satisfies them *)
(*    is spec/WireLaws/WireExt.tla); rec-drop and rec-len are judged by     *)
(*    Totality / Bound / Fixpoint: an accepted message must re-encode.      *)
(***************************************************************************)
EXTENDS Naturals, Sequences, FiniteSets, TLC

MaxMsgBody     == 65533
MaxMsg         == 65535
CustomStart    == 32768

\* BOLT message types lnd registers (lnwire/message.go)
MsgTypes == {1, 2, 16, 17, 18, 19, 32, 33, 34, 35, 36, 38, 39, 40, 41, 111, 113, 115, 117,
             128, 130, 131, 132, 133, 134, 135, 136, 256, 257, 258, 259, 260, 261, 262, 263, 264, 265,
             267, 269, 271, 513, 777}

\* BOLT 4 failure codes lnd registers (lnwire/onion_error.go); flags BADONION 32768, PERM 16384, NODE 8192, UPDATE 4096
FailCodes == {32769, 8194, 24578, 24579, 49156, 49157, 49158, 4103, 16392, 16393, 16394, 4107, 4108, 4109,
              4110, 4116, 16399, 16400, 17, 18, 19, 21, 16406, 23, 49176}

\* ReadMessage: what the two type bytes select.  Unknown types are reported
\* alike for even and odd values (the error carries the type; ignoring odd
\* ones is the peer's business), and everything from 32768 is a custom message.
Dispatch(t) == IF t \in MsgTypes THEN "known" ELSE IF t >= CustomStart THEN "custom" ELSE "unknown"
FailDispatch(c) == IF c \in FailCodes THEN "known" ELSE "unknown"

\* WriteMessage: a payload of plen bytes onto a buffer already holding pre bytes
WriteOk(plen) == plen <= MaxMsgBody
BufAfter(pre, plen) == IF WriteOk(plen) THEN pre + 2 + plen ELSE pre

-----------------------------------------------------------------------------
(* The mutation plan *)
Kinds == <<"msg", "fail", "pkt">>          \* wire message | failure message | padded onion failure packet
Ops == <<"valid", "trunc-1", "trunc", "trunc+1", "len-1", "len+1",
         "tail-odd", "tail-even", "tail-unsorted", "tail-nonmin", "flip", "raw", "ext-odd", "len-max", "var-bound",
         "val-int", "val-bytes", "val-len", "rec-ins", "rec-drop", "rec-len">>
\* value-boundary classes (symbolic: TLC integers are 32 bit)
IntClasses   == <<"i0", "ifc", "ifd", "iffff", "i10000", "iffffffff", "i100000000", "imax">>
BytesClasses == <<"b00", "bz", "bff", "butf">>
LenClasses   == <<"l0", "l1", "lfc", "lfd", "lff", "l100">>
Range(seq) == {seq[i] : i \in 1..Len(seq)}
ValOps == {"val-int", "val-bytes", "val-len"}

\* record-level classes (symbolic like the integer classes: two of the types do not fit TLC's integers).
\*   name      type          BigSize width of the type   parity  range
\*   o9d       157           1                           odd     below the custom range; 1st signed range of pure-TLV messages
\*   ofb       251           1 (last odd 1-byte type)    odd     below
\*   efc       252           1 (last 1-byte type)        even    below
\*   ofd       253           3 (first 3-byte type)       odd     below
\*   efffe     65534         3                           even    below
\*   offff     65535         3 (last below custom)       odd     below
\*   c10001    65537         5 (first odd custom type)   odd     custom range
\*   s3b9aca01 1000000001    5                           odd     custom range; 2nd signed range of pure-TLV messages
\*   cffffffff 4294967295    5 (last 5-byte type)        odd     custom range
\*   c100000001 4294967297   9 (first odd 9-byte type)   odd     custom range
\* None of them is a typed record of any lnd message (types 0..22, 160, 55555, 65536).
RecTypeClasses == <<"o9d", "ofb", "efc", "ofd", "efffe", "offff", "c10001", "s3b9aca01", "cffffffff", "c100000001">>
TcOdd(c)    == c \notin {"efc", "efffe"}
TcWidth(c)  == CASE c \in {"o9d", "ofb", "efc"} -> 1 [] c \in {"ofd", "efffe", "offff"} -> 3
                 [] c = "c100000001" -> 9 [] OTHER -> 5
TcCustom(c) == c \in {"c10001", "s3b9aca01", "cffffffff", "c100000001"}
TcSigned(c) == c \in {"o9d", "s3b9aca01"}
\* canonical order = numeric order of the types = the order of RecTypeClasses
TcRank(c)   == CHOOSE i \in 1..Len(RecTypeClasses) : RecTypeClasses[i] = c
RecSel       == <<"head", "mid", "tail">>
DeltaClasses == <<"z", "m1", "p1", "m8", "p8", "dbl">>
\* bytes the value must have for the resize to exist
DeltaNeed(d) == CASE d = "p1" -> 0 [] d \in {"m8", "p8"} -> 8 [] OTHER -> 1
Cross(A, B) == [i \in 1..(Len(A) * Len(B)) |-> A[((i - 1) \div Len(B)) + 1] \o "." \o B[((i - 1) % Len(B)) + 1]]
RecInsPoss == Cross(RecTypeClasses, LenClasses)
RecLenPoss == Cross(RecSel, DeltaClasses)
RecOps == {"rec-ins", "rec-drop", "rec-len"}

Poss == <<"-", "head", "mid", "tail", "short", "medium", "long">> \o IntClasses \o BytesClasses \o LenClasses
        \o <<"all">> \o RecInsPoss \o RecLenPoss

IndexOf(seq, x) == CHOOSE i \in 1..Len(seq) : seq[i] = x
\* (constant tables: TLC evaluates them once)
OpsSet  == Range(Ops)
PossSet == Range(Poss)
OpIdx   == [x \in OpsSet |-> IndexOf(Ops, x)]
PosIdx  == [x \in PossSet |-> IndexOf(Poss, x)]
KindIdx == [x \in Range(Kinds) |-> IndexOf(Kinds, x)]
IntClassSet == Range(IntClasses)
BytesClassSet == Range(BytesClasses)
LenClassSet == Range(LenClasses)
RecInsPosSet == Range(RecInsPoss)
RecLenPosSet == Range(RecLenPoss)

\* len-1/len+1: a 2-byte field whose value is the size of the next read; len-max: any 2-byte field := 0xffff
\* var-bound: not a byte mutation either - one variable-length field of the generated VALUE (first/middle/last of
\* them; for an address list: a DNS address at the first/middle/last list position) is resized to a boundary
\* length (1, 2^8-1, 2^8, 2^8+1, the maximum that fits; DNS host names 1, 252..255); the repetitions cycle the lengths
PosOf(op) == CASE op \in {"trunc-1", "trunc", "trunc+1", "flip", "len-max", "var-bound"} -> {"head", "mid", "tail"}
               [] op \in {"len-1", "len+1"}                      -> {"head", "tail"}
               [] op = "raw"                                     -> {"short", "medium", "long"}
               [] op = "val-int"                                 -> IntClassSet
               [] op = "val-bytes"                               -> BytesClassSet
               [] op = "val-len"                                 -> LenClassSet
               [] op = "rec-ins"                                 -> RecInsPosSet
               [] op = "rec-drop"                                -> {"head", "mid", "tail", "all"}
               [] op = "rec-len"                                 -> RecLenPosSet
               [] OTHER                                          -> {"-"}
\* ext-odd: not a byte mutation - the generated VALUE gets one more unknown odd record in its extension
\* data (canonical position) before it is encoded
\* val-*: not a byte mutation - ONE field of the generated VALUE is set to the value of the boundary class,
\* then the value is encoded and the laws are judged on that encoding (all three codecs: the failure-specific
\* fields of every failure code go through EncodeFailureMessage and through the padded EncodeFailure packet)
PktOps  == {"valid", "trunc-1", "trunc", "trunc+1", "len-1", "len+1", "flip", "raw", "len-max"} \cup ValOps
FailOps == OpsSet \ {"ext-odd", "var-bound"}
OpsOf(kind) == CASE kind = "pkt"  -> PktOps
                 [] kind = "fail" -> FailOps
                 [] OTHER         -> OpsSet
TypesOf(kind) == IF kind = "msg" THEN MsgTypes ELSE FailCodes
\* the record-level operators run on every message type and on the failure messages that end in a TLV extension
\* (incorrect_or_unknown_payment_details, as the bare failure message; the padded packet is not taken apart)
FailExtCodes == {16399}
RecTypesOf(kind) == IF kind = "msg" THEN MsgTypes ELSE IF kind = "fail" THEN FailExtCodes ELSE {}

Cell(kind, t, op, pos) ==
  [kind |-> kind, t |-> t, op |-> op, pos |-> pos,
   ki |-> KindIdx[kind], oi |-> OpIdx[op], pi |-> PosIdx[pos]]
InPlan(c) == /\ c.kind \in {"msg", "fail", "pkt"} /\ c.t \in TypesOf(c.kind)
             /\ c.op \in OpsOf(c.kind) /\ c.pos \in PosOf(c.op)
             /\ (c.op \in RecOps => c.t \in RecTypesOf(c.kind))
PlanTriples == {x \in {"msg", "fail", "pkt"} \X (MsgTypes \cup FailCodes) \X Range(Ops) :
                   x[2] \in TypesOf(x[1]) /\ x[3] \in OpsOf(x[1]) /\ (x[3] \in RecOps => x[2] \in RecTypesOf(x[1]))}
PlanCells == UNION {{Cell(x[1], x[2], x[3], pos) : pos \in PosOf(x[3])} : x \in PlanTriples}
Key(c, rep) == <<c.ki, c.t, c.oi, c.pi, rep>>

\* lexicographic order on keys
KeyLess(a, b) == \E k \in 1..5 : a[k] < b[k] /\ \A j \in 1..(k-1) : a[j] = b[j]

-----------------------------------------------------------------------------
(* Value-boundary classes.  A field ("leaf") of a value is reported by the   *)
(* executor as  fld = <declaring Go struct>.<field>, gotype, w (ints: bytes  *)
(* of the Go type, 0 for a bool; byte arrays: their length), the number nf   *)
(* of leaves of the operator's kind in the value and the index fi of the     *)
(* one that was set, inlist = 1 if it belongs to an element of a list.       *)
\* bytes needed to hold the integer of a class (imax = all ones of the field's own width)
Need(cls, w) == CASE cls = "i0" -> 0 [] cls \in {"ifc", "ifd"} -> 1 [] cls = "iffff" -> 2 [] cls = "i10000" -> 3
                  [] cls = "iffffffff" -> 4 [] cls = "i100000000" -> 5 [] OTHER -> w
\* width of the BigSize encoding of the class value (what makes these values the boundaries)
BigSizeWidth(cls, w) == CASE cls \in {"i0", "ifc"} -> 1 [] cls \in {"ifd", "iffff"} -> 3 [] cls \in {"i10000", "iffffffff"} -> 5
                          [] cls = "i100000000" -> 9
                          [] OTHER -> IF w = 0 THEN 1 ELSE IF w <= 2 THEN 3 ELSE IF w <= 4 THEN 5 ELSE 9
LenOf(cls) == CASE cls = "l0" -> 0 [] cls = "l1" -> 1 [] cls = "lfc" -> 252 [] cls = "lfd" -> 253 [] cls = "lff" -> 255 [] OTHER -> 256
\* the class exists for the leaf (a bool has 0 and "max" only; the byte patterns need some room)
Fits(op, cls, w) == CASE op = "val-int"   -> cls \in Range(IntClasses) /\ Need(cls, w) <= w
                      [] op = "val-bytes" -> cls \in Range(BytesClasses) /\ w >= 4
                      [] OTHER            -> cls \in Range(LenClasses)
\* which leaf a repetition drives: the repetitions cycle through the leaves of the value
FieldOf(rep, nf) == ((rep - 1) % nf) + 1

\* Domains that are narrower than the Go type of the field:
\*   BOLT 7 short_channel_id = 3 bytes block height, 3 bytes tx index, 2 bytes output index;
\*   BOLT 2 funding_output_index is 2 bytes; encoded_short_ids encoding type is 0 (plain) or 1 (zlib)
NarrowTo == ("ShortChannelID.BlockHeight" :> 3) @@ ("ShortChannelID.TxIndex" :> 3) @@ ("OutPoint.Index" :> 2)
            @@ ("QueryShortChanIDs.EncodingType" :> 0) @@ ("ReplyChannelRange.EncodingType" :> 0)
\*   a DNS address needs a port
NonZero == {"DNSAddress.Port"}
\*   BOLT 7 channel_update message_flags bit 0 says whether htlc_maximum_msat is on the wire: setting the flags
\*   alone changes the layout the OTHER fields of the value are judged by - not a scalar of its own
LayoutFlags == {"ChannelUpdate1.MessageFlags"}
\*   dyn_commit carries ONE channel_id, the Go value keeps it twice (embedded DynPropose and DynAck)
Aliased == {<<117, "DynPropose.ChanID">>, <<117, "DynAck.ChanID">>}
\*   66-byte musig2 public nonces are two curve points (the decoder validates them); node_announcement alias is text
PointTypes == {"Musig2Nonce"}
TextTypes  == {"NodeAlias"}
\*   length domains: shutdown scripts are at most 34 bytes (BOLT 2 forms), node_announcement_2 alias is 1..32 bytes
MinLen(gotype) == IF gotype = "NodeAlias2" THEN 1 ELSE 0
MaxLen(gotype) == CASE gotype = "DeliveryAddress" -> 34 [] gotype = "NodeAlias2" -> 32 [] OTHER -> 65535

InDomain(o) ==
  CASE o.op = "val-int"   -> /\ (o.fld \in DOMAIN NarrowTo => Need(o.pos, o.w) <= NarrowTo[o.fld])
                             /\ (o.fld \in NonZero => o.pos # "i0")
                             /\ o.fld \notin LayoutFlags
    [] o.op = "val-bytes" -> /\ o.gotype \notin PointTypes
                             /\ (o.gotype \in TextTypes => o.pos \in {"b00", "bz"})
                             /\ <<o.t, o.fld>> \notin Aliased
    [] OTHER              -> LenOf(o.pos) >= MinLen(o.gotype) /\ LenOf(o.pos) <= MaxLen(o.gotype)

-----------------------------------------------------------------------------
(* The laws, over one observation o of the real codec on one input:         *)
(*   d1      the input decoded                      e1   its re-encoding b2 succeeded, e1len = |b2|     *)
(*   d2      b2 decoded                             e2   that re-encoded to b3;  fix: b3 = b2          *)
(*   same    b2 = the input                         veq  decoded value = the generated value           *)
(*   pan/hang/alloc   panicked, ran over the per-case deadline, bytes allocated by the first decode    *)
(*   val-* only:  e0  the value with the field set was encoded (that encoding is the input);           *)
(*                chg its encoding differs from the encoding of the value it was made from             *)
\* "allocates beyond the message bound": what one decode may allocate is bounded by a constant factor of the
\* bytes it was given (decoded representations are larger than the wire form) plus a constant
CONSTANTS AllocFactor, AllocSlack

Totality(o)  == o.pan = 0 /\ o.hang = 0 /\ o.alloc <= AllocSlack + AllocFactor * o.ilen
Bound(o)     == o.e1 = 1 => o.e1len <= MaxMsg
Fixpoint(o)  == o.d1 = 1 => (o.e1 = 1 /\ o.d2 = 1 /\ o.e2 = 1 /\ o.fix = 1)
RoundTrip(o) == o.op \in {"valid", "var-bound"} => (o.d1 = 1 /\ o.veq = 1 /\ o.same = 1 /\ o.ilen <= MaxMsg)
\* a well-formed value carrying an unknown odd record in its extension data comes back equal, byte-identically
\* (bytes appended to an encoding are only subject to the fixpoint law: a type without an extension field
\* may drop them, and an unsorted extension may be re-sorted)
Preserved(o) == o.op = "ext-odd" => (o.d1 = 1 /\ o.veq = 1 /\ o.same = 1)
\* "every well-formed message value encodes to at most 65535 bytes and decodes back to an equal value", for a
\* generated value in which one field was set to a boundary value of its domain.  A field whose value does not
\* reach the encoding (chg = 0: Sig.sigType, the alpha channel of the colour, htlc_maximum_msat while its flag is
\* clear, or simply the value the field already had) is not part of the wire value: nothing to come back.
\* A field of a list element (inlist = 1) is bound by the list: encoded_short_ids (and the timestamps that go with
\* them) are strictly ascending without duplicates, so a boundary value may collide with the neighbouring element
\* and either side of the codec may refuse the list; what is accepted must still come back equal.
ValueLaw(o) == (o.op \in ValOps /\ InDomain(o)) =>
                  /\ (o.inlist = 0 => (o.e0 = 1 /\ o.d1 = 1))
                  /\ ((o.e0 = 1 /\ o.d1 = 1) => (o.same = 1 /\ (o.chg = 1 => o.veq = 1)))
\* Record level.  Every message type has a TLV extension after its fixed layout except the ones BOLT 1 defines
\* without (warning, error, ping, pong: their last field is a length-prefixed byte string) and onion_message.
NoExtTypes == {1, 17, 18, 19, 513}
NoExt(kind, t) == IF kind = "msg" THEN t \in NoExtTypes ELSE t \notin FailExtCodes
\* rec-ins observation: tcls / lcls the classes of the inserted record, rkept = the extension of the re-encoding b2
\* holds that record (same type, same value), same = b2 is the input.  The input's extension is canonical (the
\* generated one plus one record at its canonical position), so: an unknown ODD record must not make the message
\* fail ("it's ok to be odd"; lnwire leaves unknown even types to the caller, either answer is accepted here), and
\* whatever is accepted comes back with the record in it and byte-identically.
RecAccept(o)    == (o.op = "rec-ins" /\ TcOdd(o.tcls)) => o.d1 = 1
RecPreserved(o) == (o.op = "rec-ins" /\ o.d1 = 1) => (o.e1 = 1 /\ o.rkept = 1 /\ o.same = 1)
Laws(o) == Totality(o) /\ Bound(o) /\ Fixpoint(o) /\ RoundTrip(o) /\ Preserved(o) /\ ValueLaw(o)
           /\ RecAccept(o) /\ RecPreserved(o)
=============================================================================
