------------------------------ MODULE WireLaws ------------------------------
(***************************************************************************)
(* C10, message part.  Deliberately thin: the ~60 field layouts of lnwire   *)
(* are NOT modelled (that would be a second copy of the codec).  What is    *)
(* specified:                                                               *)
(*  - the framing of lnwire.ReadMessage/WriteMessage: type dispatch over    *)
(*    the whole 16-bit type space (registered / unknown / custom range),    *)
(*    the 65533-byte payload bound with all-or-nothing buffer semantics,    *)
(*    and the same for onion failure codes;                                 *)
(*  - the codec LAWS of the property as predicates over one observation of  *)
(*    the real codec on one input (totality, bound, canonical fixpoint,     *)
(*    value round trip, extension data preserved);                          *)
(*  - the mutation PLAN (message type or failure code x operator x position *)
(*    class) that TLC enumerates and the executor has to cover exactly.     *)
(***************************************************************************)
EXTENDS Naturals, Sequences, FiniteSets, TLC

MaxMsgBody     == 65533
MaxMsg         == 65535
CustomStart    == 32768

\* BOLT message types lnd registers (lnwire/message.go)
MsgTypes == {1, 2, 16, 17, 18, 19, 32, 33, 34, 35, 36, 38, 39, 40, 41, 111, 113, 115, 117,
             128, 130, 131, 132, 133, 134, 135, 136, 256, 257, 258, 259, 260, 261, 262, 263, 264, 265,
             267, 269, 271, 513, 777}

\* BOLT 4 failure codes lnd registers (lnwire/onion_error.go); flags BADONION 32768, PERM 16384, NODE 8192, UPDATE 4096
FailCodes == {32769, 8194, 24578, 24579, 49156, 49157, 49158, 4103, 16392, 16393, 16394, 4107, 4108, 4109,
              4110, 4116, 16399, 16400, 17, 18, 19, 21, 16406, 23, 49176}

\* ReadMessage: what the two type bytes select.  Unknown types are reported
\* alike for even and odd values (the error carries the type; ignoring odd
\* ones is the peer's business), and everything from 32768 is a custom message.
Dispatch(t) == IF t \in MsgTypes THEN "known" ELSE IF t >= CustomStart THEN "custom" ELSE "unknown"
FailDispatch(c) == IF c \in FailCodes THEN "known" ELSE "unknown"

\* WriteMessage: a payload of plen bytes onto a buffer already holding pre bytes
WriteOk(plen) == plen <= MaxMsgBody
BufAfter(pre, plen) == IF WriteOk(plen) THEN pre + 2 + plen ELSE pre

-----------------------------------------------------------------------------
(* The mutation plan *)
Kinds == <<"msg", "fail", "pkt">>          \* wire message | failure message | padded onion failure packet
Ops == <<"valid", "trunc-1", "trunc", "trunc+1", "len-1", "len+1",
         "tail-odd", "tail-even", "tail-unsorted", "tail-nonmin", "flip", "raw", "ext-odd", "len-max", "var-bound">>
Poss == <<"-", "head", "mid", "tail", "short", "medium", "long">>

IndexOf(seq, x) == CHOOSE i \in 1..Len(seq) : seq[i] = x

\* len-1/len+1: a 2-byte field whose value is the size of the next read; len-max: any 2-byte field := 0xffff
\* var-bound: not a byte mutation either - one variable-length field of the generated VALUE (first/middle/last of
\* them; for an address list: a DNS address at the first/middle/last list position) is resized to a boundary
\* length (1, 2^8-1, 2^8, 2^8+1, the maximum that fits; DNS host names 1, 252..255); the repetitions cycle the lengths
PosOf(op) == CASE op \in {"trunc-1", "trunc", "trunc+1", "flip", "len-max", "var-bound"} -> {"head", "mid", "tail"}
               [] op \in {"len-1", "len+1"}                      -> {"head", "tail"}
               [] op = "raw"                                     -> {"short", "medium", "long"}
               [] OTHER                                          -> {"-"}
\* ext-odd: not a byte mutation - the generated VALUE gets one more unknown odd record in its extension
\* data (canonical position) before it is encoded
OpsOf(kind) == CASE kind = "pkt"  -> {"valid", "trunc-1", "trunc", "trunc+1", "len-1", "len+1", "flip", "raw", "len-max"}
                 [] kind = "fail" -> {Ops[i] : i \in 1..Len(Ops)} \ {"ext-odd", "var-bound"}
                 [] OTHER         -> {Ops[i] : i \in 1..Len(Ops)}
TypesOf(kind) == IF kind = "msg" THEN MsgTypes ELSE FailCodes

Cell(kind, t, op, pos) ==
  [kind |-> kind, t |-> t, op |-> op, pos |-> pos,
   ki |-> IndexOf(Kinds, kind), oi |-> IndexOf(Ops, op), pi |-> IndexOf(Poss, pos)]
Plan == {Cell(k, t, op, pos) : k \in {"msg", "fail", "pkt"}, t \in MsgTypes \cup FailCodes,
                               op \in {Ops[i] : i \in 1..Len(Ops)}, pos \in {Poss[i] : i \in 1..Len(Poss)}}
InPlan(c) == /\ c.kind \in {"msg", "fail", "pkt"} /\ c.t \in TypesOf(c.kind)
             /\ c.op \in OpsOf(c.kind) /\ c.pos \in PosOf(c.op)
PlanCells == {c \in Plan : InPlan(c)}
Key(c, rep) == <<c.ki, c.t, c.oi, c.pi, rep>>

\* lexicographic order on keys
KeyLess(a, b) == \E k \in 1..5 : a[k] < b[k] /\ \A j \in 1..(k-1) : a[j] = b[j]

-----------------------------------------------------------------------------
(* The laws, over one observation o of the real codec on one input:         *)
(*   d1      the input decoded                      e1   its re-encoding b2 succeeded, e1len = |b2|     *)
(*   d2      b2 decoded                             e2   that re-encoded to b3;  fix: b3 = b2          *)
(*   same    b2 = the input                         veq  decoded value = the generated value           *)
(*   pan/hang/alloc   panicked, ran over the per-case deadline, bytes allocated by the first decode    *)
\* "allocates beyond the message bound": what one decode may allocate is bounded by a constant factor of the
\* bytes it was given (decoded representations are larger than the wire form) plus a constant
CONSTANTS AllocFactor, AllocSlack

Totality(o)  == o.pan = 0 /\ o.hang = 0 /\ o.alloc <= AllocSlack + AllocFactor * o.ilen
Bound(o)     == o.e1 = 1 => o.e1len <= MaxMsg
Fixpoint(o)  == o.d1 = 1 => (o.e1 = 1 /\ o.d2 = 1 /\ o.e2 = 1 /\ o.fix = 1)
RoundTrip(o) == o.op \in {"valid", "var-bound"} => (o.d1 = 1 /\ o.veq = 1 /\ o.same = 1 /\ o.ilen <= MaxMsg)
\* a well-formed value carrying an unknown odd record in its extension data comes back equal, byte-identically
\* (bytes appended to an encoding are only subject to the fixpoint law: a type without an extension field
\* may drop them, and an unsorted extension may be re-sorted)
Preserved(o) == o.op = "ext-odd" => (o.d1 = 1 /\ o.veq = 1 /\ o.same = 1)
Laws(o) == Totality(o) /\ Bound(o) /\ Fixpoint(o) /\ RoundTrip(o) /\ Preserved(o)
=============================================================================
