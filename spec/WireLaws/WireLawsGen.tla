----------------------------- MODULE WireLawsGen -----------------------------
(* TLC enumerates the mutation plan: one state per cell; Dump writes it.     *)
EXTENDS WireLaws, Json, CSV
VARIABLE cell
None == [kind |-> "none", t |-> 0, op |-> "", pos |-> "", ki |-> 0, oi |-> 0, pi |-> 0]
Init == cell = None
Next == cell = None /\ \E c \in PlanCells : cell' = c
Spec == Init /\ [][Next]_cell

WellFormed == cell # None => (InPlan(cell) /\ Key(cell, 1) \in (1..3) \X (0..65535) \X (1..Len(Ops)) \X (1..Len(Poss)) \X {1})
Dump == cell # None => CSVWrite("%1$s", <<ToJson(cell)>>, "plan.ndjson")
=============================================================================
