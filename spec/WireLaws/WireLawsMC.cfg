SPECIFICATION Spec
CONSTANTS
  AllocBound = 4194304
INVARIANTS WellFormed
CHECK_DEADLOCK FALSE
