SPECIFICATION Spec
CONSTANTS
  AllocFactor = 64
  AllocSlack = 262144
INVARIANTS WellFormed
CHECK_DEADLOCK FALSE
