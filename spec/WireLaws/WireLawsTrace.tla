---------------------------- MODULE WireLawsTrace ----------------------------
(* Trace validation of the lnwire executor.  Line kinds:                     *)
(*  Law           one observation of the codec on one (mutated) input; must  *)
(*                be the next cell x repetition of the plan (keys strictly   *)
(*                increasing, |PlanCells| * Reps lines in total - RecReps    *)
(*                for a record-level cell - = the plan is covered exactly), and must satisfy every law.  For the  *)
(*                value-boundary operators val-int, -bytes, -len the line    *)
(*                also carries the                                           *)
(*                field that was set (fld, gotype, w, fi of nf): the field   *)
(*                must be the one the repetition selects (FieldOf), "not     *)
(*                applicable" is only accepted where the value has no such   *)
(*                field or the class does not exist for its width (Fits),    *)
(*                and ValueLaw decides the round trip (deviation             *)
(*                value-roundtrip).  For the record-level operators rec-ins, *)
(*                rec-drop, rec-len it carries hasext / nrec (the message    *)
(*                has a TLV extension, with so many records), the two halves *)
(*                of the position class (tcls, lcls: type and length class   *)
(*                of the inserted record; for rec-len the record selection   *)
(*                and the resize class), rlen (bytes of the selected         *)
(*                record) and rkept (the re-encoding still holds the         *)
(*                inserted record): "not applicable" is only accepted for a  *)
(*                message type without extension (NoExtTypes), an extension  *)
(*                without records, a value too short for the resize, or an   *)
(*                input beyond 65535 bytes; RecAccept / RecPreserved decide  *)
(*                (deviations ext-canonical-rejected, ext-record-lost,       *)
(*                ext-not-reproduced)                                        *)
(*  Dispatch      ReadMessage answered `res` for every type in lo..hi (the   *)
(*                ranges must tile 0..65535); FailDispatch likewise          *)
(*  Write         WriteMessage of a plen-byte payload onto pre bytes         *)
(*  ReadShort     ReadMessage on fewer than two bytes                        *)
(* Every deviation is written to dev.txt as  <what> <kind> <t> <op> <line>;  *)
(* the postcondition NoDeviation rejects the trace if there was any.         *)
EXTENDS WireLaws, Json, CSV
CONSTANTS Reps, RecReps      \* repetitions per plan cell; of a record-level cell (its classes are fixed, a repetition only varies the generated message)
RepsOf(op) == IF op \in RecOps THEN RecReps ELSE Reps
VARIABLES l, prev, nlaw, dnext, fnext, nwrite, ndev

vars == <<l, prev, nlaw, dnext, fnext, nwrite, ndev>>
Trace == ndJsonDeserialize("trace.ndjson")

Report(ds, k, t, op, line) ==
  \A d \in ds : CSVWrite("%1$s %2$s %3$s %4$s %5$s", <<d, k, t, op, line>>, "dev.txt")
Count(ds) == /\ ndev' = ndev + Cardinality(ds)
             /\ TLCSet(1, ndev + Cardinality(ds))

PlanSize == Cardinality({c \in PlanCells : c.op \notin RecOps}) * Reps + Cardinality({c \in PlanCells : c.op \in RecOps}) * RecReps

TInit == /\ TLCSet(1, 0)
         /\ l = 1 /\ prev = <<0, 0, 0, 0, 0>> /\ nlaw = 0 /\ dnext = 0 /\ fnext = 0 /\ nwrite = 0 /\ ndev = 0

Is(a) == l <= Len(Trace) /\ Trace[l].a = a /\ l' = l + 1

LawDevs(o) ==
  LET c == Cell(o.kind, o.t, o.op, o.pos) IN
  (IF ~(o.kind \in {"msg", "fail", "pkt"} /\ o.op \in OpsSet /\ o.pos \in PossSet) THEN {"not-a-cell"}
   ELSE IF ~InPlan(c) \/ o.rep \notin 1..RepsOf(o.op) THEN {"not-in-plan"}
   ELSE IF ~KeyLess(prev, Key(c, o.rep)) THEN {"plan-order"} ELSE {})
  \cup (IF o.op \in ValOps /\ o.nf > 0 /\ o.fi # FieldOf(o.rep, o.nf) THEN {"field-plan"} ELSE {})
  \cup (IF o.na = 1
          THEN (IF o.op \in ValOps
                  THEN (IF o.nf = 0 \/ ~Fits(o.op, o.pos, o.w) THEN {} ELSE {"unexpected-na"})
                  ELSE IF o.op \in RecOps
                  THEN (IF \/ (o.hasext = 0 /\ NoExt(o.kind, o.t))
                           \/ o.ilen > MaxMsg
                           \/ (o.hasext = 1 /\ o.nrec = 0 /\ o.op \in {"rec-drop", "rec-len"})
                           \/ (o.hasext = 1 /\ o.nrec > 0 /\ o.op = "rec-len" /\ o.lcls \in Range(DeltaClasses)
                               /\ o.rlen < DeltaNeed(o.lcls))
                          THEN {} ELSE {"unexpected-na"})
                  ELSE IF o.op \in {"len-1", "len+1", "len-max", "ext-odd", "var-bound"} \/ o.vlen <= 2 \/ o.vlen > MaxMsg - 5
                         THEN {} ELSE {"unexpected-na"})
          ELSE (IF o.ilen <= MaxMsg THEN {} ELSE {"input-outside-domain"})
               \cup (IF o.op \in ValOps /\ (o.nf = 0 \/ ~Fits(o.op, o.pos, o.w)) THEN {"field-plan"} ELSE {})
               \cup (IF o.op \in RecOps /\ ~(o.hasext = 1 /\ o.pos = (IF o.lcls = "" THEN o.tcls ELSE o.tcls \o "." \o o.lcls))
                       THEN {"field-plan"} ELSE {})
               \cup (IF RecAccept(o) THEN {} ELSE {"ext-canonical-rejected"})
               \cup (IF RecPreserved(o) THEN {} ELSE {IF o.e1 = 1 /\ o.rkept = 1 THEN "ext-not-reproduced" ELSE "ext-record-lost"})
               \cup (IF ValueLaw(o) THEN {} ELSE {"value-roundtrip"})
               \cup (IF Totality(o) THEN {} ELSE {IF o.pan = 1 THEN "panic" ELSE IF o.hang = 1 THEN "hang" ELSE "alloc"})
               \cup (IF Bound(o) THEN {} ELSE {"bound"})
               \cup (IF Fixpoint(o) THEN {} ELSE {"fixpoint"})
               \cup (IF RoundTrip(o) THEN {} ELSE {"roundtrip"})
               \cup (IF Preserved(o) THEN {} ELSE {"extension-lost"}))

Law == /\ Is("Law")
       /\ LET o == Trace[l]
              ds == LawDevs(o) IN
          /\ Report(ds, o.kind, o.t, o.op, l)
          /\ Count(ds)
          /\ prev' = IF {"not-a-cell", "not-in-plan"} \cap ds = {} THEN Key(Cell(o.kind, o.t, o.op, o.pos), o.rep) ELSE prev
       /\ nlaw' = nlaw + 1
       /\ UNCHANGED <<dnext, fnext, nwrite>>

RangeDevs(o, next, D(_)) ==
  (IF o.lo # next \/ o.hi < o.lo \/ o.hi > 65535 THEN {"range-gap"} ELSE {})
  \cup (IF \A t \in o.lo..o.hi : D(t) = o.res THEN {} ELSE {"dispatch"})
  \cup (IF o.mtok = 1 THEN {} ELSE {"dispatch-type"})

DispatchL == /\ Is("Dispatch")
             /\ LET o == Trace[l]
                    ds == RangeDevs(o, dnext, Dispatch) IN
                /\ Report(ds, "msg", o.lo, o.res, l) /\ Count(ds)
                /\ dnext' = o.hi + 1
             /\ UNCHANGED <<prev, nlaw, fnext, nwrite>>

FailDispatchL == /\ Is("FailDispatch")
                 /\ LET o == Trace[l]
                        ds == RangeDevs(o, fnext, FailDispatch) IN
                    /\ Report(ds, "fail", o.lo, o.res, l) /\ Count(ds)
                    /\ fnext' = o.hi + 1
                 /\ UNCHANGED <<prev, nlaw, dnext, nwrite>>

WriteL == /\ Is("Write")
          /\ LET o == Trace[l]
                 ds == (IF (o.ok = 1) <=> WriteOk(o.plen) THEN {} ELSE {"write-bound"})
                       \cup (IF o.blen = BufAfter(o.pre, o.plen) THEN {} ELSE {"write-not-atomic"})
                       \cup (IF o.ok = 1 /\ o.rb # 1 THEN {"write-readback"} ELSE {}) IN
             /\ Report(ds, "msg", o.plen, "write", l) /\ Count(ds)
          /\ nwrite' = nwrite + 1
          /\ UNCHANGED <<prev, nlaw, dnext, fnext>>

ReadShortL == /\ Is("ReadShort")
              /\ LET o == Trace[l]
                     ds == IF o.ok = 0 /\ o.pan = 0 THEN {} ELSE {"short-read"} IN
                 /\ Report(ds, "msg", o.n, "readshort", l) /\ Count(ds)
              /\ UNCHANGED <<prev, nlaw, dnext, fnext, nwrite>>

\* end of trace: coverage
Done == /\ l = Len(Trace) + 1
        /\ LET ds == (IF nlaw = PlanSize THEN {} ELSE {"plan-not-covered"})
                     \cup (IF dnext = 65536 /\ fnext = 65536 THEN {} ELSE {"dispatch-not-covered"})
                     \cup (IF nwrite >= 6 THEN {} ELSE {"write-not-covered"}) IN
           /\ Report(ds, "-", 0, "-", l) /\ Count(ds)
        /\ l' = l + 1
        /\ UNCHANGED <<prev, nlaw, dnext, fnext, nwrite>>

TNext == Law \/ DispatchL \/ FailDispatchL \/ WriteL \/ ReadShortL \/ Done
         \/ (l = Len(Trace) + 2 /\ UNCHANGED vars)
TSpec == TInit /\ [][TNext]_vars

TypeOK == nlaw <= PlanSize /\ dnext <= 65536 /\ fnext <= 65536
NoDeviation == TLCGet(1) = 0
=============================================================================
