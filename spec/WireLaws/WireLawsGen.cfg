SPECIFICATION Spec
CONSTANTS
  AllocBound = 4194304
INVARIANTS WellFormed Dump
CHECK_DEADLOCK FALSE
