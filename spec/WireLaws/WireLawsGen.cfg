SPECIFICATION Spec
CONSTANTS
  AllocFactor = 64
  AllocSlack = 262144
INVARIANTS WellFormed Dump
CHECK_DEADLOCK FALSE
