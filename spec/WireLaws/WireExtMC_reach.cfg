SPECIFICATION ESpec
CONSTANTS
  AllocFactor = 64
  AllocSlack = 262144
  MaxRecs = 3
INVARIANTS ReachEmptyMix
CHECK_DEADLOCK FALSE
