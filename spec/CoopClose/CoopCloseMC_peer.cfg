SPECIFICATION PeerSpec
CONSTANTS
  Capacity = 1000000
  AnchorSize = 330
  MaxRounds = 20
  CommitFees = {4344}
  SmallLo = 0
  SmallHi = 0
  SmallExtra = {199, 200, 293, 294, 329, 330, 331, 1299, 1300, 1301, 5000}
  Rems = {0, 999}
  Near = 1
  Lo = 100
  Hi = 100
  Step = 1
  RbfDepth = 4
  PeerDepth = 4
  PeerWide = FALSE
  TightCap = FALSE
INVARIANTS Synced TxInvariants PeerInvariants TermsAgree
CHECK_DEADLOCK FALSE
