SPECIFICATION TxSpec
CONSTANTS
  Capacity = 1000000
  AnchorSize = 330
  MaxRounds = 20
  CommitFees = {0, 4344, 6744}
  SmallLo = 0
  SmallHi = 360
  SmallExtra = {1298, 1299, 1300, 1301, 1302, 5000, 400000}
  Rems = {0, 1, 999}
  Near = 2
  Lo = 100
  Hi = 100
  Step = 1
  RbfDepth = 4
  TightCap = FALSE
  PeerDepth = 4
  PeerWide = FALSE
INVARIANTS Synced TxInvariants
CHECK_DEADLOCK FALSE
