--------------------------- MODULE CoopCloseGen ---------------------------
(* Behaviour generators for spec/CoopClose (TLC -simulate, one NDJSON file  *)
(* per behaviour).                                                           *)
(*  TxGSpec : a channel of one of the fixture's types, balance moved by real *)
(*            payments (Pay) and then by injected splits around the dust     *)
(*            limits (Inject), and after every change several closes at fees *)
(*            around the thresholds, charged to either party.                *)
(*  NegGSpec: one negotiation per behaviour (ideal-fee pair, caps, taproot   *)
(*            rule); the events after the configuration are deterministic.   *)
EXTENDS CoopClose, Json

CONSTANTS MaxLen,         \* events per transaction-layer behaviour
          Lo, Hi, Step,   \* ideal fees of the negotiation generator
          MaxRatio        \* ideal fees at most this factor apart (explicit opener cap)

VARIABLES hist, k, injected
gvars == <<vars, hist, k, injected>>

\* the fixture's channel types: anchors, taproot, commitment fee at 6000 sat/kw (724/1124/968 wu)
Types == [legacy       |-> [an |-> FALSE, tap |-> FALSE, cfee |-> 4344],
          tweakless    |-> [an |-> FALSE, tap |-> FALSE, cfee |-> 4344],
          anchors      |-> [an |-> TRUE,  tap |-> FALSE, cfee |-> 6744],
          zerofee      |-> [an |-> TRUE,  tap |-> FALSE, cfee |-> 6744],
          lease        |-> [an |-> TRUE,  tap |-> FALSE, cfee |-> 6744],
          taproot      |-> [an |-> TRUE,  tap |-> TRUE,  cfee |-> 5808],
          taprootfinal |-> [an |-> TRUE,  tap |-> TRUE,  cfee |-> 5808],
          taprootroot  |-> [an |-> TRUE,  tap |-> TRUE,  cfee |-> 5808]]
TypeNames == DOMAIN Types
DustPairs == {<<200, 1300>>, <<1300, 200>>, <<354, 354>>, <<546, 330>>}

Rec(e) == hist' = Append(hist, e)
Ev(a, p, x, y) == [a |-> a, p |-> p, x |-> x, y |-> y]

FixtureChan(t, o, d) ==
  LET ty == Types[t]
      cr == IF ty.an THEN 2 * AnchorSize ELSE 0
      ob == 1000 * ((Capacity \div 2) - ty.cfee - cr)
      nb == 1000 * (Capacity \div 2) IN
  MkChan(o, ty.an, ty.tap, d[1], d[2], IF o = "A" THEN ob ELSE nb, IF o = "A" THEN nb ELSE ob, ty.cfee)

TxGInit ==
  /\ \E t \in TypeNames, o \in P, d \in DustPairs :
       /\ ch = FixtureChan(t, o, d)
       /\ hist = <<[a |-> "Cfg", p |-> o, x |-> d[1], y |-> d[2], type |-> t]>>
  /\ tx = [p \in P |-> NoTx] /\ NegIdle
  /\ k = 2 /\ injected \in BOOLEAN     \* TRUE: balances by injection, FALSE: by real payments only

Total == ch.view["A"].our + ch.view["A"].their
Smalls == {0, 1, 2, 5000} \cup UNION {{OwnDust(p) - 1, OwnDust(p), OwnDust(p) + 1} : p \in P}
Around(x) == {y \in (x - 1)..(x + 1) : y >= 0}
FeeGrid(y) ==
  LET g == Gross(y) IN
  UNION { Around(x) : x \in {0, 150, OwnDust("A"), OwnDust("B"), g, g - OwnDust(y), g - (g \div 3), Capacity} }

\* amounts (msat) a real add/settle moves; the sender keeps >= 60 000 sat (reserve + fee buffer)
PayAmts == {1, 999, 1000, 1234567, 45000001, 170000999}

GInject == /\ k >= 2 /\ injected
           /\ \E side \in P, s \in Smalls, r \in {0, 1, 999} :
                LET small == 1000 * s + r
                    rest == Total - small IN
                /\ ch' = [ch EXCEPT !.view = [p \in P |->
                             [@[p] EXCEPT !.our = IF p = side THEN small ELSE rest,
                                          !.their = IF p = side THEN rest ELSE small]]]
                /\ Rec(Ev("Inject", side, small, 0))
           /\ tx' = [p \in P |-> NoTx] /\ k' = 0 /\ UNCHANGED <<negVars, injected>>
GPay == /\ k >= 2 /\ ~injected
        /\ \E f \in P, amt \in PayAmts :
             /\ ch.view[f].our - amt >= 60000000
             /\ Pay(f, amt) /\ Rec(Ev("Pay", f, amt, 0))
        /\ k' = 0 /\ UNCHANGED <<negVars, injected>>
\* y = 1: with the options of the RBF-coop flow (custom sequence, explicit payer); payer # opener needs them
GClose == /\ k < 4
          /\ \E y \in P : \E f \in FeeGrid(y), rbf \in {0, 1} :
               /\ (y # ch.opener => rbf = 1)
               /\ CloseAt(f, y) /\ Rec(Ev("Close", y, f, rbf))
          /\ k' = k + 1 /\ UNCHANGED <<negVars, injected>>

TxGNext == Len(hist) < MaxLen /\ (GInject \/ GPay \/ GClose)
TxGSpec == TxGInit /\ [][TxGNext]_gvars
TxDump == Len(hist) = MaxLen =>
            ndJsonSerialize("b_" \o ToString(TLCGet("stats").traces) \o ".ndjson", hist)

-----------------------------------------------------------------------------
(*  RbfGSpec: multi-round RBF histories on a channel of any type: optionally an injected split, then      *)
(*            MaxRbf offers by either side, each at a fee of a small grid (bumps and drops) and with the *)
(*            closer staying on or moving to one of 3 delivery scripts.                                  *)
CONSTANT MaxRbf
\* all fixture types but the lease channel; on the taproot ones both machines run the MuSig2 nonce exchange
\* (JIT closer nonce with closing_complete, next closee nonce with closing_sig)
RbfTypes == {"legacy", "tweakless", "anchors", "zerofee", "taproot", "taprootfinal", "taprootroot"}
PeerTypes == {"legacy", "tweakless", "anchors", "zerofee"}
RbfGInit ==
  /\ \E t \in RbfTypes, o \in P, d \in DustPairs :
       /\ ch = FixtureChan(t, o, d)
       /\ hist = <<[a |-> "Cfg", p |-> o, x |-> d[1], y |-> d[2], type |-> t]>>
  /\ tx = [p \in P |-> NoTx] /\ NegIdle
  /\ k = 2 /\ injected \in BOOLEAN
RbfFeeGrid(c) ==
  LET n == Sat(ch.view[c].our) IN
  {f \in {700, 1000, 1001, 1500, 2600, 9000, n - 1, n, n + 1, n - OwnDust(c), n - (n \div 4)} : f >= 1}
\* the fee is drawn at random from the grid (one successor per closer and script: same distribution, smaller fan-out)
GRbf == /\ \E c \in P, s \in 0..2 : \E f \in {RandomElement(RbfFeeGrid(c))} :
             /\ RbfOffer(f, c, s) /\ Rec(Ev("RbfM", c, f, s))
        /\ UNCHANGED <<negVars, k, injected>>
RbfGNext == /\ Len(hist) < MaxRbf + 2
            /\ IF injected /\ Len(hist) = 1 THEN GInject ELSE GRbf
RbfGSpec == RbfGInit /\ [][RbfGNext]_gvars
RbfDump == Len(hist) = MaxRbf + 2 =>
             ndJsonSerialize("r_" \o ToString(TLCGet("stats").traces) \o ".ndjson", hist)

-----------------------------------------------------------------------------
(*  PeerGSpec: part III histories - one real node (either party, Environment.BlockHeight 0 or the current  *)
(*            height) against the model-driven peer: optionally an injected split (small side around the    *)
(*            channel AND the network dust limits), then MaxPeer steps of PeerOffer (fee, lock time, script  *)
(*            drawn at random from small grids: one successor per action kind, so that offers and replies    *)
(*            alternate), NodeReply, NodeOffer, PeerReply, NodeSig; up to two closing_completes in flight.   *)
CONSTANT MaxPeer
PeerSd == [p \in P |-> IF p = "A" THEN <<294, 330, 330>> ELSE <<330, 294, 330>>]
PeerHt == 3
PEv(a, p, x, y, lt, f, res, sel) == [a |-> a, p |-> p, x |-> x, y |-> y, lt |-> lt, f |-> f, res |-> res, sel |-> sel]
PeerGInit ==
  /\ \E t \in PeerTypes, o \in P, d \in DustPairs, n \in P, h \in {0, PeerHt} :
       /\ ch = FixtureChan(t, o, d)
       /\ rb = RbStart(n, h, PeerHt, PeerSd)
       /\ hist = <<[a |-> "Cfg", p |-> o, x |-> d[1], y |-> d[2], type |-> t, node |-> n, envh |-> h, ht |-> PeerHt]>>
  /\ tx = [p \in P |-> NoTx]
  /\ ideal = [p \in P |-> 0] /\ maxfee = [p \in P |-> 0] /\ last = [p \in P |-> 0]
  /\ prior = [p \in P |-> {}] /\ done = [p \in P |-> 0]
  /\ msg = 0 /\ turn = "A" /\ rounds = 0 /\ err = ""
  /\ k = 2 /\ injected \in BOOLEAN
PSmalls == Smalls \cup {293, 294, 295, 329, 330, 331, 7000}
GPInject == /\ \E side \in P, s \in PSmalls, r \in {0, 999} :
                LET small == 1000 * s + r
                    rest == Total - small IN
                /\ ch' = [ch EXCEPT !.view = [p \in P |->
                             [@[p] EXCEPT !.our = IF p = side THEN small ELSE rest,
                                          !.their = IF p = side THEN rest ELSE small]]]
                /\ Rec(Ev("Inject", side, small, 0))
            /\ tx' = [p \in P |-> NoTx] /\ UNCHANGED <<negVars, k, injected>>
PeerGFees(c) ==
  LET n == Sat(ch.view[c].our)  g == Gross(c) IN
  {f \in {700, 1000, 1001, 2600, n - 1, n, n + 1, g - OwnDust(c), g - OwnDust(c) + 1, n - 294, n - 330, g - 294, g - 330,
          n - (n \div 4)} :
     f >= 1 /\ f <= g}
GPOffer ==
  LET c == Other(rb.node)  cur == ch.scr[c][c] IN
  /\ PeerGFees(c) # {}
  /\ \E f \in {RandomElement(PeerGFees(c))}, lt \in {RandomElement({0, 1, rb.ht})}, s \in {RandomElement({cur, (cur + 1) % 3})} :
       \E F \in HonestFields(c, f) :
         /\ PeerOffer(f, lt, s, F, 2)
         /\ Rec(PEv("POffer", c, f, s, lt, FieldOf(F), "", ""))
GNReply == NodeReply /\ Rec(PEv("NReply", rb.node, 0, 0, 0, "", "", ""))
GNOffer ==
  /\ PeerGFees(rb.node) # {}
  /\ \E f \in {RandomElement(PeerGFees(rb.node) \cup {Sat(ch.view[rb.node].our) + 1})} :
       NodeOffer(f) /\ Rec(PEv("NOffer", rb.node, f, 0, 0, "", "", ""))
\* the peer's answer is the model's: the executor is told which field the honest closee selects and whether it signs
GPReply == PeerReply /\ Rec(PEv("PReply", Other(rb.node), 0, 0, 0, "", rb'.res, rb'.sel))
GNSig == NodeSig /\ Rec(PEv("NSig", rb.node, 0, 0, 0, "", "", ""))
PeerGNext == /\ Len(hist) < MaxPeer + 2
             /\ IF injected /\ Len(hist) = 1 THEN GPInject
                ELSE (GPOffer \/ GNReply \/ GNOffer \/ GPReply \/ GNSig) /\ UNCHANGED <<ideal, maxfee, last, prior, done, msg, turn, rounds, err, k, injected>>
PeerGSpec == PeerGInit /\ [][PeerGNext]_gvars
PeerDump == (Len(hist) = MaxPeer + 2 \/ rb.dead) =>
              ndJsonSerialize("p_" \o ToString(TLCGet("stats").traces) \o ".ndjson", hist)

-----------------------------------------------------------------------------
Ideals == {x \in Lo..Hi : (x - Lo) % Step = 0}

\* cap of the opener: 0 = default (3 x ideal), 1 = explicit and generous, 2 = explicit, below the peer's ideal (abort path)
NegGInit ==
  /\ ch = MidChan("A", FALSE) /\ tx = [p \in P |-> NoTx] /\ NegIdle
  /\ hist = <<>> /\ k = 0 /\ injected = FALSE
\* the first step draws the configuration (RandomElement: the pair space is too large to enumerate as successors)
NegGPick ==
  /\ hist = <<>>
  /\ \E o \in P, v \in 0..7 :
       LET tap == v >= 6     \* a quarter of the negotiations under the taproot rule
           c == v % 3 IN
       \E ia \in {RandomElement(Ideals)} :       \* bound by a quantifier: drawn exactly once
       \E ib \in {RandomElement({x \in Ideals : x <= MaxRatio * ia /\ ia <= MaxRatio * x})} :
       LET id == [p \in P |-> IF p = "A" THEN ia ELSE ib]
           mf == [p \in P |-> IF p = o /\ c = 1 THEN MaxRatio * Max(ia, ib)
                              ELSE IF p = o /\ c = 2 THEN Max(id[p], id[Other(p)] - 1)
                              ELSE 3 * id[p]] IN
       /\ ch' = MidChan(o, tap)
       /\ ideal' = id /\ maxfee' = mf /\ turn' = o
       /\ hist' = <<[a |-> "NegCfg", p |-> o, tap |-> IF tap THEN 1 ELSE 0,
                     idealA |-> ia, idealB |-> ib, maxA |-> mf["A"], maxB |-> mf["B"]]>>
  /\ UNCHANGED <<tx, last, prior, done, msg, rounds, err, rb, k, injected>>
NegGNext == \/ NegGPick
            \/ /\ hist # <<>>
               /\ \/ Begin /\ Rec(Ev("Begin", ch.opener, 0, 0))
                  \/ Receive /\ Rec(Ev("Recv", turn, msg, 0))
               /\ UNCHANGED <<k, injected>>
NegGSpec == NegGInit /\ [][NegGNext]_gvars
NegDump == (hist # <<>> /\ Terminal) =>
             ndJsonSerialize("n_" \o ToString(TLCGet("stats").traces) \o ".ndjson", hist)
=============================================================================
