---- MODULE CoopCloseMC_TTrace_1790233386 ----
EXTENDS CoopCloseMC, Sequences, TLCExt, Toolbox, Naturals, TLC

_expression ==
    LET CoopCloseMC_TEExpression == INSTANCE CoopCloseMC_TEExpression
    IN CoopCloseMC_TEExpression!expression
----

_trace ==
    LET CoopCloseMC_TETrace == INSTANCE CoopCloseMC_TETrace
    IN CoopCloseMC_TETrace!trace
----

_inv ==
    ~(
        TLCGet("level") = Len(_TETrace)
        /\
        msg = (0)
        /\
        ideal = ([A |-> 0, B |-> 0])
        /\
        last = ([A |-> 0, B |-> 0])
        /\
        tx = ([A |-> [res |-> "ok", has |-> [A |-> FALSE, B |-> TRUE], fee |-> 0, val |-> [A |-> 0, B |-> 999999], payer |-> "A"], B |-> [res |-> "ok", has |-> [A |-> FALSE, B |-> TRUE], fee |-> 0, val |-> [A |-> 0, B |-> 999999], payer |-> "A"]])
        /\
        err = ("")
        /\
        ch = ([opener |-> "A", anchors |-> FALSE, taproot |-> FALSE, dust |-> [A |-> [A |-> 200, B |-> 1300], B |-> [A |-> 200, B |-> 1300]], view |-> [A |-> [cfee |-> 0, our |-> 1, their |-> 999999999], B |-> [cfee |-> 0, our |-> 999999999, their |-> 1]]])
        /\
        prior = ([A |-> {}, B |-> {}])
        /\
        turn = ("A")
        /\
        done = ([A |-> 0, B |-> 0])
        /\
        maxfee = ([A |-> 0, B |-> 0])
        /\
        rounds = (0)
    )
----

_init ==
    /\ done = _TETrace[1].done
    /\ msg = _TETrace[1].msg
    /\ ch = _TETrace[1].ch
    /\ ideal = _TETrace[1].ideal
    /\ last = _TETrace[1].last
    /\ prior = _TETrace[1].prior
    /\ maxfee = _TETrace[1].maxfee
    /\ tx = _TETrace[1].tx
    /\ turn = _TETrace[1].turn
    /\ err = _TETrace[1].err
    /\ rounds = _TETrace[1].rounds
----

_next ==
    /\ \E i,j \in DOMAIN _TETrace:
        /\ \/ /\ j = i + 1
              /\ i = TLCGet("level")
        /\ done  = _TETrace[i].done
        /\ done' = _TETrace[j].done
        /\ msg  = _TETrace[i].msg
        /\ msg' = _TETrace[j].msg
        /\ ch  = _TETrace[i].ch
        /\ ch' = _TETrace[j].ch
        /\ ideal  = _TETrace[i].ideal
        /\ ideal' = _TETrace[j].ideal
        /\ last  = _TETrace[i].last
        /\ last' = _TETrace[j].last
        /\ prior  = _TETrace[i].prior
        /\ prior' = _TETrace[j].prior
        /\ maxfee  = _TETrace[i].maxfee
        /\ maxfee' = _TETrace[j].maxfee
        /\ tx  = _TETrace[i].tx
        /\ tx' = _TETrace[j].tx
        /\ turn  = _TETrace[i].turn
        /\ turn' = _TETrace[j].turn
        /\ err  = _TETrace[i].err
        /\ err' = _TETrace[j].err
        /\ rounds  = _TETrace[i].rounds
        /\ rounds' = _TETrace[j].rounds

\* Uncomment the ASSUME below to write the states of the error trace
\* to the given file in Json format. Note that you can pass any tuple
\* to `JsonSerialize`. For example, a sub-sequence of _TETrace.
    \* ASSUME
    \*     LET J == INSTANCE Json
    \*         IN J!JsonSerialize("CoopCloseMC_TTrace_1790233386.json", _TETrace)

=============================================================================

 Note that you can extract this module `CoopCloseMC_TEExpression`
  to a dedicated file to reuse `expression` (the module in the 
  dedicated `CoopCloseMC_TEExpression.tla` file takes precedence 
  over the module `CoopCloseMC_TEExpression` below).

---- MODULE CoopCloseMC_TEExpression ----
EXTENDS CoopCloseMC, Sequences, TLCExt, Toolbox, Naturals, TLC

expression == 
    [
        \* To hide variables of the `CoopCloseMC` spec from the error trace,
        \* remove the variables below.  The trace will be written in the order
        \* of the fields of this record.
        done |-> done
        ,msg |-> msg
        ,ch |-> ch
        ,ideal |-> ideal
        ,last |-> last
        ,prior |-> prior
        ,maxfee |-> maxfee
        ,tx |-> tx
        ,turn |-> turn
        ,err |-> err
        ,rounds |-> rounds
        
        \* Put additional constant-, state-, and action-level expressions here:
        \* ,_stateNumber |-> _TEPosition
        \* ,_doneUnchanged |-> done = done'
        
        \* Format the `done` variable as Json value.
        \* ,_doneJson |->
        \*     LET J == INSTANCE Json
        \*     IN J!ToJson(done)
        
        \* Lastly, you may build expressions over arbitrary sets of states by
        \* leveraging the _TETrace operator.  For example, this is how to
        \* count the number of times a spec variable changed up to the current
        \* state in the trace.
        \* ,_doneModCount |->
        \*     LET F[s \in DOMAIN _TETrace] ==
        \*         IF s = 1 THEN 0
        \*         ELSE IF _TETrace[s].done # _TETrace[s-1].done
        \*             THEN 1 + F[s-1] ELSE F[s-1]
        \*     IN F[_TEPosition - 1]
    ]

=============================================================================



Parsing and semantic processing can take forever if the trace below is long.
 In this case, it is advised to uncomment the module below to deserialize the
 trace from a generated binary file.

\*
\*---- MODULE CoopCloseMC_TETrace ----
\*EXTENDS CoopCloseMC, IOUtils, TLC
\*
\*trace == IODeserialize("CoopCloseMC_TTrace_1790233386.bin", TRUE)
\*
\*=============================================================================
\*

---- MODULE CoopCloseMC_TETrace ----
EXTENDS CoopCloseMC, TLC

trace == 
    <<
    ([msg |-> 0,ideal |-> [A |-> 0, B |-> 0],last |-> [A |-> 0, B |-> 0],tx |-> [A |-> [res |-> "none", has |-> [A |-> FALSE, B |-> FALSE], fee |-> 0, val |-> [A |-> 0, B |-> 0], payer |-> "A"], B |-> [res |-> "none", has |-> [A |-> FALSE, B |-> FALSE], fee |-> 0, val |-> [A |-> 0, B |-> 0], payer |-> "A"]],err |-> "",ch |-> [opener |-> "A", anchors |-> FALSE, taproot |-> FALSE, dust |-> [A |-> [A |-> 200, B |-> 1300], B |-> [A |-> 200, B |-> 1300]], view |-> [A |-> [cfee |-> 0, our |-> 1, their |-> 999999999], B |-> [cfee |-> 0, our |-> 999999999, their |-> 1]]],prior |-> [A |-> {}, B |-> {}],turn |-> "A",done |-> [A |-> 0, B |-> 0],maxfee |-> [A |-> 0, B |-> 0],rounds |-> 0]),
    ([msg |-> 0,ideal |-> [A |-> 0, B |-> 0],last |-> [A |-> 0, B |-> 0],tx |-> [A |-> [res |-> "ok", has |-> [A |-> FALSE, B |-> TRUE], fee |-> 0, val |-> [A |-> 0, B |-> 999999], payer |-> "A"], B |-> [res |-> "ok", has |-> [A |-> FALSE, B |-> TRUE], fee |-> 0, val |-> [A |-> 0, B |-> 999999], payer |-> "A"]],err |-> "",ch |-> [opener |-> "A", anchors |-> FALSE, taproot |-> FALSE, dust |-> [A |-> [A |-> 200, B |-> 1300], B |-> [A |-> 200, B |-> 1300]], view |-> [A |-> [cfee |-> 0, our |-> 1, their |-> 999999999], B |-> [cfee |-> 0, our |-> 999999999, their |-> 1]]],prior |-> [A |-> {}, B |-> {}],turn |-> "A",done |-> [A |-> 0, B |-> 0],maxfee |-> [A |-> 0, B |-> 0],rounds |-> 0])
    >>
----


=============================================================================

---- CONFIG CoopCloseMC_TTrace_1790233386 ----
CONSTANTS
    Capacity = 1000000
    AnchorSize = 330
    MaxRounds = 20
    CommitFees = { 0 , 4344 , 6744 }
    SmallLo = 0
    SmallHi = 2
    SmallExtra = { 199 , 200 , 201 , 353 , 354 , 355 , 1299 , 1300 , 1301 , 5000 , 400000 }
    Rems = { 0 , 1 , 999 }
    Near = 1
    Lo = 100
    Hi = 100
    Step = 1
    TightCap = FALSE

INVARIANT
    _inv

CHECK_DEADLOCK
    \* CHECK_DEADLOCK off because of PROPERTY or INVARIANT above.
    FALSE

INIT
    _init

NEXT
    _next

CONSTANT
    _TETrace <- _trace

ALIAS
    _expression
=============================================================================
\* Generated on Thu Sep 24 07:03:08 UTC 2026