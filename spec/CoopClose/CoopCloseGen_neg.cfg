SPECIFICATION NegGSpec
CONSTANTS
  Capacity = 1000000
  AnchorSize = 330
  MaxRounds = 60
  MaxLen = 40
  Lo = 100
  Hi = 3000
  Step = 7
  MaxRbf = 7
  MaxPeer = 8
  MaxRatio = 8
INVARIANTS NegDump
CHECK_DEADLOCK FALSE
