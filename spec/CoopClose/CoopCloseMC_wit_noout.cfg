SPECIFICATION TxSpec
CONSTANTS
  Capacity = 1000000
  AnchorSize = 330
  MaxRounds = 20
  CommitFees = {0, 4344, 6744}
  SmallLo = 0
  SmallHi = 2
  SmallExtra = {199, 200, 201, 353, 354, 355, 1299, 1300, 1301, 5000, 400000}
  Rems = {0, 1, 999}
  Near = 1
  Lo = 100
  Hi = 100
  Step = 1
  RbfDepth = 4
  TightCap = FALSE
  PeerDepth = 4
  PeerWide = FALSE
INVARIANTS NeverRefusedNoOutputs
CHECK_DEADLOCK FALSE
