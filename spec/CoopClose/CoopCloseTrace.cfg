SPECIFICATION TSpec
CONSTANTS
  Capacity = 1000000
  AnchorSize = 330
  MaxRounds = 60
INVARIANTS
  ConformCfg ConformView ConformSynced ConformRes ConformOutputs ConformFee SameBytes EngineOk
  TxInvariants TermsAgree ConformScripts
  PeerInvariants ConformPeerRes ConformPeerOffer ConformNodeMsg ConformLockTime ConformPeerScripts ConformSched
  ConformProposal ConformFinished ConformCache ConformEnd
  Bounded BoundedDefault BothSigned Agree NoStall NoAbort Between
CHECK_DEADLOCK TRUE
