SPECIFICATION AbortSpec
CONSTANTS
  Capacity = 1000000
  AnchorSize = 330
  MaxRounds = 40
  CommitFees = {6744}
  SmallLo = 0
  SmallHi = 0
  SmallExtra = {}
  Rems = {0}
  Near = 1
  Lo = 100
  Hi = 400
  Step = 50
  RbfDepth = 4
  TightCap = FALSE
  PeerDepth = 4
  PeerWide = FALSE
INVARIANTS NeverAbort
CHECK_DEADLOCK FALSE
