SPECIFICATION PeerGSpec
CONSTANTS
  Capacity = 1000000
  AnchorSize = 330
  MaxRounds = 60
  MaxLen = 40
  Lo = 100
  Hi = 100
  Step = 1
  MaxRbf = 7
  MaxPeer = 8
  MaxRatio = 3
INVARIANTS PeerDump
CHECK_DEADLOCK FALSE
