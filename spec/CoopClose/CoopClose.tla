------------------------------ MODULE CoopClose ------------------------------
(***************************************************************************)
(* Cooperative channel close as lnd implements it (C17).                    *)
(*                                                                          *)
(* Part I  - the closing transaction.  lnwallet.CoopCloseBalance            *)
(*   (commitment.go) and lnwallet.CreateCooperativeCloseTx +                *)
(*   CreateCloseProposal / CompleteCooperativeClose (channel.go), each      *)
(*   transcribed from the point of view of ONE party (our/their balance,    *)
(*   local/remote dust limit, "is initiator", "payer is local") exactly as  *)
(*   the code computes it.  Both parties run the same code on their own     *)
(*   view; that the two results are the same transaction and that this      *)
(*   transaction pays what the property says is what TLC checks.            *)
(*                                                                          *)
(* Part II - legacy closing_signed fee negotiation of two honest            *)
(*   chancloser.ChanCloser instances (chancloser.go): BeginNegotiation,     *)
(*   ReceiveClosingSigned with calcCompromiseFee / feeInAcceptableRange /   *)
(*   ratchetFee, the opener's max-fee abort, the taproot accept-first-offer *)
(*   rule, and the final CompleteCooperativeClose of part I.                *)
(*                                                                          *)
(* Part III - RBF rounds (closing_complete / closing_sig) between ONE real   *)
(*   node and an ARBITRARY HONEST BOLT-2 PEER (rbf_coop_transitions.go,     *)
(*   variable rb).  In parts I/II and in RbfOffer both sides are lnd, so    *)
(*   every field the closer is free to choose only ever takes the values    *)
(*   lnd's own closer produces.  Here the peer is a model-driven closer     *)
(*   (PeerOffer: any lock time <= the current height, any fee up to its     *)
(*   funds incl. +1 sat RBF bumps and drops, the signature field its dust   *)
(*   rule prescribes, a new delivery script with any offer, a second        *)
(*   closing_complete before the first closing_sig) and a model-driven      *)
(*   closee (PeerReply) for the node's own offers (NodeOffer); its messages *)
(*   reach the node in the order sent (rb.inq).  NodeReply / NodeOffer /    *)
(*   NodeSig transcribe ClosingNegotiation + RemoteCloseStart /             *)
(*   LocalCloseStart / LocalOfferSent; Desc is the closing transaction a    *)
(*   closing_complete DESCRIBES, written from the property (Due, OwnDust),  *)
(*   not from the code.  Judged: the node counter-signs exactly the         *)
(*   described transaction (lock time included), refuses only in the named  *)
(*   cases (NamedRefusals), TxInvariants on both sides.                     *)
(*                                                                          *)
(* Amounts: balances in millisatoshi (the commitment's unit), everything    *)
(* else in satoshi.  Capacity is scaled to 1 000 000 sat so that msat fit   *)
(* TLC's 32-bit integers.  Signatures are abstract: "p signed fee f" is     *)
(* f \in prior[p] (ChanCloser.priorFeeOffers).                              *)
(***************************************************************************)
EXTENDS Integers, Sequences, FiniteSets, TLC

CONSTANTS Capacity,      \* channel capacity, sat
          AnchorSize,    \* 330 sat per anchor output
          MaxRounds      \* bound on closing_signed messages processed in one negotiation

P == {"A", "B"}
Other(p) == IF p = "A" THEN "B" ELSE "A"
Sat(m) == m \div 1000                       \* lnwire.MilliSatoshi.ToSatoshis

VARIABLES
  ch,      \* the channel at quiescence (no HTLCs): opener, type bits, and per party its OWN record of
           \* the state - view[p] = p's LocalCommitment {LocalBalance, RemoteBalance, CommitFee},
           \* dust[p][q] = the dust limit of q in p's channel config,
           \* scr[m][p] = the delivery script (an index) of p in the close terms of m's RBF closer
  tx,      \* per party: the outcome of its last CreateCloseProposal+CompleteCooperativeClose
  \* --- negotiation (ChanCloser fields) ---
  ideal,   \* idealFeeSat
  maxfee,  \* maxFee (only the opener's is ever consulted)
  last,    \* lastFeeProposal
  prior,   \* priorFeeOffers (set of fees p has signed)
  done,    \* 0, or the fee with which p reached closeFinished
  msg,     \* closing_signed in flight (fee; 0 = none) to `turn`
  turn,
  rounds,  \* messages processed so far
  err,     \* "" or the reason a closer returned an error
  \* --- part III ---
  rb       \* the RBF session of one real node with a model-driven peer (see RbIdle)

chanVars == <<ch, tx>>
negVars  == <<ideal, maxfee, last, prior, done, msg, turn, rounds, err, rb>>
vars     == <<ch, tx, ideal, maxfee, last, prior, done, msg, turn, rounds, err, rb>>

\* a channel both parties agree about: balances in msat, dust limits and commit fee in sat
MkChan(opener, anchors, taproot, dustA, dustB, balA, balB, cfee) ==
  [opener |-> opener, anchors |-> anchors, taproot |-> taproot,
   scr  |-> [m \in P |-> [p \in P |-> 0]],
   dust |-> [p \in P |-> [q \in P |-> IF q = "A" THEN dustA ELSE dustB]],
   view |-> [p \in P |-> [our   |-> IF p = "A" THEN balA ELSE balB,
                          their |-> IF p = "A" THEN balB ELSE balA,
                          cfee  |-> cfee]]]

\* the channel used where only the negotiation matters: anchors, equal dust limits, both sides far from dust
MidChan(o, tap) ==
  LET ob == 1000 * ((Capacity \div 2) - 6744 - 2 * AnchorSize)
      nb == 1000 * (Capacity \div 2) IN
  MkChan(o, TRUE, tap, 354, 354, IF o = "A" THEN ob ELSE nb, IF o = "A" THEN nb ELSE ob, 6744)
Max(a, b) == IF a > b THEN a ELSE b

\* part III idle (the session record is described at "Part III" below)
NoMsg  == [kind |-> "", fee |-> 0, lt |-> 0, cs |-> 0, es |-> 0, F |-> {}]
RbIdle == [on |-> FALSE, node |-> "A", envh |-> 0, ht |-> 0, sd |-> [p \in P |-> <<0, 0, 0>>],
           inq |-> <<>>, own |-> NoMsg, answered |-> FALSE, dead |-> FALSE, stuck |-> FALSE,
           what |-> "", res |-> "", sel |-> "", csf |-> "", ans |-> NoMsg]

NegIdle == /\ ideal = [p \in P |-> 0] /\ maxfee = [p \in P |-> 0] /\ last = [p \in P |-> 0]
           /\ prior = [p \in P |-> {}] /\ done = [p \in P |-> 0]
           /\ msg = 0 /\ turn = "A" /\ rounds = 0 /\ err = "" /\ rb = RbIdle

-----------------------------------------------------------------------------
(* Part I: transcription *)

AnchorCredit == IF ch.anchors THEN 2 * AnchorSize ELSE 0

\* lnwallet.CoopCloseBalance: balances in sat, from the caller's point of view
CoopCloseBalance(isInitiator, fee, ourBalance, theirBalance, commitFee, payerIsLocal) ==
  LET initiatorDelta == commitFee + AnchorCredit
      our1   == IF isInitiator THEN ourBalance + initiatorDelta ELSE ourBalance
      their1 == IF isInitiator THEN theirBalance ELSE theirBalance + initiatorDelta
      our2   == IF payerIsLocal THEN our1 - fee ELSE our1
      their2 == IF payerIsLocal THEN their1 ELSE their1 - fee
  IN  IF our2 < 0 \/ their2 < 0
        THEN [ok |-> FALSE, our |-> 0, their |-> 0]   \* "initiator cannot afford proposed coop close fee"
        ELSE [ok |-> TRUE, our |-> our2, their |-> their2]

\* lnwallet.CreateCooperativeCloseTx (no extra outputs, no OP_RETURN scripts)
CloseTxOutputs(localDust, remoteDust, ourBalance, theirBalance) ==
  [hasLocal |-> ourBalance >= localDust, hasRemote |-> theirBalance >= remoteDust]

NoTx == [res |-> "none", has |-> [q \in P |-> FALSE], val |-> [q \in P |-> 0], fee |-> 0, payer |-> "A", lt |-> 0]
Refusal(why, fee, payer) == [NoTx EXCEPT !.res = why, !.fee = fee, !.payer = payer]

\* CreateCloseProposal / CompleteCooperativeClose as executed by party p for `fee`, charged to `payer`
BuildTx(p, fee, payer) ==
  LET q == Other(p)
      v == ch.view[p]
      b == CoopCloseBalance(ch.opener = p, fee, Sat(v.our), Sat(v.their), v.cfee, payer = p)
  IN  IF ~b.ok THEN Refusal("unaffordable", fee, payer)
      ELSE LET t == CloseTxOutputs(ch.dust[p][p], ch.dust[p][q], b.our, b.their) IN
           IF ~t.hasLocal /\ ~t.hasRemote
             THEN Refusal("nooutputs", fee, payer)     \* CheckTransactionSanity: "transaction has no outputs"
             ELSE [res |-> "ok",
                   has |-> (p :> t.hasLocal @@ q :> t.hasRemote),
                   val |-> (p :> (IF t.hasLocal THEN b.our ELSE 0) @@ q :> (IF t.hasRemote THEN b.their ELSE 0)),
                   fee |-> fee, payer |-> payer, lt |-> 0]     \* lock time 0 unless WithCustomLockTime

\* Both parties build, sign and complete the close for the same fee (API level: the grid of part I).
\* payer = opener is the legacy flow; payer # opener is WithCustomPayer (the RBF-coop flow, closer pays).
CloseAt(fee, payer) ==
  /\ tx' = [p \in P |-> BuildTx(p, fee, payer)]
  /\ UNCHANGED ch

\* One closing_complete / closing_sig round of the RBF-coop flow (rbf_coop_transitions.go), coarse.
\*  - The closer (LocalCloseStart) refuses to offer a fee that its settled balance - the commitment balance
\*    WITHOUT the commit fee and anchor credit, CloseChannelTerms.LocalCanPayFees - cannot pay ("cantpay",
\*    nothing is sent).
\*  - Otherwise closer (LocalCloseStart, LocalOfferSent) and closee (RemoteCloseStart) build the close with the
\*    closer as payer.
\*  - Rounds repeat (ClosePending -> LocalCloseStart / RemoteCloseStart), started by either side, at any fee.
\*    Every closer m keeps ONE set of close terms (CloseChannelTerms, shared by pointer between the outer
\*    ClosingNegotiation state and both peer halves): scr[m].  A party moves to a new delivery script k only
\*    with an offer of its own (closing_complete.closer_script); the closee adopts it
\*    (updateAndValidateCloseTerms).  closing_complete announces <<scr[c][c], scr[c][e]>>, closing_sig
\*    <<scr[e][c], scr[e][e]>>, and each side pays the scripts of its own terms.
RbfOffer(fee, closer, k) ==
  LET e == Other(closer) IN
  IF Sat(ch.view[closer].our) < fee
    THEN /\ k = ch.scr[closer][closer]
         /\ tx' = [p \in P |-> Refusal("cantpay", fee, closer)] /\ UNCHANGED ch
    ELSE /\ ch' = [ch EXCEPT !.scr = [m \in P |-> [@[m] EXCEPT ![closer] = k]]]
         /\ tx' = [p \in P |-> BuildTx(p, fee, closer)]
RbfRound(fee, closer) == RbfOffer(fee, closer, ch.scr[closer][closer])

\* a payment of amt msat from party f to the other, fully locked in and settled (both views move)
Pay(f, amt) ==
  /\ amt <= ch.view[f].our
  /\ ch' = [ch EXCEPT !.view = [p \in P |-> IF p = f
                 THEN [@[p] EXCEPT !.our = @ - amt, !.their = @ + amt]
                 ELSE [@[p] EXCEPT !.our = @ + amt, !.their = @ - amt]]]
  /\ tx' = [p \in P |-> NoTx]

-----------------------------------------------------------------------------
(* Part II: transcription of chancloser.go *)

\* feeInAcceptableRange(localFee, remoteFee)
FeeInAcceptableRange(l, r) ==
  IF l < r THEN r <= l + ((l * 3) \div 10)
           ELSE r >= l - ((l * 3) \div 10)

\* ratchetFee(fee, up)
RatchetFee(f, up) == IF up THEN f + ((f * 1) \div 10) ELSE f - ((f * 1) \div 10)

\* calcCompromiseFee(ourIdealFee, lastSentFee, remoteFee)
CalcCompromiseFee(id, ls, rf) ==
  IF id = rf \/ ls = 0 THEN id
  ELSE IF rf = ls THEN ls
  ELSE IF rf < ls THEN (IF FeeInAcceptableRange(ls, rf) THEN rf ELSE RatchetFee(ls, FALSE))
  ELSE (IF FeeInAcceptableRange(ls, rf) THEN rf ELSE RatchetFee(ls, TRUE))

\* proposeCloseSigned(fee) by p: CreateCloseProposal must succeed; remembers the offer
CanSign(p, fee) == BuildTx(p, fee, ch.opener).res = "ok"
Signed(p, fee) == /\ last' = [last EXCEPT ![p] = fee]
                  /\ prior' = [prior EXCEPT ![p] = @ \cup {fee}]

\* the tail of ReceiveClosingSigned: complete the close with fee f, broadcast, echo the matching offer
Finish(p, f) ==
  /\ done' = [done EXCEPT ![p] = f]
  /\ tx' = [tx EXCEPT ![p] = BuildTx(p, f, ch.opener)]
  /\ msg' = f /\ turn' = Other(p)

Fail(why) == /\ err' = why
             /\ UNCHANGED <<last, prior, done, tx, msg, turn>>

\* BeginNegotiation: only the channel opener sends the first closing_signed (its ideal fee)
Begin ==
  /\ rounds = 0 /\ msg = 0 /\ err = "" /\ last[ch.opener] = 0
  /\ LET o == ch.opener IN
     IF CanSign(o, ideal[o])
       THEN /\ Signed(o, ideal[o])
            /\ msg' = ideal[o] /\ turn' = Other(o)
            /\ UNCHANGED <<done, tx, err>>
       ELSE Fail("sign")
  /\ UNCHANGED <<ch, ideal, maxfee, rounds, rb>>

\* ReceiveClosingSigned(msg) by p = turn
Receive ==
  /\ msg # 0 /\ err = ""
  /\ LET p == turn
         f == msg
         isInit == (ch.opener = p) IN
     IF done[p] # 0
       THEN \* closeFinished: the peer echoes the agreed closing_signed; nothing to do
            /\ msg' = 0 /\ UNCHANGED <<last, prior, done, tx, turn, err>>
     ELSE IF ch.taproot /\ ~isInit
       THEN \* taproot responder: sign the opener's very first offer and finish
            IF CanSign(p, f) THEN Signed(p, f) /\ Finish(p, f) /\ UNCHANGED err
                             ELSE Fail("sign")
     ELSE IF ch.taproot /\ isInit /\ f \notin prior[p]
       THEN Fail("taprootfee")
     ELSE IF f \in prior[p]
       THEN \* the peer accepted one of our offers
            /\ Finish(p, f) /\ UNCHANGED <<last, prior, err>>
     ELSE LET proposal == CalcCompromiseFee(ideal[p], last[p], f) IN
          IF isInit /\ proposal > maxfee[p] THEN Fail("maxfee")      \* ErrProposalExceedsMaxFee
          ELSE IF ~CanSign(p, proposal) THEN Fail("sign")
          ELSE /\ Signed(p, proposal)
               /\ IF proposal # f
                    THEN /\ msg' = proposal /\ turn' = Other(p)    \* keep negotiating
                         /\ UNCHANGED <<done, tx>>
                    ELSE Finish(p, f)                               \* we accept their fee
               /\ UNCHANGED err
  /\ rounds' = rounds + 1
  /\ UNCHANGED <<ch, ideal, maxfee, rb>>

-----------------------------------------------------------------------------
(* The property, written from its statement (party-independent).            *)

\* what the parties' own commitments say a party owns, with the dangling commitment fee and the
\* anchor amounts credited back to the opener
Gross(p) == Sat(ch.view[p].our) + (IF ch.opener = p THEN ch.view[p].cfee + AnchorCredit ELSE 0)
Due(p, fee, payer) == Gross(p) - (IF payer = p THEN fee ELSE 0)
OwnDust(p) == ch.dust[p][p]

\* the two parties describe the same channel (quiescent, no HTLCs): premise of the property
Synced == /\ \A p \in P : /\ ch.view[p].our = ch.view[Other(p)].their
                          /\ ch.view[p].cfee = ch.view[Other(p)].cfee
                          /\ \A q \in P : ch.dust[p][q] = ch.dust[Other(p)][q]
          /\ Capacity - (Gross("A") + Gross("B")) \in {0, 1}     \* at most the two sub-satoshi remainders are lost

Built == {p \in P : tx[p].res # "none"}
Sum(t) == t.val["A"] + t.val["B"]

\* each party's output equals its balance (+ commit fee and anchors for the opener) minus the fee if it pays
ExactBalance == \A p \in Built : tx[p].res = "ok" =>
                  \A q \in P : tx[p].has[q] => tx[p].val[q] = Due(q, tx[p].fee, tx[p].payer)
\* outputs below the owner's dust limit are omitted - and only those
DustOmitted  == \A p \in Built : tx[p].res = "ok" =>
                  \A q \in P : tx[p].has[q] <=> Due(q, tx[p].fee, tx[p].payer) >= OwnDust(q)
\* outputs plus fee never exceed capacity; nothing but sub-satoshi remainders is lost when nothing is trimmed
Conservation == \A p \in Built : tx[p].res = "ok" =>
                  /\ Sum(tx[p]) + tx[p].fee <= Capacity
                  /\ (tx[p].has["A"] /\ tx[p].has["B"]) =>
                        Sum(tx[p]) + tx[p].fee = Gross("A") + Gross("B")
\* a close is refused exactly when the payer cannot afford the fee or nothing would be paid out; the RBF
\* closer's own pre-check is stricter (it ignores the opener's commit fee / anchor credit): named deviation
RefusalCases == \A p \in Built :
                  LET f == tx[p].fee  y == tx[p].payer IN
                  IF tx[p].res = "cantpay" THEN Sat(ch.view[y].our) < f
                  ELSE /\ tx[p].res = "unaffordable" <=> Due(y, f, y) < 0
                       /\ tx[p].res = "nooutputs" <=> (Due(y, f, y) >= 0 /\ \A q \in P : Due(q, f, y) < OwnDust(q))
\* both closers hold the same close terms: every transaction of every round pays the CURRENT scripts
\* (with a model-driven peer: whenever no closing_complete is in flight and the node's machine is alive)
TermsAgree == (rb.inq = <<>> /\ ~rb.dead) => \A m \in P : \A p \in P : ch.scr[m][p] = ch.scr[p][p]
\* both sides build (and therefore sign) the same transaction
SameTx == (Built = P /\ tx["A"].fee = tx["B"].fee /\ tx["A"].payer = tx["B"].payer) => tx["A"] = tx["B"]

TxInvariants == Synced => (ExactBalance /\ DustOmitted /\ Conservation /\ RefusalCases /\ SameTx)

-----------------------------------------------------------------------------
(* Part III: one real node against an arbitrary honest BOLT-2 peer           *)
(*                                                                           *)
(* rb.node is the party played by the real state machine (ClosingNegotiation *)
(* with a real LightningChannel as signer); the other party is the peer: a   *)
(* closer that may choose everything BOLT 2 (option_simple_close) leaves to  *)
(* it, and a closee that verifies and counter-signs exactly the transaction  *)
(* a closing_complete describes.  A message is [kind ("cc" closing_complete / *)
(* "sig" closing_sig), fee, lt, cs, es, F]: fee, lock time, closer/closee    *)
(* delivery script (index), set of signature fields                          *)
(*   "closer" = closer_output_only, "closee" = closee_output_only,           *)
(*   "both"   = closer_and_closee_outputs.                                   *)
(* rb = [on, node, envh (Environment.BlockHeight of the node; 0 in           *)
(*       production), ht (current height), sd[p][i] (network dust limit of   *)
(*       p's i-th delivery script, lnwallet.DustLimitForSize),               *)
(*       inq (messages of the peer not yet processed by the node, in the     *)
(*       order sent: the transport is ordered),                              *)
(*       own (the node's closing_complete awaiting the peer's closing_sig),  *)
(*       answered (the peer has sent its closing_sig for `own`),             *)
(*       dead (the node's machine stopped on an error), stuck (the peer      *)
(*       refused the node's offer: LocalOfferSent waits for ever),           *)
(*       what/res/sel/csf/ans: the last step - who answered what, outcome,   *)
(*       field selected, field of the closing_sig, message answered]         *)

Fields == {"closer", "closee", "both"}
RbStart(node, envh, ht, sd) == [RbIdle EXCEPT !.on = TRUE, !.node = node, !.envh = envh, !.ht = ht, !.sd = sd]

\* --- written from the property / BOLT 2+3, party-independent ---

\* party q gets an output in a close at `fee` paid by closer c: its due amount reaches its own dust limit
Has(q, fee, c) == Due(q, fee, c) >= OwnDust(q)

\* the closing transaction the closing_complete of closer c describes in signature field f
Desc(c, fee, f, lt) ==
  LET e  == Other(c)
      hc == f \in {"closer", "both"}
      he == f \in {"closee", "both"} IN
  [res |-> "ok", has |-> (c :> hc @@ e :> he),
   val |-> (c :> (IF hc THEN Due(c, fee, c) ELSE 0) @@ e :> (IF he THEN Due(e, fee, c) ELSE 0)),
   fee |-> fee, payer |-> c, lt |-> lt]

\* the signature field an honest closer fills (BOLT 2, sender of closing_complete): closee dust ->
\* closer_output_only; own output dust -> closee_output_only; otherwise closer_and_closee_outputs (BOLT also asks
\* for closer_output_only next to it - a signature for a second transaction, which lnd's own closer never sends
\* and the closee ignores unless its output is dust: not modelled).  A set of sets: the choices of F.
HonestFields(c, fee) ==
  LET e == Other(c) IN
  IF Has(c, fee, c) /\ Has(e, fee, c) THEN {{"both"}}
  ELSE IF Has(c, fee, c) THEN {{"closer"}}
  ELSE IF Has(e, fee, c) THEN {{"closee"}}
  ELSE {}                                    \* MUST set the fee so that at least one output is not dust
FieldOf(F) == IF "both" \in F THEN "both" ELSE CHOOSE f \in F : TRUE

\* BOLT 2, receiver of closing_complete: "select a signature for validation" given its own dust status
Select(localDust, F) == IF localDust THEN "closer" ELSE IF "both" \in F THEN "both" ELSE "closee"

\* lock times an honest closer may put on its transaction: anything that is final at the current height
LockTimes == {x \in {0, 1, rb.ht - 1, rb.ht} : x >= 0 /\ x <= rb.ht}

\* --- the peer as closer ---
\* closing_complete of the peer: fee (at most its funds), lock time, delivery script k (kept or new), fields F.
\* Up to MaxInFlight offers may be sent before the node answered.
PeerOffer(fee, lt, k, F, MaxInFlight) ==
  LET e == rb.node  c == Other(rb.node) IN
  /\ rb.on /\ ~rb.dead /\ Len(rb.inq) < MaxInFlight
  /\ fee >= 1 /\ fee <= Gross(c)
  /\ lt \in LockTimes
  /\ F \in HonestFields(c, fee)
  /\ rb' = [rb EXCEPT !.inq = Append(@, [kind |-> "cc", fee |-> fee, lt |-> lt, cs |-> k, es |-> ch.scr[c][e], F |-> F]),
                      !.what = "POffer", !.res = "ok", !.sel = "", !.csf = "", !.ans = NoMsg]
  /\ ch' = [ch EXCEPT !.scr[c][c] = k]
  /\ tx' = [p \in P |-> NoTx]

\* --- the node as closee: ClosingNegotiation.ProcessEvent + RemoteCloseStart.ProcessEvent(OfferReceivedEvent) ---
\* lnd labels ITS OWN output dust by the settled balance against the network dust limit of the script
\* (CloseChannelTerms.LocalAmtIsDust), while the transaction builder trims by the channel's dust limits on the
\* balances after the commit-fee credit: where the two disagree the node refuses ("nosig": the field it looks
\* for is missing; "badsig": the closer's signature is for another transaction) - named deviation (O4).
NodeLocalDust  == Sat(ch.view[rb.node].our) < rb.sd[rb.node][ch.scr[rb.node][rb.node] + 1]
NodeRemoteDust == Sat(ch.view[rb.node].their) < rb.sd[Other(rb.node)][ch.scr[rb.node][Other(rb.node)] + 1]

NodeReply ==
  /\ rb.on /\ ~rb.dead /\ rb.inq # <<>> /\ Head(rb.inq).kind = "cc"
  /\ LET e   == rb.node
         c   == Other(rb.node)
         m   == Head(rb.inq)
         sel == Select(NodeLocalDust, m.F)
         t   == [BuildTx(e, m.fee, c) EXCEPT !.lt = m.lt]      \* WithCustomLockTime(msg.LockTime), payer remote
         why == IF m.es # ch.scr[e][e] THEN "wrongscript"      \* updateAndValidateCloseTerms
                ELSE IF Sat(ch.view[e].their) < m.fee THEN "cantpay"          \* RemoteCanPayFees
                ELSE IF sel \notin m.F THEN "nosig"                             \* validateSigFields
                ELSE IF t.res # "ok" THEN t.res                                 \* CreateCloseProposal
                ELSE IF t # Desc(c, m.fee, sel, m.lt) THEN "badsig"             \* CompleteCooperativeClose
                ELSE "ok"
     IN /\ ch' = IF why = "wrongscript" THEN ch ELSE [ch EXCEPT !.scr[e][c] = m.cs]
        \* accepted: the node broadcasts t and answers closing_sig, with which the peer completes the transaction
        \* it described
        /\ tx' = IF why = "ok" THEN (e :> t @@ c :> Desc(c, m.fee, sel, m.lt))
                 ELSE (e :> Refusal(why, m.fee, c) @@ c :> NoTx)
        /\ rb' = [rb EXCEPT !.inq = Tail(@), !.dead = (why # "ok"),
                            !.what = "NReply", !.res = why, !.ans = m,
                            !.sel = IF why \in {"ok", "badsig"} THEN sel ELSE "",
                            \* createClosingSigMessage: closer_output_only if noClosee, else closer_and_closee_outputs
                            \* (also when closee_output_only was selected: named deviation)
                            !.csf = IF why # "ok" THEN "" ELSE IF NodeLocalDust THEN "closer" ELSE "both"]

\* --- the node as closer: LocalCloseStart.ProcessEvent(SendOfferEvent) ---
NodeOffer(fee) ==
  /\ rb.on /\ ~rb.dead /\ ~rb.stuck /\ rb.own = NoMsg /\ fee >= 1
  /\ LET e == rb.node
         c == Other(rb.node)
         v == ch.view[e]
         t == BuildTx(e, fee, e)                                   \* no lock time option: 0
         closeBalance == CoopCloseBalance(ch.opener = e, fee, Sat(v.our), Sat(v.their), v.cfee, TRUE).our
         f == IF NodeRemoteDust THEN "closer"                      \* remoteTxOut == nil
              ELSE IF closeBalance < rb.sd[e][ch.scr[e][e] + 1] THEN "closee"
              ELSE "both"
         why == IF Sat(v.our) < fee THEN "cantpay"                 \* LocalCanPayFees: CloseErr, nothing sent
                ELSE t.res
     IN /\ tx' = IF why = "ok" THEN (e :> t @@ c :> NoTx) ELSE (e :> Refusal(why, fee, e) @@ c :> NoTx)
        /\ rb' = [rb EXCEPT !.own = IF why = "ok"
                                      THEN [kind |-> "cc", fee |-> fee, lt |-> rb.envh, cs |-> ch.scr[e][e], es |-> ch.scr[e][c], F |-> {f}]
                                      ELSE NoMsg,
                            !.dead = (why \notin {"ok", "cantpay"}),
                            !.what = "NOffer", !.res = why, !.sel = "", !.csf = "", !.ans = NoMsg]
        /\ UNCHANGED ch

\* --- the peer as closee ---
\* The honest closee selects by ITS dust status (owner's rule), builds the transaction the message describes and
\* verifies the closer's signature on it; the node signed BuildTx at lock time 0 whatever it announced.
\* Refusals: "stale" (the message names a script the peer has replaced meanwhile), "nosig"/"badsig" where the
\* node's labels disagree with the owner's dust rule (O4) or where it announces a lock time it did not sign
\* (envh # 0, O3: latent, production leaves Environment.BlockHeight at 0).  Accepted: the peer completes the
\* described transaction and sends closing_sig (echoing fee, lock time and scripts) behind whatever it sent before.
PeerReply ==
  /\ rb.on /\ ~rb.dead /\ ~rb.stuck /\ rb.own # NoMsg /\ ~rb.answered
  /\ LET e   == rb.node
         c   == Other(rb.node)
         m   == rb.own
         t   == BuildTx(e, m.fee, e)
         sel == Select(~Has(c, m.fee, e), m.F)
         why == IF m.es # ch.scr[c][c] THEN "stale"
                ELSE IF sel \notin m.F THEN "nosig"
                ELSE IF Desc(e, m.fee, sel, m.lt) # t THEN "badsig"
                ELSE "ok"
     IN /\ tx' = IF why = "ok" THEN (e :> NoTx @@ c :> Desc(e, m.fee, sel, m.lt))
                 ELSE (e :> NoTx @@ c :> Refusal(why, m.fee, e))
        /\ rb' = [rb EXCEPT !.inq = IF why = "ok" THEN Append(@, [m EXCEPT !.kind = "sig", !.F = {sel}]) ELSE @,
                            !.answered = (why = "ok"), !.stuck = (why # "ok"),
                            !.what = "PReply", !.res = why, !.ans = m,
                            !.sel = IF why \in {"ok", "badsig"} THEN sel ELSE "",
                            !.csf = IF why = "ok" THEN sel ELSE ""]
        /\ UNCHANGED ch

\* --- the node completing its round: ClosingNegotiation + LocalOfferSent.ProcessEvent(LocalSigReceived) ---
\* LocalOfferSent keeps the fee and its own signature but NOT the scripts it signed for: it rebuilds the transaction
\* from the close terms as they are NOW (shared by pointer with the closee half, which adopts the peer's new script
\* with every closing_complete).  Because the peer's messages arrive in the order sent, the terms at this point name
\* the script the peer had when it signed (= the one the offer named, or it would have refused as stale).
NodeSig ==
  /\ rb.on /\ ~rb.dead /\ rb.inq # <<>> /\ Head(rb.inq).kind = "sig"
  /\ LET e   == rb.node
         c   == Other(rb.node)
         m   == Head(rb.inq)
         sel == FieldOf(m.F)
         t   == BuildTx(e, rb.own.fee, e)                          \* l.ProposedFee, no lock time option: 0
         why == IF m.cs # ch.scr[e][e] THEN "wrongscript"          \* updateAndValidateCloseTerms
                ELSE IF t.res # "ok" THEN t.res
                ELSE IF ch.scr[e][c] # m.es \/ t # Desc(e, m.fee, sel, m.lt) THEN "badsig"   \* CompleteCooperativeClose
                ELSE "ok"
     IN /\ tx' = (e :> (IF why = "ok" THEN t ELSE Refusal(why, m.fee, e)) @@ c :> Desc(e, m.fee, sel, m.lt))
        /\ rb' = [rb EXCEPT !.inq = Tail(@), !.own = NoMsg, !.answered = FALSE, !.dead = (why # "ok"),
                            !.what = "NSig", !.res = why, !.ans = m, !.sel = sel, !.csf = ""]
        /\ UNCHANGED ch

\* --- what is judged ---
\* the node's labels agree with the owner's dust rule for a close at `fee` paid by y
LabelsAgree(fee, y) ==
  LET e == rb.node  c == Other(rb.node) IN
  IF y = c THEN NodeLocalDust = ~Has(e, fee, c)
  ELSE /\ NodeRemoteDust = ~Has(c, fee, e)
       /\ (~NodeRemoteDust => ((Due(e, fee, e) < rb.sd[e][ch.scr[e][e] + 1]) = ~Has(e, fee, e)))

\* a round is refused only in the named cases (the refusals of BuildTx are judged by RefusalCases)
NamedRefusals ==
  /\ (rb.what = "NReply" /\ rb.res \in {"nosig", "badsig"}) => ~LabelsAgree(rb.ans.fee, Other(rb.node))
  /\ (rb.what = "NReply") => rb.res # "wrongscript"             \* the honest closer names the script it was given
  /\ (rb.what = "PReply" /\ rb.res \in {"nosig", "badsig"}) => (~LabelsAgree(rb.ans.fee, rb.node) \/ rb.envh # 0)
  /\ (rb.what = "NSig") => rb.res = "ok"       \* the node always completes a round the honest closee signed
\* an accepted round: both hold the transaction the closing_complete described, lock time included
ExactReply ==
  (rb.what \in {"NReply", "NSig"} /\ rb.res = "ok") =>
     LET y == IF rb.what = "NReply" THEN Other(rb.node) ELSE rb.node IN
     /\ tx["A"] = tx["B"]
     /\ tx[rb.node] = Desc(y, rb.ans.fee, rb.sel, rb.ans.lt)
     /\ rb.sel \in rb.ans.F
     /\ \A q \in P : tx[rb.node].has[q] <=> Has(q, rb.ans.fee, y)
PeerInvariants == Synced => (NamedRefusals /\ ExactReply)

\* --- negotiation ---
Bounded == rounds <= MaxRounds
\* within the default caps (ideal fees at most 3x apart) a negotiation takes at most 13 messages
BoundedDefault == (ideal["A"] <= 3 * ideal["B"] /\ ideal["B"] <= 3 * ideal["A"]) => rounds <= 13
\* whoever finished, finished on a fee both parties signed
BothSigned == \A p \in P : done[p] # 0 => (done[p] \in prior[p] /\ done[p] \in prior[Other(p)])
Agree == (done["A"] # 0 /\ done["B"] # 0) => (done["A"] = done["B"] /\ tx["A"] = tx["B"] /\ tx["A"].res = "ok")
\* no unfinished negotiation without a message in flight
NoStall == (msg = 0 /\ rounds > 0 /\ err = "") => (done["A"] # 0 /\ done["B"] # 0)
\* realistic ideal fees (>= 100 sat, within each other's cap) never hit an error path
Realistic == /\ \A p \in P : ideal[p] >= 100 /\ ideal[p] <= maxfee[Other(p)]
             /\ maxfee[ch.opener] >= ideal[ch.opener]
NoAbort == Realistic => err = ""
\* a proposal never leaves the interval spanned by the two ideal fees
Between == \A p \in P : \A f \in prior[p] :
              \/ (ideal["A"] <= f /\ f <= ideal["B"]) \/ (ideal["B"] <= f /\ f <= ideal["A"])
Terminal == err # "" \/ (msg = 0 /\ rounds > 0)
=============================================================================
