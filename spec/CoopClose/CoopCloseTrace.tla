--------------------------- MODULE CoopCloseTrace ---------------------------
(* Trace validation for C17.  Every recorded line of the executors must be  *)
(* the corresponding CoopClose action; what the real code answered is       *)
(* compared with the model's state after that action by the Conform*        *)
(* invariants, and the property invariants of CoopClose are evaluated on    *)
(* the model state, which is fed with the REAL balances, commit fees and     *)
(* dust limits recorded on the Reset/Inject lines.                           *)
(*  kind "tx"  (harness/lnwallet/c17_test.go): Reset, Pay, Inject, Close     *)
(*             Rbf, RbfM (harness/lnwallet/chancloser/c17_rbf_test.go)       *)
(*  kind "peer" (harness/lnwallet/chancloser/c17_peer_test.go): Reset,      *)
(*             Inject, POffer, NReply, NOffer, PReply, NSig - part III: one  *)
(*             real node against the model-driven honest peer                *)
(*  kind "neg" (harness/lnwallet/chancloser/c17_test.go): Reset, Begin,      *)
(*             Cache, Recv, NegEnd                                           *)
EXTENDS CoopClose, Json
VARIABLE l

Trace == ndJsonDeserialize("trace.ndjson")
Last == Trace[l - 1]
Bit(x) == IF x THEN 1 ELSE 0

TInit == /\ ch = MidChan("A", FALSE) /\ tx = [p \in P |-> NoTx] /\ NegIdle /\ l = 1
Is(a) == l <= Len(Trace) /\ Trace[l].a = a /\ l' = l + 1

NegIdleNext0 == /\ ideal' = [p \in P |-> 0] /\ maxfee' = [p \in P |-> 0] /\ last' = [p \in P |-> 0]
               /\ prior' = [p \in P |-> {}] /\ done' = [p \in P |-> 0]
               /\ msg' = 0 /\ turn' = "A" /\ rounds' = 0 /\ err' = ""
NegIdleNext == NegIdleNext0 /\ rb' = RbIdle
neg0 == <<ideal, maxfee, last, prior, done, msg, turn, rounds, err>>

\* field copies of what the executor read from both channel states
ChanOf(r) == [opener |-> r.opener, anchors |-> r.anchors = 1, taproot |-> r.taproot = 1,
              scr  |-> [m \in P |-> [p \in P |-> 0]],
              dust |-> [p \in P |-> [q \in P |-> r.dust[p][q]]],
              view |-> [p \in P |-> [our |-> r.view[p].our, their |-> r.view[p].their, cfee |-> r.view[p].cfee]]]

ResetTx == /\ Is("Reset") /\ Trace[l].kind = "tx"
           /\ ch' = ChanOf(Trace[l]) /\ tx' = [p \in P |-> NoTx] /\ NegIdleNext
ResetNeg == /\ Is("Reset") /\ Trace[l].kind = "neg"
            /\ ch' = MidChan(Trace[l].opener, Trace[l].taproot = 1)
            /\ tx' = [p \in P |-> NoTx]
            /\ ideal' = [p \in P |-> Trace[l].ideal[p]] /\ maxfee' = [p \in P |-> Trace[l].maxfee[p]]
            /\ last' = [p \in P |-> 0] /\ prior' = [p \in P |-> {}] /\ done' = [p \in P |-> 0]
            /\ msg' = 0 /\ turn' = Trace[l].opener /\ rounds' = 0 /\ err' = "" /\ rb' = RbIdle
\* part III: the node (party, Environment.BlockHeight), the height and the network dust limits of the delivery
\* scripts (lnwallet.DustLimitForSize of each) are field copies of the executor's configuration
ResetPeer == /\ Is("Reset") /\ Trace[l].kind = "peer"
             /\ ch' = ChanOf(Trace[l]) /\ tx' = [p \in P |-> NoTx] /\ NegIdleNext0
             /\ rb' = RbStart(Trace[l].node, Trace[l].envh, Trace[l].ht, [p \in P |-> Trace[l].sd[p]])

TNext ==
  \/ ResetTx
  \/ ResetNeg
  \/ ResetPeer
  \/ Is("POffer") /\ PeerOffer(Trace[l].x, Trace[l].lt, Trace[l].k, {Trace[l].f}, 99) /\ UNCHANGED neg0
  \/ Is("NReply") /\ NodeReply /\ UNCHANGED neg0
  \/ Is("NOffer") /\ NodeOffer(Trace[l].x) /\ UNCHANGED neg0
  \/ Is("PReply") /\ PeerReply /\ UNCHANGED neg0
  \/ Is("NSig") /\ NodeSig /\ UNCHANGED neg0
  \/ /\ Is("Inject")      \* balances written into both channel states: the line carries what was written
     /\ ch' = [ch EXCEPT !.view = [p \in P |-> [our |-> Trace[l].view[p].our, their |-> Trace[l].view[p].their,
                                                cfee |-> Trace[l].view[p].cfee]]]
     /\ tx' = [p \in P |-> NoTx] /\ UNCHANGED negVars
  \/ Is("Pay") /\ Pay(Trace[l].p, Trace[l].x) /\ UNCHANGED negVars
  \/ Is("Close") /\ CloseAt(Trace[l].x, Trace[l].p) /\ UNCHANGED negVars
  \/ Is("Rbf") /\ RbfRound(Trace[l].x, Trace[l].p) /\ UNCHANGED negVars
  \/ Is("RbfM") /\ RbfOffer(Trace[l].x, Trace[l].p, Trace[l].k) /\ UNCHANGED negVars
  \/ Is("Begin") /\ Trace[l].p = ch.opener /\ Begin
  \/ Is("Cache") /\ UNCHANGED vars       \* closing_signed arriving before the flush: stored, nothing happens
  \/ Is("Recv") /\ turn = Trace[l].p /\ msg = Trace[l].x /\ Receive
  \/ Is("NegEnd") /\ UNCHANGED vars
  \/ (l = Len(Trace) + 1 /\ UNCHANGED <<vars, l>>)
TSpec == TInit /\ [][TNext]_<<vars, l>>

Live == l > 1
PeerActs == {"POffer", "NReply", "NOffer", "PReply", "NSig"}
IsTx == Live /\ (Last.a \in ({"Pay", "Inject", "Close", "Rbf", "RbfM"} \cup PeerActs)
                 \/ (Last.a = "Reset" /\ Last.kind \in {"tx", "peer"}))
\* lines that carry the transactions both parties ended up with
AtClose == Live /\ Last.a \in {"Close", "Rbf", "RbfM", "NReply", "PReply", "NSig"}

\* ---- transaction layer ----
ConformCfg  == (Live /\ Last.a = "Reset" /\ Last.kind \in {"tx", "peer"}) => Last.cap = Capacity
\* after a real payment the balances both parties recorded are the model's
ConformView == (Live /\ Last.a = "Pay") =>
                  \A p \in P : /\ Last.view[p].our = ch.view[p].our /\ Last.view[p].their = ch.view[p].their
                               /\ Last.view[p].cfee = ch.view[p].cfee
\* the quiescent states the closes start from are states both parties agree about
ConformSynced == IsTx => Synced
\* accepted / refused, and why, per party
ConformRes  == AtClose => \A p \in P : Last.res[p] = tx[p].res
\* the output set of the transaction each party completed: value per owner, nothing else
ConformOutputs == AtClose => \A p \in P :
                    /\ \A q \in P : Last.has[p][q] = Bit(tx[p].has[q]) /\ Last.val[p][q] = tx[p].val[q]
                    /\ Last.extra[p] = 0
\* the fee the transaction really pays (input value - outputs)
ConformFee  == AtClose => \A p \in P : tx[p].res = "ok" =>
                    /\ Last.txfee[p] = Capacity - Sum(tx[p])
                    /\ Last.txfee[p] >= tx[p].fee
\* both sides built byte-identical transactions (proposal and completed, witness included)
SameBytes   == AtClose => ((tx["A"].res = "ok" /\ tx["B"].res = "ok") =>
                              (Last.propeq = 1 /\ Last.txeq = 1 /\ Last.raweq = 1))
\* each completed transaction is valid against the funding output (script engine; implies both signatures verify)
EngineOk    == AtClose => \A p \in P : tx[p].res = "ok" => Last.eng[p] = 1

\* multi-round RBF: what went over the wire and what each transaction pays are the CURRENT close terms
ConformScripts == (Live /\ Last.a = "RbfM" /\ tx[Last.p].res = "ok") =>
                    LET c == Last.p  e == Other(Last.p) IN
                    /\ Last.ann.cc_closer = ch.scr[c][c] /\ Last.ann.cc_closee = ch.scr[c][e]
                    /\ Last.ann.cs_closer = ch.scr[e][c] /\ Last.ann.cs_closee = ch.scr[e][e]
                    /\ \A p \in P : \A o \in P : Last.has[p][o] = 1 => Last.sidx[p][o] = ch.scr[o][o]

\* ---- part III: one real node against the model-driven peer ----
AtPeer == Live /\ Last.a \in PeerActs
FSet(r) == {f \in Fields : r[f] = 1}
\* the outcome of the step for the acting party (node: error class of its machine; peer: its lnwallet / the answer)
ConformPeerRes == AtPeer => Last.pres = rb.res
\* the transaction the peer's own wallet built for its offer has the outputs its signature field claims
ConformPeerOffer == (Live /\ Last.a = "POffer") =>
                      \A q \in P : Last.has[Last.p][q] = Bit(Has(q, Last.x, Last.p))
\* what the node put on the wire: its closing_complete (NOffer) / its closing_sig (NReply)
ConformNodeMsg ==
  /\ (Live /\ Last.a = "NOffer" /\ rb.res = "ok") =>
        /\ Last.msg.fee = rb.own.fee /\ Last.msg.lt = rb.own.lt
        /\ Last.msg.cs = rb.own.cs /\ Last.msg.es = rb.own.es /\ FSet(Last.msg.F) = rb.own.F
  /\ (Live /\ Last.a = "NReply" /\ rb.res = "ok") =>
        /\ Last.msg.fee = rb.ans.fee /\ Last.msg.lt = rb.ans.lt
        /\ Last.msg.cs = ch.scr[rb.node][Other(rb.node)] /\ Last.msg.es = ch.scr[rb.node][rb.node]
        /\ FSet(Last.msg.F) = {rb.csf}
\* the lock time of every completed transaction is the one the closing_complete announced
ConformLockTime == (Live /\ Last.a \in {"NReply", "PReply", "NSig"}) =>
                      \A p \in P : tx[p].res = "ok" => Last.ltx[p] = tx[p].lt
\* every output of every completed transaction pays the script the answered message names for its owner
ConformPeerScripts == (Live /\ Last.a \in {"NReply", "PReply", "NSig"}) =>
                      LET closer == IF Last.a = "NReply" THEN Other(rb.node) ELSE rb.node IN
                      \A p \in P : \A o \in P : (tx[p].res = "ok" /\ Last.has[p][o] = 1) =>
                         Last.sidx[p][o] = (IF o = closer THEN rb.ans.cs ELSE rb.ans.es)
\* the answer the executor's peer was told to give is the one this model gives (same state on both sides)
ConformSched == (Live /\ Last.a = "PReply") => (Last.sched.res = rb.res /\ Last.sched.sel = rb.sel)

\* ---- negotiation ----
AtNeg == Live /\ Last.a \in {"Begin", "Recv"}
\* error class and the fee proposed next
ConformProposal == AtNeg => /\ Last.err = err
                            /\ Last.out = (IF err = "" THEN msg ELSE 0)
ConformFinished == (Live /\ Last.a = "Recv") => Last.fin = Bit(done[Last.p] # 0)
ConformCache    == (Live /\ Last.a = "Cache") => (Last.out = 0 /\ Last.err = "")
\* the recording stopped because nothing was in flight any more; what the closers ended with
ConformEnd == (Live /\ Last.a = "NegEnd") =>
                 /\ Last.inflight = 0
                 /\ err = "" => msg = 0
                 /\ \A p \in P : Last.fin[p] = Bit(done[p] # 0)
                 /\ (done["A"] # 0 /\ done["B"] # 0) =>
                       /\ Last.txeq = 1
                       /\ \A p \in P : Last.eng[p] = 1 /\ Last.txfee[p] = done[p] /\ Last.nout[p] = 2
=============================================================================
