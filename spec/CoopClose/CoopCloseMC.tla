---------------------------- MODULE CoopCloseMC ----------------------------
(* Exhaustive configurations for spec/CoopClose.                            *)
(*  TxSpec : every channel of a grid (one side around the dust limits, msat *)
(*           remainders, both openers, with/without anchors, several commit *)
(*           fees, dust limits either way round) x every fee of a grid tied *)
(*           to the thresholds (0, dust, payer's funds -/+, capacity +) x   *)
(*           either payer: the close both sides build, through the legacy   *)
(*           API (CloseAt) and as one round of the RBF-coop flow (RbfRound).*)
(*  NegSpec: every pair of ideal fees in Lo..Hi (step Step) within each     *)
(*           other's cap, default and tightest opener cap, legacy and       *)
(*           taproot rule: the whole negotiation.                           *)
(*  PeerSpec: part III - one real node against an arbitrary honest BOLT-2   *)
(*           peer.  PeerWide: every channel of the grid (small side around  *)
(*           the channel AND the network dust limits) x either party as the *)
(*           node x Environment.BlockHeight 0 / current, ONE round: every   *)
(*           offer of the peer (fees around all thresholds x lock times x   *)
(*           script kept/changed x its honest field) answered by the node,  *)
(*           every offer of the node answered by the peer.                  *)
(*           ~PeerWide: a few channels, PeerDepth steps: both directions    *)
(*           interleaved, two closing_completes in flight, RBF bumps/drops, *)
(*           script changes between rounds.                                 *)
EXTENDS CoopClose

CONSTANTS CommitFees,   \* set of commitment fees (sat)
          SmallLo, SmallHi, SmallExtra,  \* the small side's balance: SmallLo..SmallHi (sat) and extra points
          Rems,         \* sub-satoshi remainders (msat) of the small side
          Near,         \* fees are taken within +-Near of every threshold
          Lo, Hi, Step, \* ideal fees
          TightCap      \* also check the tightest cap the property allows for the opener

\* <<dustA, dustB>>: the fixture's 200/1300 either way round, and equal limits
DustPairs == {<<200, 1300>>, <<1300, 200>>, <<354, 354>>}
Credit(an) == IF an THEN 2 * AnchorSize ELSE 0
Smalls == (SmallLo..SmallHi) \cup SmallExtra

Chans ==
  { MkChan(o, an, FALSE, d[1], d[2],
           IF side = "A" THEN 1000 * s + r ELSE 1000 * Capacity - (1000 * s + r) - 1000 * (cf + Credit(an)),
           IF side = "B" THEN 1000 * s + r ELSE 1000 * Capacity - (1000 * s + r) - 1000 * (cf + Credit(an)),
           cf) :
      o \in P, an \in BOOLEAN, d \in DustPairs, cf \in CommitFees, side \in P, s \in Smalls, r \in Rems }

Around(x) == {y \in (x - Near)..(x + Near) : y >= 0}
FeeGrid(y) ==
  LET g == Gross(y) IN
  UNION { Around(x) : x \in {0, 100, OwnDust("A"), OwnDust("B"), g, g - OwnDust(y), Capacity,
                             g - (g \div 2)} }

TxInit == /\ ch \in Chans
          /\ tx = [p \in P |-> NoTx]
          /\ NegIdle
TxNext == /\ \A p \in P : tx[p] = NoTx
          /\ \E y \in P : \E f \in FeeGrid(y) \cup Around(Sat(ch.view[y].our)) : CloseAt(f, y) \/ RbfRound(f, y)
          /\ UNCHANGED negVars
TxSpec == TxInit /\ [][TxNext]_vars

\* vacuity guards: every outcome class is reachable (checked as "never" properties that must FAIL in
\* a witness run, see CoopCloseMC_witness.cfg)
NeverRefusedNoOutputs == \A p \in P : tx[p].res # "nooutputs"
\* the RBF closer's pre-check refuses fees the opener could pay with its commit-fee / anchor credit
NeverCantPayAffordable == \A p \in P : tx[p].res = "cantpay" => Due(tx[p].payer, tx[p].fee, tx[p].payer) < 0
NeverTrimmedOne == \A p \in P : tx[p].res = "ok" => (tx[p].has["A"] /\ tx[p].has["B"])

-----------------------------------------------------------------------------
\* multi-round RBF histories: either side offers, any fee of a small grid, any of 3 delivery scripts
CONSTANT RbfDepth
RbfChans == {MidChan("A", FALSE), MidChan("B", FALSE),
             MkChan("A", TRUE, FALSE, 200, 1300, 1000 * (Capacity - 6744 - 660 - 1500) , 1000 * 1500, 6744),
             MkChan("A", FALSE, FALSE, 1300, 200, 1000 * 250, 1000 * (Capacity - 4344 - 250), 4344)}
RbfFees(c) == {1000, 1700} \cup Around(Sat(ch.view[c].our))
RbfInit == /\ ch \in RbfChans /\ tx = [p \in P |-> NoTx] /\ NegIdle
RbfNext == /\ rounds < RbfDepth
           /\ \E c \in P, k \in 0..2 : \E f \in RbfFees(c) : RbfOffer(f, c, k)
           /\ rounds' = rounds + 1
           /\ UNCHANGED <<ideal, maxfee, last, prior, done, msg, turn, err, rb>>
RbfSpec == RbfInit /\ [][RbfNext]_vars

-----------------------------------------------------------------------------
\* part III: a real node against an arbitrary honest peer
CONSTANTS PeerDepth, PeerWide
\* network dust limits of the executor's delivery scripts (A: p2wpkh, p2wsh, p2tr; B: p2tr, p2wpkh, p2wsh)
PeerSd == [p \in P |-> IF p = "A" THEN <<294, 330, 330>> ELSE <<330, 294, 330>>]
PeerHt == 3
\* a small side between the two network dust limits: its label flips with the script kind
PeerFew == RbfChans \cup
           {MkChan("A", TRUE, FALSE, 200, 1300, 1000 * (Capacity - 6744 - 660 - 300), 1000 * 300, 6744),
            MkChan("B", FALSE, FALSE, 200, 200, 1000 * 310 + 999, 1000 * (Capacity - 4344 - 311) + 1, 4344)}
PeerInit == /\ ch \in (IF PeerWide THEN Chans ELSE PeerFew)
            /\ tx = [p \in P |-> NoTx]
            /\ ideal = [p \in P |-> 0] /\ maxfee = [p \in P |-> 0] /\ last = [p \in P |-> 0]
            /\ prior = [p \in P |-> {}] /\ done = [p \in P |-> 0]
            /\ msg = 0 /\ turn = "A" /\ rounds = 0 /\ err = ""
            /\ \E n \in P, h \in {0, PeerHt} : rb = RbStart(n, h, PeerHt, PeerSd)
PeerFees(c) ==
  LET n == Sat(ch.view[c].our)  g == Gross(c) IN
  IF PeerWide
    THEN {f \in UNION {Around(x) : x \in {150, 1000, n, g, g - OwnDust(c), g - 294, g - 330}} : f >= 1}
    ELSE {f \in {1000, 1001, 2600, n, n - 250} : f >= 1}
PeerLts == IF PeerWide \/ PeerDepth <= 3 THEN {0, rb.ht} ELSE LockTimes
PeerNext ==
  /\ rounds < PeerDepth
  /\ LET e == rb.node  c == Other(rb.node) IN
     \/ /\ PeerWide => rounds = 0          \* wide: one round per behaviour
        /\ \E f \in PeerFees(c), lt \in PeerLts, k \in {ch.scr[c][c], (ch.scr[c][c] + 1) % 3} :
             \E F \in HonestFields(c, f) : PeerOffer(f, lt, k, F, IF PeerWide THEN 1 ELSE 2)
     \/ NodeReply
     \/ /\ PeerWide => rounds = 0
        /\ \E f \in PeerFees(e) : NodeOffer(f)
     \/ PeerReply
     \/ NodeSig
  /\ rounds' = rounds + 1
  /\ UNCHANGED <<ideal, maxfee, last, prior, done, msg, turn, err>>
PeerSpec == PeerInit /\ [][PeerNext]_vars

\* vacuity guards of part III (each must be VIOLATED in its witness run)
NeverNonZeroLockTimeSigned == ~(rb.what = "NReply" /\ rb.res = "ok" /\ rb.ans.lt # 0)
NeverLabelRefusal == ~(rb.what = "NReply" /\ rb.res \in {"nosig", "badsig"})
NeverCloseeOnlyAccepted == ~(rb.what = "NReply" /\ rb.res = "ok" /\ rb.sel = "closee")
NeverCloserOnlyAccepted == ~(rb.what = "NReply" /\ rb.res = "ok" /\ rb.sel = "closer")
NeverTwoInFlight == Len(rb.inq) < 2
NeverPeerAccepts == ~(rb.what = "NSig" /\ rb.res = "ok")
NeverPeerRefuses == ~(rb.what = "PReply" /\ rb.res # "ok" /\ rb.envh = 0)
NeverStale == ~(rb.what = "PReply" /\ rb.res = "stale")

-----------------------------------------------------------------------------
Ideals == {x \in Lo..Hi : (x - Lo) % Step = 0}


NegInit ==
  /\ \E o \in {"A"}, tap \in BOOLEAN : ch = MidChan(o, tap)
  /\ tx = [p \in P |-> NoTx]
  /\ ideal \in [P -> Ideals]
  /\ \E tight \in (IF TightCap THEN BOOLEAN ELSE {FALSE}) :
       maxfee = [p \in P |-> IF p = ch.opener /\ tight THEN Max(ideal["A"], ideal["B"]) ELSE 3 * ideal[p]]
  /\ Realistic
  /\ last = [p \in P |-> 0] /\ prior = [p \in P |-> {}] /\ done = [p \in P |-> 0]
  /\ msg = 0 /\ turn = ch.opener /\ rounds = 0 /\ err = "" /\ rb = RbIdle
NegNext == Begin \/ Receive
NegSpec == NegInit /\ [][NegNext]_vars

\* the abort path exists: with a cap below the peer's ideal fee the opener gives up
AbortInit ==
  /\ ch = MidChan("A", FALSE) /\ tx = [p \in P |-> NoTx]
  /\ ideal \in [P -> Ideals]
  /\ maxfee = [p \in P |-> ideal[p]]
  /\ last = [p \in P |-> 0] /\ prior = [p \in P |-> {}] /\ done = [p \in P |-> 0]
  /\ msg = 0 /\ turn = ch.opener /\ rounds = 0 /\ err = "" /\ rb = RbIdle
AbortSpec == AbortInit /\ [][NegNext]_vars
NeverAbort == err = ""
=============================================================================
