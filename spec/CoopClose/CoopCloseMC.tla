---------------------------- MODULE CoopCloseMC ----------------------------
(* Exhaustive configurations for spec/CoopClose.                            *)
(*  TxSpec : every channel of a grid (one side around the dust limits, msat *)
(*           remainders, both openers, with/without anchors, several commit *)
(*           fees, dust limits either way round) x every fee of a grid tied *)
(*           to the thresholds (0, dust, payer's funds -/+, capacity +) x   *)
(*           either payer: the close both sides build, through the legacy   *)
(*           API (CloseAt) and as one round of the RBF-coop flow (RbfRound).*)
(*  NegSpec: every pair of ideal fees in Lo..Hi (step Step) within each     *)
(*           other's cap, default and tightest opener cap, legacy and       *)
(*           taproot rule: the whole negotiation.                           *)
EXTENDS CoopClose

CONSTANTS CommitFees,   \* set of commitment fees (sat)
          SmallLo, SmallHi, SmallExtra,  \* the small side's balance: SmallLo..SmallHi (sat) and extra points
          Rems,         \* sub-satoshi remainders (msat) of the small side
          Near,         \* fees are taken within +-Near of every threshold
          Lo, Hi, Step, \* ideal fees
          TightCap      \* also check the tightest cap the property allows for the opener

\* <<dustA, dustB>>: the fixture's 200/1300 either way round, and equal limits
DustPairs == {<<200, 1300>>, <<1300, 200>>, <<354, 354>>}
Credit(an) == IF an THEN 2 * AnchorSize ELSE 0
Smalls == (SmallLo..SmallHi) \cup SmallExtra

Chans ==
  { MkChan(o, an, FALSE, d[1], d[2],
           IF side = "A" THEN 1000 * s + r ELSE 1000 * Capacity - (1000 * s + r) - 1000 * (cf + Credit(an)),
           IF side = "B" THEN 1000 * s + r ELSE 1000 * Capacity - (1000 * s + r) - 1000 * (cf + Credit(an)),
           cf) :
      o \in P, an \in BOOLEAN, d \in DustPairs, cf \in CommitFees, side \in P, s \in Smalls, r \in Rems }

Around(x) == {y \in (x - Near)..(x + Near) : y >= 0}
FeeGrid(y) ==
  LET g == Gross(y) IN
  UNION { Around(x) : x \in {0, 100, OwnDust("A"), OwnDust("B"), g, g - OwnDust(y), Capacity,
                             g - (g \div 2)} }

TxInit == /\ ch \in Chans
          /\ tx = [p \in P |-> NoTx]
          /\ NegIdle
TxNext == /\ \A p \in P : tx[p] = NoTx
          /\ \E y \in P : \E f \in FeeGrid(y) \cup Around(Sat(ch.view[y].our)) : CloseAt(f, y) \/ RbfRound(f, y)
          /\ UNCHANGED negVars
TxSpec == TxInit /\ [][TxNext]_vars

\* vacuity guards: every outcome class is reachable (checked as "never" properties that must FAIL in
\* a witness run, see CoopCloseMC_witness.cfg)
NeverRefusedNoOutputs == \A p \in P : tx[p].res # "nooutputs"
\* the RBF closer's pre-check refuses fees the opener could pay with its commit-fee / anchor credit
NeverCantPayAffordable == \A p \in P : tx[p].res = "cantpay" => Due(tx[p].payer, tx[p].fee, tx[p].payer) < 0
NeverTrimmedOne == \A p \in P : tx[p].res = "ok" => (tx[p].has["A"] /\ tx[p].has["B"])

-----------------------------------------------------------------------------
\* multi-round RBF histories: either side offers, any fee of a small grid, any of 3 delivery scripts
CONSTANT RbfDepth
RbfChans == {MidChan("A", FALSE), MidChan("B", FALSE),
             MkChan("A", TRUE, FALSE, 200, 1300, 1000 * (Capacity - 6744 - 660 - 1500) , 1000 * 1500, 6744),
             MkChan("A", FALSE, FALSE, 1300, 200, 1000 * 250, 1000 * (Capacity - 4344 - 250), 4344)}
RbfFees(c) == {1000, 1700} \cup Around(Sat(ch.view[c].our))
RbfInit == /\ ch \in RbfChans /\ tx = [p \in P |-> NoTx] /\ NegIdle
RbfNext == /\ rounds < RbfDepth
           /\ \E c \in P, k \in 0..2 : \E f \in RbfFees(c) : RbfOffer(f, c, k)
           /\ rounds' = rounds + 1
           /\ UNCHANGED <<ideal, maxfee, last, prior, done, msg, turn, err>>
RbfSpec == RbfInit /\ [][RbfNext]_vars

-----------------------------------------------------------------------------
Ideals == {x \in Lo..Hi : (x - Lo) % Step = 0}


NegInit ==
  /\ \E o \in {"A"}, tap \in BOOLEAN : ch = MidChan(o, tap)
  /\ tx = [p \in P |-> NoTx]
  /\ ideal \in [P -> Ideals]
  /\ \E tight \in (IF TightCap THEN BOOLEAN ELSE {FALSE}) :
       maxfee = [p \in P |-> IF p = ch.opener /\ tight THEN Max(ideal["A"], ideal["B"]) ELSE 3 * ideal[p]]
  /\ Realistic
  /\ last = [p \in P |-> 0] /\ prior = [p \in P |-> {}] /\ done = [p \in P |-> 0]
  /\ msg = 0 /\ turn = ch.opener /\ rounds = 0 /\ err = ""
NegNext == Begin \/ Receive
NegSpec == NegInit /\ [][NegNext]_vars

\* the abort path exists: with a cap below the peer's ideal fee the opener gives up
AbortInit ==
  /\ ch = MidChan("A", FALSE) /\ tx = [p \in P |-> NoTx]
  /\ ideal \in [P -> Ideals]
  /\ maxfee = [p \in P |-> ideal[p]]
  /\ last = [p \in P |-> 0] /\ prior = [p \in P |-> {}] /\ done = [p \in P |-> 0]
  /\ msg = 0 /\ turn = ch.opener /\ rounds = 0 /\ err = ""
AbortSpec == AbortInit /\ [][NegNext]_vars
NeverAbort == err = ""
=============================================================================
