SPECIFICATION NegSpec
CONSTANTS
  Capacity = 1000000
  AnchorSize = 330
  MaxRounds = 40
  CommitFees = {6744}
  SmallLo = 0
  SmallHi = 0
  SmallExtra = {}
  Rems = {0}
  Near = 1
  Lo = 100
  Hi = 700
  Step = 3
  RbfDepth = 4
  TightCap = TRUE
  PeerDepth = 4
  PeerWide = FALSE
INVARIANTS Synced Bounded BoundedDefault BothSigned Agree NoStall NoAbort Between TxInvariants
CHECK_DEADLOCK FALSE
