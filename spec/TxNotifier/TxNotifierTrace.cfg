SPECIFICATION TSpec
CONSTANTS
  NOuts = 2
  Incl <- Incl2
  ConfTargets = {1, 2, 3, 4}
  SpendTargets = {1, 2}
  Safety = 3
  MaxConfs = 3
  MaxLen = 1000
  MaxBlocks = 100000
  MaxRegs = 4
  AllHints = TRUE
  OrphanRescan = FALSE
  CanonIds = FALSE
  Repaired = FALSE
INVARIANTS RecConfTruthful RecSpendTruthful RecConfTimely RecSpendTimely RecSound RecReorgOnlyOnDisconnect RecDoneOnlyDeep RecHintSafe ConformOut ConformHints ConformDispatch ConformErr ConfTimely SpendTimely ConfSound SpendSound ConfHintSafe SpendHintSafe NoPanic
PROPERTIES PConfTruthful PSpendTruthful PNegOnlyOnDisconnect PReorgOnlyOnDisconnect PDoneOnlyDeep
CHECK_DEADLOCK TRUE
