----------------------------- MODULE TxNotifier -----------------------------
(***************************************************************************)
(* C14: confirmation and spend notifications follow the active chain       *)
(* through any reorg.  chainntnfs.TxNotifier (txnotifier.go) with the two  *)
(* height-hint caches (channeldb.HeightHintCache).                         *)
(*                                                                         *)
(* Universe.  NOuts outpoints 1..NOuts; outpoint o has two conflicting     *)
(* spenders, the transactions 2o-1 (variant 1) and 2o (variant 2).  A block*)
(* is [id, inc] where inc[o] \in {0,1,2} says which spender of o it        *)
(* contains (0 = none); block ids are fresh, so that two blocks with the   *)
(* same content at the same height are different blocks (different hash).  *)
(* Clients register for the confirmation of a transaction (N = 1..MaxConfs *)
(* confirmations) or for the spend of an outpoint.  Heights are relative   *)
(* to the notifier's start height (0 = start, first block = 1).            *)
(*                                                                         *)
(* Registration kinds.  What the notifier keys its state by is the REQUEST *)
(* (ConfRequest / SpendRequest), and one transaction / one output can be   *)
(* watched through several requests at once, each with its own clients,    *)
(* cached details, rescan status and reorg bookkeeping:                    *)
(*   conf request  c in 1..2*NTx :  tx CTx(c), kind CKind(c)               *)
(*        0 = {txid, script}   1 = {zero txid, script} (script only)       *)
(*   spend request s in 1..3*NOuts : outpoint SOut(s), kind SKind(s)       *)
(*        0 = {outpoint, script}   1 = {outpoint, zero taproot script}     *)
(*        2 = {zero outpoint, script} (script only)                        *)
(* (request ids 1..NTx / 1..NOuts are the kind-0 requests, so a            *)
(* configuration that names only those is the one-kind model).  filterTx   *)
(* looks every kind up independently for every input / output of a block;  *)
(* every request is judged on its own (own Spend / Reorg / renewed Spend   *)
(* sequence, own hint).  The spend-hint cache is keyed by the outpoint     *)
(* when there is one, so the kinds 0 and 1 of one outpoint share a hint    *)
(* entry (SKey); all other requests have their own.                        *)
(* Bound to the code (c14.py part "kinds"): model checked with all three   *)
(* spend kinds of one outpoint / both conf kinds of one tx side by side,   *)
(* TxNotifierGen with ConfTargets = 1..4, SpendTargets = 1..3 (NOuts = 1), *)
(* directed/b_kinds_*.ndjson and every other non-focus run of the          *)
(* free-running driver (VERIF_KINDS); the trace lines carry both hint      *)
(* caches as read back through every request id.                           *)
(*                                                                         *)
(* The code part (chain .. panic) is structured as the implementation: one *)
(* action per method that takes the notifier's mutex; Connect is           *)
(* ConnectTip followed by NotifyHeight as every backend calls them.        *)
(* The environment part (nextBlk, maxTip, hc, hs) carries the assumptions  *)
(* of the property: reorgs stay within the safety limit, callers give      *)
(* correct height hints, a historical rescan reports the truth about the   *)
(* active chain in the requested range and arrives before the request      *)
(* matures (DESIGN 10.7, observation O1) - or, "backend ahead", reports a   *)
(* block at tip+1 that the notifier has not connected (yet, or ever).      *)
(* Besides the block notifications the backend may hand over the confirmed *)
(* spender of a watched outpoint on its own (ProcessRelevantSpendTx), after *)
(* or before ("ahead") the block that contains it is connected.             *)
(* The observation part (out, hd, err) is what a client that empties its   *)
(* channels after every call sees; told/toldAt is the client's belief.     *)
(***************************************************************************)
EXTENDS Integers, Sequences, FiniteSets, TLC

CONSTANTS NOuts,         \* number of outpoints
          Incl,          \* block contents that may be connected (set of sequences over 1..NOuts)
          ConfTargets,   \* conf requests clients register (subset of 1..4*NOuts; 1..2*NOuts = by txid)
          SpendTargets,  \* spend requests clients register (subset of 1..3*NOuts; 1..NOuts = by outpoint+script)
          Safety,        \* reorgSafetyLimit (constructor argument of the real TxNotifier)
          MaxConfs,      \* numConfs in 1..MaxConfs (<= Safety)
          MaxLen,        \* bound on the chain length
          MaxBlocks,     \* bound on the number of blocks ever connected
          MaxRegs,       \* registrations (clients)
          AllHints,      \* TRUE: every correct height hint, FALSE: a few representative ones
          OrphanRescan,  \* TRUE: the last subscriber of a request may cancel while its historical
                         \*       rescan is pending (the answer then finds no subscriber)
          CanonIds,      \* TRUE (model checking): a new block gets the smallest id nothing refers to any
                         \* more, so that any number of reorgs is covered by a finite state space;
                         \* FALSE (generation, traces): ids count up and at most MaxBlocks blocks are connected
          Repaired       \* FALSE: as lnd does - details found by a historical rescan are entered into
                         \*        confsByInitialHeight/spendsByHeight only through a subscriber;
                         \* TRUE : they are entered whenever they can still be reorged out

Outs   == 1..NOuts
RegIds == 1..MaxRegs
OutOf(t) == (t + 1) \div 2
VarOf(t) == IF t % 2 = 1 THEN 1 ELSE 2
\* requests -> what they watch, their kind, their hint-cache key
NTx      == 2 * NOuts
CTx(c)   == ((c - 1) % NTx) + 1
CKind(c) == (c - 1) \div NTx
SOut(s)  == ((s - 1) % NOuts) + 1
SKind(s) == (s - 1) \div NOuts
SKey(s)  == IF SKind(s) = 1 THEN s - NOuts ELSE s
HKeys    == {SKey(s) : s \in SpendTargets}

VARIABLES
  \* --- the chain (truth) and the notifier's view of it
  chain,       \* sequence of [id, inc]; currentHeight = Len(chain)
  reorgDepth,  \* TxNotifier.reorgDepth
  \* --- TxNotifier state
  csets,       \* confNotifications: conf request -> [ex, rs, h, b]   (rescanStatus, details.BlockHeight/-Hash; h = 0: no details)
  ssets,       \* spendNotifications: spend request -> [ex, rs, h, v] (details.SpendingHeight / spender variant)
  regs,        \* the ConfNtfn/SpendNtfn objects: id -> [k, t, n, disp, st]
  byConf,      \* ntfnsByConfirmHeight   : set of <<height, reg>>
  byInit,      \* confsByInitialHeight   : set of <<height, conf request>>
  spBy,        \* spendsByHeight         : set of <<height, spend request>>
  chint,       \* ConfirmHintCache (persistent): conf request -> height, -1 = no entry
  shint,       \* SpendHintCache   (persistent): hint key (SKey) -> height, -1 = no entry
  panic,       \* the real code would dereference nil / send on a closed channel
  \* --- environment
  nextBlk,     \* next fresh block id
  maxTip,      \* highest tip ever reached
  hc, hs,      \* historical rescans handed to the caller and not yet answered: target -> [s, e]
  \* --- observations of the last call and the clients' belief
  out,         \* reg -> what arrived on its channels during the last call
  hd,          \* the HistoricalDispatch returned by the last Register call
  err,         \* the last call returned an error
  told,        \* reg -> client holds a Confirmed/Spend not revoked by NegativeConf/Reorg
  toldAt       \* reg -> [h, b] block the client was told about

codeVars == <<chain, reorgDepth, csets, ssets, regs, byConf, byInit, spBy, chint, shint, panic>>
envVars  == <<nextBlk, maxTip, hc, hs>>
obsVars  == <<out, hd, err, told, toldAt>>
vars     == <<codeVars, envVars, obsVars>>

Tip == Len(chain)

NoCS == [ex |-> FALSE, rs |-> "none", h |-> 0, b |-> 0]
NoSS == [ex |-> FALSE, rs |-> "none", h |-> 0, v |-> 0]
NoR  == [s |-> -1, e |-> -1]
NoEv == [ch |-> -1, cb |-> -1, neg |-> 0, done |-> 0, sh |-> -1, sv |-> -1, reorg |-> 0]
NoReg == [k |-> "none", t |-> 0, n |-> 0, disp |-> FALSE, st |-> "free"]
Quiet == [i \in RegIds |-> NoEv]
NoAt  == [h |-> 0, b |-> 0]

\* truth on a chain c
\* (t a conf request, o a spend request or - the kind-0 request - an outpoint)
Hits(inc, t) == inc[OutOf(CTx(t))] = VarOf(CTx(t))
ConfAtIn(c, t) == LET S == {h \in 1..Len(c) : Hits(c[h].inc, t)} IN
                  IF S = {} THEN 0 ELSE CHOOSE h \in S : TRUE
SpentAtIn(c, o) == LET S == {h \in 1..Len(c) : c[h].inc[SOut(o)] # 0} IN
                   IF S = {} THEN 0 ELSE CHOOSE h \in S : TRUE
ConfAt(t)  == ConfAtIn(chain, t)
SpentAt(o) == SpentAtIn(chain, o)
BlkAt(c, h) == IF h >= 1 /\ h <= Len(c) THEN c[h].id ELSE -1

Max(a, b) == IF a > b THEN a ELSE b
Min(a, b) == IF a < b THEN a ELSE b

Init ==
  /\ chain = <<>> /\ reorgDepth = 0
  /\ csets = [t \in ConfTargets |-> NoCS]
  /\ ssets = [o \in SpendTargets |-> NoSS]
  /\ regs = [i \in RegIds |-> NoReg]
  /\ byConf = {} /\ byInit = {} /\ spBy = {}
  /\ chint = [t \in ConfTargets |-> -1]
  /\ shint = [o \in HKeys |-> -1]
  /\ panic = FALSE
  /\ nextBlk = 1 /\ maxTip = 0
  /\ hc = [t \in ConfTargets |-> NoR]
  /\ hs = [o \in SpendTargets |-> NoR]
  /\ out = Quiet /\ hd = NoR /\ err = 0
  /\ told = [i \in RegIds |-> FALSE]
  /\ toldAt = [i \in RegIds |-> NoAt]

\* the client's belief follows what it received (a reorg notice, if any, is read first)
Ghost ==
  /\ told' = [i \in RegIds |->
       IF out'[i].ch # -1 \/ out'[i].sh # -1 THEN TRUE
       ELSE IF out'[i].neg # 0 \/ out'[i].reorg # 0 THEN FALSE ELSE told[i]]
  /\ toldAt' = [i \in RegIds |->
       IF out'[i].ch # -1 THEN [h |-> out'[i].ch, b |-> out'[i].cb]
       ELSE IF out'[i].sh # -1 THEN [h |-> out'[i].sh, b |-> BlkAt(chain', out'[i].sh)]
       ELSE IF out'[i].neg # 0 \/ out'[i].reorg # 0 THEN NoAt ELSE toldAt[i]]

LiveIn(rg, i, k) == rg[i].st = "live" /\ rg[i].k = k
SubsIn(rg, k, t) == {i \in RegIds : LiveIn(rg, i, k) /\ rg[i].t = t}

-----------------------------------------------------------------------------
(* dispatchConfDetails for the subscribers S of one request with details   *)
(* (h, b) at tip T: who is told now, who is queued, whether the request is *)
(* entered into confsByInitialHeight.                                      *)
DCNow(rg, S, h, T)   == {i \in S : ~rg[i].disp /\ h + rg[i].n - 1 <= T}
DCQueue(rg, S, h, T) == {<<h + rg[i].n - 1, i>> : i \in {j \in S : ~rg[j].disp /\ h + rg[j].n - 1 > T}}
DCInit(rg, S, h, t, T) == IF (\E i \in S : ~rg[i].disp) /\ h + Safety > T THEN {<<h, t>>} ELSE {}

ConfEv(h, b) == [NoEv EXCEPT !.ch = h, !.cb = b]
SpendEv(h, v) == [NoEv EXCEPT !.sh = h, !.sv = v]

FreeSlot(i) == regs[i].st = "free" /\ \A j \in 1..(i - 1) : regs[j].st # "free"

\* height hints a caller may give: not above the height at which the event
\* already happened on the active chain, never above tip + 1
HintChoices(at) ==
  LET top == IF at # 0 THEN at ELSE Tip + 1 IN
  IF AllHints THEN 0..top ELSE {0, top} \cup (IF at = 0 THEN {Tip} ELSE {})

(* RegisterConf *)
RegisterConf(i, t, n, hint) ==
  /\ FreeSlot(i)
  /\ hint \in 0..(Tip + 1) /\ (ConfAt(t) # 0 => hint <= ConfAt(t))
  /\ LET T     == Tip
         cs1   == IF csets[t].ex THEN csets[t] ELSE [NoCS EXCEPT !.ex = TRUE]
         start == Max(hint, chint[t])
         rg1   == [regs EXCEPT ![i] = [k |-> "conf", t |-> t, n |-> n, disp |-> FALSE, st |-> "live"]]
         S     == SubsIn(rg1, "conf", t)
     IN
     CASE cs1.rs = "done" /\ cs1.h # 0 ->
            LET now == DCNow(rg1, S, cs1.h, T) IN
            /\ regs' = [j \in RegIds |-> IF j \in now THEN [rg1[j] EXCEPT !.disp = TRUE] ELSE rg1[j]]
            /\ byConf' = byConf \cup DCQueue(rg1, S, cs1.h, T)
            /\ byInit' = byInit \cup DCInit(rg1, S, cs1.h, t, T)
            /\ out' = [j \in RegIds |-> IF j \in now THEN ConfEv(cs1.h, cs1.b) ELSE NoEv]
            /\ csets' = [csets EXCEPT ![t] = cs1]
            /\ hd' = NoR /\ UNCHANGED hc
       [] cs1.rs = "done" /\ cs1.h = 0 ->
            /\ regs' = rg1 /\ csets' = [csets EXCEPT ![t] = cs1] /\ out' = Quiet
            /\ hd' = NoR /\ UNCHANGED <<byConf, byInit, hc>>
       [] cs1.rs = "pending" ->
            /\ regs' = rg1 /\ csets' = [csets EXCEPT ![t] = cs1] /\ out' = Quiet
            /\ hd' = NoR /\ UNCHANGED <<byConf, byInit, hc>>
       [] cs1.rs = "none" /\ start > T ->
            /\ regs' = rg1 /\ csets' = [csets EXCEPT ![t] = [cs1 EXCEPT !.rs = "done"]] /\ out' = Quiet
            /\ hd' = NoR /\ UNCHANGED <<byConf, byInit, hc>>
       [] cs1.rs = "none" /\ start <= T ->
            /\ regs' = rg1 /\ csets' = [csets EXCEPT ![t] = [cs1 EXCEPT !.rs = "pending"]] /\ out' = Quiet
            /\ hd' = [s |-> start, e |-> T]
            /\ hc' = [hc EXCEPT ![t] = [s |-> start, e |-> T]]
            /\ UNCHANGED <<byConf, byInit>>
  /\ err' = 0
  /\ UNCHANGED <<chain, reorgDepth, ssets, spBy, chint, shint, panic, nextBlk, maxTip, hs>>
  /\ Ghost

(* dispatchSpendDetails for subscribers S with details (h, v) at tip T *)
DSNow(rg, S) == {i \in S : ~rg[i].disp}
DSBy(rg, S, h, o, T) == IF DSNow(rg, S) # {} /\ h + Safety > T THEN {<<h, o>>} ELSE {}

(* RegisterSpend *)
RegisterSpend(i, o, hint) ==
  /\ FreeSlot(i)
  /\ hint \in 0..(Tip + 1) /\ (SpentAt(o) # 0 => hint <= SpentAt(o))
  /\ LET T     == Tip
         ss1   == IF ssets[o].ex THEN ssets[o] ELSE [NoSS EXCEPT !.ex = TRUE]
         start == Max(hint, shint[SKey(o)])
         rg1   == [regs EXCEPT ![i] = [k |-> "spend", t |-> o, n |-> 0, disp |-> FALSE, st |-> "live"]]
     IN
     CASE ss1.rs = "done" /\ ss1.h # 0 ->
            \* only the new client is served here (the others were when the details arrived)
            /\ regs' = [rg1 EXCEPT ![i].disp = TRUE]
            /\ spBy' = spBy \cup DSBy(rg1, {i}, ss1.h, o, T)
            /\ out' = [j \in RegIds |-> IF j = i THEN SpendEv(ss1.h, ss1.v) ELSE NoEv]
            /\ ssets' = [ssets EXCEPT ![o] = ss1]
            /\ hd' = NoR /\ UNCHANGED hs
       [] (ss1.rs = "done" /\ ss1.h = 0) \/ ss1.rs = "pending" ->
            /\ regs' = rg1 /\ ssets' = [ssets EXCEPT ![o] = ss1] /\ out' = Quiet
            /\ hd' = NoR /\ UNCHANGED <<spBy, hs>>
       [] ss1.rs = "none" /\ start > T ->
            /\ regs' = rg1 /\ ssets' = [ssets EXCEPT ![o] = [ss1 EXCEPT !.rs = "done"]] /\ out' = Quiet
            /\ hd' = NoR /\ UNCHANGED <<spBy, hs>>
       [] ss1.rs = "none" /\ start <= T ->
            /\ regs' = rg1 /\ ssets' = [ssets EXCEPT ![o] = [ss1 EXCEPT !.rs = "pending"]] /\ out' = Quiet
            /\ hd' = [s |-> start, e |-> T]
            /\ hs' = [hs EXCEPT ![o] = [s |-> start, e |-> T]]
            /\ UNCHANGED spBy
  /\ err' = 0
  /\ UNCHANGED <<chain, reorgDepth, csets, byConf, byInit, chint, shint, panic, nextBlk, maxTip, hc>>
  /\ Ghost

(* CancelConf / CancelSpend (the Cancel closure of the event) *)
LastWhilePending(i) ==
  \/ regs[i].k = "conf"  /\ hc[regs[i].t] # NoR /\ SubsIn(regs, "conf", regs[i].t) = {i}
  \/ regs[i].k = "spend" /\ hs[regs[i].t] # NoR /\ SubsIn(regs, "spend", regs[i].t) = {i}
Cancel(i) ==
  /\ regs[i].st = "live"
  /\ OrphanRescan \/ ~LastWhilePending(i)
  /\ regs' = [regs EXCEPT ![i].st = "cancelled"]
  /\ IF regs[i].k = "conf" /\ csets[regs[i].t].h # 0
       THEN byConf' = byConf \ {<<csets[regs[i].t].h + regs[i].n - 1, i>>}
       ELSE UNCHANGED byConf
  /\ out' = Quiet /\ hd' = NoR /\ err' = 0
  /\ UNCHANGED <<chain, reorgDepth, csets, ssets, byInit, spBy, chint, shint, panic, envVars>>
  \* a client that cancelled no longer cares
  /\ told' = [told EXCEPT ![i] = FALSE] /\ toldAt' = [toldAt EXCEPT ![i] = NoAt]

(* UpdateConfDetails: the answer to a historical rescan [s, e].  The answer *)
(* is the truth about the active chain in that range when it arrives.       *)
HistConf(t) ==
  /\ hc[t] # NoR
  /\ hc' = [hc EXCEPT ![t] = NoR]
  /\ LET T     == Tip
         at    == ConfAt(t)
         found == at # 0 /\ hc[t].s <= at /\ at <= hc[t].e
         S     == SubsIn(regs, "conf", t)
     IN
     IF ~csets[t].ex THEN
          /\ err' = 1 /\ out' = Quiet
          /\ UNCHANGED <<csets, regs, byConf, byInit, chint>>
     ELSE IF csets[t].h # 0 THEN
          /\ err' = 0 /\ out' = Quiet
          /\ UNCHANGED <<csets, regs, byConf, byInit, chint>>
     ELSE IF ~found THEN
          /\ err' = 0 /\ out' = Quiet
          /\ csets' = [csets EXCEPT ![t].rs = "done"]
          /\ chint' = [chint EXCEPT ![t] = T]
          /\ UNCHANGED <<regs, byConf, byInit>>
     ELSE LET b == chain[at].id
              now == DCNow(regs, S, at, T) IN
          /\ err' = 0
          /\ csets' = [csets EXCEPT ![t] = [ex |-> TRUE, rs |-> "done", h |-> at, b |-> b]]
          /\ chint' = [chint EXCEPT ![t] = at]
          /\ regs' = [j \in RegIds |-> IF j \in now THEN [regs[j] EXCEPT !.disp = TRUE] ELSE regs[j]]
          /\ byConf' = byConf \cup DCQueue(regs, S, at, T)
          /\ byInit' = byInit \cup (IF Repaired THEN (IF at + Safety > T THEN {<<at, t>>} ELSE {})
                                                 ELSE DCInit(regs, S, at, t, T))
          /\ out' = [j \in RegIds |-> IF j \in now THEN ConfEv(at, b) ELSE NoEv]
  /\ hd' = NoR
  /\ UNCHANGED <<chain, reorgDepth, ssets, spBy, shint, panic, nextBlk, maxTip, hs>>
  /\ Ghost

(* UpdateSpendDetails *)
HistSpend(o) ==
  /\ hs[o] # NoR
  /\ hs' = [hs EXCEPT ![o] = NoR]
  /\ LET T     == Tip
         at    == SpentAt(o)
         found == at # 0 /\ hs[o].s <= at /\ at <= hs[o].e
         S     == SubsIn(regs, "spend", o)
     IN
     IF ~ssets[o].ex THEN
          /\ err' = 1 /\ out' = Quiet
          /\ UNCHANGED <<ssets, regs, spBy, shint>>
     ELSE IF ssets[o].h # 0 THEN
          /\ err' = 0 /\ out' = Quiet
          /\ UNCHANGED <<ssets, regs, spBy, shint>>
     ELSE IF ~found THEN
          /\ err' = 0 /\ out' = Quiet
          /\ ssets' = [ssets EXCEPT ![o].rs = "done"]
          /\ shint' = [shint EXCEPT ![SKey(o)] = T]
          /\ UNCHANGED <<regs, spBy>>
     ELSE LET v == chain[at].inc[SOut(o)]
              now == DSNow(regs, S) IN
          /\ err' = 0
          /\ ssets' = [ssets EXCEPT ![o] = [ex |-> TRUE, rs |-> "done", h |-> at, v |-> v]]
          /\ shint' = [shint EXCEPT ![SKey(o)] = at]
          /\ regs' = [j \in RegIds |-> IF j \in now THEN [regs[j] EXCEPT !.disp = TRUE] ELSE regs[j]]
          /\ spBy' = spBy \cup (IF Repaired THEN (IF at + Safety > T THEN {<<at, o>>} ELSE {})
                                             ELSE DSBy(regs, S, at, o, T))
          /\ out' = [j \in RegIds |-> IF j \in now THEN SpendEv(at, v) ELSE NoEv]
  /\ hd' = NoR
  /\ UNCHANGED <<chain, reorgDepth, csets, byConf, byInit, chint, panic, nextBlk, maxTip, hc>>
  /\ Ghost

(* "Backend ahead": the historical rescan ran on a backend that had already  *)
(* accepted a block at Tip+1 which the notifier has not connected yet (and    *)
(* may never connect: the chain can continue with a different block at that   *)
(* height), and reports the inclusion/spend in that block.  The code must     *)
(* ignore the details (details.BlockHeight > currentHeight): the rescan is    *)
(* marked complete, nothing is cached, queued or committed as a hint.         *)
HistConfAhead(t) ==
  /\ hc[t] # NoR
  /\ ConfAt(t) = 0 /\ SpentAt(OutOf(CTx(t))) = 0      \* the tx could be in the next block
  /\ hc' = [hc EXCEPT ![t] = NoR]
  /\ IF ~csets[t].ex THEN err' = 1 /\ UNCHANGED csets
     ELSE IF csets[t].h # 0 THEN err' = 0 /\ UNCHANGED csets
     ELSE err' = 0 /\ csets' = [csets EXCEPT ![t].rs = "done"]
  /\ out' = Quiet /\ hd' = NoR
  /\ UNCHANGED <<chain, reorgDepth, ssets, regs, byConf, byInit, spBy, chint, shint, panic, nextBlk, maxTip, hs>>
  /\ Ghost

HistSpendAhead(o) ==
  /\ hs[o] # NoR
  /\ SpentAt(o) = 0
  /\ hs' = [hs EXCEPT ![o] = NoR]
  /\ IF ~ssets[o].ex THEN err' = 1 /\ UNCHANGED ssets
     ELSE IF ssets[o].h # 0 THEN err' = 0 /\ UNCHANGED ssets
     ELSE err' = 0 /\ ssets' = [ssets EXCEPT ![o].rs = "done"]
  /\ out' = Quiet /\ hd' = NoR
  /\ UNCHANGED <<chain, reorgDepth, csets, regs, byConf, byInit, spBy, chint, shint, panic, nextBlk, maxTip, hc>>
  /\ Ghost

(* ProcessRelevantSpendTx(tx, height): the backend's own filter (btcwallet's  *)
(* RelevantTx of btcd/bitcoind, neutrino's filtered block) hands over the      *)
(* confirmed spender of outpoint p together with the height of its block.     *)
(* The notification is truthful - the spender is in the block at that height  *)
(* of the active chain - but not ordered with the block notifications: it may *)
(* come after the block was connected (then only requests registered since,   *)
(* whose historical rescan is still outstanding, have no details yet) or      *)
(* before ("ahead": the block at tip+1 has not been connected and may never   *)
(* be).  filterTx looks up every kind of request the input fulfils and        *)
(* updateSpendDetails runs for each of them; the outstanding historical       *)
(* rescans stay outstanding (their answer is ignored while details are set).  *)
RelHit(p) == {o \in SpendTargets : SOut(o) = p /\ ssets[o].ex /\ ssets[o].h = 0}
RelevantSpend(p) ==
  /\ p \in Outs /\ SpentAt(p) # 0
  /\ LET T   == Tip
         at  == SpentAt(p)
         v   == chain[at].inc[p]
         hit == RelHit(p)
         S(o) == SubsIn(regs, "spend", o)
         now == UNION {DSNow(regs, S(o)) : o \in hit}
     IN
     /\ ssets' = [o \in SpendTargets |-> IF o \in hit THEN [ex |-> TRUE, rs |-> "done", h |-> at, v |-> v] ELSE ssets[o]]
     /\ shint' = [k \in HKeys |-> IF \E o \in hit : SKey(o) = k THEN at ELSE shint[k]]
     /\ regs' = [j \in RegIds |-> IF j \in now THEN [regs[j] EXCEPT !.disp = TRUE] ELSE regs[j]]
     /\ spBy' = spBy \cup UNION {IF Repaired THEN (IF at + Safety > T THEN {<<at, o>>} ELSE {})
                                             ELSE DSBy(regs, S(o), at, o, T) : o \in hit}
     /\ out' = [j \in RegIds |-> IF j \in now THEN SpendEv(at, v) ELSE NoEv]
  /\ hd' = NoR /\ err' = 0
  /\ UNCHANGED <<chain, reorgDepth, csets, byConf, byInit, chint, panic, nextBlk, maxTip, hc, hs>>
  /\ Ghost

RelevantSpendAhead(p) ==
  /\ p \in Outs /\ SpentAt(p) = 0
  /\ ssets' = [o \in SpendTargets |-> IF o \in RelHit(p) THEN [ssets[o] EXCEPT !.rs = "done"] ELSE ssets[o]]
  /\ out' = Quiet /\ hd' = NoR /\ err' = 0
  /\ UNCHANGED <<chain, reorgDepth, csets, regs, byConf, byInit, spBy, chint, shint, panic, nextBlk, maxTip, hc, hs>>
  /\ Ghost

\* the smallest block id that neither the chain nor the notifier nor a client refers to
UsedIds == {chain[h].id : h \in 1..Len(chain)} \cup {csets[t].b : t \in ConfTargets}
           \cup {toldAt[i].b : i \in RegIds}
FreshId == CHOOSE k \in 1..(Cardinality(UsedIds) + 1) : k \notin UsedIds /\ \A j \in 1..(k - 1) : j \in UsedIds

(* ConnectTip(block, H) ; NotifyHeight(H) for the block [blk, inc]: the    *)
(* code and observation part (who supplies the block - the environment of  *)
(* this module or the catch-up layer of CatchUp.tla - is the caller's).    *)
\* a historical answer arrives before its request matures (O1 excluded)
O1Guard ==
  LET m == Tip + 1 - Safety IN
  /\ \A t \in ConfTargets : hc[t] # NoR => <<m, t>> \notin byInit
  /\ \A o \in SpendTargets : hs[o] # NoR => <<m, o>> \notin spBy

ConnectBlk(inc, blk) ==
  /\ LET H == Tip + 1
         m == H - Safety
     IN
     /\ LET \* --- ConnectTip: filterTx -> handleSpendDetailsAtTip / handleConfDetailsAtTip
            \*     (every registered request that the input / output fulfils, of whatever kind)
            hitS == {o \in SpendTargets : inc[SOut(o)] # 0 /\ ssets[o].ex}
            ss1  == [o \in SpendTargets |-> IF o \in hitS
                        THEN [ex |-> TRUE, rs |-> "done", h |-> H, v |-> inc[SOut(o)]] ELSE ssets[o]]
            sb1  == spBy \cup {<<H, o>> : o \in hitS}
            hitC == {t \in ConfTargets : Hits(inc, t) /\ csets[t].ex /\ csets[t].h = 0}
            cs1  == [t \in ConfTargets |-> IF t \in hitC
                        THEN [ex |-> TRUE, rs |-> "done", h |-> H, b |-> blk] ELSE csets[t]]
            bc1  == byConf \cup {<<H + regs[i].n - 1, i>> :
                                  i \in {j \in RegIds : LiveIn(regs, j, "conf") /\ regs[j].t \in hitC}}
            bi1  == byInit \cup {<<H, t>> : t \in hitC}
            \* --- updateHints(H): unconfirmed/unspent requests and those found in this block
            ch1  == [t \in ConfTargets |->
                       IF (cs1[t].ex /\ cs1[t].rs = "done" /\ cs1[t].h = 0) \/ <<H, t>> \in bi1
                       THEN H ELSE chint[t]]
            sh1  == [k \in HKeys |->
                       IF \E o \in SpendTargets : SKey(o) = k /\
                            ((ss1[o].ex /\ ss1[o].rs = "done" /\ ss1[o].h = 0) \/ <<H, o>> \in sb1)
                       THEN H ELSE shint[k]]
            \* --- requests included Safety blocks ago are mature: Done, forget them
            matC == {t \in ConfTargets : <<m, t>> \in bi1}
            matS == {o \in SpendTargets : <<m, o>> \in sb1}
            doneR == {i \in RegIds : regs[i].st = "live" /\
                        ((regs[i].k = "conf" /\ regs[i].t \in matC) \/ (regs[i].k = "spend" /\ regs[i].t \in matS))}
            cs2  == [t \in ConfTargets |-> IF t \in matC THEN NoCS ELSE cs1[t]]
            ss2  == [o \in SpendTargets |-> IF o \in matS THEN NoSS ELSE ss1[o]]
            bi2  == {e \in bi1 : e[1] # m}
            sb2  == {e \in sb1 : e[1] # m}
            rg2  == [i \in RegIds |-> IF i \in doneR THEN [regs[i] EXCEPT !.st = "done"] ELSE regs[i]]
            pan1 == (\E t \in matC : ~cs1[t].ex) \/ (\E o \in matS : ~ss1[o].ex)
            \* --- NotifyHeight(H)
            E    == {i \in RegIds : <<H, i>> \in bc1}
            pan2 == \E i \in E : \/ ~cs2[rg2[i].t].ex \/ cs2[rg2[i].t].h = 0
                                 \/ (~rg2[i].disp /\ rg2[i].st # "live")
            confNow == {i \in E : ~rg2[i].disp /\ rg2[i].st = "live" /\ cs2[rg2[i].t].ex /\ cs2[rg2[i].t].h # 0}
            bc2  == {e \in bc1 : e[1] # H}
            pan3 == \E e \in sb2 : e[1] = H /\ ~ss2[e[2]].ex
            spNow == {i \in RegIds : /\ LiveIn(rg2, i, "spend") /\ ~rg2[i].disp
                                     /\ <<H, rg2[i].t>> \in sb2
                                     /\ ss2[rg2[i].t].ex /\ ss2[rg2[i].t].h # 0}
        IN
        /\ chain' = Append(chain, [id |-> blk, inc |-> inc])
        /\ reorgDepth' = 0
        /\ csets' = cs2 /\ ssets' = ss2
        /\ regs' = [i \in RegIds |-> IF i \in confNow \cup spNow THEN [rg2[i] EXCEPT !.disp = TRUE] ELSE rg2[i]]
        /\ byConf' = bc2 /\ byInit' = bi2 /\ spBy' = sb2
        /\ chint' = ch1 /\ shint' = sh1
        /\ panic' = (panic \/ pan1 \/ pan2 \/ pan3)
        /\ out' = [i \in RegIds |->
                     [ch    |-> IF i \in confNow THEN cs2[rg2[i].t].h ELSE -1,
                      cb    |-> IF i \in confNow THEN cs2[rg2[i].t].b ELSE -1,
                      neg   |-> 0,
                      done  |-> IF i \in doneR THEN 1 ELSE 0,
                      sh    |-> IF i \in spNow THEN ss2[rg2[i].t].h ELSE -1,
                      sv    |-> IF i \in spNow THEN ss2[rg2[i].t].v ELSE -1,
                      reorg |-> 0]]
  /\ hd' = NoR /\ err' = 0
  /\ Ghost

(* the environment of this module connects a fresh block of any admissible content *)
Connect(inc) ==
  /\ Tip < MaxLen /\ (CanonIds \/ nextBlk <= MaxBlocks)
  /\ inc \in Incl
  /\ \A o \in Outs : inc[o] # 0 => SpentAt(o) = 0
  /\ O1Guard
  /\ ConnectBlk(inc, IF CanonIds THEN FreshId ELSE nextBlk)
  /\ nextBlk' = IF CanonIds THEN nextBlk ELSE nextBlk + 1
  /\ maxTip' = Max(maxTip, Tip + 1)
  /\ UNCHANGED <<hc, hs>>

(* DisconnectTip(H).  Only blocks that are not yet Safety deep below the    *)
(* highest tip seen may be disconnected (the reorg safety assumption).      *)
Disconnect ==
  /\ Tip > 0
  /\ maxTip - (Tip - 1) < Safety
  /\ LET H  == Tip
         T1 == H - 1
         rd == reorgDepth + 1
         \* updateHints(H) runs first, with the height already decremented
         ch1 == [t \in ConfTargets |->
                   IF (csets[t].ex /\ csets[t].rs = "done" /\ csets[t].h = 0) \/ <<H, t>> \in byInit
                   THEN T1 ELSE chint[t]]
         sh1 == [k \in HKeys |->
                   IF \E o \in SpendTargets : SKey(o) = k /\
                        ((ssets[o].ex /\ ssets[o].rs = "done" /\ ssets[o].h = 0) \/ <<H, o>> \in spBy)
                   THEN T1 ELSE shint[k]]
         reC == {t \in ConfTargets : <<H, t>> \in byInit}
         reS == {o \in SpendTargets : <<H, o>> \in spBy}
         negR == {i \in RegIds : LiveIn(regs, i, "conf") /\ regs[i].t \in reC}
         reoR == {i \in RegIds : LiveIn(regs, i, "spend") /\ regs[i].t \in reS /\ regs[i].disp}
         pan  == (\E e \in byInit : ~csets[e[2]].ex) \/ (\E o \in reS : ~ssets[o].ex)
     IN
     /\ chain' = SubSeq(chain, 1, T1)
     /\ reorgDepth' = rd
     /\ chint' = ch1 /\ shint' = sh1
     /\ csets' = [t \in ConfTargets |-> IF t \in reC THEN [csets[t] EXCEPT !.h = 0, !.b = 0] ELSE csets[t]]
     /\ ssets' = [o \in SpendTargets |-> IF o \in reS THEN [ssets[o] EXCEPT !.h = 0, !.v = 0] ELSE ssets[o]]
     /\ regs' = [i \in RegIds |-> IF i \in negR \cup reoR THEN [regs[i] EXCEPT !.disp = FALSE] ELSE regs[i]]
     \* dispatchConfReorg: a not yet dispatched request is taken out of ntfnsByConfirmHeight
     /\ byConf' = byConf \ {<<H + regs[i].n - 1, i>> : i \in {j \in negR : ~regs[j].disp}}
     /\ byInit' = {e \in byInit : e[1] # H}
     /\ spBy' = {e \in spBy : e[1] # H}
     /\ panic' = (panic \/ pan)
     /\ out' = [i \in RegIds |-> [NoEv EXCEPT !.neg = IF i \in negR THEN rd ELSE 0,
                                              !.reorg = IF i \in reoR THEN 1 ELSE 0]]
  /\ hd' = NoR /\ err' = 0
  /\ UNCHANGED envVars
  /\ Ghost

Next ==
  \/ \E inc \in Incl : Connect(inc)
  \/ Disconnect
  \/ \E i \in RegIds, t \in ConfTargets, n \in 1..MaxConfs :
        \E hint \in HintChoices(ConfAt(t)) : RegisterConf(i, t, n, hint)
  \/ \E i \in RegIds, o \in SpendTargets :
        \E hint \in HintChoices(SpentAt(o)) : RegisterSpend(i, o, hint)
  \/ \E i \in RegIds : Cancel(i)
  \/ \E t \in ConfTargets : HistConf(t)
  \/ \E o \in SpendTargets : HistSpend(o)
  \/ \E t \in ConfTargets : HistConfAhead(t)
  \/ \E o \in SpendTargets : HistSpendAhead(o)
  \/ \E p \in Outs : RelHit(p) # {} /\ RelevantSpend(p)
  \/ \E p \in Outs : RelHit(p) # {} /\ RelevantSpendAhead(p)

Spec == Init /\ [][Next]_vars

\* everything but the per-call observations (the step properties below are
\* action properties, which TLC evaluates on every transition)
\* reorgDepth is left out as well: it is only reported (NegativeConf carries it), nothing reads it
View == <<chain, csets, ssets, regs, byConf, byInit, spBy, chint, shint, panic, envVars, told, toldAt>>

-----------------------------------------------------------------------------
(* The property (properties.jsonl C14), written from its statement.         *)

Watching(i, k) == regs[i].k = k /\ regs[i].st = "live"
Confs(t) == IF ConfAt(t) = 0 THEN 0 ELSE Tip - ConfAt(t) + 1

\* told N confirmations exactly when the tx has them on the active chain:
\* (a) never later than the step in which the N-th confirmation connects (or
\*     the registration / the historical answer if it is already that deep)
ConfTimely == \A i \in RegIds :
  (Watching(i, "conf") /\ hc[regs[i].t] = NoR /\ Confs(regs[i].t) >= regs[i].n) => told[i]
SpendTimely == \A i \in RegIds :
  (Watching(i, "spend") /\ hs[regs[i].t] = NoR /\ SpentAt(regs[i].t) # 0) => told[i]

\* (b) never earlier, with the block of the active chain, and not again without a reorg notice
ConfTruthful == \A i \in RegIds : out'[i].ch # -1 =>
  /\ regs'[i].k = "conf"
  /\ ConfAtIn(chain', regs'[i].t) = out'[i].ch
  /\ BlkAt(chain', out'[i].ch) = out'[i].cb
  /\ Len(chain') - out'[i].ch + 1 >= regs'[i].n
  /\ (~told[i] \/ out'[i].neg # 0)
SpendTruthful == \A i \in RegIds : out'[i].sh # -1 =>
  /\ regs'[i].k = "spend"
  /\ SpentAtIn(chain', regs'[i].t) = out'[i].sh
  /\ chain'[out'[i].sh].inc[SOut(regs'[i].t)] = out'[i].sv
  /\ (~told[i] \/ out'[i].reorg # 0)

\* (c) a client that was told and has not been sent a reorg notice is right about the block:
\*     if the including block is disconnected the notice comes in that very step,
\*     hence before any renewed confirmation
Believes(i) == told[i] /\ regs[i].st # "cancelled"
ConfSound  == \A i \in RegIds : (regs[i].k = "conf" /\ Believes(i)) =>
                 /\ BlkAt(chain, toldAt[i].h) = toldAt[i].b
                 /\ ConfAt(regs[i].t) = toldAt[i].h
SpendSound == \A i \in RegIds : (regs[i].k = "spend" /\ Believes(i)) =>
                 /\ BlkAt(chain, toldAt[i].h) = toldAt[i].b
                 /\ SpentAt(regs[i].t) = toldAt[i].h

\* (d) reorg notices only for the disconnect of the including block
NegOnlyOnDisconnect == \A i \in RegIds : out'[i].neg # 0 =>
  /\ Len(chain') = Len(chain) - 1
  /\ regs[i].k = "conf" /\ ConfAt(regs[i].t) = Len(chain)
ReorgOnlyOnDisconnect == \A i \in RegIds : out'[i].reorg # 0 =>
  /\ Len(chain') = Len(chain) - 1
  /\ regs[i].k = "spend" /\ SpentAt(regs[i].t) = Len(chain)

\* (e) Done only beyond the safety limit
DoneOnlyDeep == \A i \in RegIds : out'[i].done # 0 =>
  LET at == IF regs[i].k = "conf" THEN ConfAtIn(chain', regs[i].t) ELSE SpentAtIn(chain', regs[i].t) IN
  at # 0 /\ Len(chain') - at >= Safety

\* (f) persisted hints never exceed the height at which the event really is on
\*     the active chain (the tip while it is not)
ConfHintSafe  == \A t \in ConfTargets : chint[t] # -1 =>
                    chint[t] <= (IF ConfAt(t) # 0 THEN ConfAt(t) ELSE Tip)
SpendHintSafe == \A o \in HKeys : shint[o] # -1 =>
                    shint[o] <= (IF SpentAt(o) # 0 THEN SpentAt(o) ELSE Tip)

NoPanic == ~panic

StepProps == ConfTruthful /\ SpendTruthful /\ NegOnlyOnDisconnect /\ ReorgOnlyOnDisconnect /\ DoneOnlyDeep
PConfTruthful  == [][ConfTruthful]_vars
PSpendTruthful == [][SpendTruthful]_vars
PNegOnlyOnDisconnect   == [][NegOnlyOnDisconnect]_vars
PReorgOnlyOnDisconnect == [][ReorgOnlyOnDisconnect]_vars
PDoneOnlyDeep  == [][DoneOnlyDeep]_vars

\* sanity of the model itself
TypeOK == /\ reorgDepth \in 0..MaxLen
          /\ \A e \in byConf : e[2] \in RegIds
          /\ \A i \in RegIds : regs[i].st = "free" <=> regs[i].k = "none"
          /\ maxTip >= Tip
=============================================================================
