------------------------------ MODULE CatchUpMC ------------------------------
(* Exhaustive bounded configurations of CatchUp (TxNotifier + the catch-up   *)
(* layer + a backend that stores reorged blocks).                            *)
EXTENDS CatchUp

\* one outpoint with one spender
Incl0 == {<<0>>, <<1>>}
\* one outpoint: the conflicting pair of transactions 1 and 2
Incl1 == {<<0>>, <<1>>, <<2>>}
=============================================================================
