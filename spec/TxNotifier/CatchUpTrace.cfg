SPECIFICATION CTSpec
CONSTANTS
  NOuts = 1
  Incl <- Incl1
  ConfTargets = {1, 2, 3}
  SpendTargets = {1, 3}
  Safety = 3
  MaxConfs = 2
  MaxLen = 100000
  MaxBlocks = 100000
  MaxRegs = 3
  MaxGap = 100000
  LongGaps = {140, 150}
  AllHints = TRUE
  OrphanRescan = FALSE
  CanonIds = FALSE
  Repaired = FALSE
INVARIANTS RecConfTruthful RecSpendTruthful RecConfTimely RecSpendTimely RecSound RecReorgOnlyOnRewind RecDoneOnlyDeep RecHintSafe RecFollowsActive RecHintsOnActive ConformOut ConformHints ConformDispatch ConformErr ConformCatchUp CaughtUp ViewIsBranch FollowsActiveConf FollowsActiveSpend FollowsActiveHints ConfTimely SpendTimely ConfSound SpendSound ConfHintSafe SpendHintSafe NoPanic
PROPERTIES PConfTruthful PSpendTruthful PNegOnlyOnDisconnect PReorgOnlyOnDisconnect PDoneOnlyDeep
CHECK_DEADLOCK TRUE
