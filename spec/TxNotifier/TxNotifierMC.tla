---------------------------- MODULE TxNotifierMC ----------------------------
(* Exhaustive bounded configurations of TxNotifier.                         *)
EXTENDS TxNotifier

\* one outpoint: the conflicting pair of transactions 1 and 2
Incl1 == {<<0>>, <<1>>, <<2>>}
\* two outpoints, both with two conflicting spenders
Incl2 == {<<a, b>> : a \in 0..2, b \in 0..2}
\* two outpoints with one spender each: the independent transactions 1 and 3
Incl4 == {<<a, b>> : a \in 0..1, b \in 0..1}
\* two outpoints; the second has one spender only (3 transactions, one conflicting pair)
Incl3 == {<<a, b>> : a \in 0..2, b \in 0..1}
=============================================================================
