SPECIFICATION CSpec
CONSTANTS
  NOuts = 1
  Incl <- Incl0
  ConfTargets = {1}
  SpendTargets = {}
  Safety = 2
  MaxConfs = 2
  MaxLen = 4
  MaxBlocks = 6
  MaxRegs = 1
  MaxGap = 3
  LongGaps = {}
  AllHints = FALSE
  OrphanRescan = FALSE
  CanonIds = FALSE
  Repaired = FALSE
VIEW CView
INVARIANTS CTypeOK TypeOK CaughtUp RewindWithinSafety ViewIsBranch ClientMissedRight TargetIsFork FollowsActiveConf FollowsActiveSpend FollowsActiveHints ConfTimely SpendTimely ConfSound SpendSound ConfHintSafe SpendHintSafe NoPanic
PROPERTIES PConfTruthful PSpendTruthful PNegOnlyOnDisconnect PReorgOnlyOnDisconnect PDoneOnlyDeep
CHECK_DEADLOCK FALSE
