---------------------------- MODULE CatchUpTrace ----------------------------
(* Trace validation for the catch-up layer: every recorded line of the       *)
(* executor TestVerifC14CatchUp (harness/chainntnfs/c14_catchup_test.go) must *)
(* be the corresponding CatchUp action.  The executor drives the REAL        *)
(* chainntnfs.HandleMissedBlocks / RewindChain / GetClientMissedBlocks and a  *)
(* real TxNotifier over a scripted chain backend (ChainConn) that keeps      *)
(* reorged-out blocks; it dispatches as bitcoind.go / btcd.go do.            *)
(* A line is as in TxNotifierTrace (a, i, t, n, hint, inc, blk, ev, chint,   *)
(* shint, hd, err, panic, hang) plus                                         *)
(*   tip      the TxNotifier's currentHeight after the call                  *)
(*   ret      <<called, err, best height, best block id>> (RewindDone: what  *)
(*            HandleMissedBlocks returned)                                   *)
(*   missed   the ids of the missed blocks it returned                       *)
(*   cm       ClientMissed: the ids GetClientMissedBlocks returned           *)
(* Lines:  BExtend / BExtendMany / BDisconnect  the scripted backend moved   *)
(*   (no call);  Deliver  the dispatcher got BlockConnected for main[n];     *)
(*   RewindStep  one DisconnectTip was OBSERVED inside HandleMissedBlocks    *)
(*   (the TxNotifier's height went down by one between two calls of the      *)
(*   ChainConn);  RewindDone  HandleMissedBlocks returned;  ConnectNext      *)
(*   handleBlockConnected (ConnectTip; NotifyHeight) for the next block of   *)
(*   what was returned (blk, inc = the block really connected).              *)
(* The judgement is TxNotifierTrace's (Rec* = the property on the recorded   *)
(* notifications and hints, Conform* = recorded equals model) plus           *)
(*   ConformCatchUp   tip, return values and missed blocks equal the model's *)
(*   RecFollowsActive the property with the BACKEND's chain as the truth:    *)
(*            after a handled notification the clients' belief computed from *)
(*            the recorded notifications is right about the active chain     *)
EXTENDS CatchUp, TxNotifierTrace

CTInit == TInit /\ store = (0 :> Genesis) /\ main = <<>> /\ hi = 0
          /\ pc = "idle" /\ target = 0 /\ fail = FALSE /\ newH = 0 /\ queue = <<>> /\ snap = <<>>
          /\ ret = NoRet /\ cm = <<>>

CReset ==
  /\ Reset
  /\ store' = (0 :> Genesis) /\ main' = <<>> /\ hi' = 0
  /\ pc' = "idle" /\ target' = 0 /\ fail' = FALSE /\ newH' = 0 /\ queue' = <<>> /\ snap' = <<>>
  /\ ret' = NoRet /\ cm' = <<>>

CTNext ==
  \/ Is("BExtend") /\ Cur.blk = nextBlk /\ BExtend(IncOf(Cur.inc)) /\ RGhost
  \/ Is("BExtendMany") /\ Cur.blk = nextBlk /\ Cur.n \in LongGaps /\ BExtendMany(Cur.n) /\ RGhost
  \/ Is("BDisconnect") /\ BDisconnect /\ RGhost
  \/ Is("Deliver") /\ Deliver(Cur.n) /\ RGhost
  \/ Is("RewindStep") /\ RewindStep /\ RGhost
  \/ Is("RewindDone") /\ RewindDone /\ RGhost
  \/ Is("ConnectNext") /\ queue # <<>> /\ Cur.blk = Head(queue) /\ ConnectNext /\ RGhost
  \/ Is("ClientMissed") /\ ClientMissed(Cur.blk) /\ RGhost
  \/ Is("RegConf") /\ HintOnMain(ConfAtIn(MainChain, Cur.t), Cur.hint)
        /\ RegisterConf(Cur.i, Cur.t, Cur.n, Cur.hint) /\ RGhost /\ UNCHANGED cuVars
  \/ Is("RegSpend") /\ HintOnMain(SpentAtIn(MainChain, Cur.t), Cur.hint)
        /\ RegisterSpend(Cur.i, Cur.t, Cur.hint) /\ RGhost /\ UNCHANGED cuVars
  \/ Is("Cancel") /\ Cancel(Cur.i) /\ RGhost /\ UNCHANGED cuVars
  \/ Is("HistConf") /\ OnMain /\ HistConf(Cur.t) /\ RGhost /\ UNCHANGED cuVars
  \/ Is("HistSpend") /\ OnMain /\ HistSpend(Cur.t) /\ RGhost /\ UNCHANGED cuVars
  \/ CReset
  \/ (l = Len(Trace) + 1 /\ UNCHANGED <<allVars, l, rtold, rtoldAt>>)
CTSpec == CTInit /\ [][CTNext]_<<allVars, l, rtold, rtoldAt>>

SeqOf(x) == [k \in 1..Len(x) |-> x[k]]

ConformCatchUp == Live =>
  /\ Last.tip = Tip
  /\ Last.a = "RewindDone" =>
       /\ Last.ret = <<ret.called, ret.err, ret.bh, ret.bb>>
       /\ SeqOf(Last.missed) = ret.missed
  /\ Last.a = "ClientMissed" => SeqOf(Last.cm) = cm
  /\ Last.a = "ConnectNext" => SeqOf(Last.inc) = SeqOf(store[Last.blk].inc)

(* the property, read off the RECORDED notifications with the backend's chain as the truth *)
RecFollowsActive == (Live /\ Settled) => \A i \in RegIds :
  /\ (rtold[i] /\ regs[i].st \in {"live", "done"}) =>
        /\ rtoldAt[i].h \in 1..Len(snap) /\ snap[rtoldAt[i].h] = rtoldAt[i].b
        /\ regs[i].k = "conf"  => ConfAtIn(SnapChain, regs[i].t) = rtoldAt[i].h
        /\ regs[i].k = "spend" => SpentAtIn(SnapChain, regs[i].t) = rtoldAt[i].h
  /\ (Watching(i, "conf") /\ hc[regs[i].t] = NoR /\ ConfsOnSnap(regs[i].t) >= regs[i].n) => rtold[i]
  /\ (Watching(i, "spend") /\ hs[regs[i].t] = NoR /\ SpentAtIn(SnapChain, regs[i].t) # 0) => rtold[i]
RecReorgOnlyOnRewind == Live => \A i \in RegIds :
  (Last.ev[i][3] # 0 \/ Last.ev[i][7] # 0) => Last.a = "RewindStep"
RecHintsOnActive == (Live /\ Settled) =>
  /\ \A t \in ConfTargets : Last.chint[t] # -1 =>
        Last.chint[t] <= (IF ConfAtIn(SnapChain, t) # 0 THEN ConfAtIn(SnapChain, t) ELSE Len(snap))
  /\ \A o \in SpendTargets : Last.shint[o] # -1 =>
        Last.shint[o] <= (IF SpentAtIn(SnapChain, o) # 0 THEN SpentAtIn(SnapChain, o) ELSE Len(snap))
=============================================================================
