--------------------------- MODULE TxNotifierTrace ---------------------------
(* Trace validation: every recorded call on the real chainntnfs.TxNotifier   *)
(* must be the corresponding TxNotifier action, and what the executor found  *)
(* on the clients' channels, in the real height-hint cache and in the        *)
(* returned HistoricalDispatch must equal the model's state after it.        *)
(* A line is                                                                 *)
(*   a, i, t, n, hint, inc, blk      the call (as in the schedule)           *)
(*   ev[i] = <<ch, cb, neg, done, sh, sv, reorg, upd>> per registration slot *)
(*   chint[t], shint[o]               both hint caches, -1 = no entry        *)
(*   hd = <<has, s, e>>, err, panic                                          *)
EXTENDS TxNotifier, Json
VARIABLE l

Incl1 == {<<0>>, <<1>>, <<2>>}
Incl2 == {<<a, b>> : a \in 0..2, b \in 0..2}

Trace == ndJsonDeserialize("trace.ndjson")
Last == Trace[l - 1]
Cur  == Trace[l]

TInit == Init /\ l = 1
Is(a) == l <= Len(Trace) /\ Trace[l].a = a /\ l' = l + 1
IncOf(x) == [o \in Outs |-> x[o]]

Reset ==
  /\ Is("Reset")
  /\ chain' = <<>> /\ reorgDepth' = 0
  /\ csets' = [t \in ConfTargets |-> NoCS]
  /\ ssets' = [o \in SpendTargets |-> NoSS]
  /\ regs' = [i \in RegIds |-> NoReg]
  /\ byConf' = {} /\ byInit' = {} /\ spBy' = {}
  /\ chint' = [t \in ConfTargets |-> -1]
  /\ shint' = [o \in SpendTargets |-> -1]
  /\ panic' = FALSE
  /\ nextBlk' = 1 /\ maxTip' = 0
  /\ hc' = [t \in ConfTargets |-> NoR]
  /\ hs' = [o \in SpendTargets |-> NoR]
  /\ out' = Quiet /\ hd' = NoR /\ err' = 0
  /\ told' = [i \in RegIds |-> FALSE]
  /\ toldAt' = [i \in RegIds |-> NoAt]

TNext ==
  \/ Is("Connect") /\ Cur.blk = nextBlk /\ Connect(IncOf(Cur.inc))
  \/ Is("Disconnect") /\ Disconnect
  \/ Is("RegConf") /\ RegisterConf(Cur.i, Cur.t, Cur.n, Cur.hint)
  \/ Is("RegSpend") /\ RegisterSpend(Cur.i, Cur.t, Cur.hint)
  \/ Is("Cancel") /\ Cancel(Cur.i)
  \/ Is("HistConf") /\ HistConf(Cur.t)
  \/ Is("HistSpend") /\ HistSpend(Cur.t)
  \/ Reset
  \/ (l = Len(Trace) + 1 /\ UNCHANGED <<vars, l>>)
TSpec == TInit /\ [][TNext]_<<vars, l>>

Live == l > 1 /\ Last.a # "Reset"
B(x) == IF x THEN 1 ELSE 0

(* the property, read off the RECORDED notifications and hints *)
RecConfTruthful == Live => \A i \in RegIds : Last.ev[i][1] # -1 =>
  /\ regs[i].k = "conf"
  /\ ConfAt(regs[i].t) = Last.ev[i][1]
  /\ BlkAt(chain, Last.ev[i][1]) = Last.ev[i][2]
  /\ Tip - Last.ev[i][1] + 1 >= regs[i].n
RecSpendTruthful == Live => \A i \in RegIds : Last.ev[i][5] # -1 =>
  /\ regs[i].k = "spend"
  /\ SpentAt(regs[i].t) = Last.ev[i][5]
  /\ chain[Last.ev[i][5]].inc[regs[i].t] = Last.ev[i][6]
RecReorgOnlyOnDisconnect == Live => \A i \in RegIds :
  (Last.ev[i][3] # 0 \/ Last.ev[i][7] # 0) => Last.a = "Disconnect"
RecDoneOnlyDeep == Live => \A i \in RegIds : Last.ev[i][4] # 0 =>
  LET at == IF regs[i].k = "conf" THEN ConfAt(regs[i].t) ELSE SpentAt(regs[i].t) IN
  regs[i].k # "none" /\ at # 0 /\ Tip - at >= Safety
RecHintSafe == Live =>
  /\ \A t \in ConfTargets : Last.chint[t] # -1 =>
        Last.chint[t] <= (IF ConfAt(t) # 0 THEN ConfAt(t) ELSE Tip)
  /\ \A o \in SpendTargets : Last.shint[o] # -1 =>
        Last.shint[o] <= (IF SpentAt(o) # 0 THEN SpentAt(o) ELSE Tip)
\* told-state of the clients as recorded equals the model's (so that ConfTimely/ConfSound
\* etc. of the model speak about the real clients)
ConformOut == Live => \A i \in RegIds :
  /\ Last.ev[i][1] = out[i].ch   /\ Last.ev[i][2] = out[i].cb
  /\ Last.ev[i][3] = out[i].neg  /\ Last.ev[i][4] = out[i].done
  /\ Last.ev[i][5] = out[i].sh   /\ Last.ev[i][6] = out[i].sv
  /\ Last.ev[i][7] = out[i].reorg
ConformHints == Live =>
  /\ \A t \in ConfTargets : Last.chint[t] = chint[t]
  /\ \A o \in SpendTargets : Last.shint[o] = shint[o]
ConformDispatch == Live => Last.hd = <<B(hd # NoR), hd.s, hd.e>>
ConformErr == Live => Last.err = err /\ Last.panic = B(panic)
=============================================================================
