--------------------------- MODULE TxNotifierTrace ---------------------------
(* Trace validation: every recorded call on the real chainntnfs.TxNotifier   *)
(* must be the corresponding TxNotifier action, and what the executor found  *)
(* on the clients' channels, in the real height-hint cache and in the        *)
(* returned HistoricalDispatch must equal the model's state after it.        *)
(* A line is                                                                 *)
(*   a, i, t, n, hint, inc, blk      the call (as in the schedule)           *)
(*   ev[i] = <<ch, cb, neg, done, sh, sv, reorg, upd>> per registration slot *)
(*   chint[t], shint[o]               both hint caches as read back through   *)
(*                                    every request id (conf 1..4*NOuts,      *)
(*                                    spend 1..3*NOuts), -1 = no entry        *)
(*   hd = <<has, s, e>>, err, panic, hang                                    *)
EXTENDS TxNotifier, Json
VARIABLES l,       \* next line of the trace
          rtold,   \* the clients' belief computed from the RECORDED notifications
          rtoldAt  \* ... and the block they were told about

Incl1 == {<<0>>, <<1>>, <<2>>}
Incl2 == {<<a, b>> : a \in 0..2, b \in 0..2}
\* two outpoints with one spender each: the independent transactions 1 and 3
Incl4 == {<<a, b>> : a \in 0..1, b \in 0..1}

Trace == ndJsonDeserialize("trace.ndjson")
Last == Trace[l - 1]
Cur  == Trace[l]

TInit == Init /\ l = 1 /\ rtold = [i \in RegIds |-> FALSE] /\ rtoldAt = [i \in RegIds |-> NoAt]
Is(a) == l <= Len(Trace) /\ Trace[l].a = a /\ l' = l + 1
IncOf(x) == [o \in Outs |-> x[o]]

Reset ==
  /\ Is("Reset")
  /\ chain' = <<>> /\ reorgDepth' = 0
  /\ csets' = [t \in ConfTargets |-> NoCS]
  /\ ssets' = [o \in SpendTargets |-> NoSS]
  /\ regs' = [i \in RegIds |-> NoReg]
  /\ byConf' = {} /\ byInit' = {} /\ spBy' = {}
  /\ chint' = [t \in ConfTargets |-> -1]
  /\ shint' = [o \in HKeys |-> -1]
  /\ panic' = FALSE
  /\ nextBlk' = 1 /\ maxTip' = 0
  /\ hc' = [t \in ConfTargets |-> NoR]
  /\ hs' = [o \in SpendTargets |-> NoR]
  /\ out' = Quiet /\ hd' = NoR /\ err' = 0
  /\ told' = [i \in RegIds |-> FALSE]
  /\ toldAt' = [i \in RegIds |-> NoAt]
  /\ rtold' = [i \in RegIds |-> FALSE] /\ rtoldAt' = [i \in RegIds |-> NoAt]

\* what a client that reads its channels after the call at line l believes (reorg notice first)
RGhost ==
  /\ rtold' = [i \in RegIds |->
       IF Cur.a = "Cancel" /\ Cur.i = i THEN FALSE
       ELSE IF Cur.ev[i][1] # -1 \/ Cur.ev[i][5] # -1 THEN TRUE
       ELSE IF Cur.ev[i][3] # 0 \/ Cur.ev[i][7] # 0 THEN FALSE ELSE rtold[i]]
  /\ rtoldAt' = [i \in RegIds |->
       IF Cur.a = "Cancel" /\ Cur.i = i THEN NoAt
       ELSE IF Cur.ev[i][1] # -1 THEN [h |-> Cur.ev[i][1], b |-> Cur.ev[i][2]]
       ELSE IF Cur.ev[i][5] # -1 THEN [h |-> Cur.ev[i][5], b |-> BlkAt(chain', Cur.ev[i][5])]
       ELSE IF Cur.ev[i][3] # 0 \/ Cur.ev[i][7] # 0 THEN NoAt ELSE rtoldAt[i]]

TNext ==
  \/ Is("Connect") /\ Cur.blk = nextBlk /\ Connect(IncOf(Cur.inc)) /\ RGhost
  \/ Is("Disconnect") /\ Disconnect /\ RGhost
  \/ Is("RegConf") /\ RegisterConf(Cur.i, Cur.t, Cur.n, Cur.hint) /\ RGhost
  \/ Is("RegSpend") /\ RegisterSpend(Cur.i, Cur.t, Cur.hint) /\ RGhost
  \/ Is("Cancel") /\ Cancel(Cur.i) /\ RGhost
  \/ Is("HistConf") /\ HistConf(Cur.t) /\ RGhost
  \/ Is("HistSpend") /\ HistSpend(Cur.t) /\ RGhost
  \/ Is("HistConfAhead") /\ HistConfAhead(Cur.t) /\ RGhost
  \/ Is("HistSpendAhead") /\ HistSpendAhead(Cur.t) /\ RGhost
  \/ Is("RelSpend") /\ RelevantSpend(Cur.t) /\ RGhost
  \/ Is("RelSpendAhead") /\ RelevantSpendAhead(Cur.t) /\ RGhost
  \/ Reset
  \/ (l = Len(Trace) + 1 /\ UNCHANGED <<vars, l, rtold, rtoldAt>>)
TSpec == TInit /\ [][TNext]_<<vars, l, rtold, rtoldAt>>

Live == l > 1 /\ Last.a # "Reset"
B(x) == IF x THEN 1 ELSE 0

(* the property, read off the RECORDED notifications and hints *)
RecConfTruthful == Live => \A i \in RegIds : Last.ev[i][1] # -1 =>
  /\ regs[i].k = "conf"
  /\ ConfAt(regs[i].t) = Last.ev[i][1]
  /\ BlkAt(chain, Last.ev[i][1]) = Last.ev[i][2]
  /\ Tip - Last.ev[i][1] + 1 >= regs[i].n
RecSpendTruthful == Live => \A i \in RegIds : Last.ev[i][5] # -1 =>
  /\ regs[i].k = "spend"
  /\ SpentAt(regs[i].t) = Last.ev[i][5]
  /\ chain[Last.ev[i][5]].inc[SOut(regs[i].t)] = Last.ev[i][6]
\* told exactly when the N-th confirmation is on the active chain / the outpoint is spent
RecConfTimely == Live => \A i \in RegIds :
  (Watching(i, "conf") /\ hc[regs[i].t] = NoR /\ Confs(regs[i].t) >= regs[i].n) => rtold[i]
RecSpendTimely == Live => \A i \in RegIds :
  (Watching(i, "spend") /\ hs[regs[i].t] = NoR /\ SpentAt(regs[i].t) # 0) => rtold[i]
\* a client that was told and got no reorg notice since is right about the block
RecSound == Live => \A i \in RegIds : (rtold[i] /\ regs[i].st \in {"live", "done"}) =>
  /\ BlkAt(chain, rtoldAt[i].h) = rtoldAt[i].b
  /\ (regs[i].k = "conf" => ConfAt(regs[i].t) = rtoldAt[i].h)
  /\ (regs[i].k = "spend" => SpentAt(regs[i].t) = rtoldAt[i].h)
RecReorgOnlyOnDisconnect == Live => \A i \in RegIds :
  (Last.ev[i][3] # 0 \/ Last.ev[i][7] # 0) => Last.a = "Disconnect"
RecDoneOnlyDeep == Live => \A i \in RegIds : Last.ev[i][4] # 0 =>
  LET at == IF regs[i].k = "conf" THEN ConfAt(regs[i].t) ELSE SpentAt(regs[i].t) IN
  regs[i].k # "none" /\ at # 0 /\ Tip - at >= Safety
RecHintSafe == Live =>
  /\ \A t \in ConfTargets : Last.chint[t] # -1 =>
        Last.chint[t] <= (IF ConfAt(t) # 0 THEN ConfAt(t) ELSE Tip)
  /\ \A o \in SpendTargets : Last.shint[o] # -1 =>
        Last.shint[o] <= (IF SpentAt(o) # 0 THEN SpentAt(o) ELSE Tip)
\* told-state of the clients as recorded equals the model's (so that ConfTimely/ConfSound
\* etc. of the model speak about the real clients)
ConformOut == Live => \A i \in RegIds :
  /\ Last.ev[i][1] = out[i].ch   /\ Last.ev[i][2] = out[i].cb
  /\ Last.ev[i][3] = out[i].neg  /\ Last.ev[i][4] = out[i].done
  /\ Last.ev[i][5] = out[i].sh   /\ Last.ev[i][6] = out[i].sv
  /\ Last.ev[i][7] = out[i].reorg
ConformHints == Live =>
  /\ \A t \in ConfTargets : Last.chint[t] = chint[t]
  /\ \A o \in SpendTargets : Last.shint[o] = shint[SKey(o)]
ConformDispatch == Live => Last.hd = <<B(hd # NoR), hd.s, hd.e>>
\* no error, no panic, and every call returned (hang = a send on a full channel under the mutex)
ConformErr == Live => Last.err = err /\ Last.panic = B(panic) /\ Last.hang = 0
=============================================================================
