SPECIFICATION GSpec
CONSTANTS
  NOuts = 2
  Incl <- Incl2
  ConfTargets = {1, 2, 3, 4}
  SpendTargets = {1, 2}
  Safety = 3
  MaxConfs = 3
  MaxLen = 7
  MaxBlocks = 1000
  MaxRegs = 4
  AllHints = FALSE
  OrphanRescan = FALSE
  CanonIds = FALSE
  Repaired = FALSE
  MaxHist = 20
INVARIANTS Dump
CHECK_DEADLOCK FALSE
