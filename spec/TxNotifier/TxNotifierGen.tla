---------------------------- MODULE TxNotifierGen ----------------------------
(* Behaviour generator: TxNotifier + the list of calls made, dumped as one   *)
(* NDJSON file per simulated behaviour.  Block ids count up (CanonIds =      *)
(* FALSE) so that the executor can give every block its own hash.  The       *)
(* \E w \in 1..k prefixes only weight the random choice of the simulator.    *)
EXTENDS TxNotifier, Json
CONSTANTS MaxHist
VARIABLE hist

Incl1 == {<<0>>, <<1>>, <<2>>}
Incl2 == {<<a, b>> : a \in 0..2, b \in 0..2}
\* two outpoints with one spender each: the independent transactions 1 and 3
Incl4 == {<<a, b>> : a \in 0..1, b \in 0..1}

Ev(a, i, t, n, hint, inc, blk) == [a |-> a, i |-> i, t |-> t, n |-> n, hint |-> hint, inc |-> inc, blk |-> blk]
Rec(e) == hist' = Append(hist, e)

GInit == Init /\ hist = <<>>
\* Registrations rotate over the targets with the step number (every target and
\* every depth can be registered at every second/fourth step) to keep the fan-out
\* of a state small; this restricts the simulator's choice, not the model.
Turn(x, k) == (Len(hist) + x) % k = 0
GNext ==
  /\ Len(hist) < MaxHist
  /\ \/ \E w \in 1..2 : \E inc \in Incl : Connect(inc) /\ Rec(Ev("Connect", 0, 0, 0, 0, inc, nextBlk))
     \/ \E w \in 1..5 : Disconnect /\ Rec(Ev("Disconnect", 0, 0, 0, 0, <<>>, 0))
     \/ \E i \in RegIds, t \in {x \in ConfTargets : Turn(x, Cardinality(ConfTargets))}, n \in 1..MaxConfs :
          \E hint \in HintChoices(ConfAt(t)) :
             RegisterConf(i, t, n, hint) /\ Rec(Ev("RegConf", i, t, n, hint, <<>>, 0))
     \/ \E i \in RegIds, o \in {x \in SpendTargets : Turn(x, Cardinality(SpendTargets))} :
          \E hint \in HintChoices(SpentAt(o)) :
             RegisterSpend(i, o, hint) /\ Rec(Ev("RegSpend", i, o, 0, hint, <<>>, 0))
     \/ \E i \in {x \in RegIds : Turn(x, 3)} : Cancel(i) /\ Rec(Ev("Cancel", i, 0, 0, 0, <<>>, 0))
     \/ \E w \in 1..4 : \E t \in ConfTargets : HistConf(t) /\ Rec(Ev("HistConf", 0, t, 0, 0, <<>>, 0))
     \/ \E w \in 1..4 : \E o \in SpendTargets : HistSpend(o) /\ Rec(Ev("HistSpend", 0, o, 0, 0, <<>>, 0))
     \* backend ahead: n = 1 for confirmations, the spender variant for spends
     \/ \E w \in 1..2 : \E t \in ConfTargets : HistConfAhead(t) /\ Rec(Ev("HistConfAhead", 0, t, 1, 0, <<>>, 0))
     \/ \E o \in SpendTargets : \E v \in 1..2 : HistSpendAhead(o) /\ Rec(Ev("HistSpendAhead", 0, o, v, 0, <<>>, 0))
     \* ProcessRelevantSpendTx: t = the outpoint; ahead: n = the spender variant
     \/ \E w \in 1..2 : \E p \in Outs : RelHit(p) # {} /\ RelevantSpend(p) /\ Rec(Ev("RelSpend", 0, p, 0, 0, <<>>, 0))
     \/ \E p \in Outs : \E v \in 1..2 : RelHit(p) # {} /\ RelevantSpendAhead(p) /\ Rec(Ev("RelSpendAhead", 0, p, v, 0, <<>>, 0))
GSpec == GInit /\ [][GNext]_<<vars, hist>>

Dump == Len(hist) = MaxHist =>
          ndJsonSerialize("b_" \o ToString(TLCGet("stats").traces) \o ".ndjson", hist)
=============================================================================
