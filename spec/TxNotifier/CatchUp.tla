------------------------------- MODULE CatchUp -------------------------------
(***************************************************************************)
(* C14, the layer that FEEDS the TxNotifier: the block dispatcher of the   *)
(* btcd / bitcoind notifiers and the catch-up functions of                 *)
(* chainntnfs/interface.go that all backends share                         *)
(*    HandleMissedBlocks -> GetCommonBlockAncestorHeight, RewindChain,     *)
(*    getMissedBlocks;   GetClientMissedBlocks (block-epoch clients).      *)
(* The TxNotifier itself is the module TxNotifier (EXTENDed): its `chain`  *)
(* is here the NOTIFIER'S VIEW (what it has been told to connect); the     *)
(* truth is the backend's active chain `main`.                             *)
(*                                                                         *)
(* Environment = a chain backend that keeps the headers of blocks that     *)
(* were reorged out (backendStoresReorgs = true):                          *)
(*   store  every block ever announced: id -> [prev, h, inc]; id 0 is the  *)
(*          block the notifier started at (height 0)                       *)
(*   main   the active chain, a sequence of ids                            *)
(*   BExtend(inc)  a new block on the tip;  BDisconnect  the tip is        *)
(*          reorged out (only while the reorg stays within the safety      *)
(*          limit: hi - (Len(main)-1) < Safety, hi the highest tip ever)   *)
(*   BExtendMany(k)  k blocks without watched transactions at once, k in   *)
(*          LongGaps: outages of a day and more (lengths below and above   *)
(*          chainntnfs.ReorgSafetyLimit = 144, the depth the package       *)
(*          itself calls final) - generation / traces only, in model       *)
(*          checking the same is k times BExtend within MaxGap             *)
(* An OUTAGE is any number of backend steps (k >= 0, also k >= Safety)     *)
(* whose notifications the notifier never sees, reorgs included.  The      *)
(* LENGTH of an outage is independent of the DEPTH of the reorgs in it:    *)
(* only the latter is bounded by the safety limit.                         *)
(*                                                                         *)
(* Dispatcher (bitcoind.go / btcd.go notificationDispatcher, one action    *)
(* per call into the code under test):                                     *)
(*   Deliver(h)   chain.BlockConnected for the block main[h] arrives.      *)
(*                prev = best hash: the block is connected directly;       *)
(*                otherwise HandleMissedBlocks(best, h) starts:            *)
(*                GetBlockHash(best.Height) (fails if the active chain is  *)
(*                shorter: `fail`, the call returns the error and nothing  *)
(*                changes), common ancestor of the best block and the      *)
(*                main-chain block of its height by walking both PrevBlock *)
(*                links (AncOf), then RewindChain to it                    *)
(*   RewindStep   one DisconnectTip of RewindChain (the TxNotifier's       *)
(*                mutex is taken per call: registrations may interleave)   *)
(*   RewindDone   HandleMissedBlocks returns the new best block and the    *)
(*                missed blocks main[anc+1 .. h-1]                         *)
(*   ConnectNext  handleBlockConnected (ConnectTip; NotifyHeight) for the  *)
(*                next missed block, at last for the announced one         *)
(*   ClientMissed(b) GetClientMissedBlocks for an epoch client whose best  *)
(*                block is b (any stored block): pure, recorded in `cm`    *)
(* The backend does not move while one HandleMissedBlocks call runs (pc =  *)
(* "rewind"); it may move between the calls of the dispatcher.             *)
(*                                                                         *)
(* Property at this layer (C14 judged AFTER the catch-up):                 *)
(*   CaughtUp     when a notification has been handled without error the   *)
(*                notifier's view is exactly the active chain up to the    *)
(*                announced block (as it was when the notification was     *)
(*                handled) - whatever the length of the outage and the     *)
(*                reorgs during it - so that the TxNotifier invariants     *)
(*                (ConfSound, ConfTimely, hints ..., which always speak    *)
(*                about `chain`) speak about the active chain: N           *)
(*                confirmations exactly there, reorg notice before a       *)
(*                renewed confirmation, hints not above the real height    *)
(*   RewindWithinSafety  the rewind only disconnects what the TxNotifier   *)
(*                still tracks (discharges the assumption of Disconnect)   *)
(*   ViewIsBranch the notifier's view is always a branch of the store      *)
(*   ClientMissedRight  GetClientMissedBlocks = the active chain after     *)
(*                the common ancestor with the client's block              *)
(*   FollowsActive*  the statement of C14 itself with the BACKEND's chain  *)
(*                (snap) as the truth, not the notifier's view: once the   *)
(*                notification is handled, a client holds a Confirmed /    *)
(*                Spend not revoked by a reorg notice exactly for what is  *)
(*                on the active chain, with the block of that chain, and   *)
(*                no persisted hint lies above the real height there       *)
(* Historical rescans are answered while the view is a prefix of the       *)
(* active chain (OnMain); callers' hints are correct on both.              *)
(*                                                                         *)
(* Binding (vlib/props/c14.py, part "catchup"): CatchUpMC (exhaustive,     *)
(* LongGaps = {}), CatchUpGen behaviours and the fixed schedules of        *)
(* directed_catchup/ (a watched event in the notifier's tip block, a       *)
(* depth-2 reorg of its two best blocks during an outage of 140 / 150      *)
(* further blocks) are replayed by harness/chainntnfs/c14_catchup_test.go  *)
(* on the real HandleMissedBlocks / RewindChain / GetClientMissedBlocks +  *)
(* TxNotifier + bolt hint cache over a scripted ChainConn; CatchUpTrace    *)
(* judges the recorded lines.  The executor parks every ChainConn call of  *)
(* HandleMissedBlocks, so that RewindStep lines are DisconnectTips that    *)
(* were observed (TxNotifier height), not inferred.  When the real call    *)
(* does not do what the schedule expects (e.g. returns without rewinding)  *)
(* the line says what it did, the behaviour ends there and the step is     *)
(* rejected as "not allowed by the model" (deadlock at that line).         *)
(* Not modelled: backendStoresReorgs = false (neutrino), a backend that    *)
(* moves during HandleMissedBlocks, failing ChainConn calls other than     *)
(* GetBlockHash beyond the tip, the block-epoch client queues.             *)
(***************************************************************************)
EXTENDS TxNotifier

CONSTANTS MaxGap,    \* model bound: the backend runs at most MaxGap blocks ahead of the notifier (BExtend)
          LongGaps   \* lengths of the long outages of BExtendMany ({} in model checking)

VARIABLES
  store,    \* backend: id -> [prev, h, inc]
  main,     \* backend: active chain (ids)
  hi,       \* backend: highest tip ever
  pc,       \* dispatcher: "idle" | "rewind" | "connect"
  target,   \* RewindChain's target height (the common ancestor)
  fail,     \* HandleMissedBlocks could not look up the active chain at the best height
  newH,     \* height of the announced block
  queue,    \* blocks still to be connected for the notification being handled
  snap,     \* the active chain up to the announced block when the notification was handled
  ret,      \* what the last HandleMissedBlocks returned: [called, err, bh, bb, missed]
  cm        \* what the last GetClientMissedBlocks returned (sequence of ids)

cuVars == <<store, main, hi, pc, target, fail, newH, queue, snap, ret, cm>>
allVars == <<vars, cuVars>>

NoRet == [called |-> 0, err |-> 0, bh |-> 0, bb |-> 0, missed |-> <<>>]
Genesis == [prev |-> -1, h |-> 0, inc |-> <<>>]

MainId(h) == IF h = 0 THEN 0 ELSE main[h]
BestId    == IF Tip = 0 THEN 0 ELSE chain[Tip].id
MainChain == [h \in 1..Len(main) |-> [id |-> main[h], inc |-> store[main[h]].inc]]
ChainIds  == [h \in 1..Tip |-> chain[h].id]
OnMain    == Tip <= Len(main) /\ \A h \in 1..Tip : chain[h].id = main[h]

\* GetCommonBlockAncestorHeight(reorgHash, chainHash): both at the same height
RECURSIVE AncOf(_, _)
AncOf(a, b) == IF a = b THEN store[a].h ELSE AncOf(store[a].prev, store[b].prev)

CInit ==
  /\ Init
  /\ store = (0 :> Genesis) /\ main = <<>> /\ hi = 0
  /\ pc = "idle" /\ target = 0 /\ fail = FALSE /\ newH = 0 /\ queue = <<>> /\ snap = <<>>
  /\ ret = NoRet /\ cm = <<>>

\* a step that no client observes
Silent == out' = Quiet /\ hd' = NoR /\ err' = 0 /\ UNCHANGED <<told, toldAt>>

-----------------------------------------------------------------------------
(* the backend *)
BExtend(inc) ==
  /\ pc # "rewind"
  /\ Len(main) < MaxLen /\ nextBlk <= MaxBlocks /\ Len(main) - Tip < MaxGap
  /\ inc \in Incl
  /\ \A o \in Outs : inc[o] # 0 => SpentAtIn(MainChain, o) = 0
  /\ store' = store @@ (nextBlk :> [prev |-> MainId(Len(main)), h |-> Len(main) + 1, inc |-> inc])
  /\ main' = Append(main, nextBlk)
  /\ nextBlk' = nextBlk + 1
  /\ hi' = Max(hi, Len(main) + 1)
  /\ Silent
  /\ UNCHANGED <<codeVars, maxTip, hc, hs, pc, target, fail, newH, queue, snap, ret, cm>>

\* a long outage: k blocks that contain nothing watched
NoInc == [o \in Outs |-> 0]
BExtendMany(k) ==
  /\ pc = "idle"
  /\ Len(main) + k <= MaxLen /\ nextBlk + k - 1 <= MaxBlocks
  /\ store' = store @@ [b \in nextBlk..(nextBlk + k - 1) |->
                  [prev |-> IF b = nextBlk THEN MainId(Len(main)) ELSE b - 1,
                   h    |-> Len(main) + 1 + (b - nextBlk),
                   inc  |-> NoInc]]
  /\ main' = main \o [j \in 1..k |-> nextBlk + j - 1]
  /\ nextBlk' = nextBlk + k
  /\ hi' = Max(hi, Len(main) + k)
  /\ Silent
  /\ UNCHANGED <<codeVars, maxTip, hc, hs, pc, target, fail, newH, queue, snap, ret, cm>>

BDisconnect ==
  /\ pc # "rewind"
  /\ Len(main) > 0
  /\ hi - (Len(main) - 1) < Safety
  /\ main' = SubSeq(main, 1, Len(main) - 1)
  /\ Silent
  /\ UNCHANGED <<codeVars, envVars, store, hi, pc, target, fail, newH, queue, snap, ret, cm>>

-----------------------------------------------------------------------------
(* the dispatcher *)
\* a notification for a block the notifier already has at that height is not delivered (again)
Deliver(h) ==
  /\ pc = "idle"
  /\ h \in 1..Len(main)
  /\ ~(h <= Tip /\ chain[h].id = main[h])
  /\ newH' = h
  /\ cm' = <<>> /\ ret' = NoRet
  /\ snap' = SubSeq(main, 1, h)
  /\ IF store[main[h]].prev = BestId
       THEN \* the next block of our chain: handleBlockConnected right away
            /\ pc' = "connect" /\ queue' = <<main[h]>>
            /\ UNCHANGED <<target, fail>>
       ELSE \* HandleMissedBlocks: GetBlockHash(best.Height) (fails if the active chain is
            \* shorter), common ancestor, then RewindChain
            /\ pc' = "rewind" /\ queue' = <<>>
            /\ fail' = (Len(main) < Tip)
            /\ target' = IF Len(main) < Tip THEN Tip ELSE AncOf(BestId, MainId(Tip))
  /\ Silent
  /\ UNCHANGED <<codeVars, envVars, store, main, hi>>

RewindStep ==
  /\ pc = "rewind" /\ Tip > target
  /\ Disconnect
  /\ UNCHANGED cuVars

\* getMissedBlocks(anc+1, newHeight); an announced block at or below the common
\* ancestor makes it fail ("starting height is greater than ending height")
RewindDone ==
  /\ pc = "rewind" /\ Tip <= target
  /\ IF fail \/ newH <= target
       THEN /\ pc' = "idle" /\ queue' = <<>> /\ snap' = <<>>
            /\ ret' = [called |-> 1, err |-> 1, bh |-> Tip, bb |-> BestId, missed |-> <<>>]
       ELSE /\ pc' = "connect"
            /\ queue' = SubSeq(main, target + 1, newH)
            /\ ret' = [called |-> 1, err |-> 0, bh |-> target, bb |-> MainId(target),
                       missed |-> SubSeq(main, target + 1, newH - 1)]
            /\ UNCHANGED snap
  /\ Silent
  /\ fail' = FALSE
  /\ UNCHANGED <<codeVars, envVars, store, main, hi, target, newH, cm>>

ConnectNext ==
  /\ pc = "connect" /\ queue # <<>>
  /\ O1Guard
  /\ ConnectBlk(store[Head(queue)].inc, Head(queue))
  /\ maxTip' = Max(maxTip, Tip + 1)
  /\ queue' = Tail(queue)
  /\ pc' = IF Len(queue) = 1 THEN "idle" ELSE "connect"
  /\ UNCHANGED <<nextBlk, hc, hs, store, main, hi, target, fail, newH, snap, ret, cm>>

\* GetClientMissedBlocks(client best = b, notifier best height = Tip, stores reorgs)
ClientMissedOf(b) ==
  LET a == AncOf(b, MainId(store[b].h)) IN SubSeq(main, a + 1, Tip)
ClientMissed(b) ==
  /\ pc = "idle" /\ OnMain
  /\ b \in DOMAIN store /\ store[b].h <= Tip
  /\ cm' = ClientMissedOf(b)
  /\ Silent
  /\ UNCHANGED <<codeVars, envVars, store, main, hi, pc, target, fail, newH, queue, snap, ret>>

-----------------------------------------------------------------------------
(* the clients of the TxNotifier (actions of TxNotifier, the catch-up state untouched) *)
\* a caller's hint is right on the active chain as well as on the notifier's view
HintOnMain(at, hint) == (at # 0 => hint <= at) /\ hint <= Len(main) + 1

Clients ==
  \/ \E i \in RegIds, t \in ConfTargets, n \in 1..MaxConfs :
        \E hint \in HintChoices(ConfAt(t)) :
           HintOnMain(ConfAtIn(MainChain, t), hint) /\ RegisterConf(i, t, n, hint)
  \/ \E i \in RegIds, o \in SpendTargets :
        \E hint \in HintChoices(SpentAt(o)) :
           HintOnMain(SpentAtIn(MainChain, o), hint) /\ RegisterSpend(i, o, hint)
  \/ \E i \in RegIds : Cancel(i)
  \/ OnMain /\ \E t \in ConfTargets : HistConf(t)
  \/ OnMain /\ \E o \in SpendTargets : HistSpend(o)

CNext ==
  \/ \E inc \in Incl : BExtend(inc)
  \/ \E k \in LongGaps : BExtendMany(k)
  \/ BDisconnect
  \/ \E h \in 1..Len(main) : Deliver(h)
  \/ RewindStep
  \/ RewindDone
  \/ ConnectNext
  \/ \E b \in DOMAIN store : ClientMissed(b)
  \/ Clients /\ UNCHANGED cuVars

CSpec == CInit /\ [][CNext]_allVars

CView == <<View, cuVars>>

-----------------------------------------------------------------------------
(* the property at this layer *)
CaughtUp == (pc = "idle" /\ snap # <<>>) => ChainIds = snap

RewindWithinSafety == (pc = "rewind" /\ Tip > target) => maxTip - (Tip - 1) < Safety

ViewIsBranch == \A h \in 1..Tip :
  /\ chain[h].id \in DOMAIN store
  /\ store[chain[h].id].h = h
  /\ store[chain[h].id].inc = chain[h].inc
  /\ store[chain[h].id].prev = (IF h = 1 THEN 0 ELSE chain[h - 1].id)

\* GetClientMissedBlocks starts right after the fork point of the client's branch: the
\* highest block of the branch of b that is on the active chain
RECURSIVE BranchAt(_, _)
BranchAt(b, k) == IF store[b].h = k THEN b ELSE BranchAt(store[b].prev, k)
Fork(b) == LET S == {k \in 0..store[b].h : BranchAt(b, k) = MainId(k)} IN
           CHOOSE k \in S : \A j \in S : j <= k
ClientMissedRight == (pc = "idle" /\ OnMain) => \A b \in DOMAIN store : store[b].h <= Tip =>
  ClientMissedOf(b) = SubSeq(main, Fork(b) + 1, Tip)
\* ... and so does the rewind of HandleMissedBlocks
TargetIsFork == (pc = "rewind" /\ ~fail) => target = Fork(BestId) \/ Tip <= target

\* C14 with the backend's chain as the truth: `snap` is the active chain up to the announced
\* block; the notification has been handled (pc = "idle") without error (snap # <<>>)
SnapChain == [k \in 1..Len(snap) |-> [id |-> snap[k], inc |-> store[snap[k]].inc]]
Settled   == pc = "idle" /\ snap # <<>>
ConfsOnSnap(t) == IF ConfAtIn(SnapChain, t) = 0 THEN 0 ELSE Len(snap) - ConfAtIn(SnapChain, t) + 1
FollowsActiveConf == Settled => \A i \in RegIds : regs[i].k = "conf" =>
  /\ Believes(i) => /\ toldAt[i].h \in 1..Len(snap) /\ snap[toldAt[i].h] = toldAt[i].b
                    /\ ConfAtIn(SnapChain, regs[i].t) = toldAt[i].h
  /\ (Watching(i, "conf") /\ hc[regs[i].t] = NoR /\ ConfsOnSnap(regs[i].t) >= regs[i].n) => told[i]
FollowsActiveSpend == Settled => \A i \in RegIds : regs[i].k = "spend" =>
  /\ Believes(i) => /\ toldAt[i].h \in 1..Len(snap) /\ snap[toldAt[i].h] = toldAt[i].b
                    /\ SpentAtIn(SnapChain, regs[i].t) = toldAt[i].h
  /\ (Watching(i, "spend") /\ hs[regs[i].t] = NoR /\ SpentAtIn(SnapChain, regs[i].t) # 0) => told[i]
FollowsActiveHints == Settled =>
  /\ \A t \in ConfTargets : chint[t] # -1 =>
        chint[t] <= (IF ConfAtIn(SnapChain, t) # 0 THEN ConfAtIn(SnapChain, t) ELSE Len(snap))
  /\ \A o \in SpendTargets : shint[SKey(o)] # -1 =>
        shint[SKey(o)] <= (IF SpentAtIn(SnapChain, o) # 0 THEN SpentAtIn(SnapChain, o) ELSE Len(snap))

CTypeOK ==
  /\ pc \in {"idle", "rewind", "connect"}
  /\ hi >= Len(main) /\ maxTip <= hi
  /\ (pc = "connect") = (queue # <<>>)
  /\ \A k \in 1..Len(queue) : store[queue[k]].h = Tip + k
=============================================================================
