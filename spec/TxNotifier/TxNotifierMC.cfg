SPECIFICATION Spec
CONSTANTS
  NOuts = 1
  Incl <- Incl1
  ConfTargets = {1, 2}
  SpendTargets = {}
  Safety = 3
  MaxConfs = 3
  MaxLen = 4
  MaxBlocks = 5
  MaxRegs = 2
  AllHints = TRUE
  OrphanRescan = FALSE
  CanonIds = TRUE
  Repaired = FALSE
VIEW View
INVARIANTS TypeOK ConfTimely SpendTimely ConfSound SpendSound ConfHintSafe SpendHintSafe NoPanic
PROPERTIES PConfTruthful PSpendTruthful PNegOnlyOnDisconnect PReorgOnlyOnDisconnect PDoneOnlyDeep
CHECK_DEADLOCK FALSE
