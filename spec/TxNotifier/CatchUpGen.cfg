SPECIFICATION GSpec
CONSTANTS
  NOuts = 1
  Incl <- Incl1
  ConfTargets = {1, 2, 3}
  SpendTargets = {1, 3}
  Safety = 3
  MaxConfs = 2
  MaxLen = 175
  MaxBlocks = 400
  MaxRegs = 3
  MaxGap = 3
  LongGaps = {140, 150}
  AllHints = FALSE
  OrphanRescan = FALSE
  CanonIds = FALSE
  Repaired = FALSE
  MaxHist = 30
INVARIANTS Dump
CHECK_DEADLOCK FALSE
