----------------------------- MODULE CatchUpGen -----------------------------
(* Behaviour generator for CatchUp: the calls of the dispatcher, of the      *)
(* clients and the moves of the backend, dumped as one NDJSON schedule per   *)
(* simulated behaviour.  An event is                                         *)
(*   a, i, t, n, hint, inc, blk                                              *)
(* with  BExtend: inc, blk (id of the new block)   BExtendMany: n = k blocks,*)
(* blk = id of the first   Deliver: n = height of the announced block        *)
(* ClientMissed: blk = the client's best block   ConnectNext: blk = the      *)
(* block the model connects (the executor connects what the real             *)
(* HandleMissedBlocks returned)   clients' events as in TxNotifierGen.       *)
(*                                                                           *)
(* The restrictions below only steer the simulator (small fan-out, long      *)
(* queues drained without detours, the announced heights near the            *)
(* notifier's tip or at the backend's tip); they do not restrict the model.  *)
(* `steps` counts the events other than the draining of a long queue; a      *)
(* behaviour is dumped after MaxHist of them.                                *)
EXTENDS CatchUp, Json
CONSTANTS MaxHist
VARIABLES hist, steps

Incl0 == {<<0>>, <<1>>}
Incl1 == {<<0>>, <<1>>, <<2>>}
Incl2 == {<<a, b>> : a \in 0..2, b \in 0..2}

Ev(a, i, t, n, hint, inc, blk) == [a |-> a, i |-> i, t |-> t, n |-> n, hint |-> hint, inc |-> inc, blk |-> blk]
Rec(e) == hist' = Append(hist, e)

GInit == CInit /\ hist = <<>> /\ steps = 0

\* a long queue is being drained (nothing else happens in the middle of it)
Draining == pc = "connect" /\ Len(queue) > 3 /\ Tip - target >= 2
Turn(x, k) == (Len(hist) + x) % k = 0

\* announced heights: around the notifier's tip, or the backend's tip
DeliverHeights == {h \in 1..Len(main) : h \in (Tip - 1)..(Tip + 2) \/ h = Len(main)}
\* clients of GetClientMissedBlocks: recent blocks, on the active chain or not
EpochClients == {b \in DOMAIN store : store[b].h <= Tip /\ store[b].h >= Tip - 2}

GClients ==
  \/ \E i \in RegIds, t \in {x \in ConfTargets : Turn(x, Cardinality(ConfTargets))}, n \in 1..MaxConfs :
        \E hint \in HintChoices(ConfAt(t)) :
           /\ HintOnMain(ConfAtIn(MainChain, t), hint) /\ RegisterConf(i, t, n, hint)
           /\ Rec(Ev("RegConf", i, t, n, hint, <<>>, 0))
  \/ \E i \in RegIds, o \in {x \in SpendTargets : Turn(x, Cardinality(SpendTargets))} :
        \E hint \in HintChoices(SpentAt(o)) :
           /\ HintOnMain(SpentAtIn(MainChain, o), hint) /\ RegisterSpend(i, o, hint)
           /\ Rec(Ev("RegSpend", i, o, 0, hint, <<>>, 0))
  \/ \E i \in {x \in RegIds : Turn(x, 3)} : Cancel(i) /\ Rec(Ev("Cancel", i, 0, 0, 0, <<>>, 0))
  \/ \E w \in 1..3 : OnMain /\ \E t \in ConfTargets : HistConf(t) /\ Rec(Ev("HistConf", 0, t, 0, 0, <<>>, 0))
  \/ \E w \in 1..3 : OnMain /\ \E o \in SpendTargets : HistSpend(o) /\ Rec(Ev("HistSpend", 0, o, 0, 0, <<>>, 0))

GNext ==
  /\ steps < MaxHist
  /\ IF Draining
       THEN /\ ConnectNext /\ Rec(Ev("ConnectNext", 0, 0, 0, 0, store[Head(queue)].inc, Head(queue)))
            /\ UNCHANGED steps
       ELSE /\ steps' = steps + 1
            /\ \/ \E w \in 1..2 : \E inc \in Incl : BExtend(inc) /\ Rec(Ev("BExtend", 0, 0, 0, 0, inc, nextBlk))
               \/ \E k \in LongGaps : Len(main) > 0 /\ BExtendMany(k) /\ Rec(Ev("BExtendMany", 0, 0, k, 0, <<>>, nextBlk))
               \/ \E w \in 1..3 : BDisconnect /\ Rec(Ev("BDisconnect", 0, 0, 0, 0, <<>>, 0))
               \/ \E w \in 1..2 : \E h \in DeliverHeights : Deliver(h) /\ Rec(Ev("Deliver", 0, 0, h, 0, <<>>, main[h]))
               \/ \E w \in 1..6 : RewindStep /\ Rec(Ev("RewindStep", 0, 0, 0, 0, <<>>, 0))
               \/ \E w \in 1..6 : RewindDone /\ Rec(Ev("RewindDone", 0, 0, 0, 0, <<>>, 0))
               \/ \E w \in 1..8 : ConnectNext /\ Rec(Ev("ConnectNext", 0, 0, 0, 0, store[Head(queue)].inc, Head(queue)))
               \/ \E b \in EpochClients : Turn(b, 2) /\ ClientMissed(b) /\ Rec(Ev("ClientMissed", 0, 0, 0, 0, <<>>, b))
               \/ GClients /\ UNCHANGED cuVars
GSpec == GInit /\ [][GNext]_<<allVars, hist, steps>>

Dump == steps = MaxHist =>
          ndJsonSerialize("b_" \o ToString(TLCGet("stats").traces) \o ".ndjson", hist)
=============================================================================
