SPECIFICATION MCSpec
CONSTANTS
  NC = 2
  K1 = "keysend"
  K2 = "regular"
  V = 4
  Amts = {3, 2, 4, 5}
  Tots = {3, 4, 5}
  InvDelta = 6
  RejectDelta = 4
  MaxHeight = 2
  MaxNow = 1
  Margins = {0, 1}
  ExpiredOffs = {1}
  KeysendQuirk = TRUE
  MaxEvents = 4
VIEW FullView
PROPERTIES ReplaySameVerdict
CHECK_DEADLOCK FALSE
