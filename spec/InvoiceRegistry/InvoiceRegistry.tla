-------------------------- MODULE InvoiceRegistry --------------------------
(***************************************************************************)
(* The exit-hop settlement logic of lnd: invoices.InvoiceRegistry          *)
(* (invoiceregistry.go) on top of invoices.UpdateInvoice                   *)
(* (update.go: updateLegacy / updateMpp / resolveReplayedHtlc,             *)
(* update_invoice.go: addHTLCs / cancelHTLCs / settleHodlInvoice /         *)
(* cancelInvoice) and the reference lookup of the two stores               *)
(* (channeldb/invoices.go fetchInvoiceNumByRef, sql_store.go               *)
(* getInvoiceByRef).                                                       *)
(*                                                                         *)
(* One action = one registry entry point = one durable transaction         *)
(* (UpdateInvoice) plus the notifications sent under the registry lock:    *)
(*   Notify    NotifyExitHopHtlc for a circuit key not on any invoice,     *)
(*             including the interceptor client's verdict (cs)             *)
(*             (a keysend call has two critical sections - KsInsert: the   *)
(*             just-in-time AddInvoice, NotifyLocked: the update under the *)
(*             registry lock - between which other calls may run)          *)
(*   Replay    NotifyExitHopHtlc for a circuit key recorded on an invoice, *)
(*             whatever the interceptor client answers to that call (ic)   *)
(*   Settle    SettleHodlInvoice                                           *)
(*   Cancel    CancelInvoice                                               *)
(*   Tick      the clock advances by half an HtlcHoldDuration; the event   *)
(*             loop's auto-release timers that are due run cancelSingleHtlc*)
(*   Block     the chain height the links report grows by one              *)
(*                                                                         *)
(* An HTLC is one of five payload classes (pl): "legacy" (no MPP record,   *)
(* no path id; a total_amount_msat in the payload is ignored), "mpp",      *)
(* "amp", "keysend", and "blinded": an HTLC that arrived over a blinded    *)
(* path - it carries the path id (in the place of the payment address) and *)
(* a total amount in the final-hop payload, but no MPP record.  The path   *)
(* id is looked up and compared like a payment address (ad: nobody's /     *)
(* this invoice's / the other invoice's); blinded and MPP shards of one    *)
(* invoice form ONE set.  A blinded-path invoice is, at this layer, a      *)
(* "regular"/"hold" invoice whose payment address is handed out as path id.*)
(*                                                                         *)
(* The HTLC interceptor (RegistryConfig.HtlcInterceptor) is part of the    *)
(* Notify critical section: its client may answer CancelSet for an HTLC    *)
(* (cs = TRUE); the registry then fails that HTLC with "external           *)
(* validation failed" and cancels every ACCEPTED HTLC of its set, the      *)
(* invoice stays open (ApplyCancelHtlcs).  Together with Tick (MPP         *)
(* timeout) this gives hold / regular invoices that carry canceled shards  *)
(* of an earlier incomplete set when a later complete set is accepted,     *)
(* settled or canceled.                                                    *)
(* The client's answer has a second field, AmountPaid (ma # 0): the        *)
(* registry then evaluates and records the HTLC with THAT amount instead   *)
(* of the amount on the wire (ctx.amtPaid is overwritten before the update *)
(* callback; Eff).  Only the just-in-time keysend invoice, inserted by     *)
(* processKeySend BEFORE the interceptor is asked, takes the wire amount   *)
(* as its value.                                                           *)
(* The interceptor is asked on EVERY call, also for a circuit key that is  *)
(* already recorded on the invoice; there the update callback looks at the *)
(* recorded HTLC first (resolveReplayedHtlc) and the client's answer - a   *)
(* CancelSet as well as a modified amount - has no effect: Replay(c, ic)   *)
(* is the same step for every answer ic ("a replayed HTLC gets the same    *)
(* verdict as originally").                                                *)
(*                                                                         *)
(* Circuit keys: an HTLC is identified by the pair (short channel id,      *)
(* HTLC id), two uint64.  The model names the keys of one behaviour 1..NC; *)
(* `kp` names the pattern of value classes these stand for (KeyOf): plain  *)
(* confirmed scids with small ids, alias / zero-conf scids (>= 2^63), the  *)
(* int64 boundary 2^63-1 | 2^63, 2^64-1, HTLC ids up to 2^63-1, keys that  *)
(* differ in the channel only or in the id only.  No action reads kp: the  *)
(* specification says that a circuit key is an opaque identity and that    *)
(* every state change of an HTLC is durable whatever its key looks like -  *)
(* the trace specification compares the invoice READ BACK FROM THE STORE   *)
(* after every event, under the concrete keys, with the model.             *)
(*                                                                         *)
(* Two invoice slots of configurable kind, NC circuit keys.  Hashes,       *)
(* preimages and payment addresses are identified with the invoice slot    *)
(* that owns them (h = 1..2, ad = 0 (an address nobody owns), 1..2); AMP   *)
(* shares are abstracted to "the HTLC carries the share/hash the sender    *)
(* derived for member c of set s" (good) and a set reconstructs iff        *)
(* exactly the intended members are present and all are good.              *)
(*                                                                         *)
(* The property (C15) is NOT the action logic: it is the block of          *)
(* invariants and action properties at the end, written from the           *)
(* statement over the recorded state and the resolutions handed out.       *)
(***************************************************************************)
EXTENDS Integers, Sequences, FiniteSets, TLC

CONSTANTS NC,            \* number of circuit keys
          K1, K2,        \* kinds of the two invoice slots
          V,             \* invoice value in units (zeroamt: 0, keysend: the first HTLC's amount)
          InvDelta,      \* Terms.FinalCltvDelta of the pre-created invoices
          RejectDelta,   \* RegistryConfig.FinalCltvRejectDelta (= delta of keysend invoices)
          MaxHeight, MaxNow,
          Amts, Tots,    \* HTLC amounts and declared totals the model checker sends ({V-1, V/2, V, V+1}, {V-1, V, V+1})
          KeysendQuirk,  \* TRUE: model processKeySend's expiry pre-check on replays (deviation D1)
          Margins,       \* expiries sent: the required one + m - 1 for m in Margins ({0, 1, 2}; m = 2 behaves
                         \* like m = 1 in the model)
          ExpiredOffs    \* how far below the current height an already expired HTLC's expiry lies
                         \* ({1, 10, 90}; any one value is representative for the model: expiries are only
                         \* compared with height + a positive delta)

VARIABLES kinds,     \* <<kind of slot 1, kind of slot 2>>: what was added with AddInvoice at start (never changes)
          kp,        \* name of the circuit-key pattern of this behaviour (never changes, read by no action)
          inv,       \* slot -> [ex, st, paid, val]                 the durable invoice
          htlc,      \* circuit -> HTLC record on its invoice, or NoHtlc (Invoice.Htlcs)
          sub,       \* circuits with a live hodl subscription      (hodlSubscriptions)
          timer,     \* circuits with a pending auto-release timer  (autoReleaseHeap)
          setOwner,  \* AMP set id -> invoice slot that indexed it  (set id index), 0 = none
          height, now,
          pend,      \* keysend HTLCs between processKeySend (invoice inserted) and the locked part of their call
          last       \* observation of the last step: direct resolution + hodl deliveries
vars == <<kinds, kp, inv, htlc, sub, timer, setOwner, height, now, pend, last>>

C   == 1..NC
Inv == 1..2
Kind(k)     == kinds[k]
AllKinds    == {"regular", "noaddr", "hold", "holdna", "zeroamt", "amp", "keysend"}
IsHodl(k)   == Kind(k) \in {"hold", "holdna"}
IsAmp(k)    == Kind(k) = "amp"
NeedAddr(k) == Kind(k) \in {"regular", "hold", "zeroamt"}     \* feature bit PaymentAddrRequired
HasAddr(k)  == Kind(k) # "keysend"                            \* keysend invoices carry BlankPayAddr
Delta(k)    == IF Kind(k) = "keysend" THEN RejectDelta ELSE InvDelta
Need(k)     == IF Delta(k) > RejectDelta THEN Delta(k) ELSE RejectDelta
Sets        == {"s1", "s2"}
Members(s)  == IF s = "s1" THEN {1, 2} ELSE {3}               \* the shards the AMP sender split the root into

\* outcome strings are lnd's FailResolutionResult / SettleResolutionResult .String()
WSettled == "settled"
WReplaySettled == "replayed htlc to settled invoice"
WDupSettled == "accepting duplicate payment to settled invoice"
WReplayCanceled == "replayed htlc to canceled invoice"
WAlreadyCanceled == "invoice already canceled"
WAmountTooLow == "amount too low"
WExpiry == "expiry too soon"
WCanceled == "canceled"
WNotOpen == "invoice no longer open"
WTimeout == "mpp timeout"
WAddr == "payment address mismatch"
WTotMismatch == "htlc total amt doesn't match set total"
WTotLow == "set total too low for invoice"
WNotFound == "invoice not found"
WKeysend == "invalid keysend parameters"
WMppInProgress == "mpp reception in progress"
WType == "htlc invoice type mismatch"
WAmpRecon == "amp reconstruction failed"
WExternal == "external validation failed"

(***************************************************************************)
(* The circuit-key domain.  chan: "low" a confirmed scid (1:2:3), "i63m" = *)
(* 2^63-1, "i63" = 2^63, "alias" = an scid of the alias range (block       *)
(* height 16_000_000, > 2^63), "alias2" another one, "max" = 2^64-1.       *)
(* id: "n" = the circuit's number, "same" = 7 for every circuit, "i32n" =  *)
(* 2^32 + number, "bign" = 2^63-1 - number, "i63m" = 2^63-1.  HTLC ids are *)
(* per-channel counters (lnwallet ReceiveHTLC accepts an HTLC only with    *)
(* the id its own counter expects) and the SQL schema holds them as BIGINT:*)
(* ids >= 2^63 are outside the domain (see O6 at the end of the module).   *)
(***************************************************************************)
KeyPatterns == {"plain", "alias", "chanonly", "edge", "bigid", "mixed"}
KeyOf(pat, c) ==
  LET K(ch, id) == [ch |-> ch, id |-> id, n |-> IF id \in {"n", "i32n", "bign"} THEN c ELSE 0] IN
  CASE pat = "plain"    -> K("low", "n")
    [] pat = "alias"    -> K("alias", "n")
    [] pat = "chanonly" -> K(CASE c = 1 -> "low" [] c = 2 -> "alias" [] c = 3 -> "i63m" [] OTHER -> "i63", "same")
    [] pat = "edge"     -> CASE c = 1 -> K("i63m", "n") [] c = 2 -> K("i63", "n") [] c = 3 -> K("max", "n") [] OTHER -> K("max", "i63m")
    [] pat = "bigid"    -> CASE c = 1 -> K("low", "i63m") [] c = 2 -> K("low", "bign") [] c = 3 -> K("alias", "bign") [] OTHER -> K("alias", "i63m")
    [] pat = "mixed"    -> CASE c = 1 -> K("alias", "n") [] c = 2 -> K("low", "n") [] c = 3 -> K("alias2", "n") [] OTHER -> K("alias", "i32n")
KeysDistinct == \A pat \in KeyPatterns : \A c, d \in 1..4 : c # d => KeyOf(pat, c) # KeyOf(pat, d)
ASSUME KeysDistinct

HasTot(pl) == pl \in {"mpp", "amp", "blinded"}      \* the payload declares the total of a set
NoHtlc == [k |-> 0, pl |-> "none", amt |-> 0, tot |-> 0, exp |-> 0, ah |-> 0, at |-> 0,
           st |-> "none", set |-> "none", good |-> TRUE, ad |-> 0, h |-> 0]
NoMsg  == [kd |-> "none", why |-> ""]
NoMsgs == [d \in C |-> NoMsg]


InitInv(k) == [ex |-> Kind(k) # "keysend", st |-> "open", paid |-> 0,
               val |-> IF Kind(k) \in {"zeroamt", "keysend"} THEN 0 ELSE V]
Init == /\ kinds = <<K1, K2>>
        /\ kp = "plain"
        /\ inv = [k \in Inv |-> InitInv(k)]
        /\ htlc = [c \in C |-> NoHtlc]
        /\ sub = {} /\ timer = {}
        /\ setOwner = [s \in Sets |-> 0]
        /\ height = 0 /\ now = 0 /\ pend = {}
        /\ last = [a |-> "init", c |-> 0, k |-> 0, res |-> "none", why |-> "", alt |-> "", hodl |-> NoMsgs]

-----------------------------------------------------------------------------
RECURSIVE SumTo(_, _, _)
SumTo(f, S, n) == IF n = 0 THEN 0 ELSE (IF n \in S THEN f[n].amt ELSE 0) + SumTo(f, S, n - 1)
AmtSum(f, S) == SumTo(f, S, NC)

In(f, k, s, st) == {d \in C : f[d].k = k /\ f[d].set = s /\ f[d].st = st}   \* Invoice.HTLCSet
OnInv(f, k)     == {d \in C : f[d].k = k}
Msgs(S, kd, why) == [d \in C |-> IF d \in S THEN [kd |-> kd, why |-> why] ELSE NoMsg]

\* what a step produces; the action conjuncts below copy it into the primed variables
Out(i, f, sb, tm, so, res, why, hodl) ==
  [inv |-> i, htlc |-> f, sub |-> sb, timer |-> tm, setOwner |-> so, res |-> res, why |-> why, alt |-> "", hodl |-> hodl]
Same(i, res, why) == Out(i, htlc, sub, timer, setOwner, res, why, NoMsgs)

(***************************************************************************)
(* The invoice a reference resolves to (0 = ErrInvoiceNotFound /           *)
(* ErrInvRefEquivocation), as the KV store does it.  The SQL store differs *)
(* in one case, modelled in RefSQLDiffers: hash known, address given,      *)
(* address indexed for no invoice - KV falls back to the hash (the HTLC    *)
(* then fails with "payment address mismatch" or whatever updateMpp finds  *)
(* first), SQL reports equivocation ("invoice not found").                 *)
(***************************************************************************)
ByHash(i, p) == IF p.h # 0 /\ i[p.h].ex THEN p.h ELSE 0
ByAddr(i, p) == IF p.ad # 0 /\ i[p.ad].ex /\ HasAddr(p.ad) THEN p.ad ELSE 0
Target(i, p) ==
  CASE p.pl \in {"legacy", "keysend"} -> ByHash(i, p)
    [] p.pl \in {"mpp", "blinded"} ->
                       IF ByHash(i, p) # 0 /\ ByAddr(i, p) # 0
                         THEN (IF ByHash(i, p) = ByAddr(i, p) THEN ByHash(i, p) ELSE 0)
                         ELSE ByHash(i, p)
    [] p.pl = "amp" -> ByAddr(i, p)
RefSQLDiffers(i, p) == p.pl \in {"mpp", "blinded"} /\ ByHash(i, p) # 0 /\ ByAddr(i, p) = 0

ExpSoon(p, k) == p.exp < height + RejectDelta \/ p.exp < height + Delta(k)

NewRec(p, k) == [k |-> k, pl |-> p.pl, amt |-> p.amt,
                 tot |-> IF HasTot(p.pl) THEN p.tot ELSE 0,
                 exp |-> p.exp, ah |-> height, at |-> now, st |-> "accepted",
                 set |-> IF p.pl = "amp" THEN p.set ELSE "none", good |-> p.good,
                 ad |-> p.ad, h |-> p.h]

\* amp.ReconstructChildren + hash comparison: the completing set G of AMP set s
Reconstructs(f, G, s) == G = Members(s) /\ \A d \in G : f[d].good

(***************************************************************************)
(* update.go: the verdict for a circuit key that is not on the invoice.    *)
(* [v: "fail" | "add" | "cancelset", res, why, st: new invoice state|"same"]*)
(***************************************************************************)
Fail(why)         == [v |-> "fail", res |-> "fail", why |-> why, st |-> "same"]
Add(res, why, st) == [v |-> "add", res |-> res, why |-> why, st |-> st]

Legacy(i, p, k) ==       \* updateLegacy
  IF IsAmp(k) THEN Fail(WType)
  ELSE IF i[k].st = "canceled" THEN Fail(WAlreadyCanceled)
  ELSE IF p.amt < i[k].val THEN Fail(WAmountTooLow)
  ELSE IF p.pl # "keysend" /\ NeedAddr(k) THEN Fail(WAddr)
  ELSE IF \E d \in In(htlc, k, "none", "accepted") : htlc[d].tot > 0 THEN Fail(WMppInProgress)
  ELSE IF ExpSoon(p, k) THEN Fail(WExpiry)
  ELSE IF i[k].st = "accepted" THEN Add("accept", "", "same")          \* resultDuplicateToAccepted
  ELSE IF i[k].st = "settled" THEN Add("settle", WDupSettled, "same")
  ELSE IF IsHodl(k) THEN Add("accept", "", "accepted")
  ELSE Add("settle", WSettled, "settled")

Mpp(i, p, k) ==          \* updateMpp
  LET s == IF p.pl = "amp" THEN p.set ELSE "none"
      S == In(htlc, k, s, "accepted")
      f1 == [htlc EXCEPT ![p.c] = NewRec(p, k)]
  IN
  IF IsAmp(k) # (p.pl = "amp") THEN Fail(WType)
  ELSE IF i[k].st # "open" THEN Fail(WNotOpen)
  ELSE IF p.ad # k \/ ~HasAddr(k) THEN Fail(WAddr)       \* (a keysend invoice has the blank address)
  ELSE IF p.tot = 0 \/ p.tot < i[k].val THEN Fail(WTotLow)
  ELSE IF \E d \in S : htlc[d].tot # p.tot THEN Fail(WTotMismatch)
  ELSE IF ExpSoon(p, k) THEN Fail(WExpiry)
  ELSE IF AmtSum(htlc, S) + p.amt < p.tot THEN Add("accept", "", "same")    \* resultPartialAccepted
  ELSE IF IsHodl(k) THEN Add("accept", "", "accepted")
  ELSE IF p.pl = "amp" /\ ~Reconstructs(f1, S \cup {p.c}, s)
         THEN [v |-> "cancelset", res |-> "fail", why |-> WAmpRecon, st |-> "canceled"]
  ELSE Add("settle", WSettled, "settled")

(***************************************************************************)
(* update_invoice.go addHTLCs + the notifications of                       *)
(* notifyExitHopHtlcLocked, for a non-AMP invoice.                         *)
(***************************************************************************)
ApplyAdd(i, p, k, vd) ==
  LET c   == p.c
      f0  == [htlc EXCEPT ![c] = NewRec(p, k)]
      st1 == IF vd.st = "same" THEN i[k].st ELSE vd.st
      \* getUpdatedHtlcState: every accepted HTLC follows a settled invoice
      f1  == [d \in C |-> IF f0[d].k = k /\ f0[d].st = "accepted" /\ st1 = "settled"
                            THEN [f0[d] EXCEPT !.st = "settled"] ELSE f0[d]]
      paid1 == IF st1 = "open" THEN 0
               ELSE AmtSum(f1, {d \in OnInv(f1, k) : f1[d].st \in {"accepted", "settled"}})
      i1  == [i EXCEPT ![k].st = st1, ![k].paid = paid1]
      nt  == IF vd.res = "settle" THEN {d \in sub : f1[d].k = k /\ f1[d].st = "settled"} ELSE {}
  IN Out(i1, f1,
         (sub \ nt) \cup (IF vd.res = "accept" THEN {c} ELSE {}),
         IF vd.res = "accept" /\ st1 = "open" THEN timer \cup {c} ELSE timer,
         setOwner, vd.res, vd.why, Msgs(nt, "settle", vd.why))

\* the same for an AMP invoice: only the HTLCs of the set are loaded, the invoice stays open
ApplyAddAmp(i, p, k, vd) ==
  LET c   == p.c
      s   == p.set
      f0  == [htlc EXCEPT ![c] = NewRec(p, k)]
      f1  == [d \in C |-> IF f0[d].k = k /\ f0[d].set = s /\ f0[d].st = "accepted" /\ vd.res = "settle"
                            THEN [f0[d] EXCEPT !.st = "settled"] ELSE f0[d]]
      i1  == [i EXCEPT ![k].paid = i[k].paid + p.amt]
      nt  == IF vd.res = "settle" THEN {d \in sub : f1[d].k = k /\ f1[d].set = s /\ f1[d].st = "settled"} ELSE {}
  IN IF vd.res # "settle" /\ \E d \in C : htlc[d].k = k /\ htlc[d].set = s /\ htlc[d].st = "settled"
       \* an HTLC that joins a set id which has already been settled, without completing a set itself:
       \* getUpdatedHtlcState meets a settled HTLC on an invoice that is not settled (an AMP invoice
       \* stays open) -> ErrHTLCAlreadySettled, NotifyExitHopHtlc returns the error (observation O1)
       THEN Same(i, "err", "")
     ELSE IF setOwner[s] \notin {0, k}
       THEN Same(i, "fail", WNotFound)                      \* ErrDuplicateSetID: rolled back
       ELSE Out(i1, f1,
                (sub \ nt) \cup (IF vd.res = "accept" THEN {c} ELSE {}),
                IF vd.res = "accept" THEN timer \cup {c} ELSE timer,
                [setOwner EXCEPT ![s] = k], vd.res, vd.why, Msgs(nt, "settle", vd.why))

\* AMP reconstruction failure: CancelInvoiceUpdate carrying the set id (update.go:337)
ApplyCancelSet(i, p, k) ==
  LET s   == p.set
      mem == {d \in C : htlc[d].k = k /\ htlc[d].set = s}
      nw  == {d \in mem : htlc[d].st = "accepted"}
      f1  == [d \in C |-> IF d \in nw THEN [htlc[d] EXCEPT !.st = "canceled"] ELSE htlc[d]]
      dec == AmtSum(htlc, nw)
      i1  == [i EXCEPT ![k].st = "canceled",
                       ![k].paid = IF i[k].paid >= dec THEN i[k].paid - dec ELSE 0]
      nt  == {d \in sub : f1[d].k = k /\ f1[d].set = s /\ f1[d].st = "canceled"}
  IN IF \E d \in mem : htlc[d].st = "settled"
       THEN Same(i, "err", "")                              \* ErrHTLCAlreadySettled: rolled back
       ELSE Out(i1, f1, sub \ nt, timer, setOwner, "fail", WAmpRecon, Msgs(nt, "fail", WAmpRecon))

(***************************************************************************)
(* The interceptor client answered CancelSet for HTLC p (invoiceregistry.go*)
(* notifyExitHopHtlcLocked, `if cancelSet`): p itself is failed and never  *)
(* recorded; on an open invoice every accepted HTLC of p's set (non-AMP:   *)
(* all HTLCs of the invoice, AMP: the set id) is canceled by a             *)
(* CancelHTLCsUpdate (cancelHTLCs; AMP: cancelHtlcsAmp lowers AmtPaid); the*)
(* invoice stays open, and - "external validation failed" being a set      *)
(* failure - the subscribed links of the canceled HTLCs are told.          *)
(***************************************************************************)
ApplyCancelHtlcs(i, p, k) ==
  LET s   == IF p.pl = "amp" THEN p.set ELSE "none"
      nw  == In(htlc, k, s, "accepted")
      f1  == [d \in C |-> IF d \in nw THEN [htlc[d] EXCEPT !.st = "canceled"] ELSE htlc[d]]
      dec == AmtSum(htlc, nw)
      i1  == IF IsAmp(k) THEN [i EXCEPT ![k].paid = IF i[k].paid >= dec THEN i[k].paid - dec ELSE 0] ELSE i
      nt  == nw \cap sub
  IN IF i[k].st # "open" THEN Same(i, "fail", WNotOpen)
     ELSE Out(i1, f1, sub \ nt, timer, setOwner, "fail", WExternal, Msgs(nt, "fail", WExternal))

(***************************************************************************)
(* NotifyExitHopHtlc for a circuit key c that is on no invoice.            *)
(* p = [c, pl, h, ad, amt, tot, exp, set, good, cs, ma]                    *)
(***************************************************************************)
\* processKeySend (outside the registry lock): reject a bad keysend, else insert the just-in-time invoice
KsBad(p) == p.pl = "keysend" /\ (~p.good \/ p.exp < height + RejectDelta)
KsIns(p) == IF p.pl = "keysend" /\ ~KsBad(p) /\ ~inv[p.h].ex
              THEN [inv EXCEPT ![p.h] = [ex |-> TRUE, st |-> "open", paid |-> 0, val |-> p.amt]]
              ELSE inv
\* the interceptor client's AmountPaid replaces the wire amount for everything the locked part does
Eff(p) == IF p.ma # 0 THEN [p EXCEPT !.amt = p.ma] ELSE p
\* notifyExitHopHtlcLocked (under the registry lock) on the invoice table i0 (p: after the interceptor, Eff)
LockedOut(i0, p) ==
  LET k  == Target(i0, p)
      vd == IF p.pl \in {"legacy", "keysend"} THEN Legacy(i0, p, k) ELSE Mpp(i0, p, k)
  IN IF k = 0 THEN Same(i0, "fail", WNotFound)
     ELSE IF RefSQLDiffers(i0, p) THEN [Same(i0, "fail", vd.why) EXCEPT !.alt = WNotFound]   \* vd.v = "fail" here
          \* (never together with cs: there the two stores would differ in STATE, see Params and the limits)
     ELSE IF p.cs THEN ApplyCancelHtlcs(i0, p, k)
     ELSE CASE vd.v = "fail" -> Same(i0, "fail", vd.why)
            [] vd.v = "cancelset" -> ApplyCancelSet(i0, p, k)
            [] vd.v = "add" -> IF IsAmp(k) THEN ApplyAddAmp(i0, p, k, vd) ELSE ApplyAdd(i0, p, k, vd)
NotifyOut(p) == IF KsBad(p) THEN Same(inv, "fail", WKeysend) ELSE LockedOut(KsIns(p), Eff(p))

\* resolveReplayedHtlc + the same notification code.  ic = [cs, ma] is what the interceptor client answered
\* to this call: the callback returns from resolveReplayedHtlc before it looks at it (ic occurs nowhere below)
ReplayOut(c, ic) ==
  LET r == htlc[c]
      k == r.k
      S == {d \in sub : htlc[d].k = k /\ htlc[d].set = r.set /\ htlc[d].st = "settled"}
  IN IF KeysendQuirk /\ r.pl = "keysend" /\ r.exp < height + RejectDelta
       THEN Same(inv, "fail", WKeysend)                     \* deviation D1, see the end of the module
     ELSE CASE r.st = "canceled" -> Same(inv, "fail", WReplayCanceled)
            [] r.st = "accepted" ->
                 Out(inv, htlc, sub \cup {c},
                     IF inv[k].st = "open" THEN timer \cup {c} ELSE timer,
                     setOwner, "accept", "", NoMsgs)
            [] r.st = "settled" ->
                 Out(inv, htlc, sub \ S, timer, setOwner, "settle", WReplaySettled,
                     Msgs(S, "settle", WReplaySettled))

Commit(o, a, c, k) ==
  /\ inv' = o.inv /\ htlc' = o.htlc /\ sub' = o.sub /\ timer' = o.timer /\ setOwner' = o.setOwner
  /\ last' = [a |-> a, c |-> c, k |-> k, res |-> o.res, why |-> o.why, alt |-> o.alt, hodl |-> o.hodl]
  /\ UNCHANGED <<kinds, kp>>

\* the whole call in one step (no other call in between)
Notify(p) == /\ htlc[p.c] = NoHtlc /\ \A x \in pend : x.c # p.c
             /\ Commit(NotifyOut(p), "Notify", p.c, 0)
             /\ UNCHANGED <<height, now, pend>>

\* the two critical sections of a keysend call, other calls may come in between
KsInsert(p) == /\ p.pl = "keysend" /\ ~KsBad(p)
               /\ htlc[p.c] = NoHtlc /\ \A x \in pend : x.c # p.c
               /\ inv' = KsIns(p)
               /\ pend' = pend \cup {p}
               /\ last' = [a |-> "KsInsert", c |-> p.c, k |-> 0, res |-> "none", why |-> "", alt |-> "", hodl |-> NoMsgs]
               /\ UNCHANGED <<kinds, kp, htlc, sub, timer, setOwner, height, now>>
NotifyLocked(p) == /\ p \in pend
                   /\ Commit(LockedOut(inv, Eff(p)), "Notify", p.c, 0)
                   /\ pend' = pend \ {p}
                   /\ UNCHANGED <<height, now>>

Replay(c, ic) == /\ htlc[c] # NoHtlc
                 /\ Commit(ReplayOut(c, ic), "Replay", c, 0)
                 /\ UNCHANGED <<height, now, pend>>

\* SettleHodlInvoice with the preimage of slot k
SettleOut(k) ==
  LET S  == {d \in OnInv(htlc, k) : htlc[d].st = "accepted"}
      f1 == [d \in C |-> IF d \in S THEN [htlc[d] EXCEPT !.st = "settled"] ELSE htlc[d]]
      i1 == [inv EXCEPT ![k].st = "settled", ![k].paid = AmtSum(htlc, S)]
      nt == {d \in sub : f1[d].k = k /\ f1[d].st = "settled"}
  IN IF ~inv[k].ex \/ inv[k].st # "accepted" THEN Same(inv, "err", "")
     ELSE Out(i1, f1, sub \ nt, timer, setOwner, "ok", "", Msgs(nt, "settle", WSettled))
Settle(k) == Commit(SettleOut(k), "Settle", 0, k) /\ UNCHANGED <<height, now, pend>>

\* CancelInvoice of slot k
CancelOut(k) ==
  LET S   == {d \in OnInv(htlc, k) : htlc[d].st = "accepted"}
      f1  == [d \in C |-> IF d \in S THEN [htlc[d] EXCEPT !.st = "canceled"] ELSE htlc[d]]
      dec == AmtSum(htlc, S)
      i1  == [inv EXCEPT ![k].st = "canceled",
                         ![k].paid = IF ~IsAmp(k) THEN inv[k].paid
                                     ELSE IF inv[k].paid >= dec THEN inv[k].paid - dec ELSE 0]
      nt  == {d \in sub : f1[d].k = k /\ f1[d].st = "canceled"}
  IN IF ~inv[k].ex \/ inv[k].st = "settled" THEN Same(inv, "err", "")
     ELSE IF inv[k].st = "canceled" THEN Same(inv, "ok", "")               \* idempotent
     ELSE IF \E d \in OnInv(htlc, k) : htlc[d].st = "settled" THEN Same(inv, "err", "")  \* AMP: a settled set
     ELSE Out(i1, f1, sub \ nt, timer, setOwner, "ok", "", Msgs(nt, "fail", WCanceled))
Cancel(k) == Commit(CancelOut(k), "Cancel", 0, k) /\ UNCHANGED <<height, now, pend>>

\* half an HtlcHoldDuration passes; due timers run cancelSingleHtlc(ResultMppTimeout)
Tick ==
  LET due == {c \in timer : (now + 1) - htlc[c].at >= 2}
      hit == {c \in due : inv[htlc[c].k].st = "open" /\ htlc[c].st = "accepted"}
      f1  == [d \in C |-> IF d \in hit THEN [htlc[d] EXCEPT !.st = "canceled"] ELSE htlc[d]]
      i1  == [k \in Inv |-> IF IsAmp(k)
                              THEN LET dec == AmtSum(htlc, {d \in hit : htlc[d].k = k})
                                   IN [inv[k] EXCEPT !.paid = IF inv[k].paid >= dec THEN inv[k].paid - dec ELSE 0]
                              ELSE inv[k]]
      nt  == hit \cap sub
  IN /\ now < MaxNow
     /\ now' = now + 1
     /\ Commit(Out(i1, f1, sub \ nt, timer \ due, setOwner, "none", "", Msgs(nt, "fail", WTimeout)), "Tick", 0, 0)
     /\ UNCHANGED <<height, pend>>

\* (a call in flight keeps the height it was made with: a block is ordered after it)
Block == /\ height < MaxHeight /\ pend = {}
         /\ height' = height + 1
         /\ Commit(Same(inv, "none", ""), "Block", 0, 0)
         /\ UNCHANGED <<now, pend>>

-----------------------------------------------------------------------------
(* The HTLCs the model checker sends: amounts around the value, totals     *)
(* matching / mismatching / too low, right / other / nobody's / no         *)
(* address, expiry at the required margin -1 / 0 / +1 (AMP: -1 / 0, totals *)
(* V and V+1, both sets, good and bad shares) or already below the current *)
(* height, keysend with a good or bad preimage.  AMP / keysend payloads    *)
(* only when such an invoice exists.                                       *)
\* expiries: the required margin -1 / 0 / +1, and HTLCs that have ALREADY expired (re-forwarded after
\* downtime, or a malicious peer): one block, ten blocks and far below the current height
Expired == {height - o : o \in ExpiredOffs}
Exps(k) == {height + Need(k) + m - 1 : m \in Margins} \cup Expired
ExpsAmp(k) == {height + Need(k) + m - 1 : m \in Margins \cap {0, 1}} \cup Expired
HasKind(x) == kinds[1] = x \/ kinds[2] = x
P(c, pl, h, ad, a, t, e, st, g) ==
  [c |-> c, pl |-> pl, h |-> h, ad |-> ad, amt |-> a, tot |-> t, exp |-> e, set |-> st, good |-> g, cs |-> FALSE, ma |-> 0]
Params(c) ==
     \* legacy: no MPP record, no path id; with or without a total_amount_msat in the payload
     UNION {{P(c, "legacy", h, 0, a, t, e, "none", TRUE) : a \in Amts, t \in {0, V}, e \in Exps(h)} : h \in Inv}
  \cup UNION {{P(c, pl, h, ad, a, t, e, "none", TRUE)
               : pl \in {"mpp", "blinded"}, ad \in 0..2, a \in Amts, t \in Tots, e \in Exps(h)} : h \in Inv}
  \cup (IF HasKind("amp")
          THEN UNION {{P(c, "amp", 0, sa[2], a, t, e, sa[1], g)
                        : a \in Amts, t \in Tots \ {V - 1}, e \in ExpsAmp(IF sa[2] = 0 THEN 1 ELSE sa[2]),
                          g \in {x \in BOOLEAN : x => c \in Members(sa[1])}} : sa \in Sets \X (0..2)}
          ELSE {})
  \cup (IF HasKind("keysend")
          THEN UNION {{P(c, "keysend", h, 0, a, 0, e, "none", g)
                        : a \in Amts, e \in Exps(h), g \in BOOLEAN} : h \in {x \in Inv : Kind(x) = "keysend"}}
          ELSE {})
\* HTLCs for which the interceptor client answers CancelSet.  Nothing but the invoice the HTLC resolves to and
\* its set matters then, so one HTLC per (payload class, invoice, set) is sent; its reference is unambiguous
\* (right address / path id) because for an address that is indexed for no invoice the KV store would cancel
\* the set of the invoice the hash names while the SQL store finds no invoice (see RefSQLDiffers).
CsParams(c) ==
  {[x EXCEPT !.cs = TRUE] : x \in
        {P(c, "legacy", h, 0, V, 0, height + Need(h), "none", TRUE) : h \in Inv}
   \cup {P(c, pl, h, h, 2, V, height + Need(h), "none", TRUE)
           : pl \in {"mpp", "blinded"}, h \in {x \in Inv : Kind(x) # "keysend"}}
   \cup (IF HasKind("amp")
           THEN {P(c, "amp", 0, sa[2], 2, V, height + Need(sa[2]), sa[1], c \in Members(sa[1]))
                  : sa \in Sets \X {x \in Inv : Kind(x) # "keysend"}}
           ELSE {})
   \cup {P(c, "keysend", h, 0, V, 0, height + Need(h), "none", TRUE) : h \in {x \in Inv : Kind(x) = "keysend"}}}
\* HTLCs for which the interceptor client answers with a modified amount: every amount of Amts in the place of
\* a wire amount of V or (not for keysend) V - 1, for HTLCs that are otherwise acceptable (an unacceptable one
\* fails as it does in Params unless the amount was its defect, and then it is the plain HTLC with the other
\* amount; the wire amount itself is looked at by nothing but the value of a just-in-time keysend invoice)
MaParams(c) ==
  {[x EXCEPT !.ma = m] : x \in
        {P(c, "legacy", h, 0, a, 0, height + Need(h), "none", TRUE) : a \in {V - 1, V}, h \in Inv}
   \cup {P(c, "mpp", h, h, a, t, height + Need(h), "none", TRUE)
           : a \in {V - 1, V}, t \in {V, V + 1}, h \in {x \in Inv : Kind(x) # "keysend"}}
   \cup (IF HasKind("amp")
           THEN {P(c, "amp", 0, sa[2], a, t, height + Need(sa[2]), sa[1], c \in Members(sa[1]))
                  : a \in {V - 1, V}, t \in {V, V + 1}, sa \in Sets \X {x \in Inv : Kind(x) = "amp"}}
           ELSE {})
   \cup {P(c, "keysend", h, 0, V, 0, height + Need(h), "none", TRUE) : h \in {x \in Inv : Kind(x) = "keysend"}},
   m \in Amts}
\* the answers of the interceptor client to a call for a circuit key that is already recorded
IcAnswers == {[cs |-> FALSE, ma |-> 0], [cs |-> TRUE, ma |-> 0], [cs |-> FALSE, ma |-> V + 1], [cs |-> TRUE, ma |-> V - 1]}

Next == \/ \E c \in C : \E p \in Params(c) \cup CsParams(c) \cup MaParams(c) : Notify(p) \/ (pend = {} /\ KsInsert(p))
        \/ \E p \in pend : NotifyLocked(p)
        \/ \E c \in C : \E ic \in IcAnswers : Replay(c, ic)
        \/ \E k \in Inv : Settle(k) \/ Cancel(k)
        \/ Tick
        \/ Block

Spec == Init /\ [][Next]_vars

-----------------------------------------------------------------------------
(***************************************************************************)
(* C15, from the statement.                                                *)
(***************************************************************************)
Recorded == {c \in C : htlc[c] # NoHtlc}

\* The set an HTLC is settled with: AMP - its set id; MPP / blinded path - the HTLCs of the invoice
\* that declare a total (MPP record or blinded-path payload); an HTLC without either pays alone and
\* declares its own amount.
SetOf(c) == LET r == htlc[c] IN
  CASE r.pl = "amp" -> {d \in C : htlc[d].k = r.k /\ htlc[d].set = r.set /\ htlc[d].st = "settled"}
    [] r.pl \in {"mpp", "blinded"} ->
           {d \in C : htlc[d].k = r.k /\ htlc[d].pl \in {"mpp", "blinded"} /\ htlc[d].st = "settled"}
    [] OTHER -> {c}
Declared(c) == IF HasTot(htlc[c].pl) THEN htlc[c].tot ELSE htlc[c].amt

\* "settlement only when the accepted HTLCs of its set carry the invoice's payment address (whenever the
\*  invoice requires one), declare one common total not below the invoice amount, sum to at least that total
\*  and each leave the required final CLTV margin"
SettledIsPaid ==
  \A c \in C : htlc[c].st = "settled" =>
     LET k == htlc[c].k
         G == SetOf(c)
     IN /\ inv[k].ex
        \* (an MPP / AMP record and a blinded-path payload always name an address / path id: it must be the invoice's)
        /\ \A d \in G : /\ (NeedAddr(k) \/ HasTot(htlc[d].pl)) => (htlc[d].ad = k \/ htlc[d].pl = "keysend")
                        /\ Declared(d) = Declared(c)
                        /\ htlc[d].exp >= htlc[d].ah + Need(k)
        /\ Declared(c) >= inv[k].val
        /\ AmtSum(htlc, G) >= Declared(c)
        \* "the released preimage hashes to that HTLC's payment hash": a non-AMP HTLC is settled
        \* with the preimage of the invoice its hash belongs to; an AMP child only if the set
        \* reconstructs to the children the sender derived
        /\ (htlc[c].pl # "amp" => htlc[c].h = k)
        /\ (htlc[c].pl = "amp" => Reconstructs(htlc, G, htlc[c].set))

\* "a settled non-AMP invoice records as amount paid exactly the sum of its settled HTLCs"
AmtPaidExact ==
  \A k \in Inv : (inv[k].ex /\ ~IsAmp(k) /\ inv[k].st = "settled") =>
     inv[k].paid = AmtSum(htlc, {d \in OnInv(htlc, k) : htlc[d].st = "settled"})

\* settled HTLCs only on settled invoices (AMP: the invoice stays open), none on a canceled one
StatesAgree ==
  \A c \in Recorded : LET k == htlc[c].k IN
     /\ (htlc[c].st = "settled" /\ ~IsAmp(k)) => inv[k].st = "settled"
     /\ (inv[k].st = "settled") => htlc[c].st # "accepted"
     /\ (inv[k].st = "canceled" /\ ~IsAmp(k)) => htlc[c].st = "canceled"
     /\ c \in sub => htlc[c].st = "accepted"

\* "Invoice and HTLC states only move forward (open, accepted, then settled or canceled)"
InvRank(s)  == CASE s = "open" -> 0 [] s = "accepted" -> 1 [] OTHER -> 2
HtlcRank(s) == CASE s = "none" -> 0 [] s = "accepted" -> 1 [] OTHER -> 2
Forward ==
  /\ \A k \in Inv : /\ inv[k].ex => inv'[k].ex
                    /\ (inv[k].ex /\ inv'[k].st # inv[k].st) =>
                          (InvRank(inv'[k].st) > InvRank(inv[k].st) /\ InvRank(inv[k].st) < 2)
  /\ \A c \in C : /\ htlc[c] # NoHtlc => (htlc'[c].k = htlc[c].k /\ htlc'[c].amt = htlc[c].amt)
                  /\ htlc'[c].st # htlc[c].st =>
                        (HtlcRank(htlc'[c].st) > HtlcRank(htlc[c].st) /\ HtlcRank(htlc[c].st) < 2)
ForwardOnly == [][Forward]_vars

\* every resolution handed to a link (directly or on its hodl channel) agrees with the recorded HTLC:
\* settle only for an HTLC recorded as settled, fail never for one recorded as settled, accept only
\* while it is recorded as accepted.  With ForwardOnly: "no HTLC is both settled and canceled".
ResAgree ==
  LET l == last' IN
  /\ \A d \in C : /\ l.hodl[d].kd = "settle" => htlc'[d].st = "settled"
                  /\ l.hodl[d].kd = "fail" => htlc'[d].st = "canceled"
  /\ (l.a \in {"Notify", "Replay"}) =>
        /\ l.res = "settle" => htlc'[l.c].st = "settled"
        /\ l.res = "accept" => htlc'[l.c].st = "accepted"
        /\ l.res = "fail" => htlc'[l.c].st \in {"none", "canceled"}
ResolutionsAgree == [][ResAgree]_vars

\* "a replayed HTLC gets the same verdict as originally": the replay of a recorded HTLC answers
\* with the HTLC's recorded state (which, by ForwardOnly, extends the original verdict)
ReplaySame ==
  (last'.a = "Replay") =>
     last'.res = CASE htlc[last'.c].st = "settled" -> "settle"
                   [] htlc[last'.c].st = "canceled" -> "fail"
                   [] OTHER -> "accept"
ReplaySameVerdict == [][ReplaySame]_vars

TypeOK == /\ \A k \in Inv : inv[k].st \in {"open", "accepted", "settled", "canceled"} /\ inv[k].paid >= 0
          /\ \A c \in C : htlc[c].st \in {"none", "accepted", "settled", "canceled"}
          /\ timer \subseteq Recorded /\ sub \subseteq Recorded

(***************************************************************************)
(* Deviation D1 (KeysendQuirk): NotifyExitHopHtlc runs processKeySend      *)
(* before it looks at the invoice, and processKeySend compares the HTLC's  *)
(* expiry with the CURRENT height.  The replay of a keysend HTLC that is   *)
(* already accepted/settled therefore answers "invalid keysend parameters" *)
(* once expiry < height + FinalCltvRejectDelta.  ReplaySameVerdict (and    *)
(* ResolutionsAgree) fail with KeysendQuirk = TRUE; the real code behaves  *)
(* like KeysendQuirk = TRUE (fixed schedule d1_keysend_replay.ndjson).     *)
(*                                                                         *)
(* Behaviour of the code that the statement of C15 does not forbid and     *)
(* that is modelled as it is (all reached by the executor):                *)
(*  O1  an AMP HTLC that joins a set id which is already settled, without  *)
(*      completing a set, makes NotifyExitHopHtlc return an error          *)
(*      (ErrHTLCAlreadySettled; the link treats it as an internal error);  *)
(*      the same error for an AMP reconstruction failure on such a set and *)
(*      for CancelInvoice of an AMP invoice that has a settled set.        *)
(*  O2  an AMP reconstruction failure cancels the whole AMP invoice; HTLCs *)
(*      of its other sets stay accepted (their timers no longer cancel     *)
(*      them: the invoice is not open) or settled.                         *)
(*  O3  KV and SQL answer differently (both fail) for an MPP HTLC whose    *)
(*      payment address is indexed for no invoice: RefSQLDiffers.          *)
(*  O4  a keysend call is two critical sections: KsInsert / NotifyLocked.  *)
(*  O5  the interceptor client's CancelSet is honoured on an open invoice  *)
(*      only (otherwise the HTLC fails with "invoice no longer open") and  *)
(*      is ignored for a replayed HTLC, like a modified amount (Replay     *)
(*      takes the client's answer ic and does not look at it).             *)
(*  O7  the interceptor client's AmountPaid is what the registry records   *)
(*      and sums for the HTLC (Eff); SettledIsPaid is stated over the      *)
(*      recorded amounts.  A keysend invoice keeps the wire amount as its  *)
(*      value, so a keysend HTLC whose amount the client lowers fails with *)
(*      "amount too low" against its own just-inserted invoice.            *)
(*  O6  HTLC ids >= 2^63 (not reachable through a link, see KeyOf): the SQL*)
(*      store writes int64(id) without a check (sqlInvoiceUpdater.AddHtlc) *)
(*      and refuses to read a negative id back (unmarshalInvoiceHTLC:      *)
(*      "invalid uint64 value"), so such an HTLC would leave its invoice   *)
(*      unreadable; the KV store handles the full uint64 range.  Observed  *)
(*      with the first version of the key patterns; ids are now < 2^63.    *)
(***************************************************************************)
=============================================================================
