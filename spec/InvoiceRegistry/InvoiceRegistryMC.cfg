SPECIFICATION MCSpec
CONSTANTS
  NC = 3
  K1 = "regular"
  K2 = "hold"
  V = 4
  Amts = {3, 2, 4, 5}
  Tots = {3, 4, 5}
  InvDelta = 6
  RejectDelta = 4
  MaxHeight = 50
  MaxNow = 50
  Margins = {0, 1}
  ExpiredOffs = {1}
  KeysendQuirk = FALSE
  MaxEvents = 0
VIEW View
INVARIANTS TypeOK SettledIsPaid AmtPaidExact StatesAgree
PROPERTIES ForwardOnly ResolutionsAgree ReplaySameVerdict
CHECK_DEADLOCK FALSE
