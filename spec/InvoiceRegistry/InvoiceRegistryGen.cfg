SPECIFICATION GSpec
CONSTANTS
  NC = 3
  K1 = "regular"
  K2 = "hold"
  V = 4
  Amts = {3, 2, 4, 5}
  Tots = {3, 4, 5}
  InvDelta = 6
  RejectDelta = 4
  MaxHeight = 3
  MaxNow = 4
  KeysendQuirk = TRUE
  MaxLen = 12
INVARIANTS Dump
CHECK_DEADLOCK FALSE
