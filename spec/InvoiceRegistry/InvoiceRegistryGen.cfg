SPECIFICATION GSpec
CONSTANTS
  NC = 3
  K1 = "regular"
  K2 = "hold"
  V = 4
  Amts = {3, 2, 4, 5}
  Tots = {3, 4, 5}
  InvDelta = 6
  RejectDelta = 4
  MaxHeight = 3
  MaxNow = 4
  Margins = {0, 1, 2}
  ExpiredOffs = {1, 10, 90}
  KeysendQuirk = TRUE
  MaxLen = 12
  Focus = "all"
INVARIANTS Dump
CHECK_DEADLOCK FALSE
