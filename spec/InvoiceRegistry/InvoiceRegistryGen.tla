------------------------ MODULE InvoiceRegistryGen ------------------------
(* Behaviour generator: InvoiceRegistry + the history of the events taken,  *)
(* dumped as one NDJSON file per simulated behaviour (tlc -simulate).  The   *)
(* kinds of the two invoices are drawn per behaviour; HTLC parameters are    *)
(* drawn with RandomElement (a few draws per state keep the fan-out small):  *)
(* mostly from the parameters that can be accepted (some of these with an    *)
(* expiry already below the current height), otherwise from the whole        *)
(* (bound through a singleton set so that one draw is used consistently);   *)
(* product (wrong/absent/foreign address, low or mismatching totals, expiry  *)
(* one block short, bad keysend preimage, bad or foreign AMP shares).        *)
EXTENDS InvoiceRegistry, Json
CONSTANTS MaxLen
\* the pairs of invoice kinds behaviours are generated for (all seven kinds occur in both slots)
KindPool == {<<"regular", "hold">>, <<"regular", "regular">>, <<"noaddr", "holdna">>, <<"zeroamt", "regular">>,
             <<"amp", "regular">>, <<"amp", "amp">>, <<"keysend", "noaddr">>, <<"hold", "zeroamt">>,
             <<"holdna", "amp">>, <<"keysend", "hold">>, <<"noaddr", "noaddr">>, <<"amp", "keysend">>,
             <<"zeroamt", "holdna">>, <<"hold", "keysend">>, <<"regular", "amp">>, <<"holdna", "noaddr">>}
VARIABLE hist

Ev(a, c, k, p) == [a |-> a, c |-> c, k |-> k, pl |-> p.pl, h |-> p.h, ad |-> p.ad, amt |-> p.amt, tot |-> p.tot,
                   exp |-> p.exp, set |-> p.set, good |-> IF p.good THEN 1 ELSE 0, ht |-> height,
                   k1 |-> kinds[1], k2 |-> kinds[2]]
NoP == [pl |-> "none", h |-> 0, ad |-> 0, amt |-> 0, tot |-> 0, exp |-> 0, set |-> "none", good |-> TRUE]
Rec(e) == hist' = Append(hist, e)

\* parameters that pass the static checks of the invoice they aim at (built directly, not filtered out of Params)
OkExp(k) == {height + Need(k), height + Need(k) + 1}
Likely(c) ==
     UNION {{[c |-> c, pl |-> "mpp", h |-> h, ad |-> h, amt |-> a, tot |-> t, exp |-> e, set |-> "none", good |-> TRUE]
               : a \in Amts, t \in {x \in Tots : x >= V}, e \in OkExp(h)}
            : h \in {x \in Inv : Kind(x) \notin {"amp", "keysend"} /\ inv[x].st = "open"}}
  \cup UNION {{[c |-> c, pl |-> "amp", h |-> 0, ad |-> sa[2], amt |-> a, tot |-> t, exp |-> height + Need(sa[2]), set |-> sa[1], good |-> g]
               : a \in Amts, t \in {x \in Tots : x >= V}, g \in {x \in BOOLEAN : x => c \in Members(sa[1])}}
            : sa \in Sets \X {x \in Inv : Kind(x) = "amp" /\ inv[x].st = "open"}}
  \cup UNION {{[c |-> c, pl |-> "legacy", h |-> h, ad |-> 0, amt |-> a, tot |-> 0, exp |-> e, set |-> "none", good |-> TRUE]
               : a \in Amts, e \in OkExp(h)}
            : h \in {x \in Inv : ~NeedAddr(x) /\ Kind(x) # "amp" /\ inv[x].ex /\ inv[x].st # "canceled"}}
  \cup UNION {{[c |-> c, pl |-> "keysend", h |-> h, ad |-> 0, amt |-> a, tot |-> 0, exp |-> e, set |-> "none", good |-> TRUE]
               : a \in Amts, e \in OkExp(h)}
            : h \in {x \in Inv : Kind(x) = "keysend"}}
\* 60% acceptable, 15% acceptable but for an expiry that already lies below the current height, 25% anything
Draw(c) == LET r == RandomElement(1..20) IN
           IF Likely(c) # {} /\ r <= 12 THEN RandomElement(Likely(c))
           ELSE IF Likely(c) # {} /\ r <= 15 THEN [RandomElement(Likely(c)) EXCEPT !.exp = RandomElement(Expired)]
           ELSE RandomElement(Params(c))

GInit == /\ kinds \in KindPool
         /\ inv = [k \in Inv |-> InitInv(k)]
         /\ htlc = [c \in C |-> NoHtlc]
         /\ sub = {} /\ timer = {}
         /\ setOwner = [s \in Sets |-> 0]
         /\ height = 0 /\ now = 0 /\ pend = {}
         /\ last = [a |-> "init", c |-> 0, k |-> 0, res |-> "none", why |-> "", alt |-> "", hodl |-> NoMsgs]
         /\ hist = <<>>
\* weights: simulation picks uniformly among the successors that exist, a coin makes an event rarer
Coin(n) == RandomElement(1..n) = 1
GNext == /\ Len(hist) < MaxLen
         /\ \/ \E c \in C : \E i \in 1..2 : \E p \in {Draw(c)} : Notify(p) /\ Rec(Ev("Notify", c, 0, p))
            \/ \E c \in C : Coin(2) /\ Replay(c) /\ Rec(Ev("Replay", c, 0, NoP))
            \/ \E k \in Inv : (inv[k].st = "accepted" \/ Coin(8)) /\ Settle(k) /\ Rec(Ev("Settle", 0, k, NoP))
            \/ \E k \in Inv : Coin(6) /\ Cancel(k) /\ Rec(Ev("Cancel", 0, k, NoP))
            \/ Coin(2) /\ Tick /\ Rec(Ev("Tick", 0, 0, NoP))
            \/ Coin(3) /\ Block /\ Rec(Ev("Block", 0, 0, NoP))
GSpec == GInit /\ [][GNext]_<<vars, hist>>

Dump == (Len(hist) = MaxLen) =>
          ndJsonSerialize("b_" \o ToString(TLCGet("stats").traces) \o ".ndjson", hist)
=============================================================================
