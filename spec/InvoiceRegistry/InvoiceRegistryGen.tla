------------------------ MODULE InvoiceRegistryGen ------------------------
(* Behaviour generator: InvoiceRegistry + the history of the events taken,  *)
(* dumped as one NDJSON file per simulated behaviour (tlc -simulate).  The   *)
(* kinds of the two invoices are drawn per behaviour; HTLC parameters are    *)
(* drawn with RandomElement (a few draws per state keep the fan-out small):  *)
(* mostly from the parameters that can be accepted, otherwise from the whole *)
(* (bound through a singleton set so that one draw is used consistently);   *)
(* product (wrong/absent/foreign address, low or mismatching totals, expiry  *)
(* one block short, bad keysend preimage, bad or foreign AMP shares).        *)
EXTENDS InvoiceRegistry, Json
CONSTANTS MaxLen
\* the pairs of invoice kinds behaviours are generated for (all seven kinds occur in both slots)
KindPool == {<<"regular", "hold">>, <<"regular", "regular">>, <<"noaddr", "holdna">>, <<"zeroamt", "regular">>,
             <<"amp", "regular">>, <<"amp", "amp">>, <<"keysend", "noaddr">>, <<"hold", "zeroamt">>,
             <<"holdna", "amp">>, <<"keysend", "hold">>, <<"noaddr", "noaddr">>, <<"amp", "keysend">>,
             <<"zeroamt", "holdna">>, <<"hold", "keysend">>, <<"regular", "amp">>, <<"holdna", "noaddr">>}
VARIABLE hist

Ev(a, c, k, p) == [a |-> a, c |-> c, k |-> k, pl |-> p.pl, h |-> p.h, ad |-> p.ad, amt |-> p.amt, tot |-> p.tot,
                   exp |-> p.exp, set |-> p.set, good |-> IF p.good THEN 1 ELSE 0, ht |-> height,
                   k1 |-> kinds[1], k2 |-> kinds[2]]
NoP == [pl |-> "none", h |-> 0, ad |-> 0, amt |-> 0, tot |-> 0, exp |-> 0, set |-> "none", good |-> TRUE]
Rec(e) == hist' = Append(hist, e)

\* parameters that pass the static checks of the invoice they aim at
Likely(c) == {p \in Params(c) :
                /\ p.pl = "mpp" => (p.ad = p.h /\ p.tot >= V /\ inv[p.h].st = "open" /\ Kind(p.h) \notin {"amp", "keysend"})
                /\ p.pl = "amp" => (p.ad # 0 /\ Kind(p.ad) = "amp" /\ inv[p.ad].st = "open")
                /\ p.pl = "legacy" => (~NeedAddr(p.h) /\ Kind(p.h) # "amp" /\ inv[p.h].ex /\ inv[p.h].st # "canceled")
                /\ p.pl = "keysend" => p.good
                /\ p.exp >= height + Need(IF p.pl = "amp" THEN (IF p.ad = 0 THEN 1 ELSE p.ad) ELSE p.h)}
Draw(c) == IF Likely(c) # {} /\ RandomElement(1..10) <= 7 THEN RandomElement(Likely(c)) ELSE RandomElement(Params(c))

GInit == /\ kinds \in KindPool
         /\ inv = [k \in Inv |-> InitInv(k)]
         /\ htlc = [c \in C |-> NoHtlc]
         /\ sub = {} /\ timer = {}
         /\ setOwner = [s \in Sets |-> 0]
         /\ height = 0 /\ now = 0 /\ pend = {}
         /\ last = [a |-> "init", c |-> 0, k |-> 0, res |-> "none", why |-> "", alt |-> "", hodl |-> NoMsgs]
         /\ hist = <<>>
\* weights: simulation picks uniformly among the successors that exist, a coin makes an event rarer
Coin(n) == RandomElement(1..n) = 1
GNext == /\ Len(hist) < MaxLen
         /\ \/ \E c \in C : \E i \in 1..2 : \E p \in {Draw(c)} : Notify(p) /\ Rec(Ev("Notify", c, 0, p))
            \/ \E c \in C : Coin(2) /\ Replay(c) /\ Rec(Ev("Replay", c, 0, NoP))
            \/ \E k \in Inv : (inv[k].st = "accepted" \/ Coin(8)) /\ Settle(k) /\ Rec(Ev("Settle", 0, k, NoP))
            \/ \E k \in Inv : Coin(6) /\ Cancel(k) /\ Rec(Ev("Cancel", 0, k, NoP))
            \/ Coin(2) /\ Tick /\ Rec(Ev("Tick", 0, 0, NoP))
            \/ Coin(3) /\ Block /\ Rec(Ev("Block", 0, 0, NoP))
GSpec == GInit /\ [][GNext]_<<vars, hist>>

Dump == (Len(hist) = MaxLen) =>
          ndJsonSerialize("b_" \o ToString(TLCGet("stats").traces) \o ".ndjson", hist)
=============================================================================
