------------------------ MODULE InvoiceRegistryGen ------------------------
(* Behaviour generator: InvoiceRegistry + the history of the events taken,  *)
(* dumped as one NDJSON file per simulated behaviour (tlc -simulate).  The   *)
(* kinds of the two invoices and the circuit-key pattern are drawn per       *)
(* behaviour; HTLC parameters are drawn with RandomElement (a few draws per  *)
(* state keep the fan-out small):                                            *)
(* mostly from the parameters that can be accepted (some of these with an    *)
(* expiry already below the current height), otherwise from the whole        *)
(* (bound through a singleton set so that one draw is used consistently);   *)
(* product (wrong/absent/foreign address or path id, low or mismatching      *)
(* totals, expiry one block short, bad keysend preimage, bad or foreign AMP  *)
(* shares, the interceptor client's CancelSet).                              *)
(*                                                                           *)
(* Focus = "all":      all kinds of invoices, all payload classes.           *)
(* Focus = "holdsets": at least one hold invoice; shards (MPP record or      *)
(*   blinded path) that leave their set incomplete are frequent, and so are  *)
(*   the events that cancel them before it completes (Tick = MPP timeout,    *)
(*   CancelSet), followed by retries, SettleHodlInvoice and CancelInvoice.   *)
(* Focus = "ampsets":  at least one AMP invoice; shards that complete the set *)
(*   their circuit belongs to (and settle it) are frequent, and so are the     *)
(*   events that meet an AMP invoice with settled and/or accepted sets:        *)
(*   CancelInvoice, CancelSet for one set id, MPP timeouts, replays, shards    *)
(*   that join a settled set.                                                  *)
(* Focus = "icept":    the interceptor client answers: CancelSet or a modified *)
(*   amount for first-time HTLCs, and - half of the replays - CancelSet and/or *)
(*   a modified amount for an HTLC that is already recorded as accepted,       *)
(*   settled or canceled.                                                      *)
(*   Only the weights differ: every step is an InvoiceRegistry action.       *)
EXTENDS InvoiceRegistry, Json
CONSTANTS MaxLen, Focus
\* the pairs of invoice kinds behaviours are generated for (all seven kinds occur in both slots)
KindPool == IF Focus = "holdsets"
            THEN {<<"hold", "hold">>, <<"hold", "regular">>, <<"holdna", "hold">>, <<"hold", "holdna">>,
                  <<"regular", "hold">>, <<"holdna", "noaddr">>, <<"zeroamt", "hold">>}
            ELSE IF Focus = "ampsets"
            THEN {<<"amp", "amp">>, <<"amp", "regular">>, <<"regular", "amp">>, <<"amp", "keysend">>,
                  <<"holdna", "amp">>, <<"amp", "noaddr">>}
            ELSE IF Focus = "icept"
            THEN {<<"regular", "hold">>, <<"noaddr", "holdna">>, <<"hold", "zeroamt">>, <<"keysend", "hold">>,
                  <<"amp", "regular">>, <<"holdna", "amp">>, <<"keysend", "noaddr">>, <<"hold", "hold">>,
                  <<"regular", "regular">>}
            ELSE
            {<<"regular", "hold">>, <<"regular", "regular">>, <<"noaddr", "holdna">>, <<"zeroamt", "regular">>,
             <<"amp", "regular">>, <<"amp", "amp">>, <<"keysend", "noaddr">>, <<"hold", "zeroamt">>,
             <<"holdna", "amp">>, <<"keysend", "hold">>, <<"noaddr", "noaddr">>, <<"amp", "keysend">>,
             <<"zeroamt", "holdna">>, <<"hold", "keysend">>, <<"regular", "amp">>, <<"holdna", "noaddr">>}
VARIABLE hist

Ev(a, c, k, p) == [a |-> a, c |-> c, k |-> k, pl |-> p.pl, h |-> p.h, ad |-> p.ad, amt |-> p.amt, tot |-> p.tot,
                   exp |-> p.exp, set |-> p.set, good |-> IF p.good THEN 1 ELSE 0, cs |-> IF p.cs THEN 1 ELSE 0, ma |-> p.ma,
                   ht |-> height, k1 |-> kinds[1], k2 |-> kinds[2], kp |-> kp]
NoP == [pl |-> "none", h |-> 0, ad |-> 0, amt |-> 0, tot |-> 0, exp |-> 0, set |-> "none", good |-> TRUE, cs |-> FALSE, ma |-> 0]
NoIc == [cs |-> FALSE, ma |-> 0]
IcP(ic) == [NoP EXCEPT !.cs = ic.cs, !.ma = ic.ma]
Rec(e) == hist' = Append(hist, e)

\* parameters that pass the static checks of the invoice they aim at (built directly, not filtered out of Params)
OkExp(k) == {height + Need(k), height + Need(k) + 1}
Likely(c) ==
     UNION {{P(c, pl, h, h, a, t, e, "none", TRUE)
               : pl \in {"mpp", "blinded"}, a \in Amts, t \in {x \in Tots : x >= V}, e \in OkExp(h)}
            : h \in {x \in Inv : Kind(x) \notin {"amp", "keysend"} /\ inv[x].st = "open"}}
  \cup UNION {{P(c, "amp", 0, sa[2], a, t, height + Need(sa[2]), sa[1], g)
               : a \in Amts, t \in {x \in Tots : x >= V}, g \in {x \in BOOLEAN : x => c \in Members(sa[1])}}
            : sa \in Sets \X {x \in Inv : Kind(x) = "amp" /\ inv[x].st = "open"}}
  \cup UNION {{P(c, "legacy", h, 0, a, t, e, "none", TRUE) : a \in Amts, t \in {0, V}, e \in OkExp(h)}
            : h \in {x \in Inv : ~NeedAddr(x) /\ Kind(x) # "amp" /\ inv[x].ex /\ inv[x].st # "canceled"}}
  \cup UNION {{P(c, "keysend", h, 0, a, 0, e, "none", TRUE) : a \in Amts, e \in OkExp(h)}
            : h \in {x \in Inv : Kind(x) = "keysend"}}
\* 55% acceptable, 15% acceptable but for an expiry that already lies below the current height,
\* 8% the interceptor client cancels the set, 22% anything
Draw(c) == LET r == RandomElement(1..40) IN
           IF Likely(c) # {} /\ r <= 22 THEN RandomElement(Likely(c))
           ELSE IF Likely(c) # {} /\ r <= 28 THEN [RandomElement(Likely(c)) EXCEPT !.exp = RandomElement(Expired)]
           ELSE IF r <= 31 THEN RandomElement(CsParams(c))
           ELSE RandomElement(Params(c))

\* Focus = "holdsets": shards of the set of an open invoice (hold invoices preferred)
Shards(c) ==
  LET open == {x \in Inv : Kind(x) \notin {"amp", "keysend"} /\ inv[x].st = "open"}
      hs   == IF \E x \in open : IsHodl(x) THEN {x \in open : IsHodl(x)} ELSE open
  IN UNION {{P(c, pl, h, h, a, t, e, "none", TRUE)
               : pl \in {"mpp", "blinded"}, a \in Amts, t \in {V, V + 1}, e \in OkExp(h)} : h \in hs}
\* 70% a shard, 10% the interceptor client cancels the set, 20% as in the general mix
DrawH(c) == LET r == RandomElement(1..20) IN
            IF Shards(c) # {} /\ r <= 14 THEN RandomElement(Shards(c))
            ELSE IF r <= 16 THEN RandomElement(CsParams(c))
            ELSE Draw(c)

\* Focus = "ampsets": good shards of the set circuit c belongs to, aimed at an open AMP invoice; a member of
\* the two-shard set carries about half of the total, and a shard repeats the total its set already declares
AmpShards(c) ==
  LET ss == {x \in Sets : c \in Members(x)} IN
  UNION {{P(c, "amp", 0, sk[2], a, t, height + Need(sk[2]), sk[1], TRUE)
            : a \in (IF Cardinality(Members(sk[1])) > 1 THEN {V \div 2, V - 1} ELSE {V, V + 1}),
              t \in (LET S == In(htlc, sk[2], sk[1], "accepted") IN
                     IF S # {} THEN {htlc[d].tot : d \in S} ELSE {V, V + 1})}
         : sk \in ss \X {x \in Inv : Kind(x) = "amp" /\ inv[x].st = "open"}}
\* HTLCs of an AMP set id that has accepted HTLCs on its (open) invoice, the interceptor client answering CancelSet
AmpCs(c) ==
  {[x EXCEPT !.cs = TRUE] : x \in
     {P(c, "amp", 0, sk[2], 2, V, height + Need(sk[2]), sk[1], c \in Members(sk[1]))
        : sk \in {y \in Sets \X {x \in Inv : Kind(x) = "amp" /\ inv[x].st = "open"} : In(htlc, y[2], y[1], "accepted") # {}}}}
\* 65% such a shard, 10% the interceptor client cancels a set (one with accepted HTLCs if there is one),
\* 25% as in the general mix
DrawA(c) == LET r == RandomElement(1..20) IN
            IF r <= 13 THEN (IF AmpShards(c) # {} THEN RandomElement(AmpShards(c)) ELSE Draw(c))
            ELSE IF r <= 15 THEN (IF AmpCs(c) # {} THEN RandomElement(AmpCs(c)) ELSE RandomElement(CsParams(c)))
            ELSE Draw(c)
\* Focus = "icept": 40% acceptable, 25% acceptable with the amount replaced by the interceptor client,
\* 15% CancelSet, 20% anything (incl. modified amounts)
DrawI(c) == LET r == RandomElement(1..20) IN
            IF r <= 13 /\ Likely(c) = {} THEN RandomElement(Params(c) \cup MaParams(c))
            ELSE IF r <= 8 THEN RandomElement(Likely(c))
            ELSE IF r <= 13 THEN [RandomElement(Likely(c)) EXCEPT !.ma = RandomElement(Amts)]
            ELSE IF r <= 16 THEN RandomElement(CsParams(c))
            ELSE RandomElement(Params(c) \cup MaParams(c))

GInit == /\ kinds \in KindPool
         /\ kp \in KeyPatterns
         /\ inv = [k \in Inv |-> InitInv(k)]
         /\ htlc = [c \in C |-> NoHtlc]
         /\ sub = {} /\ timer = {}
         /\ setOwner = [s \in Sets |-> 0]
         /\ height = 0 /\ now = 0 /\ pend = {}
         /\ last = [a |-> "init", c |-> 0, k |-> 0, res |-> "none", why |-> "", alt |-> "", hodl |-> NoMsgs]
         /\ hist = <<>>
\* weights: simulation picks uniformly among the successors that exist, a coin makes an event rarer
Coin(n) == RandomElement(1..n) = 1
Free == {c \in C : htlc[c] = NoHtlc}
GNextAll ==
            \/ \E c \in C : \E i \in 1..2 : \E p \in {Draw(c)} : Notify(p) /\ Rec(Ev("Notify", c, 0, p))
            \/ \E c \in C : Coin(2) /\ Replay(c, NoIc) /\ Rec(Ev("Replay", c, 0, NoP))
            \/ \E k \in Inv : (inv[k].st = "accepted" \/ Coin(8)) /\ Settle(k) /\ Rec(Ev("Settle", 0, k, NoP))
            \/ \E k \in Inv : Coin(6) /\ Cancel(k) /\ Rec(Ev("Cancel", 0, k, NoP))
            \/ Coin(2) /\ Tick /\ Rec(Ev("Tick", 0, 0, NoP))
            \/ Coin(3) /\ Block /\ Rec(Ev("Block", 0, 0, NoP))
\* one new HTLC (two draws) on ONE free circuit per step, so that timeouts, settles and cancels are not
\* crowded out; an accepted invoice is settled or canceled soon
GNextHold ==
            \/ Free # {} /\ \E c \in {RandomElement(Free)} : \E i \in 1..2 : \E p \in {DrawH(c)} :
                              Notify(p) /\ Rec(Ev("Notify", c, 0, p))
            \/ \E c \in {RandomElement(C)} : Coin(2) /\ Replay(c, NoIc) /\ Rec(Ev("Replay", c, 0, NoP))
            \/ \E k \in Inv : (inv[k].st = "accepted" \/ Coin(10)) /\ Settle(k) /\ Rec(Ev("Settle", 0, k, NoP))
            \/ \E k \in Inv : ((inv[k].st = "accepted" /\ Coin(2)) \/ Coin(10)) /\ Cancel(k) /\ Rec(Ev("Cancel", 0, k, NoP))
            \/ (timer # {} \/ Coin(6)) /\ Tick /\ Rec(Ev("Tick", 0, 0, NoP))
            \/ Coin(4) /\ Block /\ Rec(Ev("Block", 0, 0, NoP))
\* AMP sets: an invoice with a settled set is canceled soon; replays carry an arbitrary interceptor answer
SettledOn(k) == \E d \in C : htlc[d].k = k /\ htlc[d].st = "settled"
GNextAmp ==
            \/ Free # {} /\ \E c \in {RandomElement(Free)} : \E i \in 1..2 : \E p \in {DrawA(c)} :
                              Notify(p) /\ Rec(Ev("Notify", c, 0, p))
            \/ \E c \in {RandomElement(C)} : \E ic \in {RandomElement(IcAnswers)} :
                  Coin(2) /\ Replay(c, ic) /\ Rec(Ev("Replay", c, 0, IcP(ic)))
            \/ \E k \in Inv : Coin(12) /\ Settle(k) /\ Rec(Ev("Settle", 0, k, NoP))
            \/ \E k \in Inv : ((SettledOn(k) /\ Coin(2)) \/ Coin(8)) /\ Cancel(k) /\ Rec(Ev("Cancel", 0, k, NoP))
            \/ ((timer # {} /\ Coin(3)) \/ Coin(8)) /\ Tick /\ Rec(Ev("Tick", 0, 0, NoP))
            \/ Coin(4) /\ Block /\ Rec(Ev("Block", 0, 0, NoP))
\* interceptor: one new HTLC on one free circuit per step, one replay of a recorded circuit with a drawn answer
GNextIcept ==
            \/ Free # {} /\ \E c \in {RandomElement(Free)} : \E i \in 1..2 : \E p \in {DrawI(c)} :
                              Notify(p) /\ Rec(Ev("Notify", c, 0, p))
            \/ Recorded # {} /\ \E c \in {RandomElement(Recorded)} : \E ic \in {RandomElement(IcAnswers)} :
                  Replay(c, ic) /\ Rec(Ev("Replay", c, 0, IcP(ic)))
            \/ \E k \in Inv : ((inv[k].st = "accepted" /\ Coin(2)) \/ Coin(10)) /\ Settle(k) /\ Rec(Ev("Settle", 0, k, NoP))
            \/ \E k \in Inv : Coin(8) /\ Cancel(k) /\ Rec(Ev("Cancel", 0, k, NoP))
            \/ Coin(4) /\ Tick /\ Rec(Ev("Tick", 0, 0, NoP))
            \/ Coin(4) /\ Block /\ Rec(Ev("Block", 0, 0, NoP))
GNext == /\ Len(hist) < MaxLen
         /\ CASE Focus = "holdsets" -> GNextHold
              [] Focus = "ampsets" -> GNextAmp
              [] Focus = "icept" -> GNextIcept
              [] OTHER -> GNextAll
GSpec == GInit /\ [][GNext]_<<vars, hist>>

Dump == (Len(hist) = MaxLen) =>
          ndJsonSerialize("b_" \o ToString(TLCGet("stats").traces) \o ".ndjson", hist)
=============================================================================
