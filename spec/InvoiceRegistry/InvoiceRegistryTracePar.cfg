SPECIFICATION TSpec
CONSTANTS
  NC = 4
  K1 = "regular"
  K2 = "regular"
  V = 4
  Amts = {3, 2, 4, 5}
  Tots = {3, 4, 5}
  InvDelta = 6
  RejectDelta = 4
  MaxHeight = 1000
  MaxNow = 1000
  Margins = {0, 1, 2}
  ExpiredOffs = {1, 10, 90}
  KeysendQuirk = TRUE
  Guarded = TRUE
INVARIANTS NotAccepted StoreResAgree StoreAmtPaidExact StoreStatesAgree StoreForward TypeOK SettledIsPaid AmtPaidExact StatesAgree
CONSTRAINT HighWater
CHECK_DEADLOCK FALSE
