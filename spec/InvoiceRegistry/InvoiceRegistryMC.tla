------------------------ MODULE InvoiceRegistryMC ------------------------
(* Exhaustive exploration of InvoiceRegistry for one pair of invoice kinds. *)
(*                                                                          *)
(* `last` is an observation of the step just taken, not state: it is left   *)
(* out of the VIEW; everything that speaks about it is an action property   *)
(* (TLC evaluates those on every transition, seen or not).                  *)
(*                                                                          *)
(* Reductions made by the view (sound for KeysendQuirk = FALSE):            *)
(*  - absolute heights and times do not matter for the future of a state:   *)
(*    a new HTLC's expiry is chosen relative to the current height, a       *)
(*    recorded expiry is only looked at by SettledIsPaid through the sign   *)
(*    of exp - ah - Need(k), a recorded accept time only through the age of *)
(*    a pending timer;                                                      *)
(*    (a pending keysend call passed the expiry pre-check at its height,    *)
(*    nothing else looks at its expiry: it is viewed without it);           *)
(*  - circuit keys are interchangeable unless an AMP invoice is present     *)
(*    (AMP set membership names circuits; then only the members of s1 are   *)
(*    interchangeable): the HTLC table is viewed as a bag of records;       *)
(*  - a recorded blinded-path HTLC is viewed as an MPP HTLC: no action and   *)
(*    no invariant distinguishes the two once recorded (HasTot, SetOf);      *)
(*  - kp (the circuit-key pattern) is read by no action: left out.           *)
EXTENDS InvoiceRegistry
CONSTANT MaxEvents          \* bound on the length of the event sequences (0 = unbounded: full closure)
VARIABLE nev

MarginOK(c) == IF htlc[c] = NoHtlc THEN 0
               ELSE IF htlc[c].exp - htlc[c].ah - Need(htlc[c].k) < 0 THEN -1 ELSE 0
Age(c) == IF c \in timer THEN now - htlc[c].at ELSE 0
Rec(c) == [r |-> [htlc[c] EXCEPT !.exp = MarginOK(c), !.ah = 0, !.at = Age(c),
                                   !.pl = IF @ = "blinded" THEN "mpp" ELSE @],
           s |-> c \in sub, t |-> c \in timer,
           c |-> IF ~HasKind("amp") THEN 0 ELSE IF c \in Members("s1") THEN 1 ELSE c]
Bag == {<<x, Cardinality({c \in C : Rec(c) = x})>> : x \in {Rec(c) : c \in C}}
\* (the last component is constant; comparing a function with itself makes TLC materialise the lazily
\*  built function values of the state, which it otherwise fails to write when the queue spills to disk)
View == <<inv, Bag, setOwner, {[x EXCEPT !.exp = 0] : x \in pend}, nev, htlc = htlc /\ last = last /\ inv = inv>>
FullView == <<inv, htlc, sub, timer, setOwner, height, now, pend, nev>>

MCInit == Init /\ nev = 0
MCNext == /\ (MaxEvents = 0 \/ nev < MaxEvents)
          /\ Next
          /\ nev' = IF MaxEvents = 0 THEN 0 ELSE nev + 1
MCSpec == MCInit /\ [][MCNext]_<<vars, nev>>
=============================================================================
