----------------------- MODULE InvoiceRegistryTrace -----------------------
(* Trace validation: every recorded call of the real InvoiceRegistry must be  *)
(* the corresponding InvoiceRegistry action, and what the real code answered  *)
(* (direct resolution, resolutions on the hodl channels, the LookupInvoice    *)
(* projection of both invoices) must equal the model after that action.       *)
(* The same module judges the KV and the SQLite store.                        *)
(*                                                                            *)
(* The projection of the two invoices in every record is what the executor    *)
(* READ BACK FROM THE STORE (InvoiceDB.LookupInvoice) after the event, looked *)
(* up under the concrete circuit keys of the behaviour's key pattern kp (the  *)
(* Reset record carries the value classes of the keys it used: ConformReset   *)
(* compares them with KeyOf).  Besides the comparison with the model          *)
(* (Conform..), the clauses of the property that speak about recorded state   *)
(* are evaluated on that projection itself, together with the answers handed  *)
(* out in the same event (Store.., no model state involved):                  *)
(*   StoreResAgree      an HTLC the links were told to settle / fail is held  *)
(*                      as settled / canceled by the store, a held one as     *)
(*                      accepted ("no HTLC is both settled and canceled")     *)
(*   StoreAmtPaidExact  a settled non-AMP invoice records as amount paid      *)
(*                      exactly the sum of its settled HTLCs                  *)
(*   StoreStatesAgree   settled HTLCs only on a settled invoice, none left    *)
(*                      accepted on a settled one, all canceled on a canceled *)
(*                      one (non-AMP); an HTLC is on one invoice only and     *)
(*                      under a circuit key that was used                     *)
(*   StoreForward       from one record to the next invoice and HTLC states   *)
(*                      only move forward, amounts and totals never change    *)
(*                                                                            *)
(* Sequential records (th = 0) are compared by INVARIANTS over the last       *)
(* consumed line (Guarded = FALSE: the violated invariant names the field).   *)
(* A concurrent block  Par(n1,n2) | n1 records of link 1 | n2 records of link *)
(* 2 | Join(snapshot)  is explained by SOME interleaving of the two links:    *)
(* there the recorded answers are enabling conditions (Guarded = TRUE), and a *)
(* trace file is accepted iff the end of the file is reachable (the cfg lists *)
(* NotAccepted as the invariant TLC has to violate).                          *)
EXTENDS InvoiceRegistry, Json
CONSTANT Guarded
VARIABLES l,      \* next line to consume (outside a block)
          blk,    \* [on, base, n1, n2, p1, p2]: progress inside a concurrent block
          acc     \* hodl deliveries accumulated inside a block

Trace == ndJsonDeserialize("trace.ndjson")
Last == Trace[l - 1]
tvars == <<vars, l, blk, acc>>
NoBlk == [on |-> FALSE, base |-> 0, n1 |-> 0, n2 |-> 0, p1 |-> 0, p2 |-> 0, ins1 |-> FALSE, ins2 |-> FALSE]

TInit == Init /\ l = 1 /\ blk = NoBlk /\ acc = NoMsgs /\ TLCSet(1, 0)

POf(r) == [c |-> r.c, pl |-> r.pl, h |-> r.h, ad |-> r.ad, amt |-> r.amt, tot |-> r.tot, exp |-> r.exp,
           set |-> r.set, good |-> r.good = 1, cs |-> r.cs = 1, ma |-> r.ma]

\* ---- recorded vs model ----------------------------------------------------
WhyOK(lst, r) == r.why = lst.why \/ (lst.alt # "" /\ r.why = lst.alt)
ResOK(lst, r) == r.res = lst.res /\ WhyOK(lst, r) /\ r.preok = 1
HodlOK(msgs, r) == /\ r.hdup = 0
                   /\ \A d \in C : /\ r.hodl[d].kd = msgs[d].kd
                                   /\ r.hodl[d].why = msgs[d].why
                                   /\ r.hodl[d].preok = 1
InvOK(i, r) == \A k \in Inv : /\ r.inv[k].ex = (IF i[k].ex THEN 1 ELSE 0)
                              /\ i[k].ex => (r.inv[k].st = i[k].st /\ r.inv[k].paid = i[k].paid /\ r.inv[k].rem = 0)
HtlcOK(i, f, r) == \A k \in Inv : /\ r.inv[k].extra = 0
                                  /\ \A d \in C :
                                       LET x == r.inv[k].h[d] IN
                                       IF f[d].k = k /\ i[k].ex
                                         THEN /\ x.st = f[d].st /\ x.amt = f[d].amt /\ x.tot = f[d].tot
                                              /\ x.ah = f[d].ah /\ x.exp = f[d].exp /\ x.at = f[d].at
                                         ELSE x.st = "none"
Match(lst, i, f, msgs, r) == ResOK(lst, r) /\ HodlOK(msgs, r) /\ InvOK(i, r) /\ HtlcOK(i, f, r)

Is(a) == ~blk.on /\ l <= Len(Trace) /\ Trace[l].a = a /\ Trace[l].th = 0 /\ l' = l + 1
Seql == UNCHANGED <<blk, acc>> /\ (Guarded => Match(last', inv', htlc', last'.hodl, Trace[l]))

\* the event of record r (a replay of a circuit key that is on no invoice is a fresh evaluation); cs / ma of a
\* Replay record are what the interceptor client answered to THAT call
Event(r) == \/ r.a \in {"Notify", "Replay"} /\ htlc[r.c] = NoHtlc /\ height = r.ht /\ Notify(POf(r))
            \/ r.a = "Replay" /\ htlc[r.c] # NoHtlc /\ height = r.ht /\ Replay(r.c, [cs |-> r.cs = 1, ma |-> r.ma])

Reset == /\ Is("Reset")
         /\ kinds' = <<Trace[l].k1, Trace[l].k2>>
         /\ kp' = Trace[l].kp
         /\ inv' = [k \in Inv |-> LET kd == IF k = 1 THEN Trace[l].k1 ELSE Trace[l].k2 IN
                                   [ex |-> kd # "keysend", st |-> "open", paid |-> 0,
                                    val |-> IF kd \in {"zeroamt", "keysend"} THEN 0 ELSE V]]
         /\ htlc' = [c \in C |-> NoHtlc]
         /\ sub' = {} /\ timer' = {} /\ setOwner' = [s \in Sets |-> 0]
         /\ height' = 0 /\ now' = 0 /\ pend' = {}
         /\ last' = [a |-> "init", c |-> 0, k |-> 0, res |-> "none", why |-> "", alt |-> "", hodl |-> NoMsgs]
         /\ blk' = NoBlk /\ acc' = NoMsgs

Par == /\ Is("Par")
       /\ blk' = [on |-> TRUE, base |-> l + 1, n1 |-> Trace[l].n1, n2 |-> Trace[l].n2, p1 |-> 0, p2 |-> 0,
                 ins1 |-> FALSE, ins2 |-> FALSE]
       /\ acc' = NoMsgs
       /\ UNCHANGED vars

\* one link takes its next call, or - for a keysend call - one of its two critical sections
Link(t) ==
  /\ blk.on
  /\ IF t = 1 THEN blk.p1 < blk.n1 ELSE blk.p2 < blk.n2
  /\ LET r   == Trace[IF t = 1 THEN blk.base + blk.p1 ELSE blk.base + blk.n1 + blk.p2]
         p   == POf(r)
         ins == IF t = 1 THEN blk.ins1 ELSE blk.ins2
         ks  == r.a \in {"Notify", "Replay"} /\ htlc[r.c] = NoHtlc /\ r.pl = "keysend"
     IN \/ /\ ks /\ ~ins /\ height = r.ht /\ ~KsBad(p)           \* processKeySend inserted the invoice
           /\ inv' = KsIns(p)
           /\ last' = [a |-> "KsInsert", c |-> r.c, k |-> 0, res |-> "none", why |-> "", alt |-> "", hodl |-> NoMsgs]
           /\ blk' = IF t = 1 THEN [blk EXCEPT !.ins1 = TRUE] ELSE [blk EXCEPT !.ins2 = TRUE]
           /\ UNCHANGED <<kinds, kp, htlc, sub, timer, setOwner, height, now, pend, acc, l>>
        \/ /\ IF ks /\ ins
                THEN height = r.ht /\ Commit(LockedOut(inv, Eff(p)), "Notify", r.c, 0) /\ UNCHANGED <<height, now, pend>>
                ELSE Event(r)
           /\ ResOK(last', r)
           /\ acc' = [d \in C |-> IF last'.hodl[d].kd # "none" THEN last'.hodl[d] ELSE acc[d]]
           /\ \A d \in C : last'.hodl[d].kd # "none" => acc[d].kd = "none"
           /\ blk' = IF t = 1 THEN [blk EXCEPT !.p1 = @ + 1, !.ins1 = FALSE] ELSE [blk EXCEPT !.p2 = @ + 1, !.ins2 = FALSE]
           /\ UNCHANGED l

Join == /\ blk.on /\ blk.p1 = blk.n1 /\ blk.p2 = blk.n2
        /\ LET r == Trace[blk.base + blk.n1 + blk.n2] IN
           /\ r.a = "Join"
           /\ HodlOK(acc, r) /\ InvOK(inv, r) /\ HtlcOK(inv, htlc, r)
        /\ l' = blk.base + blk.n1 + blk.n2 + 1
        /\ blk' = NoBlk /\ acc' = NoMsgs
        /\ UNCHANGED vars

TNext == \/ Is("Notify") /\ Event(Trace[l]) /\ Seql
         \/ Is("Replay") /\ Event(Trace[l]) /\ Seql
         \/ Is("Settle") /\ Settle(Trace[l].k) /\ Seql
         \/ Is("Cancel") /\ Cancel(Trace[l].k) /\ Seql
         \/ Is("Tick") /\ Tick /\ Seql
         \/ Is("Block") /\ Block /\ Seql
         \/ Reset
         \/ Par
         \/ Link(1) \/ Link(2)
         \/ Join
         \/ (l = Len(Trace) + 1 /\ ~blk.on /\ UNCHANGED tvars)
TSpec == TInit /\ [][TNext]_tvars

\* ---- Guarded = FALSE: conformance as invariants over the last consumed line
Live == ~Guarded /\ l > 1 /\ ~blk.on /\ Last.a \notin {"Reset", "Par", "Join"}
ConformRes  == Live => ResOK(last, Last)
ConformHodl == Live => HodlOK(last.hodl, Last)
ConformInv  == Live => InvOK(inv, Last)
ConformHtlc == Live => HtlcOK(inv, htlc, Last)
\* the fixture itself: what AddInvoice created is what the model starts from
\* ... and the circuit keys the executor used are those of the pattern
KeysOK(r) == /\ r.kp \in KeyPatterns
             /\ \A c \in C : r.ck[c].ch = KeyOf(r.kp, c).ch /\ r.ck[c].id = KeyOf(r.kp, c).id /\ r.ck[c].n = KeyOf(r.kp, c).n
ConformReset == (~Guarded /\ l > 1 /\ Last.a = "Reset") => (InvOK(inv, Last) /\ HtlcOK(inv, htlc, Last) /\ KeysOK(Last))

\* ---- the property on the store's projection (recorded values only) ----------
SH(r, k, d) == r.inv[k].h[d]
RECURSIVE StoreSumTo(_, _, _, _)
StoreSumTo(r, k, st, n) == IF n = 0 THEN 0
                           ELSE (IF SH(r, k, n).st = st THEN SH(r, k, n).amt ELSE 0) + StoreSumTo(r, k, st, n - 1)
StoreSum(r, k, st) == StoreSumTo(r, k, st, NC)
Held(r, d, st) == \E k \in Inv : SH(r, k, d).st = st
\* records that carry a projection read after an event: all but the opening of a concurrent block and the
\* records inside one (these repeat the projection taken before the block)
Snap == l > 1 /\ ~blk.on /\ Last.a # "Par"
SeqRec == Snap /\ Last.a \notin {"Reset", "Join"}
\* (with KeysendQuirk the answer of deviation D1 is exempt here as well: it is reported on its own)
D1Rec(r) == KeysendQuirk /\ r.a = "Replay" /\ r.why = WKeysend
HodlAgree(r) == \A d \in C : /\ (r.hodl[d].kd = "settle" => Held(r, d, "settled"))
                             /\ (r.hodl[d].kd = "fail" => Held(r, d, "canceled"))
DirectAgree(r) == /\ (r.res = "settle" => Held(r, r.c, "settled"))
                  /\ (r.res = "accept" => Held(r, r.c, "accepted"))
                  /\ (r.res = "fail" => (~Held(r, r.c, "settled") /\ ~Held(r, r.c, "accepted")))
StoreResAgree ==
  SeqRec => (HodlAgree(Last) /\ ((Last.a \in {"Notify", "Replay"} /\ ~D1Rec(Last)) => DirectAgree(Last)))
StoreAmtPaidExact ==
  Snap => \A k \in Inv : (Last.inv[k].ex = 1 /\ ~IsAmp(k) /\ Last.inv[k].st = "settled") =>
                            (Last.inv[k].paid = StoreSum(Last, k, "settled") /\ Last.inv[k].rem = 0)
StoreStatesAgree ==
  Snap => /\ \A k \in Inv : /\ Last.inv[k].extra = 0
                            /\ Last.inv[k].ex = 0 => \A d \in C : SH(Last, k, d).st = "none"
                            /\ ~IsAmp(k) => \A d \in C :
                                  /\ SH(Last, k, d).st = "settled" => Last.inv[k].st = "settled"
                                  /\ Last.inv[k].st = "settled" => SH(Last, k, d).st # "accepted"
                                  /\ Last.inv[k].st = "canceled" => SH(Last, k, d).st \in {"none", "canceled"}
          /\ \A d \in C : SH(Last, 1, d).st = "none" \/ SH(Last, 2, d).st = "none"
StoreForward ==
  (Snap /\ Last.a # "Reset" /\ l > 2) =>
     LET q == Trace[l - 2] IN
     \A k \in Inv :
        /\ q.inv[k].ex = 1 => /\ Last.inv[k].ex = 1
                              /\ InvRank(Last.inv[k].st) >= InvRank(q.inv[k].st)
                              /\ InvRank(q.inv[k].st) = 2 => Last.inv[k].st = q.inv[k].st
        /\ \A d \in C : SH(q, k, d).st # "none" =>
              /\ HtlcRank(SH(Last, k, d).st) >= HtlcRank(SH(q, k, d).st)
              /\ HtlcRank(SH(q, k, d).st) = 2 => SH(Last, k, d).st = SH(q, k, d).st
              /\ SH(Last, k, d).amt = SH(q, k, d).amt /\ SH(Last, k, d).tot = SH(q, k, d).tot

\* the action properties of the property, on the model run that the trace selects (a Reset starts a new run)
NotReset == ~(~blk.on /\ l <= Len(Trace) /\ Trace[l].a = "Reset")
TForwardOnly == [][NotReset => Forward]_tvars
\* (with KeysendQuirk the step of deviation D1 is exempt here: it is reported on its own)
D1Step == KeysendQuirk /\ last'.a = "Replay" /\ last'.why = WKeysend
TResolutionsAgree == [][(NotReset /\ ~D1Step) => ResAgree]_tvars
TReplaySameVerdict == [][(NotReset /\ ~D1Step) => ReplaySame]_tvars

\* ---- Guarded = TRUE: accepted iff TLC can reach the end of the file
NotAccepted == l <= Len(Trace)
\* how far TLC got (printed by the orchestration when a file is not accepted)
HighWater == IF l > TLCGet(1) THEN TLCSet(1, l) /\ PrintT(<<"highwater", l>>) ELSE TRUE
=============================================================================
