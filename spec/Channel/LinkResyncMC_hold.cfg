SPECIFICATION Spec
CONSTANTS
  MaxAdds = 1
  MaxFlaps = 2
  MaxShut = 1
  MaxFees = 0
  FeeRates = {6000, 9000, 12000}
  BaseFee = 6000
  Kinds = {1, 2}
  BlockInOnResume = FALSE
INVARIANTS NoFailure QuiescentSynced ExactlyOnce CovSane
VIEW View
CHECK_DEADLOCK FALSE
