SPECIFICATION TSpec
CONSTANTS
  Fused = TRUE
  SoftReest = FALSE
  MaxAdds = 1000000
  MaxHeight = 1000000
  MaxDisc = 1000000
  Amts = {1}
  Cap = 1000000000
  CapSat = 1000000
  Rates = {1}
  MaxFees = 1000000
  Openers = {"A", "B"}
  InitRate = 6000
  F6Quirk = FALSE
  F7Quirk = FALSE
  PoorShare = 0
INVARIANTS BadRevRefused ErrAgree ConformCounters ConformNet ConformChains ConformLogs ReloadOpens ConformShadowCounters ConformShadowChains ConformShadowLogs ConformFwd ConformDack AtMostOneTx ConformStatic ExactConservation ConformTxLayer OraclesHold NeverBroadcastRevoked Conservation NextPointRule ReestPointRule ConformMods ConformShadowMods
CHECK_DEADLOCK TRUE
