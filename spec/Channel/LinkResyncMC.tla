--------------------------- MODULE LinkResyncMC ---------------------------
(* Exhaustive bounded check of LinkResync (C03, link level).               *)
EXTENDS LinkResync
=============================================================================
