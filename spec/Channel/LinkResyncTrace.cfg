SPECIFICATION TSpec
CONSTANTS
  MaxAdds = 1000
  MaxFlaps = 1000
  MaxShut = 2
  BlockInOnResume = FALSE
  OweSigQuirk = FALSE
INVARIANTS NoLinkFailure ConformRes ConformMsg ConformOut ConformEv ConformQueue ConformHeights ConformHtlcs ConformLink Mirror EndQuiescent ConformEnd NoFailure QuiescentSynced ExactlyOnce CovSane
CHECK_DEADLOCK TRUE
