SPECIFICATION TSpec
CONSTANTS
  MaxAdds = 1000
  MaxFlaps = 1000
  MaxShut = 2
  MaxFees = 1000
  FeeRates = {6000, 9000, 12000}
  BaseFee = 6000
  Kinds = {0, 1, 2}
  BlockInOnResume = FALSE
INVARIANTS NoLinkFailure ConformRes ConformMsg ConformOut ConformEv ConformQueue ConformHeights ConformHtlcs ConformFee ConformLink Mirror EndQuiescent ConformEnd NoFailure QuiescentSynced ExactlyOnce CovSane
CHECK_DEADLOCK TRUE
