SPECIFICATION Spec
CONSTANTS
  Fused = FALSE
  SoftReest = FALSE
  MaxAdds = 1
  MaxHeight = 3
  MaxDisc = 1
  Amts = {25000000}
  Cap = 1000000000
  Rates = {12000}
  MaxFees = 0
  Openers = {"A"}
  InitRate = 6000
  F6Quirk = FALSE
  F7Quirk = FALSE
  PoorShare = 0
INVARIANTS NoError
CHECK_DEADLOCK FALSE
