---------------------------- MODULE ChannelTrace ----------------------------
(* Trace validation for executions of two real lnwallet.LightningChannel     *)
(* objects (harness/lnwallet/channel_exec_test.go).  Every recorded API call *)
(* must be the corresponding Channel action; after it the real code's        *)
(* counters, commitment chains, update logs (entry by entry with all four    *)
(* commit heights), the queue of outgoing messages, and the state of a       *)
(* channel RELOADED FROM THE DATABASE after that very call must equal the    *)
(* model's; every Go-side oracle bit (signature / txid / script checks)      *)
(* must be set; the exact-msat conservation is evaluated here on the         *)
(* recorded numbers.                                                         *)
EXTENDS Channel, Json
CONSTANT CapSat
VARIABLES l,
          ctx     \* per-trace configuration from the Reset line: channel type and both dust limits

Trace == ndJsonDeserialize("trace.ndjson")

JSet(s) == {s[i] : i \in 1..Len(s)}
PC(c) == [h |-> c.h, ob |-> c.ob, tb |-> c.tb, fee |-> c.fee,
          outs |-> {<<x.hi, x.amt>> : x \in c.outs}, ins |-> {<<x.hi, x.amt>> : x \in c.ins}]
JC(j) == [h |-> j.h, ob |-> j.ob, tb |-> j.tb, fee |-> j.fee, outs |-> JSet(j.outs), ins |-> JSet(j.ins)]
PChain(ch) == [i \in 1..Len(ch) |-> PC(ch[i])]
JChain(j) == [i \in 1..Len(j) |-> JC(j[i])]
PLog(lg) == [i \in 1..Len(lg) |->
               [t |-> lg[i].t, li |-> lg[i].li, hi |-> lg[i].hi, amt |-> lg[i].amt,
                aL |-> lg[i].aL, aR |-> lg[i].aR, rL |-> lg[i].rL, rR |-> lg[i].rR]]
JLog(j) == [i \in 1..Len(j) |->
               [t |-> j[i].t, li |-> j[i].li, hi |-> j[i].hi, amt |-> j[i].amt,
                aL |-> j[i].aL, aR |-> j[i].aR, rL |-> j[i].rL, rR |-> j[i].rR]]

MatchCounters(p, j) == /\ Lidx[p] = j.lidx /\ Lhtlc[p] = j.lhtlc
                       /\ Ridx[p] = j.ridx /\ Rhtlc[p] = j.rhtlc
MatchChains(p, j) == /\ PChain(LC[p]) = JChain(j.LC) /\ PChain(RC[p]) = JChain(j.RC)
MatchLogs(p, j) == /\ PLog(L[p]) = JLog(j.L) /\ PLog(R[p]) = JLog(j.R)
MatchNet(p, j) == [i \in 1..Len(net[p]) |-> net[p][i].k] = [i \in 1..Len(j.net) |-> j.net[i]]

Last == Trace[l - 1]
Live == l > 1 /\ Last.a \notin {"Reset", "AddRejected"}
Good == Live /\ Last.err = ""

\* C01/C03: the real call fails exactly when the model says an honest run must not get here
ErrAgree        == Live => ((Last.err = "") <=> (bad = "none"))
ConformCounters == Good => \A p \in Party : MatchCounters(p, Last.st[p])
ConformChains   == Good => \A p \in Party : MatchChains(p, Last.st[p])
ConformLogs     == Good => \A p \in Party : MatchLogs(p, Last.st[p])
ConformNet      == Good => \A p \in Party : MatchNet(p, Last.st[p])

\* which adds already carry a settle/fail that is still in the log (updateLog.modifiedHtlcs): guards against a
\* second resolution of the same HTLC and against refusing the first one
ConformMods == Good => \A p \in Party : JSet(Last.st[p].lmod) = Lmod[p] /\ JSet(Last.st[p].rmod) = Rmod[p]

\* C02: a channel re-created from the database after *every* call equals Restored(p)
MatchShadow(p, j) ==
  LET r == Restored(p) IN
  /\ r.Lidx = j.lidx /\ r.Lhtlc = j.lhtlc /\ r.Ridx = j.ridx /\ r.Rhtlc = j.rhtlc
  /\ PChain(r.LC) = JChain(j.LC) /\ PChain(r.RC) = JChain(j.RC)
  /\ PLog(r.L) = JLog(j.L) /\ PLog(r.R) = JLog(j.R)
\* C02: the forwarding packages on disk (read back through LoadFwdPkgs of the reloaded channel)
JFwd(j) == [k \in 1..Len(j) |-> [h |-> j[k].h, adds |-> j[k].adds,
                                 sfs |-> [i \in 1..Len(j[k].sfs) |-> <<j[k].sfs[i][1], j[k].sfs[i][2]>>],
                                 ack |-> JSet(j[k].ack)]]
ConformFwd == (Good /\ Last.sherr = "") => \A p \in Party : disk[p].fwd = JFwd(Last.sh[p].fwd)

\* C02: the SettleFailFilter of the package of the (surviving) outgoing channel, read back from the database
ConformDack == (Good /\ Last.sherr = "") => \A p \in Party : disk[p].dack = JSet(Last.sh[p].dack)

\* C02: "each channeldb write is one atomic kvdb transaction": an API call commits at most one read-write
\* transaction (counted from the bbolt file's meta pages), so call boundaries are all the crash points there are
AtMostOneTx == Good => \A p \in Party : Last.ntx[p] <= 1 /\ (p # Last.p => Last.ntx[p] = 0)

\* C02: static channel parameters that enter the scripts survive a reload: the lease expiry (ThawHeight) of a
\* script-enforced lease channel (written once, when the channel is first synced to disk)
ConformStatic == Good => \A p \in Party : /\ Last.st[p].thaw = ctx.thaw
                                          /\ Last.sherr = "" => Last.sh[p].thaw = ctx.thaw

ReloadOpens   == Live => Last.sherr \in {"", "skipped"}
Shadowed == Good /\ Last.sherr = ""
ConformShadowCounters == Shadowed => \A p \in Party : LET r == Restored(p) j == Last.sh[p] IN
                            r.Lidx = j.lidx /\ r.Lhtlc = j.lhtlc /\ r.Ridx = j.ridx /\ r.Rhtlc = j.rhtlc
ConformShadowChains   == Shadowed => \A p \in Party : LET r == Restored(p) j == Last.sh[p] IN
                            PChain(r.LC) = JChain(j.LC) /\ PChain(r.RC) = JChain(j.RC)
ConformShadowLogs     == Shadowed => \A p \in Party : LET r == Restored(p) j == Last.sh[p] IN
                            PLog(r.L) = JLog(j.L) /\ PLog(r.R) = JLog(j.R)
ConformShadowMods     == Shadowed => \A p \in Party : LET r == Restored(p) j == Last.sh[p] IN
                            JSet(j.lmod) = r.Lmod /\ JSet(j.rmod) = r.Rmod
ConformShadow == Shadowed => \A p \in Party : MatchShadow(p, Last.sh[p])

\* C01: conservation to the millisatoshi on every commitment either side holds (live and
\* reloaded), evaluated on the recorded raw numbers: balances + HTLCs + fee + anchors = capacity,
\* and the transaction's outputs + fee never exceed the capacity
SumAmt(s) == LET F[i \in 0..Len(s)] == IF i = 0 THEN 0 ELSE F[i-1] + s[i][2] IN F[Len(s)]
ExactC(j) == /\ j.obm + j.tbm + SumAmt(j.outs) + SumAmt(j.ins) + 1000 * (j.feesat + j.anch) = 1000 * CapSat
             /\ (j.h = 0 \/ j.txout + j.feesat <= CapSat)   \* the fixture's genesis tx is not fee-adjusted
             /\ j.obm >= 0 /\ j.tbm >= 0
ExactAll(pp) == /\ \A i \in 1..Len(pp.LC) : ExactC(pp.LC[i])
                /\ \A i \in 1..Len(pp.RC) : ExactC(pp.RC[i])
ExactConservation == Good => \A p \in Party : ExactAll(Last.st[p]) /\ (Last.sherr = "" => ExactAll(Last.sh[p]))

\* C01: every Go-side oracle of the step holds (1 = checked and true, -1 = not applicable):
\*   txeq  - the signer's remote commitment tx and the receiver's new local tx have the same txid
\*   sigok - the reloaded local commitment is fully signed: script engine accepts it against the funding output
OraclesHold == Good => /\ Last.txeq # 0
                       /\ \A p \in Party : Last.sigok[p] # 0

-----------------------------------------------------------------------------
(* Transaction layer (C01: "mis-counts a dust HTLC in the fee"): which HTLCs  *)
(* have an output on a commitment and what the commitment fee must be, from   *)
(* BOLT-3 as lnd implements it (HtlcIsDust, CommitWeight, HtlcTimeoutFee,     *)
(* HtlcSuccessFee).  The weights are written down here, not taken from the    *)
(* code under test; the dust limits are fixture configuration.                *)
TypeTable ==
  [legacy       |-> [cw |-> 724,  tw |-> 663, sw |-> 703, anch |-> 0],
   tweakless    |-> [cw |-> 724,  tw |-> 663, sw |-> 703, anch |-> 0],
   anchors      |-> [cw |-> 1124, tw |-> 666, sw |-> 706, anch |-> 660],
   zerofee      |-> [cw |-> 1124, tw |-> 0,   sw |-> 0,   anch |-> 660],
   lease        |-> [cw |-> 1124, tw |-> 0,   sw |-> 0,   anch |-> 660],
   taproot      |-> [cw |-> 968,  tw |-> 0,   sw |-> 0,   anch |-> 660],
   taprootfinal |-> [cw |-> 968,  tw |-> 0,   sw |-> 0,   anch |-> 660]]
TT == TypeTable[ctx.type]
\* fee of the second-level tx that spends an HTLC: on the owner's own commitment an offered HTLC
\* times out and a received one succeeds; on the counterparty's commitment it is the reverse
SecondFee(rate, offeredByOwner) == (rate * (IF offeredByOwner THEN TT.tw ELSE TT.sw)) \div 1000
NonDust(amtMsat, rate, offeredByOwner, limit) == (amtMsat \div 1000) - SecondFee(rate, offeredByOwner) >= limit
\* j: recorded commitment held by p; own = TRUE for p's local chain (owner p), FALSE for the remote chain
CountSeq(s, P(_)) == LET F[i \in 0..Len(s)] == IF i = 0 THEN 0 ELSE F[i-1] + (IF P(s[i]) THEN 1 ELSE 0) IN F[Len(s)]
NHtlcOutputs(j, p, own) ==
  LET owner == IF own THEN p ELSE Other(p)
      limit == ctx.dust[owner]
  IN  \* j.outs are offered by p: offered-by-owner iff own
      CountSeq(j.outs, LAMBDA x : NonDust(x[2], j.fee, own, limit))
    + CountSeq(j.ins,  LAMBDA x : NonDust(x[2], j.fee, ~own, limit))
ExpectFee(j, p, own) == (j.fee * (TT.cw + 172 * NHtlcOutputs(j, p, own))) \div 1000
TxC(j, p, own) == (j.h = 0) \/ (/\ j.nhtlc = NHtlcOutputs(j, p, own)
                                /\ j.anch = TT.anch
                                /\ (j.feesat = ExpectFee(j, p, own)
                                    \* an opener that cannot afford the fee pays what it has
                                    \/ (j.feesat < ExpectFee(j, p, own) /\ (IF p = opener THEN j.obm ELSE j.tbm) = 0)))
TxAll(pp, p) == /\ \A i \in 1..Len(pp.LC) : TxC(pp.LC[i], p, TRUE)
                /\ \A i \in 1..Len(pp.RC) : TxC(pp.RC[i], p, FALSE)
ConformTxLayer == Good => \A p \in Party : TxAll(Last.st[p], p) /\ (Last.sherr = "" => TxAll(Last.sh[p], p))

\* C06 part B: the secret that left with revoke_and_ack is the one the model releases, and the
\* local commitment that is durable at that moment is newer
LastRev(p) == LET n == net[p] IN n[Len(n)]
ReleaseRule == (Good /\ Last.a = "Revoke") =>
                  /\ Last.relh = LastRev(Last.p).h
                  /\ Last.relh < Last.sh[Last.p].LC[1].h

\* ... and the same when a revocation is retransmitted by ProcessChanSyncMsg (also on live objects)
ReleaseRuleReest == (Good /\ Last.a = "RecvReest" /\ Last.relh >= 0 /\ Last.sherr = "") =>
                       /\ Last.relh \in released[Last.p]
                       /\ Last.relh < Last.sh[Last.p].LC[1].h

\* ... and the commitment POINTS a party sends follow its own derivation chain without gaps or repeats
\* (recorded as indexes into the sender's chain; -2 = not on the chain at all):
\* revoke_and_ack carries the point two above the secret it releases;
NextPointRule == (Good /\ Last.a \in {"Revoke", "RecvReest"} /\ Last.relh >= 0) => Last.nph = Last.relh + 2
\* channel_reestablish names the point of the (durable) unrevoked local commitment, and a channel_ready
\* re-sent on reconnect - from the database handle (peer/funding: OpenChannel.SecondCommitmentPoint) -
\* always repeats point #1, whatever the height; the link's own resend uses the point after the tail
ReestPointRule == (Good /\ Last.a = "SendReest" /\ Last.err = "") =>
                     /\ Last.lup = Last.st[Last.p].LC[1].h
                     /\ Last.crp = 1
                     /\ Last.nrk = Last.st[Last.p].LC[1].h + 1

\* C06 part A on the channel: after the k-th revoke_and_ack was accepted, ANY handle on the channel (here one
\* fetched from the database before the history, never updated since) reproduces exactly the k secrets
\* received - the remote chain's tail height is the number of states the peer has revoked
\* C06: a secret that is not the next one of the peer's chain is refused (rej = 1: ReceiveRevocation returned an
\* error); that nothing changed is judged by the Conform* invariants of the same line
BadRevRefused == (Good /\ Last.a = "RecvBadRev") => Last.rej = 1
StaleSecretsRule == (Good /\ Last.a = "RecvRev" /\ Last.rsk # -1) => Last.rsk = Last.st[Last.p].RC[1].h

TInit == Init /\ opener = "A" /\ l = 1 /\ ctx = [type |-> "tweakless", dust |-> [A |-> 0, B |-> 0], thaw |-> 0]

Is(a) == l <= Len(Trace) /\ Trace[l].a = a /\ l' = l + 1
P == Trace[l].p
K == IF Trace[l].y = 1 THEN "settle" ELSE "fail"

Reset ==
  /\ Is("Reset")
  /\ L' = [p \in Party |-> <<>>] /\ R' = [p \in Party |-> <<>>]
  /\ Lidx' = [p \in Party |-> 0] /\ Lhtlc' = [p \in Party |-> 0]
  /\ Ridx' = [p \in Party |-> 0] /\ Rhtlc' = [p \in Party |-> 0]
  /\ Lmod' = [p \in Party |-> {}] /\ Rmod' = [p \in Party |-> {}]
  /\ LET poor == IF "poor" \in DOMAIN Trace[l] THEN Trace[l].poor ELSE 0
         o == Trace[l].opener IN
       /\ LC' = [p \in Party |-> <<InitCommitOf(p, o, poor)>>]
       /\ RC' = [p \in Party |-> <<InitCommitOf(p, o, poor)>>]
       /\ disk' = [p \in Party |-> InitDiskOf(p, o, poor)]
  /\ net' = [p \in Party |-> <<>>]
  /\ phase' = [p \in Party |-> "run"]
  /\ nadds' = [p \in Party |-> 0] /\ ndisc' = 0
  /\ released' = [p \in Party |-> {}]
  /\ nfees' = 0
  /\ opener' = Trace[l].opener
  /\ lwrMem' = [p \in Party |-> FALSE]
  /\ bad' = "none"
  /\ ctx' = [type |-> Trace[l].type, dust |-> [A |-> Trace[l].dust.A, B |-> Trace[l].dust.B], thaw |-> IF "thaw" \in DOMAIN Trace[l] THEN Trace[l].thaw ELSE 0]

\* a constraint rejection of AddHTLC (reserve, fee buffer, max in flight) is not judged: the
\* state must be unchanged, and the executor ends the behaviour there
AddRejected == Is("AddRejected") /\ UNCHANGED vars

TStep ==
  \/ Is("Add") /\ Add(P, Trace[l].x)
  \/ Is("Resolve") /\ Resolve(P, K, Trace[l].x)
  \/ Is("Sign") /\ Sign(P)
  \/ Is("Revoke") /\ Revoke(P)
  \/ Is("RecvAdd") /\ RecvAdd(P)
  \/ Is("RecvRes") /\ RecvRes(P)
  \/ Is("RecvSig") /\ RecvSig(P)
  \/ Is("RecvRev") /\ RecvRev(P)
  \/ Is("SendReest") /\ SendReest(P)
  \/ Is("RecvReest") /\ RecvReest(P)
  \/ Is("Disconnect") /\ Disconnect
  \/ Is("SoftDisconnect") /\ SoftDisconnect
  \/ Is("UpdateFee") /\ UpdateFee(P, Trace[l].x)
  \/ Is("RecvFee") /\ RecvFee(P)
  \/ AddRejected
  \/ Is("StaleTouch") /\ UNCHANGED vars
  \/ Is("LiveRefresh") /\ LiveRefresh(P)
  \/ Is("RecvBadRev") /\ RecvBadRev(P)
TNext == \/ TStep /\ UNCHANGED ctx
         \/ Reset
         \/ (l = Len(Trace) + 1 /\ UNCHANGED <<vars, l, ctx>>)

TSpec == TInit /\ [][TNext]_<<vars, l, ctx>>
=============================================================================
