--------------------------- MODULE ChannelCloseMC ---------------------------
(* C04 / C05 on the model: what a party has on disk about the counterparty's *)
(* commitments is exactly what the counterparty holds or ever held.          *)
(* `held` is a history variable: every commitment a party ever had on its    *)
(* local chain (i.e. for which it holds the peer's signature).               *)
EXTENDS Channel
VARIABLE held

MCInit == Init /\ held = [p \in Party |-> {InitCommit}]
MCNext == Next /\ held' = [p \in Party |-> held[p] \cup {LC'[p][i] : i \in 1..Len(LC'[p])}]
MCSpec == MCInit /\ [][MCNext]_<<vars, held>>

\* e: commitment of q as recorded by p; c: the same commitment as held by q
MirrorC(e, c) == /\ e.h = c.h /\ e.ob = c.tb /\ e.tb = c.ob /\ e.fee = c.fee
                 /\ HtlcIds(e.outs) = HtlcIds(c.ins) /\ HtlcIds(e.ins) = HtlcIds(c.outs)

\* C04: the revocation log entry of height h is the commitment the counterparty held at h -
\* HTLC set, balances, fee rate - never the newer one
RevLogMatches ==
  bad = "none" =>
  \A p \in Party :
    \A i \in 1..Len(disk[p].revlog) :
      LET e == disk[p].revlog[i] IN
      /\ e.h = i - 1
      /\ \E c \in held[Other(p)] : c.h = e.h
      /\ \A c \in held[Other(p)] : c.h = e.h => MirrorC(e, c)

\* C04: a revoked height is either punishable from the log, or its revocation has not been
\* processed yet and the victim still treats it as the current remote commitment (C05 applies)
RevokedIsLoggedOrCurrent ==
  bad = "none" =>
  \A q \in Party : \A h \in released[q] :
     LET p == Other(q) IN h + 1 <= Len(disk[p].revlog) \/ disk[p].rc.h = h

\* C05: whichever commitment the counterparty can broadcast (its tail, or a received and not yet
\* revoked tip) is on our disk as the current or the pending remote commitment, identical in content
EveryBroadcastableIsKnown ==
  bad = "none" =>
  \A q \in Party : \A i \in 1..Len(LC[q]) :
     LET p == Other(q)
         c == LC[q][i] IN
     \/ MirrorC(disk[p].rc, c)
     \/ (disk[p].diff.h # -1 /\ MirrorC(disk[p].diff, c))

\* C05, chain-watcher layer (contractcourt/chain_watcher.go handleCommitSpend).  The node does not choose which
\* stored commitment a confirmed transaction is resolved with: its chain watcher classifies the transaction by
\* comparing it with what is on disk, in this order - own commitment (handleKnownLocalState), counterparty's
\* current, counterparty's pending (handleKnownRemoteState: these pick the commitment AND the commit point),
\* a revoked height (handlePossibleBreach), otherwise "unknown" (data-loss recovery).  On the model a
\* transaction is identified by its owner and height.
WatcherKey(p, who, h) ==
  CASE who = p /\ disk[p].lc.h = h                           -> 0
    [] who # p /\ disk[p].rc.h = h                           -> 1
    [] who # p /\ disk[p].diff.h # -1 /\ disk[p].diff.h = h  -> 2
    [] who # p /\ h + 1 <= Len(disk[p].revlog)               -> 3
    [] OTHER                                                 -> 4
WatcherCommit(p, k) == CASE k = 1 -> disk[p].rc [] OTHER -> disk[p].diff

\* Whatever either party can broadcast is classified as a known unrevoked commitment, unambiguously (the current
\* and the pending remote commitment differ in height, and neither height is in the revocation log, so the order
\* of the watcher's tests cannot send a current/pending commitment to the breach path or vice versa), and the
\* stored commitment the classification selects has exactly the content of the transaction.
WatcherClassifies ==
  bad = "none" =>
  \A p \in Party :
    LET q == Other(p) IN
    /\ disk[p].diff.h # -1 => disk[p].diff.h = disk[p].rc.h + 1
    /\ disk[p].rc.h + 1 > Len(disk[p].revlog)
    /\ \A i \in 1..Len(LC[q]) :
          LET c == LC[q][i]
              k == WatcherKey(p, q, c.h) IN
          k \in {1, 2} /\ MirrorC(WatcherCommit(p, k), c)
    \* the commitment p itself broadcasts (what is durable: disk[p].lc) is one p holds a signature for
    /\ \E i \in 1..Len(LC[p]) : LC[p][i].h = disk[p].lc.h /\ WatcherKey(p, p, LC[p][i].h) = 0
=============================================================================
