--------------------------- MODULE ChannelCloseMC ---------------------------
(* C04 / C05 on the model: what a party has on disk about the counterparty's *)
(* commitments is exactly what the counterparty holds or ever held.          *)
(* `held` is a history variable: every commitment a party ever had on its    *)
(* local chain (i.e. for which it holds the peer's signature).               *)
EXTENDS Channel
VARIABLE held

MCInit == Init /\ held = [p \in Party |-> {InitCommit}]
MCNext == Next /\ held' = [p \in Party |-> held[p] \cup {LC'[p][i] : i \in 1..Len(LC'[p])}]
MCSpec == MCInit /\ [][MCNext]_<<vars, held>>

\* e: commitment of q as recorded by p; c: the same commitment as held by q
MirrorC(e, c) == /\ e.h = c.h /\ e.ob = c.tb /\ e.tb = c.ob /\ e.fee = c.fee
                 /\ HtlcIds(e.outs) = HtlcIds(c.ins) /\ HtlcIds(e.ins) = HtlcIds(c.outs)

\* C04: the revocation log entry of height h is the commitment the counterparty held at h -
\* HTLC set, balances, fee rate - never the newer one
RevLogMatches ==
  bad = "none" =>
  \A p \in Party :
    \A i \in 1..Len(disk[p].revlog) :
      LET e == disk[p].revlog[i] IN
      /\ e.h = i - 1
      /\ \E c \in held[Other(p)] : c.h = e.h
      /\ \A c \in held[Other(p)] : c.h = e.h => MirrorC(e, c)

\* C04: a revoked height is either punishable from the log, or its revocation has not been
\* processed yet and the victim still treats it as the current remote commitment (C05 applies)
RevokedIsLoggedOrCurrent ==
  bad = "none" =>
  \A q \in Party : \A h \in released[q] :
     LET p == Other(q) IN h + 1 <= Len(disk[p].revlog) \/ disk[p].rc.h = h

\* C05: whichever commitment the counterparty can broadcast (its tail, or a received and not yet
\* revoked tip) is on our disk as the current or the pending remote commitment, identical in content
EveryBroadcastableIsKnown ==
  bad = "none" =>
  \A q \in Party : \A i \in 1..Len(LC[q]) :
     LET p == Other(q)
         c == LC[q][i] IN
     \/ MirrorC(disk[p].rc, c)
     \/ (disk[p].diff.h # -1 /\ MirrorC(disk[p].diff, c))
=============================================================================
