SPECIFICATION Spec
CONSTANTS
  MaxAdds = 2
  MaxFlaps = 2
  MaxShut = 1
  BlockInOnResume = FALSE
  OweSigQuirk = FALSE
INVARIANTS NoFailure QuiescentSynced ExactlyOnce CovSane
VIEW View
CHECK_DEADLOCK FALSE
