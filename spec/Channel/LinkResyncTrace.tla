-------------------------- MODULE LinkResyncTrace --------------------------
(* Trace validation of the link-level part of C03.  Every line recorded by   *)
(* harness/htlcswitch/c03_link_test.go from two REAL channelLinks must be the *)
(* LinkResync action it names; what the links emitted during the step, the    *)
(* answer of the step, the delivered message and the field-copy projection of *)
(* both real channels / links must equal the model's state after the action   *)
(* (Conform..), no link may have failed or left its main loop (NoLinkFailure), *)
(* both real channels must hold the same commitment where their heights say   *)
(* so (Mirror, on recorded values only), and at the end - queues drained -    *)
(* every payment has the result its exit hop decided (ConformEnd).  The       *)
(* design invariants of LinkResync are checked on the replayed states too.    *)
EXTENDS LinkResync, Json
VARIABLES l, dm

Trace == ndJsonDeserialize("trace.ndjson")
Cur == Trace[l - 1]
tvars == <<vars, l, dm>>

Proj1(m) == [k |-> m.k, h |-> m.h, x |-> m.x, y |-> m.y]
Proj(ms) == [i \in 1..Len(ms) |-> Proj1(ms[i])]
NoMsg == [k |-> "none", h |-> 0, x |-> 0, y |-> 0]
SetOf(s) == {s[i] : i \in 1..Len(s)}
B(x) == IF x THEN 1 ELSE 0

TInit == Init /\ l = 1 /\ dm = NoMsg
Is(a) == l <= Len(Trace) /\ Trace[l].a = a /\ l' = l + 1

Reset == /\ Is("Reset")
         /\ sd' = Sd0
         /\ q' = Q0
         /\ pays' = <<>> /\ nflap' = 0 /\ nfee' = 0 /\ res' = "ok" /\ dm' = NoMsg

TNext ==
  \/ Reset
  \/ Is("Connect") /\ UNCHANGED vars /\ dm' = NoMsg
  \/ Is("Add") /\ Add(Trace[l].p, Trace[l].x) /\ dm' = NoMsg
  \/ Is("Tick") /\ Tick(Trace[l].p) /\ dm' = NoMsg
  \/ Is("Shutdown") /\ Shutdown(Trace[l].p) /\ dm' = NoMsg
  \/ Is("Flap") /\ Flap /\ dm' = NoMsg
  \/ Is("Fee") /\ Fee(Trace[l].x) /\ dm' = NoMsg
  \/ /\ Is("Decide") /\ Trace[l].x \in 1..Len(pays) /\ pays[Trace[l].x].inv = "accepted"
     /\ Decide(Trace[l].x, IF Trace[l].y = 1 THEN "settled" ELSE "canceled") /\ dm' = NoMsg
  \/ /\ Is("Deliver") /\ Deliver(Trace[l].p)
     /\ dm' = IF q[O(Trace[l].p)] = <<>> THEN NoMsg ELSE Proj1(Head(q[O(Trace[l].p)]))
  \/ Is("End") /\ UNCHANGED vars /\ dm' = NoMsg
  \/ (l = Len(Trace) + 1 /\ UNCHANGED tvars)
TSpec == TInit /\ [][TNext]_tvars

Step == l > 1 /\ Cur.a \notin {"Reset", "End"}
AtEnd == l > 1 /\ Cur.a = "End"

\* ---- the property on the real links ------------------------------------------------
NoLinkFailure == Step => \A p \in P : Cur.fail[p] = "" /\ Cur.st[p].exited = 0

\* ---- conformance ---------------------------------------------------------------------
ConformRes == Step => Cur.res = res
ConformMsg == Step => Cur.msg = dm
ConformOut == Step => \A p \in P : Cur.out[p] = Proj(sd[p].emit)
ConformEv  == Step => \A p \in P : Cur.ev[p] = sd[p].ev
ConformQueue == Step => \A p \in P : Cur.ql[p] = Len(q[p])
ConformHeights == Step => \A p \in P :
  /\ Cur.st[p].lh = sd[p].hl /\ Cur.st[p].rth = sd[p].hrt
  /\ Cur.st[p].rp = B(sd[p].hasRp)
  /\ Cur.st[p].rph = IF sd[p].hasRp THEN sd[p].hrt + 1 ELSE 0
\* the fee rate of every commitment the real channels hold is the one of the last update_fee it covers
ConformFee == Step => \A p \in P :
  /\ Cur.st[p].lfee = FeeAt(sd, sd[p].lc) /\ Cur.st[p].rfee = FeeAt(sd, sd[p].rt)
  /\ Cur.st[p].rpfee = IF sd[p].hasRp THEN FeeAt(sd, sd[p].rp) ELSE 0
HtlcEq(list, set) == SetOf(list) = set /\ Len(list) = Cardinality(set)
ConformHtlcs == Step => \A p \in P :
  /\ HtlcEq(Cur.st[p].lhtlc, Htlcs(sd, sd[p].lc))
  /\ HtlcEq(Cur.st[p].rhtlc, Htlcs(sd, sd[p].rt))
  /\ HtlcEq(Cur.st[p].rphtlc, IF sd[p].hasRp THEN Htlcs(sd, sd[p].rp) ELSE {})
ConformLink == Step => \A p \in P :
  LET s == sd[p]
      r == Cur.st[p]
  IN /\ r.npl = Len(s.own) - Tip(s)[p]
     /\ r.npr = s.rcv - s.lc[O(p)]
     /\ r.owe = B(Owe(s, p)) /\ r.need = B(Need(s, p)) /\ r.clean = B(Clean(sd, p))
     /\ r.inblk = B(s.inBlk) /\ r.outblk = B(s.outBlk) /\ r.reest = B(s.reest)
     /\ r.tk = B(Active(sd, p)) /\ r.shut = B(s.shut)

\* both real channels hold the same commitment wherever their heights name the same one (recorded values only)
Mirror == (Step \/ AtEnd) => \A p \in P :
  LET a == Cur.st[p]
      b == Cur.st[O(p)]
  IN /\ a.lh = b.rth => (a.lbal = b.rrbal /\ a.lrbal = b.rbal /\ a.lhtlc = b.rhtlc)
     /\ (b.rp = 1 /\ a.lh = b.rph) => (a.lbal = b.rprbal /\ a.lrbal = b.rpbal /\ a.lhtlc = b.rphtlc)
     /\ a.lh \in {b.rth, b.rph}

Expected(pay) == CASE pay.st = "refused" -> "refused"
                   [] pay.st = "mbfailed" -> "failed"
                   [] pay.kind = 1 -> "settled"
                   [] pay.kind = 2 /\ pay.inv \in {"open", "accepted"} -> "pending"
                   [] pay.kind = 2 /\ pay.inv = "settled" -> "settled"
                   [] OTHER -> "failed"
EndQuiescent == (AtEnd /\ Cur.alive = 1) => Quiescent
ConformEnd == (AtEnd /\ Cur.alive = 1 /\ Quiescent) =>
  /\ Len(Cur.res) = Len(pays)
  /\ \A i \in 1..Len(pays) : /\ Cur.res[i] = Expected(pays[i])
                             /\ Cur.pays[i][1] = Num(pays[i].p) /\ Cur.pays[i][3] = pays[i].kind
=============================================================================
