--------------------------- MODULE LinkResyncGen ---------------------------
(* Schedule generator for the link-level part of C03: LinkResync + a history *)
(* of the environment's choices (offer an HTLC - exit hop settles / fails /  *)
(* hold invoice, also while the link cannot take it -, batch tick, deliver   *)
(* the next message to a link, start a cooperative close, the fee estimator  *)
(* reports a new rate to the initiator, the registry settles / cancels a     *)
(* hold invoice, drop the connection).  One                                  *)
(* NDJSON file per simulated behaviour; the orchestrator appends a Drain     *)
(* step (deliver / tick until nothing is left to do).                        *)
EXTENDS LinkResync, Json
CONSTANTS MaxLen, AddPct, ShutPct, FlapPct, FeePct, RefusedPct, DecidePct
VARIABLES hist, steps

Ev(a, p, x, y) == [a |-> a, p |-> p, x |-> x, y |-> y]
Rec(e) == hist' = Append(hist, e)

GInit == Init /\ hist = <<Ev("Cfg", "A", 0, 0)>> /\ steps = 0
\* (simulation only: RandomElement thins out the rarer choices so that they are spread over the behaviour)
Pct(n) == RandomElement(1..100) <= n
GStep ==
  \/ \E p \in P, kind \in Kinds : Pct(AddPct) /\ Len(pays) < MaxAdds /\ sd[p].reest /\ ~sd[p].outBlk /\ Add(p, kind) /\ Rec(Ev("Add", p, kind, 0))
  \/ \E p \in P : Pct(RefusedPct) /\ Len(pays) < MaxAdds /\ (~sd[p].reest \/ sd[p].outBlk) /\ Add(p, 1) /\ Rec(Ev("Add", p, 1, 0))
  \/ \E i \in 1..Len(pays), d \in {0, 1} : Pct(DecidePct) /\ pays[i].inv = "accepted"
                                            /\ Decide(i, IF d = 1 THEN "settled" ELSE "canceled") /\ Rec(Ev("Decide", O(pays[i].p), i, d))
  \/ \E p \in P : Active(sd, p) /\ (sd[p].hasRp => Pct(25)) /\ Tick(p) /\ Rec(Ev("Tick", p, 0, 0))
  \/ \E p \in P : q[O(p)] # <<>> /\ Deliver(p) /\ Rec(Ev("Deliver", p, 0, 0))
  \/ \E p \in P : Pct(ShutPct) /\ NShut < MaxShut /\ sd[p].reest /\ ~sd[p].shut /\ Shutdown(p) /\ Rec(Ev("Shutdown", p, 0, 0))
  \/ \E x \in FeeRates : Pct(FeePct) /\ nfee < MaxFees /\ sd.A.reest /\ Fee(x) /\ Rec(Ev("Fee", "A", x, 0))
  \/ Pct(FlapPct) /\ nflap < MaxFlaps /\ Flap /\ Rec(Ev("Flap", "", 0, 0))
\* (a padding step keeps a behaviour that has nothing left to do alive until it is dumped)
GNext == /\ steps < MaxLen
         /\ steps' = steps + 1
         /\ \/ GStep
            \/ (\A p \in P : q[p] = <<>> /\ ~Active(sd, p)) /\ UNCHANGED <<vars, hist>>
GSpec == GInit /\ [][GNext]_<<vars, hist, steps>>

Dump == (steps = MaxLen) =>
           ndJsonSerialize("b_" \o ToString(TLCGet("stats").traces) \o ".ndjson", hist)
=============================================================================
