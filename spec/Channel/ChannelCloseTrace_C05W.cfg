SPECIFICATION CSpec
CONSTANTS
  Fused = TRUE
  SoftReest = FALSE
  MaxAdds = 1000000
  MaxHeight = 1000000
  MaxDisc = 1000000
  Amts = {1}
  Cap = 1000000000
  CapSat = 1000000
  Rates = {1}
  MaxFees = 1000000
  Openers = {"A", "B"}
  InitRate = 6000
  F6Quirk = FALSE
  F7Quirk = FALSE
  PoorShare = 0
  CsvOpener = 5
  CsvOther = 4
  Thaw = 600
  LeaseJusticeQuirk = FALSE
INVARIANTS B_ErrAgree CCExists CCResolutions CCLocks CCEngine CCClaim CCAnchor CCWatcher
CHECK_DEADLOCK TRUE
