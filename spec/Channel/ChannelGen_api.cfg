SPECIFICATION GSpec
CONSTANTS
  Fused = FALSE
  SoftReest = TRUE
  MaxAdds = 4
  MaxHeight = 1000
  MaxDisc = 3
  Amts = {100000, 370000, 1000000, 1400000, 1470000, 2250000, 3350000, 4300000, 5000000, 5400000, 8400000, 9500000, 25000000, 50000000}
  Cap = 1000000000
  Rates = {12000, 3000, 253, 6000}
  MaxFees = 3
  Openers = {"A", "B"}
  InitRate = 6000
  F6Quirk = FALSE
  F7Quirk = FALSE
  PoorShare = 0
  MaxLen = 120
INVARIANTS Dump
CHECK_DEADLOCK FALSE
