----------------------------- MODULE ChannelGen -----------------------------
(* Behaviour generator: Channel + history of the actions taken.  One NDJSON  *)
(* file per simulated behaviour; the first record carries the opener.        *)
EXTENDS Channel, Json
CONSTANT MaxLen
VARIABLE hist

Ev(a, p, x, y) == [a |-> a, p |-> p, x |-> x, y |-> y]
Rec(e) == hist' = Append(hist, e)

GInit == Init /\ hist = <<Ev("Cfg", opener, PoorShare, 0)>>
GStep ==
  /\ bad = "none"
  \* (with an uneven funding split the poor non-opener is below its reserve and never offers)
  /\ \/ \E p \in Party, a \in Amts, d \in {0, 1} : (PoorShare = 0 \/ p = opener) /\ Add(p, a) /\ Rec(Ev("Add", p, a, d))
     \* y: 1 = update_fulfill_htlc, 0 = update_fail_htlc, 2 = update_fail_malformed_htlc (a fail for the model)
     \/ \E p \in Party, y \in {0, 1, 2}, id \in 0..(2*MaxAdds) :
            Resolve(p, IF y = 1 THEN "settle" ELSE "fail", id) /\ Rec(Ev("Resolve", p, id, y))
     \/ \E p \in Party :
          \/ Sign(p) /\ Rec(Ev("Sign", p, 0, 0))
          \/ Revoke(p) /\ Rec(Ev("Revoke", p, 0, 0))
          \/ RecvAdd(p) /\ Rec(Ev("RecvAdd", p, 0, 0))
          \/ RecvRes(p) /\ Rec(Ev("RecvRes", p, 0, 0))
          \/ RecvSig(p) /\ Rec(Ev("RecvSig", p, 0, 0))
          \/ RecvRev(p) /\ Rec(Ev("RecvRev", p, 0, 0))
          \/ SendReest(p) /\ Rec(Ev("SendReest", p, 0, 0))
          \/ RecvReest(p) /\ Rec(Ev("RecvReest", p, 0, 0))
          \/ RecvFee(p) /\ Rec(Ev("RecvFee", p, 0, 0))
     \/ Disconnect /\ Rec(Ev("Disconnect", "A", 0, 0))
     \/ SoftDisconnect /\ Rec(Ev("SoftDisconnect", "A", 0, 0))
     \/ \E p \in Party, r \in Rates : UpdateFee(p, r) /\ Rec(Ev("UpdateFee", p, r, 0))
     \* another subsystem (chain arbitrator, chain watcher) touches the channel's status through a handle it
     \* loaded long ago: nothing about the commitment state may change on disk (C02)
     \/ \E p \in Party : Len(hist) % 9 = 4 /\ UNCHANGED vars /\ Rec(Ev("StaleTouch", p, 0, 0))
     \* the link re-reads the channel state of a LIVE channel from the database (channelLink.UpdateShortChanID ->
     \* OpenChannel.Refresh, when the funding tx of a zero-conf channel confirms): the state machine continues on the
     \* refreshed objects; nothing about the commitment state changes, in memory or on disk (C02, C06)
     \* an adversarial peer: a revoke_and_ack carrying a secret that is not on its chain arrives first
     \/ \E p \in Party : Len(hist) % 3 = 2 /\ RecvBadRev(p) /\ Rec(Ev("RecvBadRev", p, 0, 0))
     \/ \E p \in Party : Len(hist) % 9 = 7 /\ LiveRefresh(p) /\ Rec(Ev("LiveRefresh", p, 0, 0))
GNext == Len(hist) < MaxLen /\ GStep
GSpec == GInit /\ [][GNext]_<<vars, hist>>

Dump == (Len(hist) = MaxLen \/ ~ENABLED GStep) =>
           ndJsonSerialize("b_" \o ToString(TLCGet("stats").traces) \o ".ndjson", hist)
=============================================================================
