SPECIFICATION Spec
CONSTANTS
  MaxAdds = 1
  MaxFlaps = 2
  MaxShut = 1
  MaxFees = 1
  FeeRates = {6000, 9000}
  BaseFee = 6000
  Kinds = {0, 1}
  BlockInOnResume = FALSE
INVARIANTS NoFailure QuiescentSynced ExactlyOnce CovSane
VIEW View
CHECK_DEADLOCK FALSE
