------------------------------- MODULE Channel -------------------------------
(***************************************************************************)
(* The lnd commitment state machine as implemented in lnwallet/channel.go,   *)
(* update_log.go, commitment_chain.go and persisted through channeldb:       *)
(* the two update logs, the two commitment chains (<= 2 commitments each),   *)
(* the durable state (one field per chanBucket key), restore from disk       *)
(* (restoreCommitState / restoreStateLogs and friends) and                   *)
(* channel_reestablish (ChanSyncMsg / ProcessChanSyncMsg).                   *)
(*                                                                           *)
(* Amounts are exact millisatoshi (the executors lower the fixture capacity  *)
(* to 1 000 000 sat so that everything fits TLC's 32-bit integers); balances *)
(* are GROSS of the commitment fee and anchors (both are credited back to    *)
(* the opener), the fee *rate* is carried per commitment.  The transaction   *)
(* layer (dust, fee in satoshi, outputs) is in ChannelTx.tla.                *)
(*                                                                           *)
(* One action = one API call of LightningChannel = at most one kvdb          *)
(* transaction.  `disk` is written only where the code writes the database.  *)
(* F6Quirk / F7Quirk are two named deviations (persistence defects F6 / F7   *)
(* of DESIGN.md section 10.6b): FALSE = intended behaviour.                  *)
(***************************************************************************)
EXTENDS Integers, Sequences, FiniteSets, TLC

CONSTANTS Fused,       \* TRUE: link-faithful (no own action while holding an unrevoked local tip)
          MaxAdds,      \* max adds issued per party (over whole behaviour)
          MaxHeight,    \* bound on commitment heights
          MaxDisc,      \* max disconnects
          Amts,         \* set of amounts (abstract units)
          Cap,          \* capacity (msat); for the split see PoorShare
          Rates,        \* fee rates the opener may propose (initial rate is 1)
          MaxFees,      \* max update_fee messages
          Openers,      \* set of parties that may be the opener (Init picks one)
          InitRate,     \* initial fee rate (sat/kw)
          SoftReest,    \* TRUE: allow channel_reestablish on live objects (SoftDisconnect; API level, needs ~Fused)
          F6Quirk,      \* TRUE: AdvanceCommitChainTail returns early while no unsignedAckedUpdates exist (as the code does)
          F7Quirk,      \* TRUE: restore appends pending-commit updates before older peer-local updates (as the code does)
          PoorShare     \* 0: even funding split; else the non-opener's initial balance in msat (opener holds the rest)

Party == {"A", "B"}
Other(p) == IF p = "A" THEN "B" ELSE "A"

VARIABLES
  L, R,                       \* update logs (own / copy of peer's)
  Lidx, Lhtlc, Ridx, Rhtlc,   \* log counters
  Lmod, Rmod,                 \* modified htlc ids (of L resp. R)
  LC, RC,                     \* commitment chains (seq of 1..2 commitments)
  disk,                       \* durable state per party
  net,                        \* net[p]: FIFO of messages sent by p
  phase,                      \* "run" | "sync0" | "sync1"
  nadds, ndisc,
  released,                   \* heights whose secret left p
  nfees,
  opener,                     \* the funder: pays the commitment fee, may send update_fee
  lwrMem,                     \* OpenChannel.LastWasRevoke IN MEMORY: read from the database when the channel is
                              \* loaded or refreshed, never written by the state machine (only SoftReest tells it
                              \* apart from disk[p].lwr: otherwise every reestablish follows a reload; kept FALSE)
  bad                         \* error flag (any API error that an honest run must not see)

vars == <<L, R, Lidx, Lhtlc, Ridx, Rhtlc, Lmod, Rmod, LC, RC, disk, net, phase,
          nadds, ndisc, released, nfees, opener, lwrMem, bad>>

NoCommit == [h |-> -1]

Entry(t, li, hi, amt) ==
  [t |-> t, li |-> li, hi |-> hi, amt |-> amt, aL |-> 0, aR |-> 0, rL |-> 0, rR |-> 0]

\* a commitment as seen by its holder p: li/lh = p's own log idx / htlc idx,
\* ri/rh = peer's; outs/ins = live htlcs [hi, amt]; ob/tb = balances
Commit(h, li, ri, lh, rh, outs, ins, ob, tb, fee) ==
  [h |-> h, li |-> li, ri |-> ri, lh |-> lh, rh |-> rh, outs |-> outs, ins |-> ins,
   ob |-> ob, tb |-> tb, fee |-> fee]

CTail(c) == c[1]
Tip(c)  == c[Len(c)]

\* The funding split.  PoorShare = 0: even split (what the fixtures do).  Otherwise the NON-opener starts
\* with PoorShare msat (possibly below its reserve and below either party's dust limit - a fresh inbound
\* channel) and the opener with the rest.  o = the opener.
ShareOf(p, o, poor) == IF poor = 0 THEN Cap \div 2 ELSE IF p = o THEN Cap - poor ELSE poor
InitCommitOf(p, o, poor) == Commit(0, 0, 0, 0, 0, {}, {}, ShareOf(p, o, poor), Cap - ShareOf(p, o, poor), InitRate)
InitCommit == InitCommitOf("A", "A", 0)      \* the even split, either party's view

InitDiskOf(p, o, poor) ==
            [lc |-> InitCommitOf(p, o, poor), rc |-> InitCommitOf(p, o, poor), diff |-> NoCommit, diffUpd |-> <<>>,
             ua |-> <<>>, uaSet |-> FALSE, rul |-> <<>>, lwr |-> FALSE, revlog |-> <<>>,
             fwd |-> <<>>, dack |-> {}]
InitDisk == [lc |-> InitCommit, rc |-> InitCommit, diff |-> NoCommit, diffUpd |-> <<>>,
             ua |-> <<>>, uaSet |-> FALSE, rul |-> <<>>, lwr |-> FALSE, revlog |-> <<>>,
             fwd |-> <<>>,      \* forwarding packages: one per revoked remote height
             dack |-> {}]       \* peer-add ids whose answer has been acked in the package of the channel it came from

Init ==
  /\ L = [p \in Party |-> <<>>] /\ R = [p \in Party |-> <<>>]
  /\ Lidx = [p \in Party |-> 0] /\ Lhtlc = [p \in Party |-> 0]
  /\ Ridx = [p \in Party |-> 0] /\ Rhtlc = [p \in Party |-> 0]
  /\ Lmod = [p \in Party |-> {}] /\ Rmod = [p \in Party |-> {}]
  /\ net = [p \in Party |-> <<>>]
  /\ phase = [p \in Party |-> "run"]
  /\ nadds = [p \in Party |-> 0] /\ ndisc = 0
  /\ released = [p \in Party |-> {}]
  /\ nfees = 0
  /\ opener \in Openers
  /\ lwrMem = [p \in Party |-> FALSE]
  /\ LC = [p \in Party |-> <<InitCommitOf(p, opener, PoorShare)>>]
  /\ RC = [p \in Party |-> <<InitCommitOf(p, opener, PoorShare)>>]
  /\ disk = [p \in Party |-> InitDiskOf(p, opener, PoorShare)]
  /\ bad = "none"

-----------------------------------------------------------------------------
(* helpers on logs *)

SeqFilter(s, P(_)) ==
  LET F[i \in 0..Len(s)] == IF i = 0 THEN <<>> ELSE IF P(s[i]) THEN Append(F[i-1], s[i]) ELSE F[i-1]
  IN F[Len(s)]

SumSet(S) ==   \* sum of amt over a set of [hi, amt] records
  LET F[T \in SUBSET S] == IF T = {} THEN 0 ELSE LET x == CHOOSE y \in T : TRUE IN x.amt + F[T \ {x}]
  IN F[S]

IsAdd(e) == e.t = "add"
IsRes(e) == e.t \in {"settle", "fail"}
IsFee(e) == e.t = "fee"

HasAdd(log, id) == \E i \in 1..Len(log) : log[i].t = "add" /\ log[i].hi = id
Elems(s) == {s[i] : i \in 1..Len(s)}
ResIds(s) == {e.hi : e \in {x \in Elems(s) : IsRes(x)}}

\* set commit height on chain ch ("L" or "R") for uncommitted entries with li < bound
SetHeights(log, bound, ch, h) ==
  [i \in 1..Len(log) |->
     LET e == log[i] IN
     IF e.li >= bound THEN e
     ELSE IF ch = "L" THEN
        CASE e.t = "add" /\ e.aL = 0 -> [e EXCEPT !.aL = h]
          [] IsRes(e) /\ e.rL = 0    -> [e EXCEPT !.rL = h]
          [] IsFee(e) /\ e.aL = 0    -> [e EXCEPT !.aL = h, !.rL = h]
          [] OTHER -> e
     ELSE
        CASE e.t = "add" /\ e.aR = 0 -> [e EXCEPT !.aR = h]
          [] IsRes(e) /\ e.rR = 0    -> [e EXCEPT !.rR = h]
          [] IsFee(e) /\ e.aR = 0    -> [e EXCEPT !.aR = h, !.rR = h]
          [] OTHER -> e]

\* evaluateHTLCView for holder p's view: own log prefix < ob_, peer log prefix < pb_, chain ch.
\* returns [outs, ins, dOur, dTheir]
View(own, peer, ownB, peerB, ch, ownIsOpener, tipFee) ==
  LET feeSeq == IF ownIsOpener
                THEN SeqFilter(own,  LAMBDA e : IsFee(e) /\ e.li < ownB)
                ELSE SeqFilter(peer, LAMBDA e : IsFee(e) /\ e.li < peerB)
      ownV  == {e \in Elems(own)  : e.li < ownB}
      peerV == {e \in Elems(peer) : e.li < peerB}
      skipOwn  == {e.hi : e \in {x \in peerV : IsRes(x)}}   \* our adds resolved by them
      skipPeer == {e.hi : e \in {x \in ownV  : IsRes(x)}}   \* their adds resolved by us
      rmv(e) == IF ch = "L" THEN e.rL ELSE e.rR
      addh(e) == IF ch = "L" THEN e.aL ELSE e.aR
      \* resolutions not yet committed on this chain
      newOwnRes  == {e \in ownV  : IsRes(e) /\ rmv(e) = 0}
      newPeerRes == {e \in peerV : IsRes(e) /\ rmv(e) = 0}
      liveOwn  == {e \in ownV  : IsAdd(e) /\ e.hi \notin skipOwn}
      livePeer == {e \in peerV : IsAdd(e) /\ e.hi \notin skipPeer}
      amtOf(S) == SumSet({[hi |-> e.li, amt |-> e.amt] : e \in S})  \* li is unique per log
      \* our settle of their htlc credits us; our fail credits them
      dOur ==   amtOf({e \in newOwnRes : e.t = "settle"})
              + amtOf({e \in newPeerRes : e.t = "fail"})
              - amtOf({e \in liveOwn : addh(e) = 0})
      dTheir == amtOf({e \in newPeerRes : e.t = "settle"})
              + amtOf({e \in newOwnRes : e.t = "fail"})
              - amtOf({e \in livePeer : addh(e) = 0})
  IN [outs |-> {[hi |-> e.hi, amt |-> e.amt, li |-> e.li] : e \in liveOwn},
      ins  |-> {[hi |-> e.hi, amt |-> e.amt, li |-> e.li] : e \in livePeer},
      dOur |-> dOur, dTheir |-> dTheir,
      fee |-> IF feeSeq = <<>> THEN tipFee ELSE feeSeq[Len(feeSeq)].amt]

\* entries that became committed on remote chain exactly at height h (createCommitDiff)
DiffUpdates(log, h) == SeqFilter(log, LAMBDA e : e.aR = h \/ e.rR = h)

Removable(e, lt, rt) == ~IsAdd(e) /\ e.rR # 0 /\ e.rL # 0 /\ rt >= e.rR /\ lt >= e.rL

\* compact logA against logB: <<logA', logB', removedParentIds>>
Compact(logA, logB, lt, rt) ==
  LET parents == {e.hi : e \in {x \in Elems(logA) : Removable(x, lt, rt) /\ IsRes(x)}}
  IN <<SeqFilter(logA, LAMBDA e : ~Removable(e, lt, rt)),
       SeqFilter(logB, LAMBDA e : ~(IsAdd(e) /\ e.hi \in parents)),
       parents>>

-----------------------------------------------------------------------------
Owe(p) == \/ Lidx[p] # Tip(RC[p]).li
          \/ Tip(LC[p]).ri # Tip(RC[p]).ri

Running(p) == phase[p] = "run"
Free(p) == Running(p) /\ (Fused => Len(LC[p]) = 1)

-----------------------------------------------------------------------------
(* update actions *)

Add(p, amt) ==
  /\ Free(p) /\ nadds[p] < MaxAdds
  /\ L' = [L EXCEPT ![p] = Append(@, Entry("add", Lidx[p], Lhtlc[p], amt))]
  /\ Lidx' = [Lidx EXCEPT ![p] = @ + 1] /\ Lhtlc' = [Lhtlc EXCEPT ![p] = @ + 1]
  /\ nadds' = [nadds EXCEPT ![p] = @ + 1]
  /\ net' = [net EXCEPT ![p] = Append(@, [k |-> "add", li |-> Lidx[p], hi |-> Lhtlc[p], amt |-> amt])]
  /\ UNCHANGED <<R, Ridx, Rhtlc, Lmod, Rmod, LC, RC, disk, phase, ndisc, released, nfees, bad, opener, lwrMem>>

LockedIn(p, e) ==
  /\ e.aL > 0 /\ e.aR > 0 /\ e.aL <= CTail(LC[p]).h /\ e.aR <= CTail(RC[p]).h

Resolve(p, kind, id) ==
  /\ Free(p)
  /\ \E i \in 1..Len(R[p]) :
       LET e == R[p][i] IN
       /\ IsAdd(e) /\ e.hi = id /\ e.hi \notin Rmod[p] /\ LockedIn(p, e)
       /\ L' = [L EXCEPT ![p] = Append(@, Entry(kind, Lidx[p], e.hi, e.amt))]
       /\ Lidx' = [Lidx EXCEPT ![p] = @ + 1]
       /\ Rmod' = [Rmod EXCEPT ![p] = @ \cup {e.hi}]
       /\ net' = [net EXCEPT ![p] = Append(@, [k |-> kind, li |-> Lidx[p], hi |-> e.hi, amt |-> e.amt])]
  /\ UNCHANGED <<R, Lhtlc, Ridx, Rhtlc, Lmod, LC, RC, disk, phase, nadds, ndisc, released, nfees, bad, opener, lwrMem>>

LastFeeIdx(log) ==
  LET idxs == {i \in 1..Len(log) : IsFee(log[i])}
  IN IF idxs = {} THEN 0 ELSE CHOOSE i \in idxs : \A j \in idxs : j <= i

\* updateLog.appendFeeUpdate: replace the rate of a still uncommitted fee update in place
AppendFee(log, idx, r) ==
  LET i == LastFeeIdx(log) IN
  IF i # 0 /\ log[i].aL = 0 /\ log[i].aR = 0
  THEN [log |-> [log EXCEPT ![i].amt = r], idx |-> idx]
  ELSE [log |-> Append(log, Entry("fee", idx, 0, r)), idx |-> idx + 1]

UpdateFee(p, r) ==
  /\ p = opener /\ Free(p) /\ nfees < MaxFees
  /\ LET a == AppendFee(L[p], Lidx[p], r) IN
     /\ L' = [L EXCEPT ![p] = a.log] /\ Lidx' = [Lidx EXCEPT ![p] = a.idx]
  /\ nfees' = nfees + 1
  /\ net' = [net EXCEPT ![p] = Append(@, [k |-> "fee", li |-> 0, hi |-> 0, amt |-> r])]
  /\ UNCHANGED <<R, Lhtlc, Ridx, Rhtlc, Lmod, Rmod, LC, RC, disk, phase, nadds, ndisc, released, bad, opener, lwrMem>>

RecvFee(q) ==
  LET m == Head(net[Other(q)]) IN
  /\ phase[q] = "run" /\ net[Other(q)] # <<>> /\ (Fused => Len(LC[q]) = 1) /\ m.k = "fee"
  /\ LET a == AppendFee(R[q], Ridx[q], m.amt) IN
     /\ R' = [R EXCEPT ![q] = a.log] /\ Ridx' = [Ridx EXCEPT ![q] = a.idx]
  /\ net' = [net EXCEPT ![Other(q)] = Tail(@)]
  /\ UNCHANGED <<L, Lidx, Lhtlc, Rhtlc, Lmod, Rmod, LC, RC, disk, phase, nadds, ndisc, released, nfees, bad, opener, lwrMem>>

-----------------------------------------------------------------------------
(* sign / receive commit / revoke / receive revoke *)

\* state after SignNextCommitment on (Lp, Rp, ...) -- pure, reused by Reestablish
\* position (package height, 0-based index) of a peer add in p's forwarding packages, as the link
\* derives the SourceRef it hands to SettleHTLC/FailHTLC; {} if no package holds it
AddRefs(fwd, id) ==
  UNION { {<<fwd[k].h, i - 1>> : i \in {j \in 1..Len(fwd[k].adds) : fwd[k].adds[j] = id}} : k \in 1..Len(fwd) }
\* CommitDiff.AddAcks applied by AppendRemoteCommitChain: every settle/fail of ours that this
\* signature commits for the first time acks the add it answers in its forwarding package
AckFwd(fwd, L2, h) ==
  LET refs == UNION {AddRefs(fwd, e.hi) : e \in {x \in Elems(L2) : IsRes(x) /\ x.rR = h}} IN
  [k \in 1..Len(fwd) |-> [fwd[k] EXCEPT !.ack = @ \cup {r[2] : r \in {x \in refs : x[1] = fwd[k].h}}]]

\* CommitDiff.SettleFailAcks applied by the same AppendRemoteCommitChain transaction: a settle/fail that p relays
\* (it came back over some OUTGOING channel of p's node and sits in that channel's forwarding package) is acked
\* THERE - SettleFailFilter bit, reference handed to SettleHTLC/FailHTLC as DestRef - as soon as a signature of
\* ours covers it, so that the switch stops re-delivering it after a restart.  The environment decides which
\* outgoing channel answered which add: answers to odd ids come from a channel that has been closed and wiped
\* since (no package bucket any more: nothing to ack, and no effect on the acks owed to the surviving channel).
DestOpen(id) == id % 2 = 0
AckDest(dack, L2, h) == dack \cup {e.hi : e \in {x \in Elems(L2) : IsRes(x) /\ x.rR = h /\ DestOpen(x.hi)}}

SignResult(p, Lp, Rp, LCp, RCp, LidxP, LhtlcP) ==
  LET ackR == CTail(LCp).ri
      ackRh == CTail(LCp).rh
      h == Tip(RCp).h + 1
      v == View(Lp, Rp, LidxP, ackR, "R", p = opener, Tip(RCp).fee)
      c == Commit(h, LidxP, ackR, LhtlcP, ackRh, v.outs, v.ins,
                  Tip(RCp).ob + v.dOur, Tip(RCp).tb + v.dTheir, v.fee)
      L2 == SetHeights(Lp, LidxP, "R", h)
      R2 == SetHeights(Rp, ackR, "R", h)
  IN [L |-> L2, R |-> R2, c |-> c, upd |-> DiffUpdates(L2, h), fwd |-> AckFwd(disk[p].fwd, L2, h),
      dack |-> AckDest(disk[p].dack, L2, h),
      msg |-> [k |-> "sig", h |-> h, li |-> LidxP, ri |-> ackR, c |-> c]]

Sign(p) ==
  /\ Free(p) /\ Len(RC[p]) = 1 /\ Owe(p)
  /\ Tip(RC[p]).h < MaxHeight
  /\ LET s == SignResult(p, L[p], R[p], LC[p], RC[p], Lidx[p], Lhtlc[p]) IN
     /\ L' = [L EXCEPT ![p] = s.L]
     /\ R' = [R EXCEPT ![p] = s.R]
     /\ RC' = [RC EXCEPT ![p] = Append(@, s.c)]
     /\ disk' = [disk EXCEPT ![p].diff = s.c, ![p].diffUpd = s.upd, ![p].lwr = FALSE, ![p].fwd = s.fwd,
                          ![p].dack = s.dack]
     /\ net' = [net EXCEPT ![p] = Append(@, s.msg)]
  /\ UNCHANGED <<Lidx, Lhtlc, Ridx, Rhtlc, Lmod, Rmod, LC, phase, nadds, ndisc, released, nfees, bad, opener, lwrMem>>

CanRecv(q) == phase[q] = "run" /\ net[Other(q)] # <<>> /\ (Fused => Len(LC[q]) = 1)
HeadMsg(q) == Head(net[Other(q)])
Pop(q) == net' = [net EXCEPT ![Other(q)] = Tail(@)]

RecvAdd(q) ==
  LET m == HeadMsg(q) IN
  /\ CanRecv(q) /\ m.k = "add"
  /\ IF m.hi = Rhtlc[q] /\ m.li = Ridx[q]
     THEN /\ R' = [R EXCEPT ![q] = Append(@, Entry("add", Ridx[q], Rhtlc[q], m.amt))]
          /\ Ridx' = [Ridx EXCEPT ![q] = @ + 1] /\ Rhtlc' = [Rhtlc EXCEPT ![q] = @ + 1]
          /\ bad' = bad
     ELSE /\ bad' = "add-id-mismatch" /\ UNCHANGED <<R, Ridx, Rhtlc>>
  /\ Pop(q)
  /\ UNCHANGED <<L, Lidx, Lhtlc, Lmod, Rmod, LC, RC, disk, phase, nadds, ndisc, released, nfees, opener, lwrMem>>

RecvRes(q) ==
  LET m == HeadMsg(q) IN
  /\ CanRecv(q) /\ m.k \in {"settle", "fail"}
  /\ IF HasAdd(L[q], m.hi) /\ m.hi \notin Lmod[q] /\ m.li = Ridx[q]
     THEN /\ R' = [R EXCEPT ![q] = Append(@, Entry(m.k, Ridx[q], m.hi, m.amt))]
          /\ Ridx' = [Ridx EXCEPT ![q] = @ + 1]
          /\ Lmod' = [Lmod EXCEPT ![q] = @ \cup {m.hi}]
          /\ bad' = bad
     ELSE /\ bad' = "res-unknown-or-dup" /\ UNCHANGED <<R, Ridx, Lmod>>
  /\ Pop(q)
  /\ UNCHANGED <<L, Lidx, Lhtlc, Rhtlc, Rmod, LC, RC, disk, phase, nadds, ndisc, released, nfees, opener, lwrMem>>

RecvSig(q) ==
  LET m == HeadMsg(q)
      ackL == CTail(RC[q]).li
      ackLh == CTail(RC[q]).lh
      h == Tip(LC[q]).h + 1
      v == View(L[q], R[q], ackL, Ridx[q], "L", q = opener, Tip(LC[q]).fee)
      c == Commit(h, ackL, Ridx[q], ackLh, Rhtlc[q], v.outs, v.ins,
                  Tip(LC[q]).ob + v.dOur, Tip(LC[q]).tb + v.dTheir, v.fee)
      \* the signature covers the whole transaction: balances, htlcs and fee must mirror
      sameTx == /\ m.c.h = c.h /\ m.c.ob = c.tb /\ m.c.tb = c.ob /\ m.c.fee = c.fee
                /\ {[hi |-> x.hi, amt |-> x.amt] : x \in m.c.outs} = {[hi |-> x.hi, amt |-> x.amt] : x \in c.ins}
                /\ {[hi |-> x.hi, amt |-> x.amt] : x \in m.c.ins} = {[hi |-> x.hi, amt |-> x.amt] : x \in c.outs}
  IN
  /\ CanRecv(q) /\ m.k = "sig"
  /\ Len(LC[q]) = 1
  \* "signature verifies" <=> signer's tuple = receiver's derived tuple
  /\ IF sameTx
     THEN /\ L' = [L EXCEPT ![q] = SetHeights(@, ackL, "L", h)]
          /\ R' = [R EXCEPT ![q] = SetHeights(@, Ridx[q], "L", h)]
          /\ LC' = [LC EXCEPT ![q] = Append(@, c)]
          /\ bad' = bad
     ELSE /\ bad' = "invalid-commit-sig" /\ UNCHANGED <<L, R, LC>>
  /\ Pop(q)
  /\ UNCHANGED <<Lidx, Lhtlc, Ridx, Rhtlc, Lmod, Rmod, RC, disk, phase, nadds, ndisc, released, nfees, opener, lwrMem>>

Revoke(q) ==
  LET newTail == LC[q][2]
      oldH == CTail(LC[q]).h IN
  /\ Running(q) /\ Len(LC[q]) = 2
  /\ LC' = [LC EXCEPT ![q] = <<newTail>>]
  /\ disk' = [disk EXCEPT
        ![q].lc = newTail,
        ![q].ua = SeqFilter(R[q], LAMBDA e : e.li >= CTail(RC[q]).ri /\ e.li < newTail.ri),
        ![q].uaSet = TRUE,
        ![q].lwr = TRUE,
        ![q].rul = SeqFilter(@, LAMBDA e : e.li >= newTail.li)]
  /\ released' = [released EXCEPT ![q] = @ \cup {oldH}]
  /\ net' = [net EXCEPT ![q] = Append(@, [k |-> "rev", h |-> oldH])]
  /\ UNCHANGED <<L, R, Lidx, Lhtlc, Ridx, Rhtlc, Lmod, Rmod, RC, phase, nadds, ndisc, nfees, bad, opener, lwrMem>>

RecvRev(p) ==
  LET m == HeadMsg(p)
  IN
  /\ CanRecv(p) /\ m.k = "rev"
  /\ IF Len(RC[p]) = 2 /\ m.h = CTail(RC[p]).h
     THEN LET rt == CTail(RC[p]).h + 1
              lt == CTail(LC[p]).h
              newRC == RC[p][2]
              lpu == SeqFilter(L[p], LAMBDA e : ~IsAdd(e) /\ e.li < newRC.li /\ e.li >= CTail(LC[p]).li)
              \* the forwarding package of this revocation (ReceiveRevocation): peer adds and peer
              \* settles/fails that become locked in on both chains exactly now
              fadds == SeqFilter(R[p], LAMBDA e : IsAdd(e) /\ e.aR > 0 /\ e.aL > 0 /\ rt = e.aR /\ lt >= e.aL)
              fsfs  == SeqFilter(R[p], LAMBDA e : IsRes(e) /\ e.rR > 0 /\ e.rL > 0 /\ rt = e.rR /\ lt >= e.rL)
              pkg == [h |-> rt, adds |-> [i \in 1..Len(fadds) |-> fadds[i].hi],
                      sfs |-> [i \in 1..Len(fsfs) |-> <<fsfs[i].t, fsfs[i].hi>>], ack |-> {}]
              c1 == Compact(L[p], R[p], lt, rt)       \* our log vs theirs
              c2 == Compact(c1[2], c1[1], lt, rt)     \* their log vs ours
          IN
          /\ RC' = [RC EXCEPT ![p] = <<newRC>>]
          /\ disk' = [disk EXCEPT ![p].rc = newRC, ![p].diff = NoCommit, ![p].diffUpd = <<>>,
                          ![p].revlog = Append(@, disk[p].rc),
                          ![p].fwd = Append(@, pkg),
                          ![p].ua = SeqFilter(@, LAMBDA e : e.li >= newRC.ri),
                          ![p].rul = IF F6Quirk /\ ~disk[p].uaSet THEN @ ELSE lpu]
          /\ L' = [L EXCEPT ![p] = c2[2]]
          /\ R' = [R EXCEPT ![p] = c2[1]]
          /\ Rmod' = [Rmod EXCEPT ![p] = @ \ c1[3]]   \* parents of our resolutions live in R
          /\ Lmod' = [Lmod EXCEPT ![p] = @ \ c2[3]]   \* parents of their resolutions live in L
          /\ bad' = bad
     ELSE /\ bad' = "unexpected-revocation"
          /\ UNCHANGED <<RC, disk, L, R, Rmod, Lmod>>
  /\ Pop(p)
  /\ UNCHANGED <<Lidx, Lhtlc, Ridx, Rhtlc, LC, phase, nadds, ndisc, released, nfees, opener, lwrMem>>

-----------------------------------------------------------------------------
(* restore from disk: transcription of restoreCommitState / restoreStateLogs *)

Restored(p) ==
  LET d == disk[p]
      hasDiff == d.diff.h # -1
      uaIds == ResIds(d.ua)
      rulIds == ResIds(d.rul)
      rcInIds == {x.hi : x \in d.rc.ins}
      dfInIds == IF hasDiff THEN {x.hi : x \in d.diff.ins} ELSE {}
      lcOutIds == {x.hi : x \in d.lc.outs}
      inRemH(id) == IF id \in rcInIds \/ id \in rulIds THEN d.rc.h
                    ELSE IF id \in dfInIds THEN d.diff.h ELSE 0
      outLocH(id) == IF id \in lcOutIds \/ id \in uaIds THEN d.lc.h ELSE 0
      \* incoming htlcs on local commit -> remote log adds (ordered by hi)
      SetToSeqByHi(S) ==
        LET F[T \in SUBSET S] ==
              IF T = {} THEN <<>>
              ELSE LET x == CHOOSE y \in T : \A z \in T : y.hi <= z.hi
                   IN <<x>> \o F[T \ {x}]
        IN F[S]
      R0 == [i \in 1..Cardinality(d.lc.ins) |->
               LET x == SetToSeqByHi(d.lc.ins)[i] IN
               [t |-> "add", li |-> x.li, hi |-> x.hi, amt |-> x.amt,
                aL |-> d.lc.h, aR |-> inRemH(x.hi), rL |-> 0, rR |-> 0]]
      L0 == [i \in 1..Cardinality(d.rc.outs) |->
               LET x == SetToSeqByHi(d.rc.outs)[i] IN
               [t |-> "add", li |-> x.li, hi |-> x.hi, amt |-> x.amt,
                aR |-> d.rc.h, aL |-> outLocH(x.hi), rL |-> 0, rR |-> 0]]
      \* pending local updates (commitDiff.LogUpdates) appended to local log
      pend == IF hasDiff
              THEN [i \in 1..Len(d.diffUpd) |->
                      LET e == d.diffUpd[i] IN
                      IF IsAdd(e) THEN [e EXCEPT !.aL = 0, !.aR = d.diff.h, !.rL = 0, !.rR = 0]
                      ELSE IF IsFee(e) THEN [e EXCEPT !.aL = 0, !.aR = d.diff.h, !.rL = 0, !.rR = d.diff.h]
                      ELSE [e EXCEPT !.aL = 0, !.aR = 0, !.rL = 0, !.rR = d.diff.h]]
              ELSE <<>>
      \* unsigned acked remote updates (non-adds) -> remote log
      uaNon == SeqFilter(d.ua, LAMBDA e : ~IsAdd(e))
      uaR == [i \in 1..Len(uaNon) |->
                LET e == uaNon[i] IN
                LET rh == IF hasDiff /\ e.li < d.diff.ri THEN d.diff.h ELSE 0 IN
                IF IsFee(e) THEN [e EXCEPT !.aL = d.lc.h, !.aR = rh, !.rL = d.lc.h, !.rR = rh]
                ELSE [e EXCEPT !.aL = 0, !.aR = 0, !.rL = d.lc.h, !.rR = rh]]
      \* local updates the peer still has to sign -> local log
      rulL == [i \in 1..Len(d.rul) |->
                LET e == d.rul[i] IN
                IF IsFee(e) THEN [e EXCEPT !.aL = 0, !.aR = d.rc.h, !.rL = 0, !.rR = d.rc.h]
                ELSE [e EXCEPT !.aL = 0, !.aR = 0, !.rL = 0, !.rR = d.rc.h]]
      npendAdds == Cardinality({i \in 1..Len(pend) : IsAdd(pend[i])})
  IN [L |-> IF F7Quirk THEN L0 \o pend \o rulL ELSE L0 \o rulL \o pend,
      R |-> R0 \o uaR,
      Lidx |-> d.rc.li + Len(pend), Lhtlc |-> d.rc.lh + npendAdds,
      Ridx |-> d.lc.ri, Rhtlc |-> d.lc.rh,
      Lmod |-> uaIds,                       \* their resolutions of our adds
      Rmod |-> ResIds(pend) \cup rulIds,    \* our resolutions of their adds
      LC |-> <<d.lc>>,
      RC |-> IF hasDiff THEN <<d.rc, d.diff>> ELSE <<d.rc>>]

Disconnect ==
  /\ ndisc < MaxDisc
  /\ Fused => \A p \in Party : Len(LC[p]) = 1
  /\ ndisc' = ndisc + 1
  /\ L' = [p \in Party |-> Restored(p).L]
  /\ R' = [p \in Party |-> Restored(p).R]
  /\ Lidx' = [p \in Party |-> Restored(p).Lidx] /\ Lhtlc' = [p \in Party |-> Restored(p).Lhtlc]
  /\ Ridx' = [p \in Party |-> Restored(p).Ridx] /\ Rhtlc' = [p \in Party |-> Restored(p).Rhtlc]
  /\ Lmod' = [p \in Party |-> Restored(p).Lmod] /\ Rmod' = [p \in Party |-> Restored(p).Rmod]
  /\ LC' = [p \in Party |-> Restored(p).LC]
  /\ RC' = [p \in Party |-> Restored(p).RC]
  /\ net' = [p \in Party |-> <<>>]
  /\ phase' = [p \in Party |-> "sync0"]
  /\ lwrMem' = IF SoftReest THEN [p \in Party |-> disk[p].lwr] ELSE lwrMem
  /\ UNCHANGED <<disk, nadds, released, nfees, bad, opener>>

\* API level only (~Fused): channel_reestablish processed on LIVE channel objects - the transport
\* dropped, queues are lost, but nobody re-created the channels from disk.  lnd's peer always reloads
\* (Disconnect above); the state machine's API allows this, and C06's release rule must hold here too
\* (a party may hold an unrevoked local tip that is not durable yet).
SoftDisconnect ==
  /\ SoftReest /\ ~Fused /\ ndisc < MaxDisc
  /\ \A p \in Party : phase[p] = "run"
  /\ ndisc' = ndisc + 1
  /\ net' = [p \in Party |-> <<>>]
  /\ phase' = [p \in Party |-> "sync0"]
  /\ UNCHANGED <<L, R, Lidx, Lhtlc, Ridx, Rhtlc, Lmod, Rmod, LC, RC, disk, nadds, released, nfees, bad, opener, lwrMem>>

\* channelLink.UpdateShortChanID -> OpenChannel.Refresh(): the state of a LIVE channel is re-read from the
\* database (the funding tx of a zero-conf channel confirms) and the state machine continues on the refreshed
\* objects.  Nothing the state machine keeps changes; the plain fields of OpenChannel are overwritten with
\* what is on disk (LastWasRevoke is the only one the model tells apart).
LiveRefresh(p) ==
  /\ lwrMem' = IF SoftReest THEN [lwrMem EXCEPT ![p] = disk[p].lwr] ELSE lwrMem
  /\ UNCHANGED <<L, R, Lidx, Lhtlc, Ridx, Rhtlc, Lmod, Rmod, LC, RC, disk, net, phase, nadds, ndisc, released,
                 nfees, bad, opener>>

\* the retransmission order ProcessChanSyncMsg uses: the in-memory flag
LwrOf(q) == IF SoftReest THEN lwrMem[q] ELSE disk[q].lwr

SendReest(p) ==
  /\ phase[p] = "sync0"
  /\ phase' = [phase EXCEPT ![p] = "sync1"]
  /\ net' = [net EXCEPT ![p] = Append(@, [k |-> "reest", next |-> disk[p].lc.h + 1,
                                            tail |-> disk[p].rc.h])]
  /\ UNCHANGED <<L, R, Lidx, Lhtlc, Ridx, Rhtlc, Lmod, Rmod, LC, RC, disk, nadds, ndisc, released, nfees, bad, opener, lwrMem>>

\* ProcessChanSyncMsg at q for message m from p
RecvReest(q) ==
  LET p == Other(q)
      m == Head(net[p])
      localTail == CTail(LC[q]).h
      remoteTail == CTail(RC[q]).h
      remoteTip == Tip(RC[q]).h
      oweRev == m.tail + 1 = localTail
      err1 == m.tail > localTail \/ m.tail + 1 < localTail
      \* owe revocation: maybe also sign
      canSign == oweRev /\ Owe(q) /\ Len(RC[q]) = 1 /\ Tip(RC[q]).h < MaxHeight
      s == SignResult(q, L[q], R[q], LC[q], RC[q], Lidx[q], Lhtlc[q])
      revMsgs == IF oweRev THEN <<[k |-> "rev", h |-> localTail - 1]>> ELSE <<>>
      sigMsgs == IF canSign THEN <<s.msg>> ELSE <<>>
      first == revMsgs \o sigMsgs
      \* second switch uses heights taken *before* signing (as in the code)
      err2 == m.next > remoteTip + 1 \/ m.next <= remoteTail
      oweCommit == m.next = remoteTip /\ ~err2
      updMsgs == [i \in 1..Len(disk[q].diffUpd) |->
                    LET e == disk[q].diffUpd[i] IN [k |-> e.t, li |-> e.li, hi |-> e.hi, amt |-> e.amt]]
      commitMsgs == IF oweCommit
                    THEN updMsgs \o <<[k |-> "sig", h |-> disk[q].diff.h, li |-> disk[q].diff.li,
                                       ri |-> disk[q].diff.ri, c |-> disk[q].diff]>>
                    ELSE <<>>
      out == IF oweCommit /\ LwrOf(q) THEN commitMsgs \o first ELSE first \o commitMsgs
  IN
  /\ phase[q] = "sync1" /\ net[p] # <<>> /\ m.k = "reest"
  /\ net' = [net EXCEPT ![p] = Tail(@), ![q] = @ \o (IF err1 \/ err2 THEN <<>> ELSE out)]
  /\ phase' = [phase EXCEPT ![q] = "run"]
  /\ bad' = IF err1 \/ err2 THEN "resync-error" ELSE bad
  /\ IF canSign /\ ~(err1 \/ err2)
     THEN /\ L' = [L EXCEPT ![q] = s.L] /\ R' = [R EXCEPT ![q] = s.R]
          /\ RC' = [RC EXCEPT ![q] = Append(@, s.c)]
          /\ disk' = [disk EXCEPT ![q].diff = s.c, ![q].diffUpd = s.upd, ![q].lwr = FALSE, ![q].fwd = s.fwd,
                               ![q].dack = s.dack]
     ELSE UNCHANGED <<L, R, RC, disk>>
  /\ IF oweRev /\ ~(err1 \/ err2)
     THEN released' = [released EXCEPT ![q] = @ \cup {localTail - 1}]
     ELSE UNCHANGED released
  /\ UNCHANGED <<Lidx, Lhtlc, Ridx, Rhtlc, Lmod, Rmod, LC, nadds, ndisc, nfees, opener, lwrMem>>

\* C06: a revoke_and_ack whose secret is NOT the next one of the peer's chain - a corrupted one, or the negation of
\* the right scalar (same x coordinate of the commitment point) - is refused and leaves everything as it is, in
\* memory and on disk; the genuine message stays first in the queue.
RecvBadRev(q) == CanRecv(q) /\ HeadMsg(q).k = "rev" /\ UNCHANGED vars

-----------------------------------------------------------------------------
Next ==
  \/ \E p \in Party, a \in Amts : Add(p, a)
  \/ \E p \in Party, k \in {"settle", "fail"}, id \in 0..(2*MaxAdds) : Resolve(p, k, id)
  \/ \E p \in Party : Sign(p) \/ Revoke(p) \/ RecvAdd(p) \/ RecvRes(p) \/ RecvSig(p) \/ RecvRev(p)
  \/ Disconnect
  \/ SoftDisconnect
  \/ \E p \in Party : SendReest(p) \/ RecvReest(p)
  \/ \E p \in Party, r \in Rates : UpdateFee(p, r)
  \/ \E p \in Party : RecvFee(p)
  \/ \E p \in Party : RecvBadRev(p)

Spec == Init /\ [][Next]_vars

-----------------------------------------------------------------------------
(* invariants *)

NoError == bad = "none"

Conservation ==
  \A p \in Party :
    /\ \A i \in 1..Len(LC[p]) : LET c == LC[p][i] IN c.ob + c.tb + SumSet(c.outs) + SumSet(c.ins) = Cap
    /\ \A i \in 1..Len(RC[p]) : LET c == RC[p][i] IN c.ob + c.tb + SumSet(c.outs) + SumSet(c.ins) = Cap
    /\ \A i \in 1..Len(LC[p]) : LC[p][i].ob >= 0 /\ LC[p][i].tb >= 0

NeverBroadcastRevoked == \A p \in Party : \A h \in released[p] : h < disk[p].lc.h

\* C02 (forwarding packages): every peer add that is locked in on both chains and still unresolved is
\* recorded in exactly one forwarding package (the switch re-forwards from there after a restart), and an
\* add is acked there only once our settle/fail of it is covered by a commitment we signed
FwdPkgsComplete ==
  \A p \in Party : bad = "none" =>
    /\ \A i \in 1..Len(R[p]) : LET e == R[p][i] IN
         (IsAdd(e) /\ LockedIn(p, e)) => Cardinality(AddRefs(disk[p].fwd, e.hi)) = 1
    /\ \A k \in 1..Len(disk[p].fwd) : \A i \in disk[p].fwd[k].ack :
         LET id == disk[p].fwd[k].adds[i + 1] IN
         \/ \E j \in 1..Len(L[p]) : IsRes(L[p][j]) /\ L[p][j].hi = id /\ L[p][j].rR > 0
         \/ ~HasAdd(R[p], id)      \* already compacted away: resolved on both chains

\* C02 (the destination side of the same bookkeeping): the answer to a peer add is acked in the package of the
\* channel it came from exactly when a signature of ours covers it - not before (a crash would lose the answer),
\* not later (it would be replayed into the switch on every start), whatever became of OTHER outgoing channels
DestAcksExact ==
  \A p \in Party : bad = "none" =>
    /\ \A j \in 1..Len(L[p]) : LET e == L[p][j] IN
         (IsRes(e) /\ DestOpen(e.hi)) => (e.hi \in disk[p].dack <=> e.rR > 0)
    /\ \A id \in disk[p].dack : DestOpen(id) /\ id < Rhtlc[p]

\* C06: secrets leave in height order, without gaps or repeats
SecretsInOrder == \A p \in Party : \A h \in released[p] : \A g \in 0..h : g \in released[p]

Quiescent == /\ \A p \in Party : net[p] = <<>> /\ phase[p] = "run" /\ ~Owe(p)
                               /\ Len(LC[p]) = 1 /\ Len(RC[p]) = 1

Mirror ==
  Quiescent =>
    \A p \in Party : LET q == Other(p) a == CTail(LC[p]) b == CTail(RC[q]) IN
      /\ a.h = b.h /\ a.ob = b.tb /\ a.tb = b.ob /\ a.outs = b.ins /\ a.ins = b.outs
      /\ a.li = b.ri /\ a.ri = b.li

\* C02 on the model: what a reload yields is complete and consistent.
\*  (i)  the commitment chains come back exactly (only an unrevoked local tip is volatile);
\*  (ii) the restored logs are consistent with the restored commitments: re-evaluating the
\*       prefixes a commitment covers, on the restored logs, reproduces that commitment's HTLC
\*       sets and fee rate and moves no balance (this is what a wrongly restored add/remove
\*       height or a dropped entry breaks);
\*  (iii) the log counters cover exactly what was signed.
HtlcIds(S) == {[hi |-> x.hi, amt |-> x.amt] : x \in S}
ViewMatches(v, c) == /\ v.dOur = 0 /\ v.dTheir = 0 /\ v.fee = c.fee
                     /\ HtlcIds(v.outs) = HtlcIds(c.outs) /\ HtlcIds(v.ins) = HtlcIds(c.ins)
RestoreFaithful ==
  \A p \in Party :
    (phase[p] = "run" /\ bad = "none") =>
      LET r == Restored(p)
          rt == Tip(r.RC)
          lt == CTail(r.LC)
      IN /\ r.LC = <<CTail(LC[p])>>
         /\ r.RC = RC[p]
         /\ ViewMatches(View(r.L, r.R, rt.li, rt.ri, "R", p = opener, rt.fee), rt)
         /\ ViewMatches(View(r.L, r.R, lt.li, lt.ri, "L", p = opener, lt.fee), lt)
         /\ r.Lidx = Tip(RC[p]).li /\ r.Ridx = CTail(LC[p]).ri
         /\ r.Lhtlc = Tip(RC[p]).lh /\ r.Rhtlc = CTail(LC[p]).rh

HeightOK == \A p \in Party : Tip(LC[p]).h <= MaxHeight + 1
=============================================================================
