SPECIFICATION GSpec
CONSTANTS
  MaxAdds = 4
  MaxFlaps = 3
  MaxShut = 2
  MaxFees = 2
  FeeRates = {6000, 9000, 12000}
  BaseFee = 6000
  Kinds = {0, 1, 2}
  BlockInOnResume = FALSE
  MaxLen = 45
  AddPct = 40
  ShutPct = 20
  FlapPct = 45
  FeePct = 12
  RefusedPct = 6
  DecidePct = 25
INVARIANTS Dump
CHECK_DEADLOCK FALSE
