SPECIFICATION GSpec
CONSTANTS
  MaxAdds = 4
  MaxFlaps = 3
  MaxShut = 2
  BlockInOnResume = FALSE
  OweSigQuirk = FALSE
  MaxLen = 45
  AddPct = 40
  ShutPct = 20
  FlapPct = 45
INVARIANTS Dump
CHECK_DEADLOCK FALSE
