---------------------------- MODULE ChannelGhost ----------------------------
(* C01 "a balance moves only by the amount of an HTLC that was added, settled *)
(* or failed", stated declaratively.  The code computes balances              *)
(* INCREMENTALLY (evaluateHTLCView: an entry moves a balance only while its   *)
(* add/remove height on that chain is still 0) and compacts the logs; the     *)
(* ghost G[p] keeps every update p ever put into its log (never compacted,    *)
(* truncated like the log when unsigned updates are dropped by a restart).    *)
(* Declarative: every commitment on every chain equals the balances and HTLC  *)
(* sets defined directly from the two log PREFIXES it covers.  A wrongly      *)
(* restored height, a dropped or double-counted entry breaks it.              *)
EXTENDS Channel
VARIABLE G

GE(e) == [t |-> e.t, li |-> e.li, hi |-> e.hi, amt |-> e.amt]
GUpd(p) == LET keep == SeqFilter(G[p], LAMBDA e : e.li < Lidx'[p])
               new  == SeqFilter(L'[p], LAMBDA e : e.li >= Lidx[p] /\ ~IsFee(e))
           IN keep \o [i \in 1..Len(new) |-> GE(new[i])]

GhostInit == Init /\ G = [p \in Party |-> <<>>]
GhostNext == Next /\ G' = [p \in Party |-> GUpd(p)]
GhostSpec == GhostInit /\ [][GhostNext]_<<vars, G>>

SumAmts(S) == LET F[T \in SUBSET S] == IF T = {} THEN 0 ELSE LET x == CHOOSE y \in T : TRUE IN x.amt + F[T \ {x}]
              IN F[S]
\* what a commitment of holder p covering p's prefix a and the peer's prefix b must be
Decl(p, a, b) ==
  LET q == Other(p)
      mine   == {e \in Elems(G[p]) : e.li < a}
      theirs == {e \in Elems(G[q]) : e.li < b}
      myAdds == {e \in mine : e.t = "add"}
      thAdds == {e \in theirs : e.t = "add"}
      resOfMine(k) == {e \in theirs : e.t = k}     \* the peer resolves my adds
      resOfTheirs(k) == {e \in mine : e.t = k}     \* I resolve the peer's adds
      amtOfMy(id) == (CHOOSE e \in Elems(G[p]) : e.t = "add" /\ e.hi = id).amt
      amtOfTh(id) == (CHOOSE e \in Elems(G[q]) : e.t = "add" /\ e.hi = id).amt
      S(X) == SumAmts({[amt |-> x.amt, k |-> x.li] : x \in X})
      resolvedMine == {e.hi : e \in resOfMine("settle") \cup resOfMine("fail")}
      resolvedTheirs == {e.hi : e \in resOfTheirs("settle") \cup resOfTheirs("fail")}
  IN [ob |-> Cap \div 2 - S(myAdds) + S(resOfMine("fail")) + S(resOfTheirs("settle")),
      tb |-> Cap \div 2 - S(thAdds) + S(resOfTheirs("fail")) + S(resOfMine("settle")),
      outs |-> {[hi |-> e.hi, amt |-> e.amt] : e \in {x \in myAdds : x.hi \notin resolvedMine}},
      ins  |-> {[hi |-> e.hi, amt |-> e.amt] : e \in {x \in thAdds : x.hi \notin resolvedTheirs}}]

MatchesDecl(p, c) == LET d == Decl(p, c.li, c.ri) IN
                     /\ c.ob = d.ob /\ c.tb = d.tb
                     /\ HtlcIds(c.outs) = d.outs /\ HtlcIds(c.ins) = d.ins

IncrementalEqualsDeclarative ==
  bad = "none" =>
    \A p \in Party : /\ \A i \in 1..Len(LC[p]) : MatchesDecl(p, LC[p][i])
                     /\ \A i \in 1..Len(RC[p]) : MatchesDecl(p, RC[p][i])
=============================================================================
