---------------------------- MODULE LinkResync ----------------------------
(***************************************************************************)
(* C03, LINK LEVEL: "Reconnection always resynchronises", one layer above  *)
(* spec/Channel (which covers ChanSyncMsg / ProcessChanSyncMsg on reloaded *)
(* LightningChannels).  This module specifies what drives the exchange in *)
(* the running node: two htlcswitch.channelLinks A and B over one channel, *)
(* one connection epoch after another                                      *)
(*   htlcswitch/link.go  htlcManager / resumeLink / syncChanStates /       *)
(*   resolveFwdPkgs / handleDownstreamUpdateAdd / processRemote* /         *)
(*   updateCommitTx, the mailbox (htlcswitch/mailbox.go) and the peer      *)
(*   layer's shutdown glue (peer/brontide.go).                             *)
(*                                                                         *)
(* Abstraction.  Each side keeps the sequence `own` of the updates it has  *)
(* made (add / settle / fail / fee); a commitment is the pair of prefix    *)
(* lengths it covers, cov = [A |-> nA, B |-> nB].  Per side p (o = other): *)
(*   own            p's updates; the prefix up to Tip(p)[p] is signed      *)
(*   rcv            number of o's updates received                         *)
(*   lc  / hl       p's local commitment (we revoke at once: one) / height *)
(*   rt  / hrt      o's commitment as last revoked (remote tail) / height  *)
(*   rp  / hasRp    o's commitment p has signed, not revoked yet           *)
(*                  (the persisted CommitDiff: retransmitted on reconnect) *)
(*   lwr            LastWasRevoke                                          *)
(*   shut           ShutdownInfo persisted (=> PreviouslySentShutdown)     *)
(*   reest, outBlk, inBlk, hookShut, hookFlush   link memory: reestablished*)
(*                  (in the main loop), DisableAdds(Outgoing / Incoming),  *)
(*                  OnCommitOnce(Outgoing, send shutdown), OnFlushedOnce   *)
(*   replay         adds in the switch's mailbox that were not signed when *)
(*                  the link went down: re-delivered when the link resumes *)
(* and globally: pays (every payment offered: sender, kind, whether the    *)
(* switch took it, the state of its hold invoice in the receiver's invoice *)
(* registry: open / accepted / settled / canceled - the registry survives a*)
(* reconnect), nflap, nfee (bounds).                                       *)
(* What survives a restart is what lnd persists: the signed prefix of own, *)
(* rcv := lc[o] (updates covered by the last commit_sig we accepted), the  *)
(* commitments, heights, lwr, shut.  q[p] is the FIFO of messages p has    *)
(* sent that have not been delivered; the environment delivers them one at *)
(* a time (Deliver) or drops them all (Flap: the delivered prefix per      *)
(* direction is whatever was delivered before).                            *)
(*                                                                         *)
(* Actions = the link's critical sections:                                 *)
(*   Add(p,kind)   Switch.SendHTLC -> mailbox -> handleDownstreamUpdateAdd *)
(*                 (kind 1: the exit hop settles, 0: fails, 2: hold invoice*)
(*                 - the exit hop keeps the htlc until the registry decides*)
(*                 ); refused by the switch while the link is not eligible *)
(*                 (not reestablished / outgoing adds disabled)            *)
(*   Tick(p)       BatchTicker -> updateCommitTx (sign if window open)     *)
(*   Deliver(p)    handleUpstreamMsg: add/settle/fail/update_fee, commit_sig*)
(*                 (accept, revoke, sign if owed), revoke_and_ack (lock in:*)
(*                 the exit hop settles/fails every newly locked-in add -  *)
(*                 or has its hold invoice accepted -, signs),             *)
(*                 channel_reestablish (the whole of resumeLink: resend    *)
(*                 channel_ready at height 1, retransmit revoke / updates +*)
(*                 commit_sig in LastWasRevoke order, sign if a revoke was *)
(*                 sent without the signature owed, PreviouslySentShutdown,*)
(*                 resolveFwdPkgs (re-resolve locked-in adds whose answer  *)
(*                 was not signed, re-subscribe held htlcs, learn decisions*)
(*                 made while the link was down), mailbox replay),         *)
(*                 shutdown (peer glue)                                    *)
(*   Decide(i,d)   the receiver's registry settles / cancels an accepted   *)
(*                 hold invoice: hodlQueue -> processHodlQueue (answer +   *)
(*                 updateCommitTx) if the link is in its main loop         *)
(*   Fee(x)        updateFeeTimer -> handleUpdateFee -> updateChannelFee on*)
(*                 the initiator (A): update_fee + updateCommitTx at once; *)
(*                 lnwallet's appendFeeUpdate replaces the rate of a fee   *)
(*                 update that is on no commitment yet instead of logging a*)
(*                 second one (sender and receiver alike)                  *)
(*   Shutdown(p)   the peer layer starts a cooperative close               *)
(*   Flap          the connection drops; both links are re-created from the*)
(*                 database and send channel_reestablish                   *)
(* A step that real code would answer with a link failure sets `failed`.   *)
(*                                                                         *)
(* Properties (the C03 statement at this layer):                           *)
(*   NoFailure        no link ever fails (no OnChannelFailure, no force    *)
(*                    close request): every retransmitted update, signature*)
(*                    and revocation is accepted, no data loss is reported,*)
(*                    incl. "we sent shutdown on an earlier connection, the*)
(*                    peer had not seen it and retransmits add+commit_sig" *)
(*   QuiescentSynced  once the queues have drained (nothing in flight,     *)
(*                    nothing to sign) both sides hold mirrored commitments*)
(*                    that cover every update, nobody owes anything, and   *)
(*                    the only htlcs left are those of accepted, undecided *)
(*                    hold invoices                                        *)
(*   ExactlyOnce      an HTLC that was irrevocably committed is present on *)
(*                    both commitments or resolved, exactly once           *)
(*   CovSane          commitments only ever cover signed / received updates*)
(* for every instant of Flap, repeated Flaps included (also in the middle  *)
(* of the resynchronisation).  BlockInOnResume is a named defect switch (a *)
(* link that also blocks INCOMING adds when it resumes with a previously   *)
(* sent shutdown): with it NoFailure must fail - the witness that the rule *)
(* is not vacuous (checked in every run).  Not modelled: a link that dies  *)
(* INSIDE one critical section (C02 / C08 cover crash points), forwarded   *)
(* htlcs (C07 / C08), channel types other than the fixture's (tweakless).  *)
(***************************************************************************)
EXTENDS Integers, Sequences, FiniteSets, SequencesExt, TLC

CONSTANTS MaxAdds, MaxFlaps, MaxShut, MaxFees, FeeRates, BaseFee, Kinds, BlockInOnResume
VARIABLES sd, q, pays, nflap, nfee, res

vars == <<sd, q, pays, nflap, nfee, res>>

P == {"A", "B"}
O(p) == IF p = "A" THEN "B" ELSE "A"
Num(p) == IF p = "A" THEN 0 ELSE 1
ZeroCov == [A |-> 0, B |-> 0]

M(k, h, x, y) == [k |-> k, h |-> h, x |-> x, y |-> y, c |-> ZeroCov]
SigMsg(c, n) == [k |-> "sig", h |-> 0, x |-> n, y |-> 0, c |-> c]
UpdMsg(u) == IF u.k = "fee" THEN M("fee", 0, u.h, 0) ELSE M(u.k, u.h, 0, 0)
IsRes(k) == k \in {"settle", "fail"}
Msgs(us) == [i \in 1..Len(us) |-> UpdMsg(us[i])]

\* ---- commitments as coverage pairs ----------------------------------------
AddsOf(own, n, who) == {<<who, own[i].h>> : i \in {j \in 1..n : own[j].k = "add"}}
ResOf(own, n, who)  == {<<who, own[i].h>> : i \in {j \in 1..n : IsRes(own[j].k)}}
\* the HTLCs on a commitment that covers c (w: both sides' records)
Htlcs(w, c) == (AddsOf(w.A.own, c.A, 0) \cup AddsOf(w.B.own, c.B, 1))
               \ (ResOf(w.A.own, c.A, 1) \cup ResOf(w.B.own, c.B, 0))
NumAdds(own) == Cardinality({j \in 1..Len(own) : own[j].k = "add"})
\* the fee rate of a commitment that covers c: the last update_fee of the initiator (A) it covers
FeeAt(w, c) == LET idx == {j \in 1..c.A : w.A.own[j].k = "fee"}
               IN IF idx = {} THEN BaseFee ELSE w.A.own[CHOOSE j \in idx : \A i \in idx : i <= j].h

Tip(s) == IF s.hasRp THEN s.rp ELSE s.rt
Owe(s, p)  == Len(s.own) # Tip(s)[p] \/ s.lc[O(p)] # Tip(s)[O(p)]     \* lnwallet OweCommitment
Need(s, p) == s.rcv # s.lc[O(p)] \/ Tip(s)[p] # s.lc[p]              \* lnwallet NeedCommitment
Clean(w, p) == LET s == w[p] IN
  ~s.hasRp /\ ~Owe(s, p) /\ ~Need(s, p) /\ (Htlcs(w, s.lc) \cap Htlcs(w, s.rt)) = {}
Active(w, p) == w[p].reest /\ Len(w[p].own) > Tip(w[p])[p]            \* the batch ticker is resumed

Fail(w, p, why) == [w EXCEPT ![p].failed = why]

\* ---- updateCommitTx ---------------------------------------------------------
\* SignNextCommitment + send; hooks: the outgoing commit hooks run (updateCommitTx), not on the signature
\* made inside ProcessChanSyncMsg
SignW(w, p, hooks) ==
  LET s == w[p]
      c == [ZeroCov EXCEPT ![p] = Len(s.own), ![O(p)] = s.lc[O(p)]]
      sh == hooks /\ s.hookShut
      ms == <<SigMsg(c, Cardinality(Htlcs(w, c)))>> \o (IF sh THEN <<M("shutdown", 0, 0, 0)>> ELSE <<>>)
  IN [w EXCEPT ![p].rp = c, ![p].hasRp = TRUE, ![p].lwr = FALSE,
               ![p].emit = @ \o ms, ![p].hookShut = IF sh THEN FALSE ELSE @]
TrySignW(w, p, hooks) == IF Owe(w[p], p) /\ ~w[p].hasRp THEN SignW(w, p, hooks) ELSE w

FlushW(w, p) == IF w[p].hookFlush /\ Clean(w, p)
                THEN [w EXCEPT ![p].hookFlush = FALSE, ![p].ev = Append(@, "flushed")] ELSE w

\* the exit hop's answers to o's adds at positions from..to of o's updates that p has not answered yet
\* (an add for a hold invoice, s = 2, is answered only once the invoice has been settled / cancelled: NotifyExitHopHtlc
\* returns no resolution while the invoice is open / accepted, the link keeps the htlc in its hodlMap)
Held(u) == u.s = 2 /\ pays[u.pid].inv \in {"open", "accepted"}
Answer(u) == IF u.s = 1 \/ (u.s = 2 /\ pays[u.pid].inv = "settled") THEN "settle" ELSE "fail"
ResFor(w, p, from, to) ==
  LET o == O(p)
      idx == {i \in from..to : /\ w[o].own[i].k = "add" /\ ~Held(w[o].own[i])
                               /\ ~\E j \in 1..Len(w[p].own) : IsRes(w[p].own[j].k) /\ w[p].own[j].h = w[o].own[i].h}
      ord == SetToSortSeq(idx, <)
  IN [n \in 1..Len(ord) |-> [k |-> Answer(w[o].own[ord[n]]),
                             h |-> w[o].own[ord[n]].h, s |-> 0, pid |-> 0]]
\* the payments whose hold invoice p's registry accepts when p's exit hop processes the locked-in adds
LockedOpen(w, p) == {w[O(p)].own[i].pid : i \in {j \in 1..w[p].rt[O(p)] :
                        w[O(p)].own[j].k = "add" /\ w[O(p)].own[j].s = 2 /\ pays[w[O(p)].own[j].pid].inv = "open"}}

\* ---- handleUpstreamMsg ------------------------------------------------------
RecvUpdW(w, p, m) ==
  LET s == w[p]
      o == O(p)
      known == s.rcv + 1 <= Len(w[o].own)
      u == w[o].own[s.rcv + 1]
      \* lnwallet appendFeeUpdate: an update_fee that arrives while the newest fee update of the log is on no
      \* commitment yet only replaces its rate (no new log entry).  The rate of a message is not compared with
      \* the sender's log: the sender may have replaced it since; delivery is in order, so that the copies agree
      \* whenever a signature covers the entry (ConformFee checks the rates of the real commitments)
      coal == m.k = "fee" /\ \E i \in (s.lc[o] + 1)..s.rcv : w[o].own[i].k = "fee"
  IN IF m.k = "add" /\ s.inBlk THEN Fail(w, p, "add while flushing")
     ELSE IF m.k = "fee" /\ p = "A" THEN Fail(w, p, "received fee update as initiator")
     ELSE IF coal THEN w
     ELSE IF ~known \/ (m.k = "fee" /\ u.k # "fee") \/ (m.k # "fee" /\ UpdMsg(u) # m) THEN Fail(w, p, "unexpected update")
     ELSE IF IsRes(m.k) /\ <<Num(p), m.h>> \notin (Htlcs(w, s.lc) \cap Htlcs(w, s.rt))
          THEN Fail(w, p, "resolution of an htlc that is not locked in")
     ELSE [w EXCEPT ![p].rcv = @ + 1]

RecvSigW(w, p, m) ==
  LET s == w[p]
      exp == [ZeroCov EXCEPT ![p] = s.rt[p], ![O(p)] = s.rcv]
  IN IF m.c # exp THEN Fail(w, p, "invalid commitment")
     ELSE FlushW(TrySignW([w EXCEPT ![p].lc = exp, ![p].hl = @ + 1, ![p].lwr = TRUE,
                                    ![p].emit = Append(@, M("rev", 0, 0, 0))], p, TRUE), p)

RecvRevW(w, p) ==
  LET s == w[p]
      o == O(p)
  IN IF ~s.hasRp THEN Fail(w, p, "revocation without a pending commitment")
     ELSE LET rs == ResFor(w, p, s.rt[o] + 1, s.rp[o])
          IN FlushW(TrySignW([w EXCEPT ![p].rt = s.rp, ![p].rp = ZeroCov, ![p].hasRp = FALSE, ![p].hrt = @ + 1,
                                       ![p].own = @ \o rs, ![p].emit = @ \o Msgs(rs)], p, TRUE), p)

\* the peer layer when we send `shutdown` (initiating or replying): MarkShutdownSent, DisableAdds(Outgoing),
\* OnCommitOnce(Outgoing, send): at once if nothing is owed, else right after our next commit_sig
ShutW(w, p) ==
  IF Owe(w[p], p) THEN [w EXCEPT ![p].shut = TRUE, ![p].outBlk = TRUE, ![p].hookShut = TRUE]
  ELSE [w EXCEPT ![p].shut = TRUE, ![p].outBlk = TRUE, ![p].emit = Append(@, M("shutdown", 0, 0, 0))]

RecvShutW(w, p) ==
  LET w1 == [w EXCEPT ![p].inBlk = TRUE]
      w2 == IF w1[p].shut THEN w1 ELSE ShutW(w1, p)
  IN IF Clean(w2, p) THEN [w2 EXCEPT ![p].ev = Append(@, "flushed")] ELSE [w2 EXCEPT ![p].hookFlush = TRUE]

\* resumeLink, entered when the peer's channel_reestablish arrives: syncChanStates (ProcessChanSyncMsg),
\* PreviouslySentShutdown, markReestablished, resolveFwdPkgs, then the mailbox re-delivers unsigned adds
ReplayW(w, p) ==
  LET s == w[p]
      n0 == NumAdds(s.own)
      as == [i \in 1..Len(s.replay) |-> [k |-> "add", h |-> n0 + i - 1, s |-> s.replay[i].s, pid |-> s.replay[i].pid]]
  IN IF s.outBlk THEN [w EXCEPT ![p].replay = <<>>]
     ELSE [w EXCEPT ![p].replay = <<>>, ![p].own = @ \o as, ![p].emit = @ \o Msgs(as)]

RecvReestW(w, p, m) ==
  LET s == w[p]
      o == O(p)
      tipH == s.hrt + (IF s.hasRp THEN 1 ELSE 0)
      okRev == m.y = s.hl \/ m.y + 1 = s.hl
      okCom == m.x = tipH + 1 \/ (m.x = tipH /\ s.hasRp)
  IN IF ~okRev \/ ~okCom THEN Fail(w, p, "cannot synchronise commit chains")
     ELSE
     LET ready == IF m.x = 1 /\ s.hl = 0 THEN <<M("ready", 0, 0, 0)>> ELSE <<>>
         oweRev == m.y + 1 = s.hl
         \* we revoked, the link went down before the signature we owed: sign now (no hooks)
         signNew == oweRev /\ Owe(s, p) /\ ~s.hasRp
         w0 == [w EXCEPT ![p].emit = <<>>]
         wS == IF signNew THEN SignW(w0, p, FALSE) ELSE w0
         revMsgs == (IF oweRev THEN <<M("rev", 0, 0, 0)>> ELSE <<>>) \o wS[p].emit
         oweCom == s.hasRp /\ m.x = tipH
         comMsgs == IF oweCom
                    THEN Msgs(SubSeq(s.own, s.rt[p] + 1, s.rp[p])) \o <<SigMsg(s.rp, Cardinality(Htlcs(w, s.rp)))>>
                    ELSE <<>>
         sync == IF s.lwr THEN comMsgs \o revMsgs ELSE revMsgs \o comMsgs
         shutMsgs == IF s.shut THEN <<M("shutdown", 0, 0, 0)>> ELSE <<>>
         w2 == [wS EXCEPT ![p].emit = s.emit \o ready \o sync \o shutMsgs,
                          ![p].outBlk = s.shut, ![p].inBlk = (BlockInOnResume /\ s.shut), ![p].reest = TRUE]
         rs == ResFor(w2, p, 1, w2[p].rt[o])
         w3 == [w2 EXCEPT ![p].own = @ \o rs, ![p].emit = @ \o Msgs(rs)]
         w4 == TrySignW(w3, p, TRUE)
     IN ReplayW(w4, p)

\* ---- initial state / reconnect ---------------------------------------------
Side0 == [own |-> <<>>, rcv |-> 0, lc |-> ZeroCov, rt |-> ZeroCov, rp |-> ZeroCov, hasRp |-> FALSE,
          hl |-> 0, hrt |-> 0, lwr |-> FALSE, shut |-> FALSE, reest |-> FALSE, outBlk |-> FALSE, inBlk |-> FALSE,
          hookShut |-> FALSE, hookFlush |-> FALSE, replay |-> <<>>, failed |-> "", emit |-> <<>>, ev |-> <<>>]

\* a new link on the channel state reloaded from the database; it sends channel_reestablish and waits
Restart(s, p) ==
  LET t == Tip(s)[p]
      lost == SubSeq(s.own, t + 1, Len(s.own))
      la == SelectSeq(lost, LAMBDA u : u.k = "add")
  IN [s EXCEPT !.own = SubSeq(s.own, 1, t), !.rcv = s.lc[O(p)], !.reest = FALSE, !.outBlk = FALSE, !.inBlk = FALSE,
               !.hookShut = FALSE, !.hookFlush = FALSE,
               !.replay = @ \o [i \in 1..Len(la) |-> [s |-> la[i].s, pid |-> la[i].pid]],
               !.emit = <<M("reest", 0, s.hl + 1, s.hrt)>>, !.ev = <<>>]

\* (state values are written as explicit records [A |-> .., B |-> ..] and sequences as `<<>> \o ..`: TLC must not keep
\* lazily evaluated functions in a state when a VIEW is used)
Sd0 == [A |-> Restart(Side0, "A"), B |-> Restart(Side0, "B")]
Q0 == [A |-> <<M("reest", 0, 1, 0)>>, B |-> <<M("reest", 0, 1, 0)>>]
Init == /\ sd = Sd0
        /\ q = Q0
        /\ pays = <<>>
        /\ nflap = 0
        /\ nfee = 0
        /\ res = "ok"

Clr(w) == [A |-> [w.A EXCEPT !.emit = <<>>, !.ev = <<>>], B |-> [w.B EXCEPT !.emit = <<>>, !.ev = <<>>]]
Alive == \A p \in P : sd[p].failed = ""
\* q after a step in which `from` (or nobody: "") lost the head of its queue to a delivery
QueueOf(w, from, x) == (IF x = from THEN Tail(q[x]) ELSE q[x]) \o w[x].emit
Queue(w, from) == [A |-> QueueOf(w, from, "A"), B |-> QueueOf(w, from, "B")]

\* ---- actions ----------------------------------------------------------------
Add(p, kind) ==
  /\ Alive
  /\ LET w == Clr(sd)
         s == w[p]
         ok == s.reest /\ ~s.outBlk
         pid == Len(pays) + 1
         u == [k |-> "add", h |-> NumAdds(s.own), s |-> kind, pid |-> pid]
         w1 == IF ok THEN [w EXCEPT ![p].own = Append(@, u), ![p].emit = <<UpdMsg(u)>>] ELSE w
     IN /\ sd' = w1
        /\ q' = Queue(w1, "")
        /\ pays' = Append(pays, [p |-> p, kind |-> kind, st |-> IF ok THEN "sent" ELSE "refused",
                                  inv |-> IF kind = 2 THEN "open" ELSE "none"])
        /\ res' = IF ok THEN "ok" ELSE "refused"
  /\ UNCHANGED <<nflap, nfee>>

Tick(p) ==
  /\ Alive
  /\ LET w == Clr(sd)
         w1 == IF Active(w, p) THEN TrySignW(w, p, TRUE) ELSE w
     IN /\ sd' = w1
        /\ q' = Queue(w1, "")
        /\ res' = IF Active(w, p) THEN "ok" ELSE "inactive"
  /\ UNCHANGED <<pays, nflap, nfee>>

Shutdown(p) ==
  /\ Alive
  /\ LET w == Clr(sd)
         w1 == IF w[p].reest THEN ShutW(w, p) ELSE w
     IN /\ sd' = w1
        /\ q' = Queue(w1, "")
        /\ res' = IF w[p].reest THEN "ok" ELSE "notready"
  /\ UNCHANGED <<pays, nflap, nfee>>

\* the invoice registry of the receiver settles / cancels an accepted hold invoice (SettleHodlInvoice / CancelInvoice).
\* A link in its main loop has the htlc in its hodlMap: hodlQueue -> processHodlQueue -> settle / fail, updateCommitTx at
\* once.  A link that is waiting for channel_reestablish is not subscribed: it learns the decision when it resumes
\* (resolveFwdPkgs re-notifies the registry, ResFor).
Decide(i, d) ==
  /\ Alive
  /\ LET o == pays[i].p
         p == O(o)
         w == Clr(sd)
         s == w[p]
         js == {j \in 1..s.rt[o] : w[o].own[j].k = "add" /\ w[o].own[j].pid = i}
         h == w[o].own[CHOOSE j \in js : TRUE].h
         act == s.reest /\ js # {} /\ ~\E j \in 1..Len(s.own) : IsRes(s.own[j].k) /\ s.own[j].h = h
         r == [k |-> IF d = "settled" THEN "settle" ELSE "fail", h |-> h, s |-> 0, pid |-> 0]
         w1 == IF act THEN TrySignW([w EXCEPT ![p].own = Append(@, r), ![p].emit = <<UpdMsg(r)>>], p, TRUE) ELSE w
     IN /\ sd' = w1
        /\ q' = Queue(w1, "")
        /\ pays' = [pays EXCEPT ![i].inv = d]
        /\ res' = "ok"
  /\ UNCHANGED <<nflap, nfee>>

\* updateFeeTimer -> handleUpdateFee -> updateChannelFee on the initiator's link (A): the sampled rate differs (by more
\* than 10%: FeeRates is chosen that way) from the rate of our local commitment -> UpdateFee, send update_fee,
\* updateCommitTx at once (sign if the window is open; the outgoing commit hooks run).  Allowed after shutdown.
Fee(x) ==
  /\ Alive
  /\ LET w == Clr(sd)
         s == w.A
         ok == s.reest /\ x # FeeAt(w, s.lc)
         u == [k |-> "fee", h |-> x, s |-> 0, pid |-> 0]
         \* lnwallet appendFeeUpdate: the newest fee update is on no commitment yet (we have not signed it): only its
         \* rate is replaced; the message is sent all the same
         pend == {j \in (Tip(s).A + 1)..Len(s.own) : s.own[j].k = "fee"}
         own1 == IF pend = {} THEN Append(s.own, u)
                 ELSE [s.own EXCEPT ![CHOOSE j \in pend : \A i \in pend : i <= j].h = x]
         w1 == IF ok THEN TrySignW([w EXCEPT !.A.own = own1, !.A.emit = <<UpdMsg(u)>>], "A", TRUE) ELSE w
     IN /\ sd' = w1
        /\ q' = Queue(w1, "")
        /\ res' = IF s.reest THEN "ok" ELSE "notready"
  /\ nfee' = nfee + 1
  /\ UNCHANGED <<pays, nflap>>

\* the mailbox fails the re-delivered adds of a link whose outgoing adds are disabled
MailboxFailed(w, w1, p) == IF w1[p].outBlk THEN {w[p].replay[i].pid : i \in 1..Len(w[p].replay)} ELSE {}

Deliver(p) ==
  /\ Alive
  /\ LET o == O(p)
         w == Clr(sd)
     IN IF q[o] = <<>> THEN /\ sd' = w /\ q' = Queue(w, "") /\ res' = "empty" /\ UNCHANGED pays
        ELSE LET m == Head(q[o])
                 w1 == CASE m.k = "reest" -> RecvReestW(w, p, m)
                         [] m.k = "ready" -> w
                         [] m.k = "shutdown" -> RecvShutW(w, p)
                         [] m.k = "sig" -> IF w[p].reest THEN RecvSigW(w, p, m) ELSE Fail(w, p, "not reestablished")
                         [] m.k = "rev" -> IF w[p].reest THEN RecvRevW(w, p) ELSE Fail(w, p, "not reestablished")
                         [] OTHER -> IF w[p].reest THEN RecvUpdW(w, p, m) ELSE Fail(w, p, "not reestablished")
                 mf == IF m.k = "reest" /\ w1[p].failed = "" THEN MailboxFailed(w, w1, p) ELSE {}
                 acc == IF m.k \in {"reest", "rev"} /\ w1[p].failed = "" THEN LockedOpen(w1, p) ELSE {}
             IN /\ sd' = w1
                /\ q' = Queue(w1, o)
                /\ pays' = <<>> \o [i \in 1..Len(pays) |-> IF i \in mf THEN [pays[i] EXCEPT !.st = "mbfailed"]
                                                          ELSE IF i \in acc THEN [pays[i] EXCEPT !.inv = "accepted"]
                                                          ELSE pays[i]]
                /\ res' = "ok"
  /\ UNCHANGED <<nflap, nfee>>

Flap ==
  /\ Alive
  /\ LET w == [A |-> Restart(sd.A, "A"), B |-> Restart(sd.B, "B")]
     IN /\ sd' = w
        /\ q' = [A |-> w.A.emit, B |-> w.B.emit]
  /\ nflap' = nflap + 1
  /\ res' = "ok"
  /\ UNCHANGED <<pays, nfee>>

NShut == Cardinality({p \in P : sd[p].shut})

Next ==
  \/ \E p \in P, kind \in Kinds : Len(pays) < MaxAdds /\ Add(p, kind)
  \/ \E i \in 1..Len(pays), d \in {"settled", "canceled"} : pays[i].inv = "accepted" /\ Decide(i, d)
  \/ \E p \in P : Active(sd, p) /\ Tick(p)
  \/ \E p \in P : q[O(p)] # <<>> /\ Deliver(p)
  \/ \E p \in P : NShut < MaxShut /\ sd[p].reest /\ ~sd[p].shut /\ Shutdown(p)
  \/ \E x \in FeeRates : nfee < MaxFees /\ sd.A.reest /\ Fee(x)
  \/ nflap < MaxFlaps /\ Flap

Spec == Init /\ [][Next]_vars

\* ---- properties -----------------------------------------------------------------
NoFailure == \A p \in P : sd[p].failed = ""

Quiescent == /\ \A p \in P : q[p] = <<>> /\ sd[p].reest /\ ~Active(sd, p) /\ sd[p].replay = <<>>
             /\ Alive
Full == [A |-> Len(sd.A.own), B |-> Len(sd.B.own)]
\* the htlcs whose hold invoice is accepted and undecided: they stay on the commitments
HeldSet == {<<Num(pays[i].p), sd[pays[i].p].own[j].h>> :
              <<i, j>> \in {x \in (1..Len(pays)) \X (1..(Len(sd.A.own) + Len(sd.B.own))) :
                              /\ pays[x[1]].inv = "accepted" /\ x[2] <= Len(sd[pays[x[1]].p].own)
                              /\ sd[pays[x[1]].p].own[x[2]].k = "add" /\ sd[pays[x[1]].p].own[x[2]].pid = x[1]}}
QuiescentSynced ==
  Quiescent => \A p \in P : /\ ~sd[p].hasRp /\ sd[p].lc = Full /\ sd[p].rt = Full
                            /\ sd[p].rcv = Len(sd[O(p)].own)
                            /\ sd[p].hl = sd[O(p)].hrt
                            /\ Htlcs(sd, Full) = HeldSet

\* an HTLC covered by both local commitments was irrevocably committed
ExactlyOnce ==
  \A p \in P :
    LET o == O(p)
        k == IF sd[p].lc[p] < sd[o].lc[p] THEN sd[p].lc[p] ELSE sd[o].lc[p]
    IN \A i \in 1..k : sd[p].own[i].k = "add" =>
         LET h == sd[p].own[i].h
             n == Cardinality({j \in 1..Len(sd[o].own) : IsRes(sd[o].own[j].k) /\ sd[o].own[j].h = h})
             \* ... counted among the answers that are signed (an unsigned answer is lost and made again)
             ns == Cardinality({j \in 1..Tip(sd[o])[o] : IsRes(sd[o].own[j].k) /\ sd[o].own[j].h = h})
         IN /\ n <= 1
            /\ ns = 0 => (<<Num(p), h>> \in Htlcs(sd, sd[p].lc) /\ <<Num(p), h>> \in Htlcs(sd, sd[o].lc))

CovSane ==
  \A p \in P :
    LET s == sd[p]
        o == O(p)
    IN /\ s.lc[o] <= s.rcv /\ s.rcv <= Len(sd[o].own)
       /\ s.rt[o] <= s.lc[o] /\ Tip(s)[o] <= s.lc[o]
       /\ s.rt[p] <= Tip(s)[p] /\ Tip(s)[p] <= Len(s.own)
       /\ s.lc[p] <= s.rt[p]
       /\ s.lc[o] <= Tip(sd[o])[o]
       /\ sd[o].hl \in {s.hrt, s.hrt + 1}
       /\ (sd[o].hl = s.hrt + 1 => s.hasRp)

\* MC view: what the last step emitted is not part of the state
View == <<Clr(sd), q, pays, nflap, nfee>>
=============================================================================
