------------------------- MODULE ChannelCloseTrace -------------------------
(* C05 / C04: the on-chain side of spec/Channel.                             *)
(*                                                                           *)
(* ChannelTrace (replay of the commitment state machine) is extended by two  *)
(* observation events that leave the model state unchanged:                  *)
(*                                                                           *)
(*   CloseCheck(p, w)  w = 0: p force-closes with its own persisted          *)
(*                     commitment; w = 1 / 2: the counterparty's current /   *)
(*                     pending not-yet-revoked commitment confirms and p     *)
(*                     resolves it.  Computed by the executor on a channel   *)
(*                     RELOADED FROM THE DATABASE - either by calling        *)
(*                     lnwallet directly (via = 0) or, for what confirms on  *)
(*                     chain, through contractcourt's real chainWatcher       *)
(*                     (via = 1: handleCommitSpend -> handleKnownLocalState / *)
(*                     handleKnownRemoteState -> dispatch...ForceClose; the   *)
(*                     watcher classifies the transaction, picks the stored   *)
(*                     commitment and the commit point itself, and what is    *)
(*                     judged is the summary it hands to its subscribers).    *)
(*                     Every line also carries p's ANCHOR resolution: the one *)
(*                     inside the summary (anc) and the one                   *)
(*                     NewAnchorResolutions() returns before confirmation     *)
(*                     (apre: .Local / .Remote / .RemotePending).             *)
(*   Justice(p, h)     the counterparty broadcasts its REVOKED commitment of *)
(*                     height h and p punishes it from its revocation log.   *)
(*                                                                           *)
(* The executors record raw facts only (numbers of resolutions, per          *)
(* resolution: HTLC index, output index, amounts, locktime, sequence, CSV,    *)
(* and the verdict of btcd's script interpreter for every spend).  What the  *)
(* facts must be is computed HERE from the model state: which commitment     *)
(* that is (disk[p].lc / .rc / .diff / .revlog[h]), which of its HTLCs have   *)
(* an output (BOLT-3 trimming with the owner's dust limit and the            *)
(* commitment's fee rate), what the commitment fee is and who pays it, what   *)
(* the balance outputs are worth, which time locks apply.                    *)
EXTENDS ChannelTrace

CONSTANTS CsvOpener,   \* to_self_delay the fixture imposes on the opener's own outputs
          CsvOther,    \* ... on the non-opener's own outputs
          Thaw,        \* lease expiry height of the fixture (script-enforced lease type only)
          LeaseJusticeQuirk
                       \* named deviation of the code (finding, C04): FALSE = intended behaviour.
                       \* TRUE = as contractcourt/breach_arbitrator.go does today: on a script-enforced
                       \* lease channel whose lease has a real expiry, the victim's own to_remote output
                       \* (victim = channel initiator) carries `<expiry> OP_CLTV`, but breachedOutput
                       \* reports no required lock time and the justice tx is built with nLockTime 0 -
                       \* that input, and with it the spend-all and the commit-outputs justice
                       \* transactions, are invalid

Range(s) == {s[i] : i \in 1..Len(s)}
SumOver(S, f(_)) ==
  LET F[T \in SUBSET S] == IF T = {} THEN 0 ELSE LET x == CHOOSE y \in T : TRUE IN f(x) + F[T \ {x}]
  IN F[S]

(* per channel type: nSequence of second-level HTLC transactions and of direct HTLC spends from the  *)
(* counterparty's commitment (1 with anchors: BOLT-3 "1 OP_CSV"), CSV delay of the to_remote output   *)
XTable ==
  [legacy       |-> [seq2 |-> 0, trd |-> 0],
   tweakless    |-> [seq2 |-> 0, trd |-> 0],
   anchors      |-> [seq2 |-> 1, trd |-> 1],
   zerofee      |-> [seq2 |-> 1, trd |-> 1],
   lease        |-> [seq2 |-> 1, trd |-> 1],
   taproot      |-> [seq2 |-> 1, trd |-> 1],
   taprootfinal |-> [seq2 |-> 1, trd |-> 1]]
XT == XTable[ctx.type]
HasAnchors == TT.anch > 0
Csv(p) == IF p = opener THEN CsvOpener ELSE CsvOther
\* script-enforced lease: the opener's own funds are additionally locked until the lease expires
HasCltv(p) == ctx.type = "lease" /\ p = opener /\ Thaw > 0

-----------------------------------------------------------------------------
(* The transaction a model commitment stands for.  c is a commitment as held *)
(* by p (c.outs offered by p, c.ins received by p, c.ob p's gross balance);   *)
(* own = TRUE iff it is p's own commitment, otherwise its owner is Other(p).  *)
OwnerOf(p, own) == IF own THEN p ELSE Other(p)
Sat(m) == m \div 1000
NDO(c, p, own) == {x \in c.outs : NonDust(x.amt, c.fee, own, ctx.dust[OwnerOf(p, own)])}
NDI(c, p, own) == {x \in c.ins : NonDust(x.amt, c.fee, ~own, ctx.dust[OwnerOf(p, own)])}
NHtlcOut(c, p, own) == Cardinality(NDO(c, p, own)) + Cardinality(NDI(c, p, own))
MFee(c, p, own) == (c.fee * (TT.cw + 172 * NHtlcOut(c, p, own))) \div 1000
\* net balance (msat) of p (mine) or of its peer on that commitment: the opener pays fee and anchors
Net(c, p, own, mine) ==
  LET gross == IF mine THEN c.ob ELSE c.tb
      payer == IF mine THEN p ELSE Other(p)
      n == gross - (IF payer = opener THEN 1000 * (MFee(c, p, own) + TT.anch) ELSE 0)
  IN IF n < 0 THEN 0 ELSE n
\* value of the balance output (0 = trimmed: below the owner's dust limit)
BalOut(c, p, own, mine) ==
  LET s == Sat(Net(c, p, own, mine)) IN IF s >= ctx.dust[OwnerOf(p, own)] THEN s ELSE 0

-----------------------------------------------------------------------------
(* CloseCheck *)
IsCC == l > 1 /\ Last.a = "CloseCheck"
CCp == Last.p
CCq == Other(Last.p)
CCown == Last.x = 0
CCc == CASE Last.x = 0 -> disk[CCp].lc
         [] Last.x = 1 -> disk[CCp].rc
         [] OTHER      -> disk[CCp].diff
ResDir(d) == SelectSeq(Last.res, LAMBDA r : r.dir = d)

\* the commitment exists in the model and the real code produced a close summary for it
CCExists == IsCC => /\ Last.x \in {0, 1, 2}
                    /\ Last.x = 2 => disk[CCp].diff.h # -1
                    /\ Last.err = ""
                    /\ Last.h = CCc.h
CCGood == IsCC /\ Last.err = "" /\ (Last.x = 2 => disk[CCp].diff.h # -1)

\* one resolution per HTLC that has an output, none for trimmed ones; each resolution is the
\* resolution OF a distinct model HTLC (index and amount), each spends a different output
CCResolutions == CCGood =>
  /\ Last.nout = Cardinality(NDO(CCc, CCp, CCown)) /\ Len(ResDir(0)) = Last.nout
  /\ Last.nin  = Cardinality(NDI(CCc, CCp, CCown)) /\ Len(ResDir(1)) = Last.nin
  /\ {<<r.hi, r.amt>> : r \in Range(ResDir(0))} = {<<x.hi, Sat(x.amt)>> : x \in NDO(CCc, CCp, CCown)}
  /\ {<<r.hi, r.amt>> : r \in Range(ResDir(1))} = {<<x.hi, Sat(x.amt)>> : x \in NDI(CCc, CCp, CCown)}
  /\ Cardinality({r.idx : r \in Range(Last.res)} \cup (IF Last.self.present = 1 THEN {Last.self.idx} ELSE {}))
       = Len(Last.res) + Last.self.present

\* time locks: offered HTLCs can only be taken back at their expiry, received ones any time;
\* own outputs after the CSV delay, outputs on the counterparty's commitment after 0/1 block
CCLocks == CCGood =>
  /\ \A r \in Range(Last.res) :
        /\ r.exp > 0
        /\ r.lt = (IF r.dir = 0 THEN r.exp ELSE 0)
        /\ r.seq = XT.seq2
        /\ r.csv = (IF CCown THEN Csv(CCp) ELSE XT.seq2)
  /\ Last.self.present = 1 =>
        /\ Last.self.csv = (IF CCown THEN Csv(CCp) ELSE XT.trd)
        /\ Last.self.lt = (IF HasCltv(CCp) THEN Thaw ELSE 0)

\* every spend is accepted by the script interpreter against the real output it spends - and
\* rejected one block before its relative / absolute lock matures (-1 = not applicable)
Bit(cond) == IF cond THEN 1 ELSE -1
CCEngine == CCGood =>
  /\ Last.commit = (IF CCown THEN 1
                    ELSE Bit(\E i \in 1..Len(LC[CCq]) : LC[CCq][i].h = Last.h))
  /\ \A r \in Range(Last.res) :
        /\ r.e1 = 1 /\ r.desc = 1
        /\ IF CCown
           THEN /\ r.agg = Bit(HasAnchors)
                /\ r.e2 = 1 /\ r.e2lo = 1
                /\ r.e2cl = Bit(HasCltv(CCp))
                /\ r.e1lo = -1 /\ r.cltv = -1
           ELSE /\ r.e1lo = Bit(XT.seq2 > 0)
                /\ r.cltv = Bit(r.dir = 0)
                /\ r.agg = -1 /\ r.e2 = -1 /\ r.e2lo = -1 /\ r.e2cl = -1
  /\ IF Last.self.present = 1
     THEN /\ Last.self.ok = 1 /\ Last.self.desc = 1
          /\ Last.self.lo = Bit(Last.self.csv > 0)
          /\ Last.self.cl = Bit(HasCltv(CCp))
     ELSE Last.self.ok = -1

\* claimable value = balance + HTLCs due - fees - dust, to the satoshi
CCClaimSpec ==
  IF CCown
  THEN BalOut(CCc, CCp, TRUE, TRUE)
       + SumOver(NDO(CCc, CCp, TRUE), LAMBDA x : Sat(x.amt) - SecondFee(CCc.fee, TRUE))
       + SumOver(NDI(CCc, CCp, TRUE), LAMBDA x : Sat(x.amt) - SecondFee(CCc.fee, FALSE))
  ELSE BalOut(CCc, CCp, FALSE, TRUE)
       + SumOver(NDO(CCc, CCp, FALSE), LAMBDA x : Sat(x.amt))
       + SumOver(NDI(CCc, CCp, FALSE), LAMBDA x : Sat(x.amt))
CCClaim == CCGood =>
  /\ Last.self.present = (IF BalOut(CCc, CCp, CCown, TRUE) > 0 THEN 1 ELSE 0)
  /\ Last.self.present = 1 => Last.self.val = BalOut(CCc, CCp, CCown, TRUE)
  /\ \A r \in Range(Last.res) :
        r.claim = r.amt - (IF CCown THEN SecondFee(CCc.fee, r.dir = 0) ELSE 0)
  /\ Last.claim = CCClaimSpec

\* "the node holds valid spends for all it owns" includes its ANCHOR on anchor-family channel types
\* (commitment.go CreateCommitTx: a party's anchor exists iff it has a balance output or the
\* transaction carries at least one HTLC output) - on its own commitment, on the counterparty's
\* current and on the counterparty's pending one alike, both in the close summary and in the
\* pre-confirmation set NewAnchorResolutions() hands to the sweeper for CPFP.  The resolution must
\* name an output of THAT transaction that no other resolution claims, describe it exactly
\* (330 sat, same script) and produce a spend the script interpreter accepts.
AnchorSat == 330
HasMyAnchor(c, p, own) == HasAnchors /\ (BalOut(c, p, own, TRUE) > 0 \/ NHtlcOut(c, p, own) > 0)
AncOK(a, want) ==
  /\ a.present = (IF want THEN 1 ELSE 0)
  /\ IF want
     THEN /\ a.ok = 1 /\ a.desc = 1 /\ a.val = AnchorSat
          /\ a.idx \notin ({r.idx : r \in Range(Last.res)}
                             \cup (IF Last.self.present = 1 THEN {Last.self.idx} ELSE {}))
     ELSE a.ok = -1
CCAnchor == CCGood =>
  /\ AncOK(Last.anc, HasMyAnchor(CCc, CCp, CCown))
  /\ AncOK(Last.apre, HasMyAnchor(CCc, CCp, CCown))
  /\ Last.anc.idx = Last.apre.idx

\* via = 1: the chain watcher took the confirmed transaction for exactly the commitment it is (its
\* ConfCommitKey: 0 our own, 1 the counterparty's current, 2 its pending one) and hands the channel
\* arbitrator the HTLC set of that commitment - all of its HTLCs, trimmed ones included
CCWatcher == (IsCC /\ Last.via = 1) =>
  /\ Last.err = ""
  /\ Last.ckey = Last.x
  /\ CCGood => Last.nset = Cardinality(CCc.outs) + Cardinality(CCc.ins)

\* Environment fault: the signer fails once, at the k-th signature of a force close (any k).  The node may
\* report the failure - the caller retries - but it must never return a summary that silently lacks the
\* spends it owns: what it returns is the complete summary of that state, on a fully signed commitment.
IsCF == l > 1 /\ Last.a = "CloseFault"
CCFaults == IsCF =>
  /\ Len(Last.faults) >= 1
  /\ \A f \in Range(Last.faults) :
        f.err = 1 \/ (f.nout = Last.nout /\ f.nin = Last.nin /\ f.commit = 1)

-----------------------------------------------------------------------------
(* Justice *)
IsJ == l > 1 /\ Last.a = "Justice"
Jp == Last.p
Jc == disk[Jp].revlog[Last.x + 1]      \* p's record of the counterparty's commitment of height x
JKind(k) == SelectSeq(Last.ins, LAMBDA r : r.k = k)
JToRemote == BalOut(Jc, Jp, FALSE, TRUE)    \* p's own balance on the revoked transaction
JToLocal  == BalOut(Jc, Jp, FALSE, FALSE)   \* the cheater's balance

\* the height really is revoked in the model, the broadcast transaction decodes to it, and
\* building the retribution succeeds (without the transaction and without stored amounts the
\* documented outcome is ErrRevLogDataMissing)
JRecognised == IsJ =>
  /\ Last.x >= 1 /\ Last.x + 1 <= Len(disk[Jp].revlog)
  /\ Jc.h = Last.x
  /\ Last.hint = Last.x
  /\ Last.err = "" => Last.txid = 1
  \* (a state stored in the deprecated pre-0.15 format - the full commitment - always carries its amounts)
  /\ Last.err = (IF Last.y = 0 /\ Last.noamt = 1 /\ Last.legacy = 0 THEN "missing" ELSE "")
  \* y = 2: the chain watcher's own code path (handleCommitSpend) on a copy of the channel that was
  \* read from the database before any of these heights was revoked and that nobody updates: what
  \* is on disk must suffice - it hands a retribution for exactly this state to the breach arbitrator
  /\ Last.y = 2 => Last.rec = 1
JGood == IsJ /\ Last.y \in {0, 1} /\ Last.err = "" /\ Last.x >= 1 /\ Last.x + 1 <= Len(disk[Jp].revlog)

SameBag(s, S) ==     \* recorded amounts s (seq of records with .amt) = model HTLC set S as bags of satoshi amounts
  /\ Len(s) = Cardinality(S)
  /\ \A v \in {s[i].amt : i \in 1..Len(s)} \cup {Sat(x.amt) : x \in S} :
        CountSeq(s, LAMBDA r : r.amt = v) = Cardinality({x \in S : Sat(x.amt) = v})

\* one justice input for the to_local, the to_remote and every untrimmed HTLC of THAT commitment
JInputs == JGood =>
  /\ Last.nin = Len(Last.ins)
  /\ Last.nin = (IF JToRemote > 0 THEN 1 ELSE 0) + (IF JToLocal > 0 THEN 1 ELSE 0) + NHtlcOut(Jc, Jp, FALSE)
  /\ Last.nin = Last.nouttx - Last.nanch
  /\ Len(JKind(0)) = (IF JToRemote > 0 THEN 1 ELSE 0)
  /\ Len(JKind(1)) = (IF JToLocal > 0 THEN 1 ELSE 0)
  /\ \A r \in Range(JKind(0)) : r.amt = JToRemote
  /\ \A r \in Range(JKind(1)) : r.amt = JToLocal
  /\ SameBag(JKind(2), NDO(Jc, Jp, FALSE))
  /\ SameBag(JKind(3), NDI(Jc, Jp, FALSE))
  /\ \A r \in Range(Last.ins) : r.seq = (IF r.k = 0 THEN XT.trd ELSE 0)

\* indexes and amounts persisted in the revocation log are those of the actual revoked transaction
JLogMatchesTx == JGood =>
  /\ Cardinality({r.idx : r \in Range(Last.ins)}) = Len(Last.ins)
  /\ \A r \in Range(Last.ins) : r.amt = r.txamt /\ r.pk = 1
  \* (the compact log's own index/amount fields do not exist in the deprecated format)
  /\ Last.legacy = 0 =>
       /\ Last.ouridx = (IF JToRemote > 0 THEN JKind(0)[1].idx ELSE -1)
       /\ Last.theiridx = (IF JToLocal > 0 THEN JKind(1)[1].idx ELSE -1)
       /\ Last.nhtlclog = NHtlcOut(Jc, Jp, FALSE)
       /\ Last.noamt = 0 => /\ Last.ouramtlog = Sat(Net(Jc, Jp, FALSE, TRUE))
                            /\ Last.theiramtlog = Sat(Net(Jc, Jp, FALSE, FALSE))

\* every input of every variant of the justice transaction passes the script interpreter against
\* the outputs of the transaction the cheater actually held; same for second-level outputs
JEngine == JGood =>
  /\ \A r \in Range(Last.ins) :
        IF LeaseJusticeQuirk /\ r.k = 0 /\ HasCltv(Jp)
        THEN r.eng = 0 /\ r.eng2 = 0
        ELSE r.eng = 1 /\ r.eng2 = 1

\* "... and for the second-level output if the cheater first advances an HTLC": every untrimmed HTLC
\* of the revoked commitment is followed to the output its second-level transaction created - the
\* output at the position of the spending input - with that output's amount (HTLC amount minus the
\* cheater's second-level fee), and the justice input is valid.  Both when the cheater uses one
\* transaction per HTLC and when it aggregates all of them into one (anchor channel types).
SameBagBy(s, S, val(_)) ==
  /\ Len(s) = Cardinality(S)
  /\ \A v \in {s[i].amt : i \in 1..Len(s)} \cup {val(x) : x \in S} :
        CountSeq(s, LAMBDA r : r.amt = v) = Cardinality({x \in S : val(x) = v})
SLKind(s, k) == SelectSeq(s, LAMBDA r : r.k = k)
SLOK(s, batched) ==
  /\ Len(s) = NHtlcOut(Jc, Jp, FALSE)
  /\ \A r \in Range(s) : r.eng = 1 /\ r.oidx = r.j /\ r.amt = r.txamt
  /\ batched => Cardinality({r.oidx : r \in Range(s)}) = Len(s)
  /\ Cardinality({r.idx : r \in Range(s)}) = Len(s)
  \* offered by the victim = received by the cheater: it advances them with success transactions
  /\ SameBagBy(SLKind(s, 2), NDO(Jc, Jp, FALSE), LAMBDA x : Sat(x.amt) - SecondFee(Jc.fee, FALSE))
  /\ SameBagBy(SLKind(s, 3), NDI(Jc, Jp, FALSE), LAMBDA x : Sat(x.amt) - SecondFee(Jc.fee, TRUE))
JSecondLevel == JGood =>
  /\ Last.sl2 = 1 /\ SLOK(Last.sl, FALSE)
  /\ Last.bsl2 = (IF HasAnchors /\ NHtlcOut(Jc, Jp, FALSE) >= 2 THEN 1 ELSE 0)
  /\ Last.bsl2 = 1 => SLOK(Last.bsl, TRUE) /\ Last.ball = 1

-----------------------------------------------------------------------------
(* the base invariants, not evaluated on observation lines (those carry no projection) *)
IsObs == l > 1 /\ Last.a \in {"CloseCheck", "Justice", "CloseFault"}
B_ErrAgree        == ~IsObs => ErrAgree
B_ConformCounters == ~IsObs => ConformCounters
B_ConformChains   == ~IsObs => ConformChains
B_ConformNet      == ~IsObs => ConformNet
B_ReloadOpens     == ~IsObs => ReloadOpens
B_ConformShadowChains == ~IsObs => ConformShadowChains
B_ConformTxLayer  == ~IsObs => ConformTxLayer
B_OraclesHold     == ~IsObs => OraclesHold

Obs == (Is("CloseCheck") \/ Is("Justice") \/ Is("CloseFault")) /\ UNCHANGED vars
CNext == \/ TNext
         \/ Obs /\ UNCHANGED ctx
CSpec == TInit /\ [][CNext]_<<vars, l, ctx>>
=============================================================================
