---- MODULE ChannelMC ----
EXTENDS Channel
====
