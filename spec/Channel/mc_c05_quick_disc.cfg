SPECIFICATION MCSpec
CONSTANTS
  Fused = TRUE
  SoftReest = FALSE
  MaxAdds = 1
  MaxHeight = 3
  MaxDisc = 1
  Amts = {3}
  Cap = 40
  Rates = {2}
  MaxFees = 0
  Openers = {"A"}
  InitRate = 1
  F6Quirk = FALSE
  F7Quirk = FALSE
  PoorShare = 0
INVARIANTS NoError RevLogMatches RevokedIsLoggedOrCurrent EveryBroadcastableIsKnown WatcherClassifies
CHECK_DEADLOCK FALSE
