SPECIFICATION TSpec
CONSTANTS
  Fused = FALSE
  SoftReest = TRUE
  MaxAdds = 1000000
  MaxHeight = 1000000
  MaxDisc = 1000000
  Amts = {1}
  Cap = 1000000000
  CapSat = 1000000
  Rates = {1}
  MaxFees = 1000000
  Openers = {"A", "B"}
  InitRate = 6000
  F6Quirk = FALSE
  F7Quirk = FALSE
  PoorShare = 0
INVARIANTS BadRevRefused ErrAgree ConformCounters ConformNet ConformChains ReloadOpens ConformShadowChains ReleaseRule ReleaseRuleReest NeverBroadcastRevoked NextPointRule ReestPointRule StaleSecretsRule
CHECK_DEADLOCK TRUE
