------------------------- MODULE ChainActionsConfGen -------------------------
(* Schedule generator for ChainActionsConf: Spec + the sequence of events     *)
(* taken.  A behaviour is a universe (Init), between MinLink and MaxLink      *)
(* steps of the commitment protocol, the spend of the funding output by one   *)
(* of the commitments that exist at that moment, the arbitrator's Close and   *)
(* up to MaxPost later events (Restart / Expire / Claim / TimeoutSpend).      *)
(* TLC -simulate picks uniformly among successor STATES; the dummy variable w *)
(* gives the spend more weight than the (many) link steps once MinLink steps  *)
(* have been taken.  Every state after the Close rewrites the file of its     *)
(* behaviour (b_<n>.ndjson), so the file holds the longest prefix reached.    *)
EXTENDS ChainActionsConf, Json
CONSTANTS MinLink, MaxLink, MaxPost, WSpend
VARIABLES hist, post, w
gvars == <<cvars, hist, post, w>>

Ev(a, s, how, c, i) == [a |-> a, s |-> s, how |-> how, c |-> c, i |-> i]
Rec(e) == hist' = Append(hist, e)

GInit == /\ Init /\ attr[1].dir # "none"
         /\ hist = <<>> /\ post = 0 /\ w = 1
GLink == /\ Len(hist) < MaxLink /\ UNCHANGED post /\ w' = 1
         /\ \/ \E s \in Slots : \/ AAdd(s) /\ Rec(Ev("AAdd", s, "", "", 0))
                                \/ BAdd(s) /\ Rec(Ev("BAdd", s, "", "", 0))
                                \/ ARemove(s) /\ Rec(Ev("ARemove", s, "fail", "", 0))
                                \/ \E how \in {"settle", "fail"} : BRemove(s, how) /\ Rec(Ev("BRemove", s, how, "", 0))
            \/ AFee /\ Rec(Ev("AFee", 0, "", "", 0))
            \/ ASign /\ Rec(Ev("ASign", 0, "", "", 0))
            \/ BRevoke /\ Rec(Ev("BRevoke", 0, "", "", 0))
            \/ BSign /\ Rec(Ev("BSign", 0, "", "", 0))
GNext ==
  /\ post < MaxPost
  /\ \/ GLink
     \/ /\ Len(hist) >= MinLink /\ UNCHANGED post /\ w' \in 1..WSpend
        /\ \E c \in Keys : Spend(c) /\ Rec(Ev("Spend", 0, "", c, 0))
     \/ Close /\ Rec(Ev("Close", 0, "", "", 0)) /\ UNCHANGED post /\ w' = 1
     \/ Restart /\ Rec(Ev("Restart", 0, "", "", 0)) /\ post' = post + 1 /\ w' = 1
     \/ Expire /\ Rec(Ev("Expire", 0, "", "", 0)) /\ post' = post + 1 /\ w' = 1
     \/ \E i \in Idx : \/ Claim(i) /\ Rec(Ev("Claim", 0, "", "", i)) /\ post' = post + 1 /\ w' = 1
                       \/ TimeoutSpend(i) /\ Rec(Ev("TimeoutSpend", 0, "", "", i)) /\ post' = post + 1 /\ w' = 1
GSpec == GInit /\ [][GNext]_gvars

AttrSeq == [s \in Slots |-> attr[s]]
Dump == arb = "Waiting" =>
          ndJsonSerialize("b_" \o ToString(TLCGet("stats").traces) \o ".ndjson",
                          <<[attr |-> AttrSeq, lowL |-> IF lowL THEN 1 ELSE 0, ev |-> hist]>>)
=============================================================================
