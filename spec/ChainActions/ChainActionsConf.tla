-------------------------- MODULE ChainActionsConf --------------------------
(***************************************************************************)
(* C12, second and third sentence: "Once any of the three possible         *)
(* commitments (its own, the peer's current, the peer's pending) confirms, *)
(* every HTLC with an output on it gets exactly one on-chain resolver,     *)
(* every offered HTLC that is dust there or exists only on a non-confirmed *)
(* commitment is failed back upstream exactly once (the latter unless its  *)
(* preimage is already known), and received dust is closed out without     *)
(* further action.  An upstream fail-back is never issued for an offered   *)
(* HTLC that still has an output on the confirmed commitment."             *)
(*                                                                          *)
(* ChainActions.tla judges the arbitrator's classification for a CommitSet *)
(* that is GIVEN.  This module is the layer around it (follow-up b12c):    *)
(*   - WHICH commitment confirmed is a fact of the chain (spent); what the *)
(*     arbitrator is told - CommitSet.ConfCommitKey, the three HTLC sets,  *)
(*     the HTLC resolutions - is decided by contractcourt.chainWatcher     *)
(*     (handleCommitSpend -> handleKnownLocalState / handleKnownRemoteState*)
(*     -> dispatchLocal/RemoteForceClose) from the channel state;          *)
(*   - the three commitments DIFFER (an HTLC on only one of them, other    *)
(*     dust trimming, shifted output indexes) because they are snapshots   *)
(*     of a running commitment protocol - the link part below;             *)
(*   - the dispositions live on after the close: each on-chain resolver    *)
(*     acts for the HTLC that owns its output on the CONFIRMED commitment  *)
(*     until that output is spent, across restarts of the arbitrator       *)
(*     (StateWaitingFullResolution -> relaunchResolvers supplements the    *)
(*     resolvers restored from disk from the persisted CommitSet).         *)
(*                                                                          *)
(* State, structured like the code:                                         *)
(*   the universe (Init, constant): attr[s] = direction and size class of   *)
(*     HTLC slot s (big: an output on every commitment, small: dust on      *)
(*     every commitment, mid: an output on the commitment with the lower    *)
(*     dust limit only - lowL says whether that is ours -, edge: an output  *)
(*     on a commitment at the initial fee rate, trimmed on a commitment at  *)
(*     the raised fee rate, where mid is trimmed everywhere), amounts increase *)
(*     with (size class, slot), so the output index of an HTLC on a         *)
(*     commitment is its rank among that commitment's HTLC outputs;         *)
(*   the link (channel state machine, "A" = us, "B" = the peer):            *)
(*     sent / rmv (update logs: add sent, removal sent and how),            *)
(*     addOn[k] / remOn[k] (the adds / removals that commitment k carries,  *)
(*     k in L = ours, R = the peer's current, P = the peer's pending),      *)
(*     feeSent / feeOn[k] (we, the funder, sent update_fee raising the fee  *)
(*     rate; the commitments that are built at the raised rate - the trim   *)
(*     threshold of a commitment moves with its fee rate, so R and P may    *)
(*     disagree about an HTLC being dust),                                  *)
(*     hasP (a signed, not yet revoked-into commitment of the peer exists:  *)
(*     OpenChannel.RemoteCommitChainTip);                                   *)
(*   the chain: spent (which commitment transaction spent the funding       *)
(*     output), later expired / claimed / timedOut (what happened to the    *)
(*     HTLC outputs);                                                       *)
(*   the chain watcher's close event: wkey (ConfCommitKey), wset (the HTLC  *)
(*     sets with output indexes), wres (outpoints with an HTLC resolution); *)
(*   the arbitrator: arb (Default / Waiting), rs (the HTLC resolvers, keyed *)
(*     by the output index they watch: kind, the HTLC they act for, stage), *)
(*     known (preimages in the witness cache), and what it did:             *)
(*     failBacks / settles (upstream ResolutionMsgs per HTLC), closedOut    *)
(*     (PutFinalHtlcOutcome(false) per received HTLC).                      *)
(*                                                                          *)
(* Actions, one per critical section:                                       *)
(*   AAdd BAdd ARemove BRemove       update_add / fail / fulfill sent        *)
(*   AFee         we send update_fee (only the funder may: lowL universes)  *)
(*   ASign        we sign the peer's next commitment (P appears)            *)
(*   BRevoke      the peer revokes (P becomes R)                            *)
(*   BSign        the peer signs ours and we revoke (L advances)            *)
(*   Spend(c)     commitment c spends the funding output; the watcher       *)
(*                identifies it and dispatches the close event              *)
(*   Close        the arbitrator handles the event: StateDefault ->         *)
(*                ContractClosed -> WaitingFullResolution (fail-backs of    *)
(*                the dust and dangling classes, incoming dust closed out,  *)
(*                one resolver per HTLC output that has a resolution)       *)
(*   Restart      Stop + Start in WaitingFullResolution (relaunchResolvers) *)
(*   Expire       the chain passes every HTLC expiry: outgoing contest      *)
(*                resolvers turn into timeout resolvers, incoming contest   *)
(*                resolvers give up (final outcome: failed)                 *)
(*   Claim(i)     the peer spends HTLC output i with the preimage           *)
(*   TimeoutSpend(i)   our timeout spend of HTLC output i confirms          *)
(*                                                                          *)
(* What the implementation decides is a PARAMETER of the ...Do actions      *)
(* (key / sets / resolutions named by the watcher, the HTLC a relaunched    *)
(* resolver is supplemented with, the HTLC a resolver reports upstream):    *)
(* the design spec instantiates them with the code-shaped functions         *)
(* (WatchKey, RelaunchMap, rs[i].for), the trace spec with what the real    *)
(* code did.  The PROPERTY (bottom) is written from the statement over the  *)
(* chain's truth (spent, the channel's commitments) - not over wkey.        *)
(*                                                                          *)
(* Two switches describe classes of defects; with either TRUE the model     *)
(* check must FAIL the property (non-vacuity controls):                     *)
(*   WatcherConfusesPending  a spend by the pending commitment is reported  *)
(*                           as the peer's current commitment;              *)
(*   RelaunchUsesAllSets     relaunchResolvers builds its outpoint -> HTLC  *)
(*                           map from all three sets of the CommitSet.      *)
(*                                                                          *)
(* Binding to the code (follow-up b12d):                                    *)
(*   ChainActionsConfMC    exhaustive check (2 slots) + the two controls    *)
(*   ChainActionsConfGen   Spec + history: TLC -simulate writes one         *)
(*                         schedule per behaviour (link steps, Spend, Close,*)
(*                         then Restart / Expire / Claim / TimeoutSpend)    *)
(*   harness/contractcourt/c12_conf_test.go replays each schedule on a REAL *)
(*                         lnwallet channel pair (the link steps), a real   *)
(*                         chainWatcher (handleCommitSpend on the spending  *)
(*                         commitment), a real, started ChannelArbitrator   *)
(*                         with its resolvers on a real bolt log (restarts  *)
(*                         re-create it from the log), an outpoint-faithful *)
(*                         chain notifier                                   *)
(*   ChainActionsConfTrace validates what was recorded: the ...Do actions   *)
(*                         take the watcher's key / sets / resolutions, the *)
(*                         HTLC each relaunched resolver was supplemented   *)
(*                         with and the HTLC a resolver reported upstream   *)
(*                         from the recorded line; the property below and   *)
(*                         the Conform... invariants judge.                 *)
(***************************************************************************)
EXTENDS Integers, Sequences, FiniteSets, TLC

CONSTANTS NH,           \* HTLC slots
          Dirs,         \* subset of {"out", "in"}
          Sizes,        \* subset of {"big", "mid", "small"}
          LowLs,        \* subset of BOOLEAN: is ours the commitment with the lower dust limit
          Fees,         \* BOOLEAN: may the fee rate be raised (AFee)
          MaxRestarts,
          WatcherConfusesPending, RelaunchUsesAllSets

Slots == 1..NH
Idx   == 0..(NH - 1)
Keys  == {"L", "R", "P"}
Empty == [dir |-> "none", size |-> "big"]
NoRes == [kind |-> "none", for |-> 0, st |-> "none"]

VARIABLES
  attr, lowL,                                  \* the universe
  sent, rmv, addOn, remOn, hasP, feeSent, feeOn,   \* the link
  spent, expired, claimed, timedOut,           \* the chain
  wkey, wset, wres,                            \* the watcher's close event
  arb, rs, known, restarts,                    \* the arbitrator
  failBacks, settles, closedOut                \* what it did

univars == <<attr, lowL>>
linkvars == <<sent, rmv, addOn, remOn, hasP, feeSent, feeOn>>
chainvars == <<spent, expired, claimed, timedOut>>
watchvars == <<wkey, wset, wres>>
arbvars == <<arb, rs, restarts, failBacks, settles, closedOut>>
cvars == <<univars, linkvars, chainvars, watchvars, arbvars, known>>

-----------------------------------------------------------------------------
(* The universe and the three commitments                                   *)
Out(s)  == attr[s].dir = "out"
In(s)   == attr[s].dir = "in"
Real(s) == attr[s].dir # "none"

On(k) == IF k = "P" /\ ~hasP THEN {} ELSE addOn[k] \ remOn[k]
\* trimmed on commitment k (HTLC amount below dust limit + second-level fee of that commitment)
Dust(s, k) == CASE attr[s].size = "small" -> TRUE
                [] attr[s].size = "big"   -> FALSE
                [] attr[s].size = "edge"  -> feeOn[k]
                [] OTHER                  -> feeOn[k] \/ (IF lowL THEN k # "L" ELSE k = "L")
Outs(k) == {s \in On(k) : ~Dust(s, k)}
\* BIP 69: outputs ordered by amount; the balances are far larger than any HTLC
SizeRank(s) == CASE attr[s].size = "small" -> 0 [] attr[s].size = "mid" -> 1 [] attr[s].size = "edge" -> 2 [] OTHER -> 3
Rank(s) == SizeRank(s) * (NH + 1) + s
Oix(k, s) == Cardinality({t \in Outs(k) : Rank(t) < Rank(s)})
Ix(k, s) == IF s \notin On(k) THEN -2 ELSE IF Dust(s, k) THEN -1 ELSE Oix(k, s)
SetView == [k \in Keys |-> [s \in Slots |-> Ix(k, s)]]
ResOf(c) == [out |-> {Oix(c, s) : s \in {t \in Outs(c) : Out(t)}},
             in  |-> {Oix(c, s) : s \in {t \in Outs(c) : In(t)}}]
NoSets == [k \in Keys |-> [s \in Slots |-> -2]]
NoResn == [out |-> {}, in |-> {}]
\* the HTLC that owns output i of commitment k (0: none)
Owner(k, i) == IF \E s \in Outs(k) : Oix(k, s) = i THEN CHOOSE s \in Outs(k) : Oix(k, s) = i ELSE 0

AttrDomain == {Empty} \cup {[dir |-> d, size |-> z] : d \in Dirs, z \in Sizes}

LinkInit == /\ sent = [s \in Slots |-> FALSE] /\ rmv = [s \in Slots |-> "no"]
            /\ addOn = [k \in Keys |-> {}] /\ remOn = [k \in Keys |-> {}] /\ hasP = FALSE
            /\ feeSent = FALSE /\ feeOn = [k \in Keys |-> FALSE]
ChainInit == spent = "none" /\ expired = FALSE /\ claimed = {} /\ timedOut = {}
WatchInit == wkey = "none" /\ wset = NoSets /\ wres = NoResn
ArbInit == /\ arb = "Default" /\ rs = [i \in Idx |-> NoRes] /\ restarts = 0
           /\ known = [s \in Slots |-> FALSE]
           /\ failBacks = [s \in Slots |-> 0] /\ settles = [s \in Slots |-> 0] /\ closedOut = [s \in Slots |-> 0]

Init == /\ attr \in [Slots -> AttrDomain] /\ lowL \in LowLs
        /\ \A s \in 1..(NH - 1) : attr[s].dir = "none" => attr[s + 1].dir = "none"
        /\ LinkInit /\ ChainInit /\ WatchInit /\ ArbInit

-----------------------------------------------------------------------------
(* The link: lnwallet's commitment protocol, seen from our side.            *)
(* Our signature covers all our updates and those updates of the peer that  *)
(* our own commitment carries; the peer's signature covers all its updates  *)
(* and those of ours that its current (revoked-into) commitment R carries.  *)
Open == spent = "none"
Locked(s) == s \in On("L") /\ s \in On("R") /\ (hasP => s \in On("P")) /\ rmv[s] = "no"

AAdd(s) == /\ Open /\ Out(s) /\ ~sent[s]
           /\ sent' = [sent EXCEPT ![s] = TRUE]
           /\ UNCHANGED <<univars, rmv, addOn, remOn, hasP, feeSent, feeOn, chainvars, watchvars, arbvars, known>>
BAdd(s) == /\ Open /\ In(s) /\ ~sent[s]
           /\ sent' = [sent EXCEPT ![s] = TRUE]
           /\ UNCHANGED <<univars, rmv, addOn, remOn, hasP, feeSent, feeOn, chainvars, watchvars, arbvars, known>>
\* we, the funder, raise the fee rate
AFee == /\ Open /\ Fees /\ lowL /\ ~feeSent
        /\ feeSent' = TRUE
        /\ UNCHANGED <<univars, sent, rmv, addOn, remOn, hasP, feeOn, chainvars, watchvars, arbvars, known>>
\* we fail a received HTLC
ARemove(s) == /\ Open /\ In(s) /\ Locked(s)
              /\ rmv' = [rmv EXCEPT ![s] = "fail"]
              /\ UNCHANGED <<univars, sent, addOn, remOn, hasP, feeSent, feeOn, chainvars, watchvars, arbvars, known>>
\* the peer fulfills (we learn the preimage) or fails an HTLC we offered
BRemove(s, how) == /\ Open /\ Out(s) /\ Locked(s) /\ how \in {"settle", "fail"}
                   /\ rmv' = [rmv EXCEPT ![s] = how]
                   /\ known' = [known EXCEPT ![s] = (how = "settle")]
                   /\ UNCHANGED <<univars, sent, addOn, remOn, hasP, feeSent, feeOn, chainvars, watchvars, arbvars>>
Removed(s) == rmv[s] # "no"
ASign == /\ Open /\ ~hasP
         /\ addOn' = [addOn EXCEPT !["P"] = {s \in Slots : Out(s) /\ sent[s]} \cup {s \in addOn["L"] : In(s)}]
         /\ remOn' = [remOn EXCEPT !["P"] = {s \in Slots : In(s) /\ Removed(s)} \cup {s \in remOn["L"] : Out(s)}]
         /\ hasP' = TRUE
         /\ feeOn' = [feeOn EXCEPT !["P"] = feeSent]
         /\ UNCHANGED <<univars, sent, rmv, feeSent, chainvars, watchvars, arbvars, known>>
BRevoke == /\ Open /\ hasP
           /\ addOn' = [addOn EXCEPT !["R"] = addOn["P"]]
           /\ remOn' = [remOn EXCEPT !["R"] = remOn["P"]]
           /\ hasP' = FALSE
           /\ feeOn' = [feeOn EXCEPT !["R"] = feeOn["P"]]
           /\ UNCHANGED <<univars, sent, rmv, feeSent, chainvars, watchvars, arbvars, known>>
BSign == /\ Open
         /\ addOn' = [addOn EXCEPT !["L"] = {s \in Slots : In(s) /\ sent[s]} \cup {s \in addOn["R"] : Out(s)}]
         /\ remOn' = [remOn EXCEPT !["L"] = {s \in Slots : Out(s) /\ Removed(s)} \cup {s \in remOn["R"] : In(s)}]
         /\ feeOn' = [feeOn EXCEPT !["L"] = feeOn["R"]]
         /\ UNCHANGED <<univars, sent, rmv, hasP, feeSent, chainvars, watchvars, arbvars, known>>

-----------------------------------------------------------------------------
(* The chain watcher                                                         *)
Commitments == {"L", "R"} \cup (IF hasP THEN {"P"} ELSE {})
\* handleKnownLocalState / handleKnownRemoteState: the commitment whose txid the spender has
WatchKey(c) == IF WatcherConfusesPending /\ c = "P" THEN "R" ELSE c

SpendDo(c, key, sets, resn) ==
  /\ Open /\ c \in Commitments
  /\ spent' = c
  /\ wkey' = key /\ wset' = sets /\ wres' = resn
  /\ UNCHANGED <<univars, linkvars, expired, claimed, timedOut, arbvars, known>>
Spend(c) == SpendDo(c, WatchKey(c), SetView, ResOf(c))

-----------------------------------------------------------------------------
(* The arbitrator's close-time pass on what the watcher handed over.  The    *)
(* classification is ChainActions.tla's (close trigger, every expiry far     *)
(* away, close event received in StateDefault) written over wkey / wset.     *)
WOn(k, s)   == wset[k][s] # -2
WDust(k, s) == wset[k][s] = -1
\* checkRemoteDanglingActions merges the two remote sets keeping the non-dust view
WRemoteDust(s) == ~(wset["R"][s] >= 0 \/ wset["P"][s] >= 0)
Act(s) ==
  IF ~Real(s) \/ wkey = "none" THEN "none"
  ELSE IF WOn(wkey, s)
  THEN (IF Out(s) THEN (IF WDust(wkey, s) THEN "faildust" ELSE "outwatch")
                  ELSE (IF WDust(wkey, s) THEN "industfinal" ELSE "inwatch"))
  ELSE IF ~Out(s) \/ known[s] THEN "none"
  ELSE IF wkey = "L"
  THEN (IF WOn("R", s) \/ WOn("P", s) THEN (IF WRemoteDust(s) THEN "faildust" ELSE "faildangling") ELSE "none")
  ELSE LET o == IF wkey = "R" THEN "P" ELSE "R"
       IN IF WOn(o, s) THEN (IF WDust(o, s) THEN "faildust" ELSE "faildangling") ELSE "none"

\* prepContractResolutions: a resolver needs the resolution of its outpoint
NewRes(i) ==
  IF \E s \in Slots : Act(s) \in {"outwatch", "inwatch"} /\ wset[wkey][s] = i
                      /\ i \in (IF Out(s) THEN wres.out ELSE wres.in)
  THEN LET s == CHOOSE t \in Slots : Act(t) \in {"outwatch", "inwatch"} /\ wset[wkey][t] = i
       IN [kind |-> IF Out(s) THEN "ocontest" ELSE "icontest", for |-> s, st |-> "watch"]
  ELSE NoRes

Close ==
  /\ spent # "none" /\ wkey # "none" /\ arb = "Default"
  /\ arb' = "Waiting"
  /\ failBacks' = [s \in Slots |-> failBacks[s] + (IF Act(s) \in {"faildust", "faildangling"} THEN 1 ELSE 0)]
  /\ closedOut' = [s \in Slots |-> closedOut[s] + (IF Act(s) = "industfinal" THEN 1 ELSE 0)]
  /\ rs' = [i \in Idx |-> NewRes(i)]
  /\ UNCHANGED <<univars, linkvars, chainvars, watchvars, restarts, settles, known>>

(* relaunchResolvers: the resolvers restored from disk are supplemented with *)
(* the HTLC found under their outpoint in a map built from the persisted      *)
(* CommitSet - from the HTLCs of the confirmed commitment.                    *)
Others == IF wkey = "L" THEN <<"R", "P">> ELSE IF wkey = "R" THEN <<"L", "P">> ELSE <<"L", "R">>
MapFrom(keys, i) ==   \* the last HTLC with output index i in the concatenation of the sets keys[1], keys[2], ...
  LET hits == {n \in 1..Len(keys) : \E s \in Slots : wset[keys[n]][s] = i}
  IN IF hits = {} THEN 0
     ELSE LET n == CHOOSE m \in hits : \A o \in hits : o <= m
          IN CHOOSE s \in Slots : wset[keys[n]][s] = i
RelaunchMap(i) ==
  IF RelaunchUsesAllSets
  THEN MapFrom(<<wkey>> \o Others, i)
  ELSE MapFrom(<<wkey>>, i)

Live(i) == rs[i].kind # "none" /\ rs[i].st # "done"
RestartDo(assign) ==
  /\ arb = "Waiting" /\ restarts < MaxRestarts
  /\ restarts' = restarts + 1
  /\ rs' = [i \in Idx |-> IF Live(i) THEN [rs[i] EXCEPT !.for = assign[i]] ELSE rs[i]]
  /\ UNCHANGED <<univars, linkvars, chainvars, watchvars, arb, failBacks, settles, closedOut, known>>
Restart == RestartDo([i \in Idx |-> RelaunchMap(i)])

(* The chain passes every expiry: outgoing contest resolvers hand over to    *)
(* their timeout resolvers, incoming contest resolvers give up and record    *)
(* the final outcome of THEIR htlc.                                          *)
Expire ==
  /\ arb = "Waiting" /\ ~expired
  /\ expired' = TRUE
  /\ rs' = [i \in Idx |-> IF rs[i].kind = "ocontest" /\ rs[i].st = "watch" THEN [rs[i] EXCEPT !.kind = "timeout", !.st = "timeout"]
                          ELSE IF rs[i].kind = "icontest" /\ rs[i].st = "watch" THEN [rs[i] EXCEPT !.st = "done"]
                          ELSE rs[i]]
  /\ closedOut' = [s \in Slots |-> closedOut[s] + Cardinality({i \in Idx : rs[i].kind = "icontest" /\ rs[i].st = "watch"
                                                                                  /\ rs[i].for = s})]
  /\ UNCHANGED <<univars, linkvars, spent, claimed, timedOut, watchvars, arb, restarts, failBacks, settles, known>>

OutLive(i) == rs[i].kind \in {"ocontest", "timeout"} /\ rs[i].st # "done"
Unspent(i) == i \notin claimed /\ i \notin timedOut
\* the peer takes output i with the preimage: the resolver settles its HTLC upstream (s: which one; 0: none)
ClaimDo(i, s) ==
  /\ arb = "Waiting" /\ OutLive(i) /\ Unspent(i) /\ Owner(spent, i) # 0 /\ Out(Owner(spent, i))
  /\ claimed' = claimed \cup {i}
  /\ known' = [known EXCEPT ![Owner(spent, i)] = TRUE]
  /\ settles' = [t \in Slots |-> settles[t] + (IF t = s THEN 1 ELSE 0)]
  /\ rs' = [rs EXCEPT ![i].st = "done"]
  /\ UNCHANGED <<univars, linkvars, spent, expired, timedOut, watchvars, arb, restarts, failBacks, closedOut>>
\* claimCleanUp checks the revealed preimage against the hash of the resolver's HTLC
Claim(i) == ClaimDo(i, IF rs[i].for = Owner(spent, i) THEN rs[i].for ELSE 0)
\* our timeout spend of output i confirms: the resolver fails its HTLC back upstream
TimeoutDo(i, s) ==
  /\ arb = "Waiting" /\ rs[i].kind = "timeout" /\ rs[i].st = "timeout" /\ Unspent(i)
  /\ timedOut' = timedOut \cup {i}
  /\ failBacks' = [t \in Slots |-> failBacks[t] + (IF t = s THEN 1 ELSE 0)]
  /\ rs' = [rs EXCEPT ![i].st = "done"]
  /\ UNCHANGED <<univars, linkvars, spent, expired, claimed, watchvars, arb, restarts, settles, closedOut, known>>
TimeoutSpend(i) == TimeoutDo(i, rs[i].for)

LinkNext == \/ \E s \in Slots : AAdd(s) \/ BAdd(s) \/ ARemove(s) \/ BRemove(s, "settle") \/ BRemove(s, "fail")
            \/ ASign \/ BRevoke \/ BSign \/ AFee
Next == \/ LinkNext
        \/ \E c \in Keys : Spend(c)
        \/ Close \/ Restart \/ Expire
        \/ \E i \in Idx : Claim(i) \/ TimeoutSpend(i)
Spec == Init /\ [][Next]_cvars

-----------------------------------------------------------------------------
(***************************************************************************)
(* THE PROPERTY, from the statement of C12, over the chain's truth          *)
(***************************************************************************)
Pres(s, k) == IF s \notin On(k) THEN "absent" ELSE IF Dust(s, k) THEN "dust" ELSE "output"
Anywhere(s) == \E k \in Keys : s \in On(k)
Confirmed == spent # "none"
Handled   == arb = "Waiting"

(* "any of the three possible commitments confirms": the arbitrator is told  *)
(* the commitment that really confirmed, with the channel's HTLC sets and the *)
(* resolutions of that commitment's HTLC outputs                              *)
WatcherNamesConfirmed == wkey # "none" => /\ wkey = spent
                                          /\ wset = SetView
                                          /\ wres = ResOf(spent)

(* "every HTLC with an output on it gets exactly one on-chain resolver": the  *)
(* output's resolver exists from the close on, is of the HTLC's direction and *)
(* acts for the HTLC that owns the output - until the output is disposed of,  *)
(* across restarts; nothing else has a resolver                               *)
KindsOf(s) == IF Out(s) THEN {"ocontest", "timeout"} ELSE {"icontest"}
ResolverPerOutput == Handled =>
  /\ \A s \in Outs(spent) : rs[Oix(spent, s)].kind \in KindsOf(s)
  /\ \A i \in Idx : rs[i].kind # "none" => Owner(spent, i) # 0
ResolverOwnsOutput == Handled => \A i \in Idx : Live(i) => rs[i].for = Owner(spent, i)

(* the upstream messages an offered HTLC has received so far                  *)
WantFail(s) ==
  IF ~Out(s) THEN 0
  ELSE IF Pres(s, spent) = "output" THEN (IF Oix(spent, s) \in timedOut THEN 1 ELSE 0)
  ELSE IF Pres(s, spent) = "dust" THEN 1
  ELSE IF Anywhere(s) /\ ~known[s] THEN 1 ELSE 0
WantSettle(s) == IF Out(s) /\ Pres(s, spent) = "output" /\ Oix(spent, s) \in claimed THEN 1 ELSE 0
FailBackOnce == Handled => \A s \in Slots : failBacks[s] = WantFail(s)
SettleOnce   == Handled => \A s \in Slots : settles[s] = WantSettle(s)
\* "never issued for an offered HTLC that still has an output on the confirmed commitment"
NoFailBackWithOutput == Confirmed => \A s \in Slots :
                          (Pres(s, spent) = "output" /\ Oix(spent, s) \notin timedOut) => failBacks[s] = 0
(* "received dust is closed out without further action"; a received HTLC with *)
(* an output is closed out by its own resolver when it gives up               *)
WantClosed(s) ==
  IF ~In(s) THEN 0
  ELSE IF Pres(s, spent) = "dust" THEN 1
  ELSE IF Pres(s, spent) = "output" /\ expired THEN 1 ELSE 0
ClosedOutOnce == Handled => \A s \in Slots : closedOut[s] = WantClosed(s)
\* nothing happens upstream before the close event has been handled
QuietBefore == ~Handled => \A s \in Slots : failBacks[s] = 0 /\ settles[s] = 0 /\ closedOut[s] = 0

TypeOKC == /\ spent \in {"none"} \cup Keys /\ wkey \in {"none"} \cup Keys
           /\ arb \in {"Default", "Waiting"}
           /\ \A i \in Idx : rs[i].kind \in {"none", "ocontest", "timeout", "icontest"} /\ rs[i].for \in 0..NH
           /\ \A s \in Slots : failBacks[s] \in 0..2 /\ settles[s] \in 0..1 /\ closedOut[s] \in 0..2
           /\ \A k \in Keys : remOn[k] \subseteq addOn[k]
=============================================================================
