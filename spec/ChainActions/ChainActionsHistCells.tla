------------------------ MODULE ChainActionsHistCells ------------------------
(* The universes (HTLC attributes + the sets the link reported before the     *)
(* arbitrator starts) from which ChainActionsHistGen lets TLC simulate        *)
(* histories.  vlib/props/c12.py REPLACES this file per run with a seeded     *)
(* sample drawn from the domain of ChainActionsHist!Init (presence patterns   *)
(* as the protocol allows); the committed content is a two-cell default.      *)
Cells == {
  [id |-> 1, hasP |-> FALSE, onL |-> {1}, onR |-> {1}, onP |-> {},
   attr |-> <<[dir |-> "in", fwd |-> FALSE, cut |-> 2, dustL |-> FALSE, dustR |-> FALSE],
              [dir |-> "none", fwd |-> FALSE, cut |-> 50, dustL |-> FALSE, dustR |-> FALSE]>>,
   known |-> <<"no", "no">>],
  [id |-> 2, hasP |-> TRUE, onL |-> {1, 2}, onR |-> {1, 2}, onP |-> {1, 2},
   attr |-> <<[dir |-> "out", fwd |-> FALSE, cut |-> 1, dustL |-> FALSE, dustR |-> FALSE],
              [dir |-> "in", fwd |-> FALSE, cut |-> 3, dustL |-> FALSE, dustR |-> TRUE]>>,
   known |-> <<"no", "invoice">>] }
=============================================================================
