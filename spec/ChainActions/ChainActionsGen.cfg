SPECIFICATION GSpec
CONSTANTS
  NH = 1
  Rels <- RelsFull
  Dirs <- DirsBoth
  Fwds <- FwdBoth
  DeltaPairs <- Deltas46
  MaxBlocks = 2
  DataLoss <- DLBoth
  F3cRepaired = TRUE
  F3abRepaired = FALSE
INVARIANTS Dump
CHECK_DEADLOCK FALSE
