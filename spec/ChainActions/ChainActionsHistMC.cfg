SPECIFICATION Spec
CONSTANTS
  NH = 1
  Cuts <- CutsFull
  Dirs <- DirsBoth
  Fwds <- FwdBoth
  Dusts <- DustBoth
  Srcs <- SrcBoth
  Invoices = TRUE
  Grace = 1
  MaxH = 3
  MaxClock = 3
  StaleLookups = FALSE
  SignalRestartsGrace = FALSE
INVARIANTS TypeOKH GoesOnChainInTimeH GoesOnChainOnlyWithReasonH ForceClosesOnceH FailBacksSaneH ConformDecision
CHECK_DEADLOCK FALSE
