SPECIFICATION TSpec
CONSTANTS
  NH = 3
  Dirs = {"out", "in"}
  Sizes = {"big", "mid", "edge", "small"}
  LowLs = {TRUE}
  Fees = TRUE
  MaxRestarts = 1000
  WatcherConfusesPending = FALSE
  RelaunchUsesAllSets = FALSE
INVARIANTS WatcherNamesConfirmed ResolverPerOutput ResolverOwnsOutput FailBackOnce SettleOnce NoFailBackWithOutput
           ClosedOutOnce QuietBefore ConformFailBacks ConformSettles ConformClosedOut ConformState ConformResolvers ConformSlots
CHECK_DEADLOCK TRUE
