------------------------- MODULE ChainActionsConfMC -------------------------
(* Exhaustive configurations of ChainActionsConf: every universe x every     *)
(* reachable state of the three commitments x every commitment that can      *)
(* spend the funding output x every order of restarts / expiry / claims /    *)
(* timeout spends within the bounds.  With WatcherConfusesPending or         *)
(* RelaunchUsesAllSets the run must end in a violation of the property       *)
(* (ChainActionsConfCtl.cfg: non-vacuity controls).  The quick tier checks   *)
(* the full universe without fee updates (Fees = FALSE) and the fee-update   *)
(* dimension with offered HTLCs of the sizes that react to it (SizesEdge);   *)
(* the thorough tier checks the full product.                                *)
EXTENDS ChainActionsConf

DirsBoth == {"out", "in"}
DirsOut  == {"out"}
SizesAll == {"big", "mid", "small"}
SizesFee == {"big", "mid", "edge", "small"}
SizesEdge == {"big", "mid", "edge"}
SizesBM  == {"big", "mid"}
SizesBig == {"big"}
LowBoth  == {FALSE, TRUE}
LowYes   == {TRUE}
=============================================================================
