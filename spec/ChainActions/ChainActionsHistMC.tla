------------------------- MODULE ChainActionsHistMC -------------------------
(* Exhaustive configurations of ChainActionsHist: every universe x every     *)
(* history within the bounds.  With StaleLookups or SignalRestartsGrace the  *)
(* run must end in a violation of GoesOnChainInTimeH (non-vacuity control).  *)
EXTENDS ChainActionsHist

CutsFull  == {0, 1, 2, Far}
CutsNear  == {1, 2}
CutsOne   == {1, Far}
DirsBoth  == {"out", "in"}
FwdBoth   == {FALSE, TRUE}
FwdNo     == {FALSE}
DustBoth  == {FALSE, TRUE}
DustNo    == {FALSE}
SrcBoth   == {"beacon", "registry"}
SrcBeacon == {"beacon"}

=============================================================================
