SPECIFICATION Spec
CONSTANTS
  NH = 2
  Dirs <- DirsOut
  Sizes <- SizesBig
  LowLs <- LowYes
  Fees = FALSE
  MaxRestarts = 1
  WatcherConfusesPending = FALSE
  RelaunchUsesAllSets = FALSE
INVARIANTS ResolverPerOutput ResolverOwnsOutput FailBackOnce SettleOnce NoFailBackWithOutput ClosedOutOnce
CHECK_DEADLOCK FALSE
