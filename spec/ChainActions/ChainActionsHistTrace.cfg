SPECIFICATION TSpec
CONSTANTS
  NH = 3
  Cuts = {}
  Dirs = {}
  Fwds = {}
  Dusts = {}
  Srcs = {"beacon", "registry"}
  Invoices = TRUE
  Grace = 2
  MaxH = 1000
  MaxClock = 1000
  StaleLookups = FALSE
  SignalRestartsGrace = FALSE
INVARIANTS GoesOnChainInTimeH GoesOnChainOnlyWithReasonH ConformDecision ConformState ConformCalls ConformFailBacks
           ConformSlots ForceClosesOnceH FailBacksSaneH
CHECK_DEADLOCK TRUE
