SPECIFICATION TSpec
CONSTANTS
  NH = 2
  Rels = {}
  Dirs = {}
  Fwds = {}
  DeltaPairs = {}
  MaxBlocks = 10
  DataLoss = {}
  F3cRepaired = TRUE
  F3abRepaired = FALSE
  F3Known = TRUE
INVARIANTS ConformState ConformFailBacks ConformClosedOut ConformResolvers ConformCalls ConformSlots
           GoesOnChainInTime GoesOnChainOnlyWithReason ForceClosesAsDecided
           ResolverOnce ClosedOutOnce DirectionSane CoopClean OnlyKnownClasses GhostEqual RepairedClean
           FailBackStrict Deterministic
CHECK_DEADLOCK TRUE
