-------------------------- MODULE ChainActionsHist --------------------------
(***************************************************************************)
(* C12, the HISTORY dimension of the go-to-chain decision.                  *)
(*                                                                          *)
(* ChainActions.tla judges the arbitrator cell by cell: one HTLC set, one   *)
(* height, one trigger.  This module is the temporal part: a RUNNING        *)
(* ChannelArbitrator (contractcourt.channelAttendant) that sees a SEQUENCE  *)
(* of events, and the first sentence of C12 - "decides to force close no    *)
(* later than the configured number of blocks before the expiry of every    *)
(* still-pending offered HTLC it forwarded (for its own payments once the   *)
(* start-up grace period has passed) and of every received HTLC whose       *)
(* preimage it knows, and never merely because of a received HTLC it cannot *)
(* claim" - must hold at EVERY block of every such history.                 *)
(*                                                                          *)
(* State, structured like the code:                                         *)
(*   the universe (chosen by Init, constant): NH HTLC slots, each with      *)
(*     dir, fwd (forwarded / own payment), cut (its broadcast cut-off       *)
(*     height = RefundTimeout - broadcast delta of its direction, relative  *)
(*     to H0), dustL / dustR (trimmed on our / on the peer's commitments);  *)
(*   the environment:                                                       *)
(*     onL, onR, onP, hasP - the HTLC sets the link reported last           *)
(*       (ChannelArbitrator.unmergedSet; hasP: a pending remote set was     *)
(*       ever reported),                                                    *)
(*     known[s] - what the node knows about the preimage: "no", "invoice"   *)
(*       (an unsettled hold invoice exists, no preimage), "beacon"          *)
(*       (witness cache), "registry" (settled invoice),                     *)
(*     clock (ticks), height;                                               *)
(*   the arbitrator: started, startT (startTimestamp), arbState, lookups    *)
(*     (remembered preimage lookups - unused by the code as it is, see      *)
(*     StaleLookups), and what it did: went / wentH / fcalls / pubs /       *)
(*     failBacks;                                                           *)
(*   history for the property: bootT (clock at Start), checked (the         *)
(*     arbitrator has examined the present situation: no environment event  *)
(*     since its last chain-trigger pass), codeGo (what the code-shaped     *)
(*     decision function says for that pass).                               *)
(*                                                                          *)
(* Actions, one per critical section of channelAttendant / its callers:     *)
(*   Start          Start(): startTimestamp := now, the start-up pass       *)
(*                  (chain trigger at the current height), the link comes   *)
(*                  up and registers its signals;                           *)
(*   Block          handleBlockbeat -> advanceState(chainTrigger): in       *)
(*                  StateDefault merge the reported sets                    *)
(*                  (updateActiveHTLCs), classify (checkLocalChainActions), *)
(*                  stay or fail the dust class back + ForceCloseChan +     *)
(*                  PublishTx (-> StateCommitmentBroadcasted; the           *)
(*                  intermediate states are ChainActions.tla's business);   *)
(*   HtlcUpdate     notifyContractUpdate: one commitment's set replaced     *)
(*                  (one HTLC enters or leaves it; a batch is a sequence    *)
(*                  of these - the arbitrator reads the sets at blocks      *)
(*                  only).  The link can report any sequence that keeps     *)
(*                  every HTLC in a presence pattern the protocol allows    *)
(*                  (the patterns of ChainActions.tla);                     *)
(*   SignalUpdate   UpdateContractSignals (link start after a reconnect):   *)
(*                  changes the ShortChanID only;                           *)
(*   AddInvoice / LearnPreimage   the invoice registry / witness beacon     *)
(*                  learn something between two blocks;                     *)
(*   ClockAdvance   one tick of wall-clock time.                            *)
(*                                                                          *)
(* The decision of a pass is a PARAMETER of Check (go): the design spec     *)
(* takes go = GoCode (the mirror of checkLocalChainActions at a chain       *)
(* trigger), the trace spec takes what the real arbitrator did.  The        *)
(* PROPERTY (bottom) is written from the statement over the environment     *)
(* alone - Knows (not the arbitrator's lookups), bootT (not startT):        *)
(*   GoesOnChainInTimeH         checked /\ MustBeOnChainBy(height) => decided *)
(*   GoesOnChainOnlyWithReasonH a chain-triggered decision has a reason      *)
(*   ForceClosesOnceH           one ForceCloseChan / PublishTx per decision  *)
(* TLC proves them for every history within the bounds (ChainActionsHistMC) *)
(* and judges the recorded histories of the real arbitrator                 *)
(* (ChainActionsHistTrace).                                                 *)
(*                                                                          *)
(* Two switches describe classes of history-dependent defects; with either  *)
(* TRUE the model check must FAIL GoesOnChainInTimeH (non-vacuity controls):*)
(*   StaleLookups         a preimage lookup is remembered until the next    *)
(*                        HtlcUpdate (a preimage learnt later is not seen); *)
(*   SignalRestartsGrace  SignalUpdate resets startT (a reconnecting peer   *)
(*                        postpones own payments for ever).                 *)
(***************************************************************************)
EXTENDS Integers, Sequences, FiniteSets, TLC

CONSTANTS NH,          \* HTLC slots
          Cuts,        \* allowed cut values (Far = never reached)
          Dirs,        \* subset of {"out","in"}
          Fwds,        \* subset of BOOLEAN, for offered HTLCs
          Dusts,       \* subset of BOOLEAN, for dustL and dustR
          Srcs,        \* subset of {"beacon","registry"}: where a preimage may turn up
          Invoices,    \* BOOLEAN: unsettled hold invoices occur
          Grace,       \* PaymentsExpirationGracePeriod in ticks
          MaxH,        \* blocks per history
          MaxClock,    \* ticks per history
          StaleLookups, SignalRestartsGrace

H0    == 100
Far   == 50
Slots == 1..NH
Empty == [dir |-> "none", fwd |-> FALSE, cut |-> Far, dustL |-> FALSE, dustR |-> FALSE]

VARIABLES
  attr,                          \* the universe
  onL, onR, onP, hasP,           \* the link's last report per commitment
  known, clock, height,          \* environment
  started, startT, arbState, lookups,          \* the arbitrator
  went, wentH, fcalls, pubs, failBacks,        \* what it did
  bootT, checked, codeGo                       \* history

envvars == <<onL, onR, onP, hasP, known, clock, height>>
arbvars == <<started, startT, arbState, lookups, went, wentH, fcalls, pubs, failBacks>>
hvars   == <<attr, envvars, arbvars, bootT, checked, codeGo>>

-----------------------------------------------------------------------------
Out(s) == attr[s].dir = "out"
In(s)  == attr[s].dir = "in"
Real(s) == attr[s].dir # "none"
Cutoff(s) == H0 + attr[s].cut
Present(s) == s \in onL \cup onR \cup onP
Pat(s, l, r, p) == <<s \in l, s \in r, s \in p>>

(* Presence patterns <<L, R, P>> the protocol allows (ChainActions.tla):     *)
(* an HTLC we offer enters P, then R, then L and leaves L, then P, then R;   *)
(* one we receive enters L, then P, then R and leaves P, R, L.  Without a    *)
(* pending set (after a restart) only L / R.                                 *)
Gone == <<FALSE, FALSE, FALSE>>
OutPat(hp) == IF ~hp THEN {Gone, <<FALSE, TRUE, FALSE>>, <<TRUE, TRUE, FALSE>>}
              ELSE {Gone, <<FALSE, FALSE, TRUE>>, <<FALSE, TRUE, TRUE>>, <<TRUE, TRUE, TRUE>>, <<FALSE, TRUE, FALSE>>}
InPat(hp)  == IF ~hp THEN {Gone, <<TRUE, FALSE, FALSE>>, <<TRUE, TRUE, FALSE>>}
              ELSE {Gone, <<TRUE, FALSE, FALSE>>, <<TRUE, FALSE, TRUE>>, <<TRUE, TRUE, FALSE>>, <<TRUE, TRUE, TRUE>>}
PatOk(l, r, p, hp) == \A s \in Slots :
  Pat(s, l, r, p) \in (IF Out(s) THEN OutPat(hp) ELSE IF In(s) THEN InPat(hp) ELSE {Gone})

KnownVals(s) == IF ~Real(s) THEN {"no"}
                ELSE {"no"} \cup Srcs \cup (IF Invoices /\ In(s) THEN {"invoice"} ELSE {})

AttrDomain ==
  {Empty}
  \cup (IF "out" \in Dirs THEN {[dir |-> "out", fwd |-> f, cut |-> c, dustL |-> a, dustR |-> b] :
                                  f \in Fwds, c \in Cuts, a \in Dusts, b \in Dusts} ELSE {})
  \cup (IF "in" \in Dirs THEN {[dir |-> "in", fwd |-> FALSE, cut |-> c, dustL |-> a, dustR |-> b] :
                                  c \in Cuts, a \in Dusts, b \in Dusts} ELSE {})

\* a total order on HTLC descriptions: universes are taken up to permutation of the slots
BN(b) == IF b THEN 1 ELSE 0
Code(h) == ((((CASE h.dir = "none" -> 0 [] h.dir = "out" -> 1 [] h.dir = "in" -> 2) * 2 + BN(h.fwd)) * 64
             + h.cut) * 2 + BN(h.dustL)) * 2 + BN(h.dustR)

ArbInit == /\ started = FALSE /\ startT = 0 /\ arbState = "Default" /\ lookups = [s \in Slots |-> "none"]
           /\ went = "none" /\ wentH = -1 /\ fcalls = 0 /\ pubs = 0 /\ failBacks = [s \in Slots |-> 0]
           /\ bootT = 0 /\ checked = FALSE /\ codeGo = FALSE
EnvInit == clock = 0 /\ height = H0

Init == /\ attr \in [Slots -> AttrDomain]
        /\ \A s \in 1..(NH - 1) : Code(attr[s]) >= Code(attr[s + 1])
        /\ hasP \in BOOLEAN
        /\ onL \in SUBSET Slots /\ onR \in SUBSET Slots /\ onP \in SUBSET Slots
        /\ PatOk(onL, onR, onP, hasP)
        /\ known \in [Slots -> {"no", "invoice", "beacon", "registry"}]
        /\ \A s \in Slots : known[s] \in KnownVals(s)
        /\ EnvInit /\ ArbInit

-----------------------------------------------------------------------------
(* The decision, mirroring the code at a chain trigger in StateDefault       *)

\* isPreimageAvailable: witness cache first, then an invoice that carries its preimage
Avail(s) == IF StaleLookups /\ lookups[s] # "none" THEN lookups[s] = "yes"
            ELSE known[s] \in {"beacon", "registry"}
\* shouldGoOnChain(htlc, delta, h): upTime > PaymentsExpirationGracePeriod for own payments
ShouldGo(s, h) == h >= Cutoff(s) /\ (In(s) \/ attr[s].fwd \/ clock - startT > Grace)
\* checkCommitChainActions on the local set: do we have to go at all
Have(h) == \E s \in onL : \/ Out(s) /\ ShouldGo(s, h)
                          \/ In(s) /\ Avail(s) /\ ShouldGo(s, h)
\* checkRemoteDanglingActions (no commitment confirmed): offered HTLCs on a remote commitment only
Dangling(h) == {s \in (onR \cup onP) \ onL : Out(s) /\ ShouldGo(s, h) /\ ~Avail(s)}
\* len(chainActions) > 0
GoCode(h) == Have(h) \/ Dangling(h) # {}
\* the HtlcFailDustAction class of that pass: failed back upstream right away
FailDust(h) == (IF Have(h) THEN {s \in onL : Out(s) /\ attr[s].dustL} ELSE {})
               \cup {s \in Dangling(h) : attr[s].dustR}
\* the lookups a pass makes (every received HTLC on our commitment, every dangling HTLC that is due)
LookedUp(h) == {s \in onL : In(s)} \cup {s \in (onR \cup onP) \ onL : Out(s) /\ ShouldGo(s, h)}

(* One chain-trigger pass at height h with outcome go.                        *)
Check(h, go) ==
  /\ checked' = TRUE
  /\ codeGo' = GoCode(h)
  /\ lookups' = IF StaleLookups
                THEN [s \in Slots |-> IF s \in LookedUp(h) /\ lookups[s] = "none"
                                      THEN (IF known[s] \in {"beacon", "registry"} THEN "yes" ELSE "no")
                                      ELSE lookups[s]]
                ELSE lookups
  /\ IF go
     THEN /\ arbState' = "CommitmentBroadcasted" /\ went' = "chain" /\ wentH' = h
          /\ fcalls' = fcalls + 1 /\ pubs' = pubs + 1
          /\ failBacks' = [s \in Slots |-> failBacks[s] + (IF s \in FailDust(h) THEN 1 ELSE 0)]
     ELSE UNCHANGED <<arbState, went, wentH, fcalls, pubs, failBacks>>

StartDo(go) == /\ ~started /\ started' = TRUE
               /\ startT' = clock /\ bootT' = clock
               /\ Check(height, go) /\ UNCHANGED <<attr, envvars>>
\* Start happens at clock = startT = 0 (ClockAdvance needs started): the up-time of the start-up pass is zero
Start == StartDo(GoCode(height))

BlockDo(go) == /\ started /\ height < H0 + MaxH
               /\ height' = height + 1
               /\ IF arbState = "Default"
                  THEN Check(height + 1, go) /\ UNCHANGED <<started, startT, bootT>>
                  ELSE ~go /\ UNCHANGED <<arbvars, bootT, checked, codeGo>>
               /\ UNCHANGED <<attr, onL, onR, onP, hasP, known, clock>>
Block == BlockDo(arbState = "Default" /\ GoCode(height + 1))

\* the link reports a new set for commitment k: slot s enters or leaves it (the first pending set: any allowed one)
Toggle(S, s) == IF s \in S THEN S \ {s} ELSE S \cup {s}
HtlcUpdate(k, S) ==
  /\ started
  /\ S \subseteq {s \in Slots : Real(s)}
  /\ LET l == IF k = "L" THEN S ELSE onL
         r == IF k = "R" THEN S ELSE onR
         p == IF k = "P" THEN S ELSE onP
         hp == hasP \/ k = "P"
     IN /\ PatOk(l, r, p, hp)
        /\ <<l, r, p, hp>> # <<onL, onR, onP, hasP>>
        /\ onL' = l /\ onR' = r /\ onP' = p /\ hasP' = hp
  /\ checked' = FALSE
  /\ lookups' = [s \in Slots |-> "none"]
  /\ UNCHANGED <<attr, known, clock, height, started, startT, arbState, went, wentH, fcalls, pubs, failBacks,
                 bootT, codeGo>>
Updates == {<<k, Toggle(IF k = "L" THEN onL ELSE IF k = "R" THEN onR ELSE onP, s)>> : k \in {"L", "R", "P"}, s \in Slots}
           \cup (IF hasP THEN {} ELSE {<<"P", S>> : S \in SUBSET Slots})

SignalUpdate == /\ started
                /\ startT' = IF SignalRestartsGrace THEN clock ELSE startT
                /\ UNCHANGED <<attr, envvars, started, arbState, lookups, went, wentH, fcalls, pubs, failBacks,
                               bootT, checked, codeGo>>

AddInvoice(s) == /\ started /\ Invoices /\ In(s) /\ known[s] = "no"
                 /\ known' = [known EXCEPT ![s] = "invoice"]
                 /\ checked' = FALSE
                 /\ UNCHANGED <<attr, onL, onR, onP, hasP, clock, height, arbvars, bootT, codeGo>>
LearnPreimage(s, src) == /\ started /\ Real(s) /\ known[s] \in {"no", "invoice"} /\ src \in Srcs
                         /\ known' = [known EXCEPT ![s] = src]
                         /\ checked' = FALSE
                         /\ UNCHANGED <<attr, onL, onR, onP, hasP, clock, height, arbvars, bootT, codeGo>>
ClockAdvance == /\ started /\ clock < MaxClock
                /\ clock' = clock + 1
                /\ checked' = FALSE
                /\ UNCHANGED <<attr, onL, onR, onP, hasP, known, height, arbvars, bootT, codeGo>>

Next == \/ Start \/ Block \/ SignalUpdate \/ ClockAdvance
        \/ \E u \in Updates : HtlcUpdate(u[1], u[2])
        \/ \E s \in Slots : AddInvoice(s) \/ \E src \in Srcs : LearnPreimage(s, src)
Spec == Init /\ [][Next]_hvars

-----------------------------------------------------------------------------
(***************************************************************************)
(* THE PROPERTY, from the statement of C12, over the environment             *)
(***************************************************************************)
Knows(s) == known[s] \in {"beacon", "registry"}
GracePassed == clock - bootT > Grace
(* an offered HTLC whose removal the peer has already committed on our side   *)
(* and whose preimage we hold is settled, not pending (as in ChainActions)    *)
StillPending(s) == Present(s) /\ Out(s) /\ ~(s \notin onL /\ Knows(s))
MustBeOnChainBy(h) ==
  \/ \E s \in Slots : StillPending(s) /\ h >= Cutoff(s) /\ (attr[s].fwd \/ GracePassed)
  \/ \E s \in Slots : Present(s) /\ In(s) /\ Knows(s) /\ h >= Cutoff(s)
MayGoOnChain(h) ==
  \/ \E s \in Slots : Present(s) /\ Out(s) /\ h >= Cutoff(s)
  \/ \E s \in Slots : Present(s) /\ In(s) /\ Knows(s) /\ h >= Cutoff(s)
Decided == arbState # "Default"

\* at every block (and at start-up): once the arbitrator has examined the present situation, every deadline that is
\* due has made it decide
GoesOnChainInTimeH == (started /\ checked /\ MustBeOnChainBy(height)) => Decided
\* a decision taken at this block, in this situation, has a reason the property accepts
GoesOnChainOnlyWithReasonH == (checked /\ went = "chain" /\ wentH = height) => MayGoOnChain(height)
\* the decision is carried out exactly once
ForceClosesOnceH == /\ fcalls = (IF Decided THEN 1 ELSE 0) /\ pubs = fcalls
                    /\ (Decided <=> went = "chain")
\* nothing is failed back without a decision, never a received HTLC, at most once
FailBacksSaneH == \A s \in Slots : /\ failBacks[s] \in 0..1
                                   /\ (failBacks[s] = 1 => Decided /\ Out(s))
\* the real arbitrator's decision is the code-shaped one (trivial in the design spec; binding in the trace spec)
ConformDecision == (checked /\ (wentH = height \/ ~Decided)) => (codeGo <=> Decided)

TypeOKH == /\ arbState \in {"Default", "CommitmentBroadcasted"}
           /\ went \in {"none", "chain"}
           /\ clock \in 0..MaxClock /\ height \in H0..(H0 + MaxH)
           /\ PatOk(onL, onR, onP, hasP)
=============================================================================
