SPECIFICATION Spec
CONSTANTS
  NH = 2
  Dirs <- DirsBoth
  Sizes <- SizesFee
  LowLs <- LowBoth
  Fees = TRUE
  MaxRestarts = 2
  WatcherConfusesPending = FALSE
  RelaunchUsesAllSets = FALSE
INVARIANTS TypeOKC WatcherNamesConfirmed ResolverPerOutput ResolverOwnsOutput FailBackOnce SettleOnce NoFailBackWithOutput ClosedOutOnce QuietBefore
CHECK_DEADLOCK FALSE
