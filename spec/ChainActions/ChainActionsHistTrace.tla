------------------------ MODULE ChainActionsHistTrace ------------------------
(* Trace validation of recorded histories of the real ChannelArbitrator       *)
(* (harness/contractcourt/c12_hist_test.go).  Every line is one environment   *)
(* event of ChainActionsHist with its arguments, followed by what the         *)
(* arbitrator looked like when the event had been processed (state,           *)
(* ForceCloseChan / PublishTx calls, upstream fail-backs per HTLC).  The      *)
(* events drive the model's environment; the OUTCOME of a chain-trigger pass  *)
(* (Start, Block) is taken from the recorded line - what the real arbitrator  *)
(* decided - and TLC judges it:                                               *)
(*   the property:  GoesOnChainInTimeH, GoesOnChainOnlyWithReasonH,           *)
(*                  ForceClosesOnceH, FailBacksSaneH on the recorded history; *)
(*   conformance:   ConformDecision (the decision is the code-shaped GoCode), *)
(*                  ConformState / ConformCalls / ConformFailBacks (recorded  *)
(*                  values = the model's).                                    *)
(* A "Reset" line (the universe, the sets reported before Start) starts the   *)
(* next history, so that hundreds are validated in one run.                   *)
EXTENDS ChainActionsHist, Json
VARIABLE l
Trace == ndJsonDeserialize("trace.ndjson")
Last == Trace[l - 1]
E == Trace[l]
tvars == <<hvars, l>>

SetOf(v) == {s \in Slots : s <= Len(v) /\ v[s] = 1}
AttrOf(r) == [dir |-> r.dir, fwd |-> r.fwd = 1, cut |-> r.cut, dustL |-> r.dl = 1, dustR |-> r.dr = 1]
Is(a) == l <= Len(Trace) /\ Trace[l].a = a /\ l' = l + 1

TInit == /\ attr = [s \in Slots |-> Empty] /\ onL = {} /\ onR = {} /\ onP = {} /\ hasP = FALSE
         /\ known = [s \in Slots |-> "no"] /\ EnvInit /\ ArbInit /\ l = 1
Reset == /\ Is("Reset")
         /\ attr' = [s \in Slots |-> IF s <= Len(E.attr) THEN AttrOf(E.attr[s]) ELSE Empty]
         /\ onL' = SetOf(E.onL) /\ onR' = SetOf(E.onR) /\ onP' = SetOf(E.onP) /\ hasP' = (E.hasP = 1)
         /\ known' = [s \in Slots |-> IF s <= Len(E.known) THEN E.known[s] ELSE "no"]
         /\ clock' = 0 /\ height' = H0
         /\ started' = FALSE /\ startT' = 0 /\ arbState' = "Default" /\ lookups' = [s \in Slots |-> "none"]
         /\ went' = "none" /\ wentH' = -1 /\ fcalls' = 0 /\ pubs' = 0 /\ failBacks' = [s \in Slots |-> 0]
         /\ bootT' = 0 /\ checked' = FALSE /\ codeGo' = FALSE

\* what the real arbitrator decided in the pass recorded on this line
ObsGo == arbState = "Default" /\ E.st # "Default"

TNext == \/ Reset
         \/ Is("Start") /\ StartDo(ObsGo)
         \/ Is("Block") /\ BlockDo(ObsGo)
         \/ Is("HtlcUpdate") /\ HtlcUpdate(E.k, SetOf(E.set))
         \/ Is("SignalUpdate") /\ SignalUpdate
         \/ Is("AddInvoice") /\ AddInvoice(E.s)
         \/ Is("LearnPreimage") /\ LearnPreimage(E.s, E.src)
         \/ Is("ClockAdvance") /\ ClockAdvance
         \/ (l = Len(Trace) + 1 /\ UNCHANGED tvars)
TSpec == TInit /\ [][TNext]_tvars

-----------------------------------------------------------------------------
Live == l > 1 /\ Last.a # "Reset"
RSlots == {s \in Slots : l > 1 /\ Last.a # "Reset" /\ s <= Len(Last.fails)}
ConformState     == Live => /\ Last.st = arbState /\ Last.height = height /\ Last.clock = clock
ConformCalls     == Live => /\ Last.fc = fcalls /\ Last.pub = pubs /\ Last.other = 0
ConformFailBacks == Live => \A s \in RSlots : Last.fails[s] = failBacks[s]
ConformSlots     == Live => \A s \in Slots \ RSlots : ~Real(s)
=============================================================================
