---------------------------- MODULE ChainActions ----------------------------
(***************************************************************************)
(* C12 - "The node goes on chain before HTLC deadlines and disposes of     *)
(* every HTLC once."                                                        *)
(*                                                                          *)
(* A small state machine shaped like contractcourt.ChannelArbitrator:       *)
(*   - a CELL (chosen by Init, constant afterwards): up to NH HTLCs, each   *)
(*     with direction, forwarded/own, preimage known, expiry, and its       *)
(*     presence absent/dust/output on the three commitments local (L),      *)
(*     remote (R), remote pending (P) - only the presence patterns the      *)
(*     protocol allows; whether a pending commitment exists; whether the    *)
(*     start-up grace period for own payments has passed; the two           *)
(*     broadcast deltas;                                                    *)
(*   - environment actions Start, BlockEpoch, UserForceClose,               *)
(*     CloseEvent(k), k in {L, R, P, breach, coop};                         *)
(*   - one action per case of stateStep (advanceState runs them until the   *)
(*     state repeats): StepDefault (first classification pass, acts on the  *)
(*     dust class only), StepBroadcastCommit, StepCommitmentBroadcasted,    *)
(*     StepContractClosed (second pass, acts on dangling + incoming dust,   *)
(*     inserts resolvers), StepWaiting, StepFullyResolved.                  *)
(*                                                                          *)
(* HTLCs are identified by their slot.  The HtlcIndex the code keys its maps *)
(* by is bound by the executor: offered and received HTLCs are numbered by   *)
(* independent counters, so an offered and a received HTLC may carry the    *)
(* same index (schedule field "idx"); the model is index-free, a trace in   *)
(* which the code confuses the two index spaces is simply not a behaviour.  *)
(*                                                                          *)
(* The classification operators (CommitActs, DanglingActs, DiffActs,        *)
(* LocalActs, RemoteActs, Construct) MIRROR checkCommitChainActions /       *)
(* checkRemoteDanglingActions / checkRemoteDiffActions / checkLocal- /      *)
(* checkRemoteChainActions / constructChainActions, including the merge of  *)
(* the two remote sets in checkRemoteDanglingActions whose result depends   *)
(* on Go map order (parameter ch: which remote set is ranged over last).    *)
(*                                                                          *)
(* The PROPERTY is written separately, from the statement of C12, over the  *)
(* history variables (bottom of the module): MustGoOnChainBy / MayGoOnChain *)
(* and WantFail / WantResolver / WantClosedOut per confirmed commitment.    *)
(* Where the code-shaped transitions break it, the deviation is classified  *)
(* (F3a lost dust fail-back after our broadcast, F3b fail-back although an  *)
(* output confirms, F3c outcome depends on the merge order, F3d duplicate   *)
(* fail-back on a breach); OnlyKnownClasses says nothing else deviates.     *)
(***************************************************************************)
EXTENDS Integers, Sequences, FiniteSets, TLC

CONSTANTS NH,           \* HTLC slots
          Rels,         \* allowed values of rel (see Expiry); Far = never reached
          Dirs,         \* subset of {"out","in"} used by Init
          Fwds,         \* subset of BOOLEAN: forwarded / own payment, for offered HTLCs
          DeltaPairs,   \* set of <<OutgoingBroadcastDelta, IncomingBroadcastDelta>>
          MaxBlocks,    \* BlockEpochs per behaviour
          DataLoss,     \* subset of BOOLEAN: may ForceCloseChan fail with ErrForceCloseLocalDataLoss
          F3cRepaired,  \* TRUE: the merge keeps the non-dust view (fix 1eb7c38); FALSE: the code before it (F3c)
          F3abRepaired  \* TRUE: candidate policy for F3a/F3b/F3d (EarlyOK below) instead of the code's

H0    == 100            \* height at Start
Far   == -50
Slots == 1..NH
PV    == {"dust", "output"}
Empty == [dir |-> "none", fwd |-> FALSE, pre |-> FALSE, rel |-> Far,
          onL |-> "absent", onR |-> "absent", onP |-> "absent"]

VARIABLES
  \* ---- the cell
  htlc, hasP, graceOver, dOut, dIn,
  \* ---- the arbitrator
  started,     \* Start has run
  arbState,    \* ArbitratorState
  trig,        \* trigger of the advanceState loop in progress, "none" when idle
  trigH,       \* its triggerHeight
  conf,        \* which close event was received: none | L | R | P | breach | coop
  prior,       \* arbState when the close event arrived
  height,      \* best height
  \* ---- history
  failBacks,   \* slot -> number of upstream fail-backs (ResolutionMsg with Failure) delivered
  gFail,       \* ghost: the same under the deterministic (repaired) merge
  resolvers,   \* slot -> sequence of resolver kinds inserted for that HTLC
  closedOut,   \* slot -> number of PutFinalHtlcOutcome(settled = false)
  went,        \* trigger that made us leave StateDefault towards a broadcast: none | chain | user
  wentH,
  checkedH,    \* height of the last chain-trigger check that ended in StateDefault
  notified,    \* NotifyChannelResolved calls
  fcalls,      \* ForceCloseChan calls
  pubs         \* PublishTx calls

cellvars == <<htlc, hasP, graceOver, dOut, dIn>>
arbvars  == <<started, arbState, trig, trigH, conf, prior, height>>
histvars == <<failBacks, gFail, resolvers, closedOut, went, wentH, checkedH, notified, fcalls, pubs>>
vars     == <<cellvars, arbvars, histvars>>

-----------------------------------------------------------------------------
(* The cell                                                                 *)
Present(s) == htlc[s].dir # "none"
Out(s)     == htlc[s].dir = "out"
In(s)      == htlc[s].dir = "in"
On(s, k)   == CASE k = "L" -> htlc[s].onL [] k = "R" -> htlc[s].onR [] k = "P" -> htlc[s].onP
OnRemote(s) == htlc[s].onR # "absent" \/ htlc[s].onP # "absent"

\* rel = (H0+1) - (expiry - delta): +1 reached at Start, 0 at the first block, -1 at the second
Expiry(s) == H0 + 1 + (IF Out(s) THEN dOut ELSE dIn) - htlc[s].rel

(* Presence patterns <<L, R, P>> the protocol allows.                        *)
(* An HTLC we offer enters P, then R, then L and leaves L, then (a new) P,   *)
(* then R.  An HTLC we receive enters L, then P, then R and leaves P, R, L.  *)
OutPat(hp) ==
  IF ~hp THEN {<<"absent", r, "absent">> : r \in PV} \cup {<<l, r, "absent">> : l \in PV, r \in PV}
  ELSE {<<"absent", "absent", p>> : p \in PV} \cup {<<"absent", r, p>> : r \in PV, p \in PV}
       \cup {<<l, r, p>> : l \in PV, r \in PV, p \in PV} \cup {<<"absent", r, "absent">> : r \in PV}
InPat(hp) ==
  IF ~hp THEN {<<l, "absent", "absent">> : l \in PV} \cup {<<l, r, "absent">> : l \in PV, r \in PV}
  ELSE {<<l, "absent", "absent">> : l \in PV} \cup {<<l, "absent", p>> : l \in PV, p \in PV}
       \cup {<<l, r, "absent">> : l \in PV, r \in PV} \cup {<<l, r, p>> : l \in PV, r \in PV, p \in PV}

HtlcDomain(hp) ==
  {Empty}
  \cup (IF "out" \in Dirs
        THEN {[dir |-> "out", fwd |-> f, pre |-> p, rel |-> r, onL |-> pat[1], onR |-> pat[2], onP |-> pat[3]] :
                f \in Fwds, p \in BOOLEAN, r \in Rels, pat \in OutPat(hp)} ELSE {})
  \cup (IF "in" \in Dirs
        THEN {[dir |-> "in", fwd |-> FALSE, pre |-> p, rel |-> r, onL |-> pat[1], onR |-> pat[2], onP |-> pat[3]] :
                p \in BOOLEAN, r \in Rels, pat \in InPat(hp)} ELSE {})

\* a total order on HTLC descriptions: cells are taken up to permutation of the slots
BN(b) == IF b THEN 1 ELSE 0
PN(x) == CASE x = "absent" -> 0 [] x = "dust" -> 1 [] x = "output" -> 2
Code(h) == ((((((CASE h.dir = "none" -> 0 [] h.dir = "out" -> 1 [] h.dir = "in" -> 2) * 2 + BN(h.fwd)) * 2
              + BN(h.pre)) * 4 + (IF h.rel = Far THEN 0 ELSE h.rel + 2)) * 3 + PN(h.onL)) * 3 + PN(h.onR)) * 3 + PN(h.onP)

CellOk == /\ \A s \in 1..(NH - 1) : Code(htlc[s]) >= Code(htlc[s + 1])
          \* the grace period only matters for own (not forwarded) offered HTLCs
          /\ (~\E s \in Slots : Out(s) /\ ~htlc[s].fwd) => graceOver

HistInit == /\ failBacks = [s \in Slots |-> 0] /\ gFail = [s \in Slots |-> 0]
            /\ resolvers = [s \in Slots |-> <<>>] /\ closedOut = [s \in Slots |-> 0]
            /\ went = "none" /\ wentH = -1 /\ checkedH = -1 /\ notified = 0 /\ fcalls = 0 /\ pubs = 0
ArbInit  == /\ started = FALSE /\ arbState = "Default" /\ trig = "none" /\ trigH = -1
            /\ conf = "none" /\ prior = "none" /\ height = H0

Init == /\ hasP \in BOOLEAN /\ graceOver \in BOOLEAN
        /\ \E d \in DeltaPairs : dOut = d[1] /\ dIn = d[2]
        /\ htlc \in [Slots -> HtlcDomain(hasP)]
        /\ CellOk
        /\ ArbInit /\ HistInit

-----------------------------------------------------------------------------
(* The classification, mirroring the code                                   *)

\* uptime > PaymentsExpirationGracePeriod: never at Start, afterwards as the cell says
GraceNow == started /\ graceOver

\* shouldGoOnChain(htlc, delta, height)
ShouldGo(s, delta, h, g) == h >= Expiry(s) - delta /\ (In(s) \/ htlc[s].fwd \/ g)

NoActs == [s \in Slots |-> "none"]
Merge(a, b) == [s \in Slots |-> IF a[s] # "none" THEN a[s] ELSE b[s]]

\* checkCommitChainActions on the HTLC set of commitment k
CommitActs(k, h, trg, g) ==
  LET inset(s) == Present(s) /\ On(s, k) # "absent"
      have == \E s \in Slots : inset(s) /\ \/ Out(s) /\ ShouldGo(s, dOut, h, g)
                                           \/ In(s) /\ htlc[s].pre /\ ShouldGo(s, dIn, h, g)
  IN [s \in Slots |->
        IF ~inset(s) \/ (~have /\ trg = "chain") THEN "none"
        ELSE IF Out(s) THEN (IF On(s, k) = "dust" THEN "faildust"
                             ELSE IF ~ShouldGo(s, dOut, h, g) THEN "outwatch" ELSE "timeout")
             ELSE (IF On(s, k) = "dust" THEN "industfinal" ELSE "inwatch")]

(* checkRemoteDanglingActions builds remoteHTLCs[htlcIndex] while ranging    *)
(* over a Go map of the HTLC sets: for an HTLC on both remote commitments    *)
(* the entry of the set visited last wins (ch = "R" or "P"); "fix" is the    *)
(* candidate repair (keep the non-dust entry).                               *)
View(s, ch) ==
  IF htlc[s].onR # "absent" /\ htlc[s].onP # "absent"
  THEN IF ch = "fix" THEN (IF "output" \in {htlc[s].onR, htlc[s].onP} THEN "output" ELSE "dust")
       ELSE On(s, ch)
  ELSE IF htlc[s].onR # "absent" THEN htlc[s].onR ELSE htlc[s].onP

DanglingActs(h, commitsConfirmed, ch, g) ==
  [s \in Slots |->
     IF /\ Out(s) /\ htlc[s].onL = "absent" /\ OnRemote(s)
        /\ (ShouldGo(s, dOut, h, g) \/ commitsConfirmed)
        /\ ~htlc[s].pre
     THEN (IF View(s, ch) = "dust" THEN "faildust" ELSE "faildangling")
     ELSE "none"]

\* checkLocalChainActions
LocalActs(h, trg, commitsConfirmed, ch, g) ==
  Merge(CommitActs("L", h, trg, g), DanglingActs(h, commitsConfirmed, ch, g))

\* checkRemoteDiffActions
DiffActs(pendingConf) ==
  LET ck == IF pendingConf THEN "P" ELSE "R"
      dk == IF pendingConf THEN "R" ELSE "P"
  IN [s \in Slots |->
        IF Out(s) /\ On(s, dk) # "absent" /\ On(s, ck) = "absent" /\ ~htlc[s].pre
        THEN (IF On(s, dk) = "dust" THEN "faildust" ELSE "faildangling")
        ELSE "none"]

\* checkRemoteChainActions
RemoteActs(h, trg, pendingConf, g) ==
  Merge(CommitActs(IF pendingConf THEN "P" ELSE "R", h, trg, g), DiffActs(pendingConf))

\* constructChainActions; the CommitSet of a breach names the remote commitment
Construct(c, h, trg, ch, g) ==
  CASE c = "L" -> LocalActs(h, trg, TRUE, ch, g)
    [] c = "P" -> RemoteActs(h, trg, TRUE, g)
    [] OTHER   -> RemoteActs(h, trg, FALSE, g)

Choices == IF F3cRepaired THEN {"fix"} ELSE {"R", "P"}
Bump(f, acts, cls) == [s \in Slots |-> f[s] + (IF acts[s] \in cls THEN 1 ELSE 0)]

-----------------------------------------------------------------------------
(* Environment                                                              *)
Idle == trig = "none"

\* ChannelArbitrator.Start -> progressStateMachineAfterRestart: chain trigger at the current height
Start == /\ ~started /\ Idle
         /\ trig' = "chain" /\ trigH' = height
         /\ UNCHANGED <<cellvars, started, arbState, conf, prior, height, histvars>>

\* handleBlockbeat: the state machine is advanced only in StateDefault
BlockEpoch == /\ started /\ Idle /\ height < H0 + MaxBlocks
              /\ arbState \in {"Default", "BroadcastCommit", "CommitmentBroadcasted"}
              /\ height' = height + 1
              /\ IF arbState = "Default" THEN trig' = "chain" /\ trigH' = height + 1
                                         ELSE UNCHANGED <<trig, trigH>>
              /\ UNCHANGED <<cellvars, started, arbState, conf, prior, histvars>>

\* forceCloseReqs: refused unless StateDefault
UserForceClose == /\ started /\ Idle /\ arbState = "Default" /\ conf = "none"
                  /\ trig' = "user" /\ trigH' = height
                  /\ UNCHANGED <<cellvars, started, arbState, conf, prior, height, histvars>>

\* a force close request in any other state is refused (errAlreadyForceClosed): nothing happens
UserForceCloseRefused == /\ started /\ Idle /\ arbState # "Default"
                         /\ UNCHANGED vars

CloseKinds == {"L", "R", "breach"} \cup (IF hasP THEN {"P"} ELSE {})
              \cup (IF \A s \in Slots : ~Present(s) THEN {"coop"} ELSE {})
TrigOf(k) == CASE k = "L" -> "local" [] k \in {"R", "P"} -> "remote" [] k = "breach" -> "breach" [] k = "coop" -> "coop"

\* a close event from the chain watcher (resolutions and commit set are logged, channel marked closed)
CloseEvent(k) == /\ started /\ Idle /\ conf = "none"
                 /\ arbState \in {"Default", "BroadcastCommit", "CommitmentBroadcasted"}
                 /\ k \in CloseKinds
                 /\ conf' = k /\ prior' = arbState
                 /\ trig' = TrigOf(k) /\ trigH' = height
                 /\ UNCHANGED <<cellvars, started, arbState, height, histvars>>

-----------------------------------------------------------------------------
(* stateStep, one action per case.  A step that returns the state it started *)
(* in ends the advanceState loop (trig' = "none").                           *)
EndLoop == trig' = "none"

(* Which fail-backs each pass delivers.  The code: StateDefault fails the dust *)
(* class, StateContractClosed the dangling class (a breach: every offered     *)
(* HTLC on a remote commitment).  Candidate policy F3abRepaired: before a      *)
(* commitment confirms only an HTLC that is on our commitment and dust on      *)
(* every commitment it is on may be failed back (no confirming commitment can  *)
(* carry an output for it) - a function of the cell, so StateContractClosed    *)
(* knows statelessly what has been done - and everything else waits.           *)
EarlyOK(s) == Out(s) /\ htlc[s].onL = "dust" /\ htlc[s].onR # "output" /\ htlc[s].onP # "output"
DefaultFails(f, acts) ==
  IF F3abRepaired THEN [s \in Slots |-> f[s] + (IF EarlyOK(s) THEN 1 ELSE 0)]
                  ELSE Bump(f, acts, {"faildust"})
ClosedFails(f, acts) ==
  IF F3abRepaired
  THEN [s \in Slots |-> f[s] + (IF conf = "breach"
                                  THEN (IF Out(s) /\ OnRemote(s) /\ ~EarlyOK(s) THEN 1 ELSE 0)
                                  ELSE (IF acts[s] = "faildangling" \/ (acts[s] = "faildust" /\ ~EarlyOK(s))
                                        THEN 1 ELSE 0))]
  ELSE IF conf = "breach" THEN [s \in Slots |-> f[s] + (IF Out(s) /\ OnRemote(s) THEN 1 ELSE 0)]
  ELSE Bump(f, acts, {"faildangling"})

\* the two classification passes
DefaultActs(ch) == IF conf = "none" THEN LocalActs(trigH, trig, FALSE, ch, GraceNow)
                                    ELSE Construct(conf, trigH, trig, ch, GraceNow)
ClosedActs(ch)  == Construct(conf, trigH, trig, ch, GraceNow)
NothingToResolve == conf # "breach" /\ \A s \in Slots : ~Present(s)

StepDefault(ch) ==
  /\ trig # "none" /\ arbState = "Default"
  /\ LET acts  == DefaultActs(ch)
         gacts == DefaultActs("fix")
     IN IF acts = NoActs /\ trig = "chain"
        THEN /\ EndLoop /\ checkedH' = trigH /\ started' = TRUE
             /\ UNCHANGED <<cellvars, arbState, trigH, conf, prior, height,
                            failBacks, gFail, resolvers, closedOut, went, wentH, notified, fcalls, pubs>>
        ELSE /\ failBacks' = DefaultFails(failBacks, acts)
             /\ gFail' = DefaultFails(gFail, gacts)
             /\ arbState' = CASE trig \in {"chain", "user"} -> "BroadcastCommit"
                              [] trig = "coop" -> "FullyResolved"
                              [] OTHER -> "ContractClosed"
             /\ IF trig \in {"chain", "user"} THEN went' = trig /\ wentH' = trigH
                                              ELSE UNCHANGED <<went, wentH>>
             /\ started' = TRUE
             /\ UNCHANGED <<cellvars, trig, trigH, conf, prior, height, resolvers, closedOut, checkedH,
                            notified, fcalls, pubs>>

\* d: ForceCloseChan fails with ErrForceCloseLocalDataLoss
StepBroadcastCommit(d) ==
  /\ trig # "none" /\ arbState = "BroadcastCommit"
  /\ IF trig \in {"local", "remote", "breach"}
     THEN arbState' = "ContractClosed" /\ UNCHANGED <<trig, fcalls, pubs>>
     ELSE IF trig = "coop" THEN arbState' = "FullyResolved" /\ UNCHANGED <<trig, fcalls, pubs>>
     ELSE IF d THEN EndLoop /\ fcalls' = fcalls + 1 /\ UNCHANGED <<arbState, pubs>>
     ELSE arbState' = "CommitmentBroadcasted" /\ fcalls' = fcalls + 1 /\ pubs' = pubs + 1 /\ UNCHANGED trig
  /\ UNCHANGED <<cellvars, started, trigH, conf, prior, height,
                 failBacks, gFail, resolvers, closedOut, went, wentH, checkedH, notified>>

StepCommitmentBroadcasted ==
  /\ trig # "none" /\ arbState = "CommitmentBroadcasted"
  /\ IF trig \in {"chain", "user"} THEN EndLoop /\ UNCHANGED arbState
     ELSE IF trig = "coop" THEN arbState' = "FullyResolved" /\ UNCHANGED trig
     ELSE arbState' = "ContractClosed" /\ UNCHANGED trig
  /\ UNCHANGED <<cellvars, started, trigH, conf, prior, height, histvars>>

KindOf(a) == CASE a = "timeout" -> "timeout" [] a = "outwatch" -> "ocontest" [] a = "inwatch" -> "icontest"

StepContractClosed(ch) ==
  /\ trig # "none" /\ arbState = "ContractClosed"
  /\ IF NothingToResolve
     THEN \* no resolutions, empty commit set
          /\ arbState' = "FullyResolved"
          /\ UNCHANGED <<failBacks, gFail, resolvers, closedOut>>
     ELSE LET acts  == ClosedActs(ch)
              gacts == ClosedActs("fix")
          IN /\ arbState' = "WaitingFullResolution"
             /\ failBacks' = ClosedFails(failBacks, acts)
             /\ gFail' = ClosedFails(gFail, gacts)
             /\ IF conf = "breach"
                THEN \* only the breach resolver
                     UNCHANGED <<resolvers, closedOut>>
                ELSE /\ closedOut' = Bump(closedOut, acts, {"industfinal"})
                     /\ resolvers' = [s \in Slots |-> IF acts[s] \in {"timeout", "outwatch", "inwatch"}
                                                      THEN Append(resolvers[s], KindOf(acts[s])) ELSE resolvers[s]]
  /\ UNCHANGED <<cellvars, started, trig, trigH, conf, prior, height, went, wentH, checkedH, notified, fcalls, pubs>>

StepWaiting ==
  /\ trig # "none" /\ arbState = "WaitingFullResolution"
  /\ IF conf # "breach" /\ \A s \in Slots : resolvers[s] = <<>>
     THEN arbState' = "FullyResolved" /\ UNCHANGED trig
     ELSE EndLoop /\ UNCHANGED arbState
  /\ UNCHANGED <<cellvars, started, trigH, conf, prior, height, histvars>>

StepFullyResolved ==
  /\ trig # "none" /\ arbState = "FullyResolved"
  /\ EndLoop /\ notified' = notified + 1
  /\ UNCHANGED <<cellvars, started, arbState, trigH, conf, prior, height,
                 failBacks, gFail, resolvers, closedOut, went, wentH, checkedH, fcalls, pubs>>

Step == \/ \E ch \in Choices : StepDefault(ch) \/ StepContractClosed(ch)
        \/ \E d \in DataLoss : StepBroadcastCommit(d)
        \/ StepCommitmentBroadcasted \/ StepWaiting \/ StepFullyResolved

Next == Start \/ BlockEpoch \/ UserForceClose \/ (\E k \in {"L", "R", "P", "breach", "coop"} : CloseEvent(k)) \/ Step

Spec == Init /\ [][Next]_vars

-----------------------------------------------------------------------------
(***************************************************************************)
(* THE PROPERTY, from the statement of C12                                  *)
(***************************************************************************)

(* "the node decides to force close no later than the configured number of  *)
(* blocks before the expiry of every still-pending offered HTLC it          *)
(* forwarded for an upstream peer (for its own payments once the start-up   *)
(* grace period has passed) and of every received HTLC whose preimage it    *)
(* knows" - an offered HTLC whose removal the peer has already committed on *)
(* our side and whose preimage we hold is settled, not pending.             *)
StillPending(s) == Present(s) /\ Out(s) /\ ~(htlc[s].onL = "absent" /\ htlc[s].pre)
MustGoOnChainBy(h, gracePassed) ==
  \/ \E s \in Slots : StillPending(s) /\ h >= Expiry(s) - dOut /\ (htlc[s].fwd \/ gracePassed)
  \/ \E s \in Slots : Present(s) /\ In(s) /\ htlc[s].pre /\ h >= Expiry(s) - dIn
(* "... and never merely because of a received HTLC it cannot claim"        *)
MayGoOnChain(h) ==
  \/ \E s \in Slots : Present(s) /\ Out(s) /\ h >= Expiry(s) - dOut
  \/ \E s \in Slots : Present(s) /\ In(s) /\ htlc[s].pre /\ h >= Expiry(s) - dIn

\* still idle in StateDefault after the chain-trigger check at the current height => no deadline is due
GoesOnChainInTime ==
  (arbState = "Default" /\ Idle /\ conf = "none" /\ checkedH = height) =>
     ~MustGoOnChainBy(height, height > H0 /\ graceOver)
\* a chain-triggered force close has a reason the property accepts
GoesOnChainOnlyWithReason == went = "chain" => MayGoOnChain(wentH)
\* the decision is carried out: one ForceCloseChan per decision, none without, published unless it failed
ForceClosesAsDecided == /\ fcalls <= 1 /\ pubs <= fcalls
                        /\ (fcalls = 1 => went # "none")
                        /\ ((went # "none" /\ ~(arbState = "BroadcastCommit" /\ trig \in {"chain", "user"})) => fcalls = 1)

(* "Once any of the three possible commitments confirms, every HTLC with an *)
(* output on it gets exactly one on-chain resolver, every offered HTLC that *)
(* is dust there or exists only on a non-confirmed commitment is failed     *)
(* back upstream exactly once (the latter unless its preimage is already    *)
(* known), and received dust is closed out without further action.  An      *)
(* upstream fail-back is never issued for an offered HTLC that still has an *)
(* output on the confirmed commitment."                                     *)
Confirmed == conf \in {"L", "R", "P"}
Settled   == Idle /\ arbState \in {"WaitingFullResolution", "FullyResolved"}
OnConf(s) == On(s, conf)

WantResolver(s) == IF Present(s) /\ OnConf(s) = "output" THEN 1 ELSE 0
WantFail(s) == IF ~(Present(s) /\ Out(s)) THEN 0
               ELSE IF OnConf(s) = "output" THEN 0
               ELSE IF OnConf(s) = "dust" THEN 1
               ELSE IF htlc[s].pre THEN 0 ELSE 1
WantClosedOut(s) == IF Present(s) /\ In(s) /\ OnConf(s) = "dust" THEN 1 ELSE 0

OutKinds == {"timeout", "ocontest"}
InKinds  == {"icontest", "success"}
ResolverOnce == (Confirmed /\ Settled) =>
  \A s \in Slots : /\ Len(resolvers[s]) = WantResolver(s)
                   /\ \A i \in 1..Len(resolvers[s]) : resolvers[s][i] \in (IF Out(s) THEN OutKinds ELSE InKinds)
ClosedOutOnce == (Confirmed /\ Settled) => \A s \in Slots : closedOut[s] = WantClosedOut(s)
FailBackOnce  == (Confirmed /\ Settled) => \A s \in Slots : failBacks[s] = WantFail(s)
\* holds from the moment the confirmed commitment is known
NoFailBackWithOutput == Confirmed => \A s \in Slots : (Present(s) /\ OnConf(s) = "output") => failBacks[s] = 0
\* nothing is ever failed back or closed out for the wrong direction, nothing before a close for received HTLCs
DirectionSane == \A s \in Slots : /\ (~Out(s) => failBacks[s] = 0)
                                  /\ (~In(s) => closedOut[s] = 0)
                                  /\ (conf = "none" => (closedOut[s] = 0 /\ resolvers[s] = <<>>))

(* A revoked commitment (breach) or a cooperative close is none of the      *)
(* three commitments: no HTLC resolvers; "disposes of every HTLC once":     *)
(* each offered HTLC the peer holds is failed back exactly once.            *)
WantFailBreach(s) == IF Present(s) /\ Out(s) /\ OnRemote(s) THEN 1 ELSE 0
BreachOnce == (conf = "breach" /\ Settled) =>
  \A s \in Slots : failBacks[s] = WantFailBreach(s) /\ resolvers[s] = <<>> /\ closedOut[s] = 0
CoopClean == (conf = "coop" /\ Idle) => (arbState = "FullyResolved" /\ notified = 1)

-----------------------------------------------------------------------------
(* Classification of deviations (used to key findings, and by OnlyKnownClasses) *)
WeBroadcastFirst == prior \in {"BroadcastCommit", "CommitmentBroadcasted"}
Want(s)  == IF conf = "breach" THEN WantFailBreach(s) ELSE WantFail(s)
Dev(s)   == failBacks[s] # Want(s)
GDev(s)  == gFail[s] # Want(s)
ClassOf(s) ==
  IF ~Dev(s) THEN "ok"
  ELSE IF conf = "breach" THEN (IF failBacks[s] > Want(s) /\ Want(s) = 1 THEN "F3d" ELSE "other")
  ELSE IF ~GDev(s) THEN "F3c"
  ELSE IF WeBroadcastFirst /\ failBacks[s] = 0 /\ Want(s) = 1 THEN "F3a"
  ELSE IF WeBroadcastFirst /\ failBacks[s] >= 1 /\ OnConf(s) = "output" THEN "F3b"
  ELSE "other"

POf(s) == IF hasP THEN htlc[s].onP ELSE "none"
KeyOf(s) == ClassOf(s) \o ":" \o htlc[s].onL \o "," \o htlc[s].onR \o "," \o POf(s) \o "," \o conf \o "," \o prior

\* the HTLCs whose classification depends on the merge order; the key under which a run is reported whose
\* repetitions disagree (or whose outcome differs from the deterministic merge) without deviating itself
MergeShape(s) == Out(s) /\ htlc[s].onL = "absent" /\ htlc[s].onR # "absent" /\ htlc[s].onP # "absent"
                 /\ htlc[s].onR # htlc[s].onP
NondetKey(s) == "F3c:" \o htlc[s].onL \o "," \o htlc[s].onR \o "," \o POf(s) \o "," \o conf \o "," \o prior

Judged == (Confirmed \/ conf = "breach") /\ Settled
OnlyKnownClasses == Judged => \A s \in Slots : ClassOf(s) \in {"ok", "F3a", "F3b", "F3c", "F3d"}
NoF3a == Judged => \A s \in Slots : ClassOf(s) # "F3a"
NoF3b == Judged => \A s \in Slots : ClassOf(s) # "F3b"
NoF3c == Judged => \A s \in Slots : ClassOf(s) # "F3c"
NoF3d == Judged => \A s \in Slots : ClassOf(s) # "F3d"
\* with the merge repaired, the actual history equals the ghost
GhostEqual == F3cRepaired => failBacks = gFail
\* the candidate policy satisfies the property without exception
RepairedClean == F3abRepaired => (FailBackOnce /\ NoFailBackWithOutput /\ BreachOnce)

TypeOK == /\ arbState \in {"Default", "BroadcastCommit", "CommitmentBroadcasted", "ContractClosed",
                           "WaitingFullResolution", "FullyResolved"}
          /\ trig \in {"none", "chain", "user", "local", "remote", "breach", "coop"}
          /\ conf \in {"none", "L", "R", "P", "breach", "coop"}
          /\ \A s \in Slots : failBacks[s] \in 0..3 /\ gFail[s] \in 0..3 /\ closedOut[s] \in 0..1 /\ Len(resolvers[s]) <= 1
=============================================================================
