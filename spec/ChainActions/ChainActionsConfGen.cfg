SPECIFICATION GSpec
CONSTANTS
  NH = 3
  Dirs = {"out", "in"}
  Sizes = {"big", "mid", "edge", "small"}
  LowLs = {TRUE, FALSE}
  Fees = TRUE
  MaxRestarts = 2
  WatcherConfusesPending = FALSE
  RelaunchUsesAllSets = FALSE
  MinLink = 4
  MaxLink = 14
  MaxPost = 6
  WSpend = 3
INVARIANTS Dump
CHECK_DEADLOCK FALSE
