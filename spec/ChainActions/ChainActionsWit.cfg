SPECIFICATION Spec
CONSTANTS
  NH = 1
  Rels <- RelsFull
  Dirs <- DirsBoth
  Fwds <- FwdBoth
  DeltaPairs <- Deltas46
  MaxBlocks = 2
  DataLoss <- DLBoth
  F3cRepaired = FALSE
  F3abRepaired = FALSE
  WitClass = "F3a"
INVARIANTS WitnessInv
CHECK_DEADLOCK FALSE
