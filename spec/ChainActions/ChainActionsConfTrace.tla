------------------------ MODULE ChainActionsConfTrace ------------------------
(* Trace validation of the runs recorded by                                   *)
(* harness/contractcourt/c12_conf_test.go (real lnwallet channel pair, real   *)
(* chainWatcher, real ChannelArbitrator + resolvers on a bolt log).           *)
(*                                                                            *)
(* Every line is one event of ChainActionsConf with its arguments, followed   *)
(* by what the real code looked like when the event had been processed:       *)
(*   wkey, wl / wr / wp, wout / win   the close event the watcher dispatched  *)
(*                                    (ConfCommitKey, OutputIndex per slot of *)
(*                                    the three HTLC sets, the output indexes *)
(*                                    with an outgoing / incoming resolution) *)
(*   st                               the arbitrator's state                  *)
(*   fails / settles / closed         cumulative upstream fail-backs, settles *)
(*                                    and PutFinalHtlcOutcome(false) per slot *)
(*   rk / rf / rst                    per output index: kind of the active    *)
(*                                    HTLC resolver, the slot of the HTLC it  *)
(*                                    carries, its stage                      *)
(*   err / stall                      the real code refused the step / did    *)
(*                                    not finish reacting (never accepted)    *)
(* The link steps drive the model's commitment protocol.  What the            *)
(* implementation DECIDES is taken from the recorded line (SpendDo: key, sets,*)
(* resolutions; RestartDo: the HTLC each live resolver carries afterwards;    *)
(* ClaimDo / TimeoutDo: the HTLC that was settled / failed upstream) and TLC  *)
(* judges it with the property of ChainActionsConf (WatcherNamesConfirmed,    *)
(* ResolverPerOutput, ResolverOwnsOutput, FailBackOnce, SettleOnce,           *)
(* NoFailBackWithOutput, ClosedOutOnce, QuietBefore); everything else the     *)
(* code did must be what the model does (Conform...).  A "Reset" line (the    *)
(* universe) starts the next run.                                             *)
EXTENDS ChainActionsConf, Json
VARIABLE l
Trace == ndJsonDeserialize("trace.ndjson")
Last == Trace[l - 1]
E == Trace[l]
tvars == <<cvars, l>>

Is(a) == l <= Len(Trace) /\ Trace[l].a = a /\ Trace[l].err = 0 /\ Trace[l].stall = 0 /\ l' = l + 1
RangeOf(q) == {q[n] : n \in 1..Len(q)}
IxVec(q) == [s \in Slots |-> IF s <= Len(q) THEN q[s] ELSE -2]
WSets(e) == [k \in Keys |-> IF k = "L" THEN IxVec(e.wl) ELSE IF k = "R" THEN IxVec(e.wr) ELSE IxVec(e.wp)]
WResn(e) == [out |-> RangeOf(e.wout), in |-> RangeOf(e.win)]
AttrOf(r) == [dir |-> r.dir, size |-> r.size]
\* the slot whose cumulative counter grew on this line (0: none)
Grown(new, old) == IF \E s \in Slots : s <= Len(new) /\ new[s] > old[s]
                   THEN CHOOSE s \in Slots : s <= Len(new) /\ new[s] > old[s] ELSE 0

TInit == /\ attr = [s \in Slots |-> Empty] /\ lowL = TRUE
         /\ LinkInit /\ ChainInit /\ WatchInit /\ ArbInit /\ l = 1
Reset == /\ Is("Reset")
         /\ attr' = [s \in Slots |-> IF s <= Len(E.attr) THEN AttrOf(E.attr[s]) ELSE Empty]
         /\ lowL' = (E.lowL = 1)
         /\ sent' = [s \in Slots |-> FALSE] /\ rmv' = [s \in Slots |-> "no"]
         /\ addOn' = [k \in Keys |-> {}] /\ remOn' = [k \in Keys |-> {}] /\ hasP' = FALSE
         /\ feeSent' = FALSE /\ feeOn' = [k \in Keys |-> FALSE]
         /\ spent' = "none" /\ expired' = FALSE /\ claimed' = {} /\ timedOut' = {}
         /\ wkey' = "none" /\ wset' = NoSets /\ wres' = NoResn
         /\ arb' = "Default" /\ rs' = [i \in Idx |-> NoRes] /\ restarts' = 0
         /\ known' = [s \in Slots |-> FALSE]
         /\ failBacks' = [s \in Slots |-> 0] /\ settles' = [s \in Slots |-> 0] /\ closedOut' = [s \in Slots |-> 0]

TNext == \/ Reset
         \/ Is("AAdd") /\ AAdd(E.s)
         \/ Is("BAdd") /\ BAdd(E.s)
         \/ Is("ARemove") /\ ARemove(E.s)
         \/ Is("BRemove") /\ BRemove(E.s, E.how)
         \/ Is("AFee") /\ AFee
         \/ Is("ASign") /\ ASign
         \/ Is("BRevoke") /\ BRevoke
         \/ Is("BSign") /\ BSign
         \/ Is("Spend") /\ E.c \in Keys /\ E.wkey \in Keys \cup {"none"} /\ SpendDo(E.c, E.wkey, WSets(E), WResn(E))
         \/ Is("Close") /\ Close
         \/ Is("Restart") /\ RestartDo([i \in Idx |-> E.rf[i + 1]])
         \/ Is("Expire") /\ Expire
         \/ Is("Claim") /\ ClaimDo(E.i, Grown(E.settles, settles))
         \/ Is("TimeoutSpend") /\ TimeoutDo(E.i, Grown(E.fails, failBacks))
         \/ (l = Len(Trace) + 1 /\ UNCHANGED tvars)
TSpec == TInit /\ [][TNext]_tvars

-----------------------------------------------------------------------------
Live0 == l > 1 /\ Last.a # "Reset"
Cnt(q, s) == IF s <= Len(q) THEN q[s] ELSE 0
ConformFailBacks == Live0 => \A s \in Slots : Cnt(Last.fails, s) = failBacks[s]
ConformSettles   == Live0 => \A s \in Slots : Cnt(Last.settles, s) = settles[s]
ConformClosedOut == Live0 => \A s \in Slots : Cnt(Last.closed, s) = closedOut[s]
ConformState     == Live0 => /\ (arb = "Default") = (Last.st = "Default")
                             /\ arb = "Waiting" => Last.st = "WaitingFullResolution"
                             /\ Last.other = 0
\* the active HTLC resolvers: a live resolver of the model is there, of that kind, at that stage, carrying that HTLC;
\* where the model has none (or a finished one) the code has none or a resolved one
ConformResolvers == Live0 => \A i \in Idx :
                      IF Live(i) THEN /\ Last.rk[i + 1] = rs[i].kind /\ Last.rst[i + 1] = rs[i].st
                                      /\ Last.rf[i + 1] = rs[i].for
                      ELSE Last.rst[i + 1] \in {"none", "done"}
\* the watcher's event is only ever what the line says (slots beyond the recorded universe do not exist)
ConformSlots == Live0 => \A s \in Slots : s > Len(Last.fails) => ~Real(s)
=============================================================================
