SPECIFICATION Spec
CONSTANTS
  NH = 1
  Rels <- RelsFull
  Dirs <- DirsBoth
  Fwds <- FwdBoth
  DeltaPairs <- Deltas46
  MaxBlocks = 2
  DataLoss <- DLBoth
  F3cRepaired = TRUE
  F3abRepaired = FALSE
  WitClass = "none"
INVARIANTS TypeOK GoesOnChainInTime GoesOnChainOnlyWithReason ForceClosesAsDecided ResolverOnce ClosedOutOnce DirectionSane CoopClean OnlyKnownClasses GhostEqual RepairedClean Announce
CHECK_DEADLOCK FALSE
