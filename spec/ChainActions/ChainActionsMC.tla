--------------------------- MODULE ChainActionsMC ---------------------------
(* Exhaustive configurations of ChainActions: every cell x every path.      *)
EXTENDS ChainActions
CONSTANT WitClass   \* "none" | "F3a" | "F3b" | "F3c" | "F3d": which class WitnessInv denies

RelsFull  == {-1, 0, 1, Far}
RelsSmall == {0, Far}
RelsFar   == {Far}
RelsNear  == {0, 1}
DirsBoth  == {"out", "in"}
DirsOut   == {"out"}
Deltas46  == {<<4, 6>>}
Deltas2   == {<<4, 6>>, <<7, 3>>}
FwdBoth   == {FALSE, TRUE}
FwdYes    == {TRUE}
DLBoth    == {FALSE, TRUE}
DLNo      == {FALSE}

(* Announce the key of every deviating HTLC at a judged state (the set of   *)
(* F3 cell classes the model predicts); always TRUE.                        *)
Announce == Judged => \A s \in Slots :
              /\ ClassOf(s) = "ok" \/ PrintT(<<"F3KEY", KeyOf(s)>>)
              /\ (failBacks[s] = gFail[s] \/ ClassOf(s) = "F3c") \/ PrintT(<<"F3KEY", NondetKey(s)>>)

(* Reachability witnesses: TLC's counterexample to WitnessInv is a cell and a *)
(* path in which the code-shaped transitions produce that deviation class.   *)
WitnessInv == /\ (WitClass = "F3a" => NoF3a) /\ (WitClass = "F3b" => NoF3b)
              /\ (WitClass = "F3c" => NoF3c) /\ (WitClass = "F3d" => NoF3d)
=============================================================================
