-------------------------- MODULE ChainActionsTrace --------------------------
(* Trace validation: every recorded run of the real ChannelArbitrator must   *)
(* be a behaviour of ChainActions for the recorded cell - environment lines  *)
(* are the environment actions, every "Step" line (a state committed to the  *)
(* arbitrator log) is a state-changing stateStep, every "End" line the step  *)
(* that ends the advanceState loop - and what the arbitrator delivered so    *)
(* far (upstream fail-backs, final outcomes, inserted resolvers per HTLC,     *)
(* ForceCloseChan / PublishTx / NotifyChannelResolved) must equal the        *)
(* model's history variables (the Conform invariants).  The property's invariants are then *)
(* evaluated on that history.                                                *)
(*                                                                           *)
(* The only nondeterminism of the model, the merge order in                  *)
(* checkRemoteDanglingActions, is read off the recorded fail-backs of the    *)
(* step (Ch).                                                                *)
(*                                                                           *)
(* F3Known = TRUE: deviations of the classes F3a/F3b/F3c/F3d are admitted    *)
(* and announced by a line <<"QUIRK", key, line>>; anything else is rejected.*)
(* F3Known = FALSE: strict.                                                  *)
EXTENDS ChainActions, Json
CONSTANT F3Known
VARIABLES l,     \* next trace line
          tdl    \* the cell's "ForceCloseChan fails with local data loss"

Trace == ndJsonDeserialize("trace.ndjson")
Last == Trace[l - 1]
E == Trace[l]
tvars == <<vars, l, tdl>>

TInit == /\ htlc = [s \in Slots |-> Empty] /\ hasP = FALSE /\ graceOver = TRUE /\ dOut = 4 /\ dIn = 6
         /\ ArbInit /\ HistInit /\ l = 1 /\ tdl = FALSE
Is(a) == l <= Len(Trace) /\ Trace[l].a = a /\ l' = l + 1

HtlcOf(r) == [dir |-> r.dir, fwd |-> r.fwd = 1, pre |-> r.pre = 1, rel |-> r.rel,
              onL |-> r.onL, onR |-> r.onR, onP |-> r.onP]
Reset == /\ Is("Reset")
         /\ htlc' = [s \in Slots |-> IF s <= Len(E.htlc) THEN HtlcOf(E.htlc[s]) ELSE Empty]
         /\ hasP' = (E.hasP = 1) /\ graceOver' = (E.grace = 1) /\ dOut' = E.dout /\ dIn' = E.din
         /\ tdl' = (E.dl = 1)
         /\ started' = FALSE /\ arbState' = "Default" /\ trig' = "none" /\ trigH' = -1
         /\ conf' = "none" /\ prior' = "none" /\ height' = H0
         /\ failBacks' = [s \in Slots |-> 0] /\ gFail' = [s \in Slots |-> 0]
         /\ resolvers' = [s \in Slots |-> <<>>] /\ closedOut' = [s \in Slots |-> 0]
         /\ went' = "none" /\ wentH' = -1 /\ checkedH' = -1 /\ notified' = 0 /\ fcalls' = 0 /\ pubs' = 0

\* which remote set was ranged over last in this step: the one that explains the recorded fail-backs
FailAfter(c) ==
  IF arbState = "Default"
  THEN (IF DefaultActs(c) = NoActs /\ trig = "chain" THEN failBacks ELSE DefaultFails(failBacks, DefaultActs(c)))
  ELSE IF arbState = "ContractClosed" /\ ~NothingToResolve
  THEN ClosedFails(failBacks, ClosedActs(c))
  ELSE failBacks
Match(c) == \A s \in Slots : s <= Len(E.fails) => FailAfter(c)[s] = E.fails[s]
Ch == IF F3cRepaired THEN "fix"
      ELSE IF \E c \in {"R", "P"} : Match(c) THEN CHOOSE c \in {"R", "P"} : Match(c) ELSE "R"

StepAny == \/ StepDefault(Ch) \/ StepContractClosed(Ch) \/ StepBroadcastCommit(tdl)
           \/ StepCommitmentBroadcasted \/ StepWaiting \/ StepFullyResolved

Quirk(key) == PrintT(<<"QUIRK", key, l>>)
\* the closing line of a trace: announce what the run deviated in
Reps == /\ Is("Reps")
        /\ F3Known => \A s \in Slots :
             /\ (Judged /\ ClassOf(s) # "ok") => Quirk(KeyOf(s))
             /\ (E.distinct > 1 /\ MergeShape(s) /\ ~(Judged /\ ClassOf(s) = "F3c")) => Quirk(NondetKey(s))
        /\ UNCHANGED <<vars, tdl>>

TNext == \/ Reset
         \/ Is("Start") /\ Start /\ UNCHANGED tdl
         \/ Is("BlockEpoch") /\ BlockEpoch /\ UNCHANGED tdl
         \/ Is("UserForceClose") /\ (UserForceClose \/ UserForceCloseRefused) /\ UNCHANGED tdl
         \/ Is("CloseEvent") /\ CloseEvent(E.k) /\ UNCHANGED tdl
         \/ Is("Step") /\ StepAny /\ trig' # "none" /\ UNCHANGED tdl
         \/ Is("End") /\ UNCHANGED tdl /\ (IF trig = "none" THEN UNCHANGED vars ELSE StepAny /\ trig' = "none")
         \/ Reps
         \/ (l = Len(Trace) + 1 /\ UNCHANGED tvars)
TSpec == TInit /\ [][TNext]_tvars

-----------------------------------------------------------------------------
Live == l > 1 /\ Last.a \notin {"Reset", "Reps"}
RSlots == {s \in Slots : l > 1 /\ Last.a \notin {"Reset", "Reps"} /\ s <= Len(Last.fails)}

ConformState     == Live => Last.st = arbState /\ Last.height = height
ConformFailBacks == Live => \A s \in RSlots : Last.fails[s] = failBacks[s]
ConformClosedOut == Live => \A s \in RSlots : Last.closed[s] = closedOut[s]
ConformResolvers == Live => \A s \in RSlots : /\ Last.rn[s] = Len(resolvers[s])
                                              /\ Last.rk[s] = (IF resolvers[s] = <<>> THEN "none" ELSE resolvers[s][1])
\* a loop in progress has not called ForceCloseChan for the step that is still to come
ConformCalls     == Live => /\ Last.fc = fcalls /\ Last.pub = pubs /\ Last.notified = notified
                            /\ Last.other = 0 /\ \A s \in RSlots : Last.settles[s] = 0
\* slots beyond the recorded ones stay empty
ConformSlots     == Live => \A s \in Slots \ RSlots : ~Present(s)

\* the property, strict or modulo the named classes
FailBackStrict == ~F3Known => (FailBackOnce /\ NoFailBackWithOutput /\ BreachOnce)
Deterministic  == (l > 1 /\ Last.a = "Reps") =>
                     \/ Last.distinct = 1
                     \/ F3Known /\ ~F3cRepaired /\ \E s \in Slots : MergeShape(s)
=============================================================================
