SPECIFICATION GSpec
CONSTANTS
  NH = 2
  Cuts = {}
  Dirs = {}
  Fwds = {}
  Dusts = {}
  Srcs <- SrcBoth
  Invoices = TRUE
  Grace = 2
  MaxH = 7
  MaxClock = 6
  StaleLookups = FALSE
  SignalRestartsGrace = FALSE
  MaxLen = 16
  MaxPost = 2
  WBlock = 6
  WClock = 3
  WSignal = 2
INVARIANTS Dump
CHECK_DEADLOCK FALSE
