------------------------- MODULE ChainActionsHistGen -------------------------
(* History generator: ChainActionsHist started from one of the universes of   *)
(* ChainActionsHistCells + the sequence of environment events taken; one      *)
(* NDJSON file per simulated behaviour (b_<n>.ndjson: the cell id and the     *)
(* events).  TLC -simulate picks uniformly among the successor STATES, so the *)
(* dummy variable w gives Block / ClockAdvance / SignalUpdate more weight     *)
(* than the (many) set updates and preimage events.  A history ends MaxPost   *)
(* events after the arbitrator has decided, or at MaxLen events.              *)
EXTENDS ChainActionsHist, ChainActionsHistCells, Json
CONSTANTS MaxLen, MaxPost, WBlock, WClock, WSignal
VARIABLES hist, cell, post, w
gvars == <<hvars, hist, cell, post, w>>

SrcBoth == {"beacon", "registry"}
Vec(S) == [s \in Slots |-> IF s \in S THEN 1 ELSE 0]
Ev(a, k, S, s, src) == [a |-> a, k |-> k, set |-> Vec(S), s |-> s, src |-> src]
Rec(e) == /\ hist' = Append(hist, e)
          /\ post' = IF arbState # "Default" THEN post + 1 ELSE post
          /\ UNCHANGED cell

GInit == /\ \E c \in Cells : /\ cell = c.id /\ attr = c.attr /\ hasP = c.hasP
                             /\ onL = c.onL /\ onR = c.onR /\ onP = c.onP /\ known = c.known
         /\ EnvInit /\ ArbInit /\ hist = <<>> /\ post = 0 /\ w = 1
GNext ==
  /\ Len(hist) < MaxLen /\ post < MaxPost
  /\ \/ Start /\ Rec(Ev("Start", "", {}, 0, "")) /\ w' = 1
     \/ Block /\ Rec(Ev("Block", "", {}, 0, "")) /\ w' \in 1..WBlock
     \/ ClockAdvance /\ Rec(Ev("ClockAdvance", "", {}, 0, "")) /\ w' \in 1..WClock
     \/ SignalUpdate /\ Rec(Ev("SignalUpdate", "", {}, 0, "")) /\ w' \in 1..WSignal
     \/ \E u \in Updates : HtlcUpdate(u[1], u[2]) /\ Rec(Ev("HtlcUpdate", u[1], u[2], 0, "")) /\ w' = 1
     \/ \E s \in Slots : AddInvoice(s) /\ Rec(Ev("AddInvoice", "", {}, s, "")) /\ w' = 1
     \/ \E s \in Slots, src \in Srcs : LearnPreimage(s, src) /\ Rec(Ev("LearnPreimage", "", {}, s, src)) /\ w' = 1
GSpec == GInit /\ [][GNext]_gvars

Dump == (Len(hist) = MaxLen \/ post = MaxPost) =>
          ndJsonSerialize("b_" \o ToString(TLCGet("stats").traces) \o ".ndjson", <<[id |-> cell, ev |-> hist]>>)
=============================================================================
