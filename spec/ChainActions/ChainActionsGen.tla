--------------------------- MODULE ChainActionsGen ---------------------------
(* Schedule generator: ChainActions + the sequence of environment events     *)
(* taken.  A schedule (cell + path) is printed when the close event has been *)
(* processed:  <<"SCHED", json>>.  Exhaustive (BFS) for one HTLC, -simulate  *)
(* for two and three.  The merge is taken as repaired here so that every     *)
(* (cell, path) is produced once; the path does not depend on it.            *)
EXTENDS ChainActions, Json

RelsFull  == {-1, 0, 1, Far}
RelsSmall == {0, Far}
RelsFar   == {Far}
DirsBoth  == {"out", "in"}
DirsOut   == {"out"}
Deltas46  == {<<4, 6>>}
Deltas2   == {<<4, 6>>, <<7, 3>>}
FwdBoth   == {FALSE, TRUE}
FwdYes    == {TRUE}
DLBoth    == {FALSE, TRUE}
DLNo      == {FALSE}

VARIABLES hist,   \* environment events so far
          gdl     \* 1 iff ForceCloseChan failed with local data loss
gvars == <<vars, hist, gdl>>

Ev(a, k) == [a |-> a, k |-> k]
GInit == Init /\ hist = <<>> /\ gdl = 0
GNext ==
  \/ Start /\ hist' = Append(hist, Ev("Start", "")) /\ UNCHANGED gdl
  \/ BlockEpoch /\ hist' = Append(hist, Ev("BlockEpoch", "")) /\ UNCHANGED gdl
  \/ UserForceClose /\ hist' = Append(hist, Ev("UserForceClose", "")) /\ UNCHANGED gdl
  \/ \E k \in {"L", "R", "P", "breach", "coop"} :
       CloseEvent(k) /\ hist' = Append(hist, Ev("CloseEvent", k)) /\ UNCHANGED gdl
  \/ (\E ch \in Choices : StepDefault(ch) \/ StepContractClosed(ch)) /\ UNCHANGED <<hist, gdl>>
  \/ \E d \in DataLoss : /\ StepBroadcastCommit(d)
                         /\ gdl' = IF d /\ trig \in {"chain", "user"} THEN 1 ELSE gdl
                         /\ UNCHANGED hist
  \/ (StepCommitmentBroadcasted \/ StepWaiting \/ StepFullyResolved) /\ UNCHANGED <<hist, gdl>>
GSpec == GInit /\ [][GNext]_gvars

Done == Idle /\ conf # "none"
Sched == [hasP |-> BN(hasP), grace |-> BN(graceOver), dl |-> gdl, dout |-> dOut, din |-> dIn,
          htlc |-> [s \in Slots |-> [dir |-> htlc[s].dir, fwd |-> BN(htlc[s].fwd), pre |-> BN(htlc[s].pre),
                                     rel |-> htlc[s].rel, onL |-> htlc[s].onL, onR |-> htlc[s].onR,
                                     onP |-> htlc[s].onP]],
          ev |-> hist]
Dump == Done => PrintT(<<"SCHED", ToJson(Sched)>>)
=============================================================================
