SPECIFICATION GSpec
CONSTANTS
  Chans = {1, 2}
  MaxTs = 3
  Fees = {1, 2}
  Peers = {"p1", "p2"}
  CABad = {"none", "nsig1", "nsig2", "bsig1", "bsig2", "nsigswap", "bsigswap", "nbswap", "nodeid1", "nodeid2", "btckey1", "btckey2", "scid", "extra", "features", "chainhash", "wrongchain"}
  CUBad = {"none", "sig", "dirbit", "feechg", "tschg", "extra", "scid", "disable", "timelock", "htlcmax", "msgflags", "chainhash", "wrongchain"}
  NABad = {"none", "sig", "wrongkey", "alias", "tschg", "extra", "features", "addr", "color"}
  CUFields = {"ok", "nomaxflag", "maxzero", "maxltmin", "disabled", "capeq", "capplus1", "capplus500", "capplus999", "capplus1000", "maxgtcap"}
  NAFields = {"ok", "twodns"}
  Funds = {"ok", "noblock", "nohash", "noout", "wrongkeys", "halfwrongkeys", "spent", "hashfault", "blockfault", "utxofault", "utxonotfound"}
  Signers = {"n1", "n2", "x"}
  MaxLen = 7
  ChainEvents = FALSE
  Window = FALSE
INVARIANTS Dump
CHECK_DEADLOCK FALSE
