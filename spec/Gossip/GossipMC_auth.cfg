SPECIFICATION MCSpec
CONSTANTS
  Chans = {1}
  MaxTs = 2
  Fees = {1, 2}
  Peers = {"p1", "p2"}
  CABad = {"none", "nsig1", "bsig2", "nsigswap", "scid", "chainhash", "wrongchain"}
  CUBad = {"none", "sig", "chainhash"}
  NABad = {"none", "sig"}
  CUFields = {"ok", "maxltmin", "disabled", "capeq", "capplus1"}
  NAFields = {"ok", "twodns"}
  Funds = {"ok", "noblock", "spent", "blockfault", "utxofault"}
  Signers = {"n1", "n2", "x"}
  MaxMsgs = 4
  Chain = FALSE
VIEW MCView
INVARIANTS TypeOK NodeHasChannel PolicyHasChannel RelayedAuthentic ZombieNotInGraph ClosedNotInGraph StashOnlyUpdates
PROPERTIES ZombieOnlyByOwner OnlyAuthenticFresh NoRelayWithoutApply RelayOnlyApplied PolicyMonotone NodeMonotone ChannelsStay
CHECK_DEADLOCK FALSE
