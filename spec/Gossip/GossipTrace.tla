---------------------------- MODULE GossipTrace ----------------------------
(* Trace validation.  One line per call of ProcessRemoteAnnouncement on the *)
(* real gossiper ("Recv": the message's attributes, the class of the result  *)
(* on the returned future, the projection of graph / zombie index / closed   *)
(* index / reject cache / premature stash read back from the real objects,   *)
(* and every message seen on the Broadcast callback so far), one "Replay"    *)
(* line when the futures of the premature updates of a newly announced       *)
(* channel have completed, "Garbage" lines for bit-flipped wire messages     *)
(* (inputs outside the universe), an "End" line after the last broadcast     *)
(* window, "Connect" / "Disconnect" lines for the block notifications handed  *)
(* to the real graph.Builder (builder source only; recorded after the        *)
(* builder's handler has processed them).                                    *)
(* Recv/Garbage/End/Connect/Disconnect are deterministic in the model, so the *)
(* comparison is a set of INVARIANTS over Last; the replay order is not      *)
(* observable, so Replay carries its comparison in the guard (the model      *)
(* must have SOME order that gives the recorded results and policies).       *)
EXTENDS Gossip, Json
VARIABLE l

Trace == ndJsonDeserialize("trace.ndjson")
Last  == Trace[l - 1]

TInit == Init /\ l = 1
Is(a) == l <= Len(Trace) /\ Trace[l].a = a /\ l' = l + 1

Reset == /\ Is("Reset")
         /\ chans' = {} /\ pol' = [k \in Keys |-> NoPol] /\ nodes' = [n \in Nodes |-> 0]
         /\ stash' = [c \in Chans |-> <<>>] /\ zombie' = {} /\ zkeys' = [c \in Chans |-> {}]
         /\ closed' = {} /\ rejects' = {}
         /\ relayed' = {} /\ nmsg' = 0 /\ last' = [kind |-> "Init", res |-> "-"]
         /\ tip' = Tip0 /\ verts' = {} /\ reorg' = FALSE

B(x) == IF x THEN 1 ELSE 0
PolIdx(c, d) == 2 * (c - 1) + d + 1
PolMatchesOn(ks, p, g) == \A k \in ks : /\ g.pol[PolIdx(k[1], k[2])][1] = p[k].ts
                                         /\ g.pol[PolIdx(k[1], k[2])][2] = p[k].fee
                                         /\ g.pol[PolIdx(k[1], k[2])][3] = p[k].mx
PolMatches(p, g) == PolMatchesOn(Keys, p, g)
(* The gossiper re-queues the premature updates of a channel from the      *)
(* handler of its announcement, before that handler's future resolves: on  *)
(* the line of the announcement the policies of THAT channel (and the       *)
(* broadcast of those updates) may already show a part of the replay.  They *)
(* are compared on the Replay line that follows.                            *)
Replaying    == {c \in chans : stash[c] # <<>>}
ReplayingMsgs == UNION {{Wire(stash[c][i]) : i \in 1..Len(stash[c])} : c \in Replaying}

(* all premature updates of channel c replayed in some order *)
Orders(n) == Permutations(1..n)
RECURSIVE Run(_, _, _, _)
\* acc = [pol, res (index -> result), app (applied messages)]
Run(c, order, k, acc) ==
  IF k > Len(order) THEN acc
  ELSE LET i == order[k]
           m == stash[c][i]
           r == CUQueued(acc.pol, rejects, m) IN
       Run(c, order, k + 1,
           [pol |-> r.pol, res |-> [acc.res EXCEPT ![i] = r.res],
            app |-> IF r.app THEN acc.app \cup {Wire(m)} ELSE acc.app])

RunOrder(c, order) ==
  Run(c, order, 1, [pol |-> pol, res |-> [i \in 1..Len(stash[c]) |-> "-"], app |-> {}])
\* the orders that explain what was recorded: every future's result and the channel's policies afterwards
Explains(c, rs, g) ==
  {order \in Orders(Len(stash[c])) :
     LET r == RunOrder(c, order) IN
     /\ \A i \in 1..Len(rs) : rs[i] = r.res[i]
     /\ PolMatches(r.pol, g)}
(* The order is not observable and several orders can explain the record   *)
(* (same results, same final policies) while applying - hence relaying -    *)
(* different updates.  The step is kept deterministic: the policies are the *)
(* recorded ones (some order must produce them), and `relayed` grows by     *)
(* every update that is applied in SOME explaining order.                   *)
ReplayAll(c, rs, g) ==
  /\ c \in chans /\ stash[c] # <<>> /\ Len(rs) = Len(stash[c])
  /\ LET os == Explains(c, rs, g) IN
     /\ os # {}
     /\ pol' = RunOrder(c, CHOOSE o \in os : TRUE).pol
     /\ relayed' = relayed \cup UNION {RunOrder(c, o).app : o \in os}
  /\ stash' = [stash EXCEPT ![c] = <<>>]
  /\ last' = [kind |-> "ReplayAll", res |-> "-"]
  /\ UNCHANGED <<chans, nodes, zombie, zkeys, closed, rejects, nmsg, tip, verts, reorg>>

(* a message that is not in the universe and cannot be authentic (a bit of  *)
(* a signed message was flipped on the wire): nothing may change            *)
Garbage == /\ last' = [kind |-> "Garbage", res |-> "-"]
           /\ UNCHANGED <<chans, pol, nodes, stash, zombie, zkeys, closed, rejects, relayed, nmsg, tip, verts, reorg>>

TNext == \/ Is("Recv") /\ Recv(Trace[l].m)
         \/ Is("Replay") /\ ReplayAll(Trace[l].c, Trace[l].rs, Trace[l].g)
         \/ Is("Zombify") /\ Zombify(Trace[l].m.c, Trace[l].m.signer)
         \/ Is("Garbage") /\ Garbage
         \/ Is("Connect") /\ Trace[l].m.t = "BC" /\ Connect(SpentOf(Trace[l].m.c))
         \/ Is("Disconnect") /\ Trace[l].m.t = "BD" /\ Disconnect
         \/ Is("End") /\ last' = [kind |-> "End", res |-> "-"]
                      /\ UNCHANGED <<chans, pol, nodes, stash, zombie, zkeys, closed, rejects, relayed, nmsg,
                                     tip, verts, reorg>>
         \/ Reset
         \/ (l = Len(Trace) + 1 /\ UNCHANGED <<vars, l>>)
TSpec == TInit /\ [][TNext]_<<vars, l>>

Live == l > 1 /\ Last.a # "Reset"
G    == Last.g

\* the message is one the specification speaks about
MsgInUniverse == /\ (Live /\ Last.a = "Recv") => Last.m \in Universe
                 /\ (Live /\ Last.a = "Zombify") => Last.m \in ZOUniverse
                 /\ (Live /\ Last.a \in {"Connect", "Disconnect"}) => Last.m \in ChainUniverse
\* THE comparison: channels, their end points, policies (timestamp, content), announced nodes - and nothing else in the graph
ConformGraph == Live =>
  /\ \A c \in Chans : G.ch[c] = B(c \in chans)
  /\ \A c \in chans : G.keys[c] = <<EndOf(c, 0), EndOf(c, 1)>>
  /\ PolMatchesOn({k \in Keys : k[1] \notin Replaying}, pol, G)
  /\ \A n \in Nodes : G.nd[n] = nodes[n]
  /\ G.nch = Cardinality(chans)
  /\ G.nnd = Cardinality({n \in Nodes : nodes[n] > 0})
\* the builder's height and the node vertices of the real store (builder source; the mock has neither)
ConformChain == (Live /\ Last.src = "builder") =>
  /\ G.tip = tip
  /\ \A n \in Nodes : G.vx[n] = B(n \in verts)
\* nothing is handed to Broadcast that the model did not relay (= apply)
ConformRelay == Live => \A i \in 1..Len(Last.rel) : Last.rel[i] \in relayed \cup ReplayingMsgs
\* class of the result on the caller's future
ConformResult == (Live /\ Last.a = "Recv") => Last.res = last.res
\* zombie index, closed-scid index, reject cache, premature stash of channels not yet known
ConformAux == Live =>
  /\ \A c \in Chans : G.zo[c] = B(c \in zombie) /\ G.cl[c] = B(c \in closed)
  /\ \A c \in zombie : G.zk[c] = <<B("n1" \in zkeys[c]), B("n2" \in zkeys[c])>>
  /\ \A c \in Chans : c \notin chans => G.st[c] = Len(stash[c])
  /\ \A c \in Chans : /\ G.rj[2 * (c - 1) + 1] = B(<<c, "p1">> \in rejects)
                      /\ G.rj[2 * (c - 1) + 2] = B(<<c, "p2">> \in rejects)
\* a bit-flipped message is never reported as accepted for a change: whatever the result, see ConformGraph/ConformRelay
=============================================================================
