SPECIFICATION TPSpec
CONSTANTS
  OwnChans = {1, 2}
  Unknown = {9}
  ASBad = {"none", "nsig", "bsig", "swap", "other"}
  RCBad = {"none", "nsig", "bsig"}
INVARIANTS PMsgInUniverse ConformProof StoredProofVerifies ConformPRelay RelayedVerifies ConformPResult ConformStore ConformPRej ProofAuthentic RelayedHasProof
CHECK_DEADLOCK TRUE
