---------------------------- MODULE GossipSweep ----------------------------
(* Systematic generator: the whole message universe (one line per message)  *)
(* and a list of preludes/suffixes.  The executor runs  prelude ++ <<m>> ++  *)
(* suffix  for every message m of the universe (a seeded sample in the quick *)
(* tier), so that every single-defect message meets every kind of state:     *)
(* empty graph, known channel without / with policies and node               *)
(* announcements at timestamp 2, premature updates waiting, zombie channel   *)
(* (zero keys / both keys / one key recorded), reject-cache entry.  The suffix announces the channels, which replays any *)
(* update that m left in the premature stash.                                *)
EXTENDS Gossip, Json, SequencesExt

CAok(c, p)        == CAMsg(c, "none", "ok", p)
CUok(c, d, ts, fe, p) == CUMsg(c, d, ts, fe, Own(d), "none", "ok", p)
NAok(n, ts, p)    == NAMsg(n, ts, "none", "ok", p)

Both == <<CAok(1, "p2"), CAok(2, "p2")>>
Preludes == <<
  [name |-> "empty",    pre |-> <<>>,                                          suf |-> Both],
  [name |-> "chan",     pre |-> <<CAok(1, "p1")>>,                              suf |-> <<CAok(2, "p2")>>],
  [name |-> "full",     pre |-> <<CAok(1, "p1"), CUok(1, 0, 2, 1, "p1"), CUok(1, 1, 2, 1, "p1"),
                                  NAok(1, 2, "p1"), NAok(2, 2, "p1")>>,          suf |-> <<>>],
  [name |-> "stash",    pre |-> <<CUok(1, 0, 1, 1, "p1"),
                                  CUMsg(1, 1, 2, 1, "n2", "sig", "ok", "p1"),
                                  CUok(1, 0, 2, 1, "p2")>>,                     suf |-> Both],
  [name |-> "zombie",   pre |-> <<CAMsg(1, "none", "noblock", "p1")>>,          suf |-> Both],
  [name |-> "rejected", pre |-> <<CAMsg(1, "nsig1", "ok", "p1"),
                                  CUok(1, 0, 1, 1, "p2")>>,                     suf |-> Both],
  [name |-> "zkboth",   pre |-> <<ZOMsg(1, "both")>>,                            suf |-> Both],
  [name |-> "zkone",    pre |-> <<ZOMsg(1, "n2"), ZOMsg(2, "n1")>>,              suf |-> Both],
  [name |-> "two",      pre |-> <<CAok(1, "p1"), CAok(2, "p1"), CUok(2, 0, 1, 2, "p1"),
                                  NAok(3, 1, "p2")>>,                            suf |-> <<>>]
>>

ASSUME \A i \in 1..Len(Preludes) :
          /\ \A j \in 1..Len(Preludes[i].pre) : Preludes[i].pre[j] \in Universe \cup ZOUniverse
          /\ \A j \in 1..Len(Preludes[i].suf) : Preludes[i].suf[j] \in Universe
ASSUME ndJsonSerialize("universe.ndjson", SetToSeq(Universe))
ASSUME ndJsonSerialize("preludes.ndjson", Preludes)
ASSUME PrintT(<<"universe", Cardinality(Universe), Cardinality(CAUniverse), Cardinality(CUUniverse),
                Cardinality(NAUniverse), "preludes", Len(Preludes)>>)

SweepSpec == Init /\ [][UNCHANGED vars]_vars
=============================================================================
