---------------------------- MODULE GossipSweep ----------------------------
(* Systematic generator: the whole message universe (one line per message)  *)
(* and a list of preludes/suffixes.  The executor runs  prelude ++ <<m>> ++  *)
(* suffix  for every message m of the universe (a seeded sample in the quick *)
(* tier), so that every single-defect message meets every kind of state:     *)
(* empty graph, known channel without / with policies and node               *)
(* announcements at timestamp 2, premature updates waiting, zombie channel   *)
(* (zero keys / both keys / one key recorded), reject-cache entry.  The suffix announces the channels, which replays any *)
(* update that m left in the premature stash.                                *)
EXTENDS Gossip, Json, SequencesExt

CAok(c, p)        == CAMsg(c, "none", "ok", p)
CUok(c, d, ts, fe, p) == CUMsg(c, d, ts, fe, Own(d), "none", "ok", p)
NAok(n, ts, p)    == NAMsg(n, ts, "none", "ok", p)

Both == <<CAok(1, "p2"), CAok(2, "p2")>>
Preludes == <<
  [name |-> "empty",    pre |-> <<>>,                                          suf |-> Both],
  [name |-> "chan",     pre |-> <<CAok(1, "p1")>>,                              suf |-> <<CAok(2, "p2")>>],
  [name |-> "full",     pre |-> <<CAok(1, "p1"), CUok(1, 0, 2, 1, "p1"), CUok(1, 1, 2, 1, "p1"),
                                  NAok(1, 2, "p1"), NAok(2, 2, "p1")>>,          suf |-> <<>>],
  [name |-> "stash",    pre |-> <<CUok(1, 0, 1, 1, "p1"),
                                  CUMsg(1, 1, 2, 1, "n2", "sig", "ok", "p1"),
                                  CUok(1, 0, 2, 1, "p2")>>,                     suf |-> Both],
  [name |-> "zombie",   pre |-> <<CAMsg(1, "none", "noblock", "p1")>>,          suf |-> Both],
  [name |-> "rejected", pre |-> <<CAMsg(1, "nsig1", "ok", "p1"),
                                  CUok(1, 0, 1, 1, "p2")>>,                     suf |-> Both],
  [name |-> "zkboth",   pre |-> <<ZOMsg(1, "both")>>,                            suf |-> Both],
  [name |-> "zkone",    pre |-> <<ZOMsg(1, "n2"), ZOMsg(2, "n1")>>,              suf |-> Both],
  [name |-> "two",      pre |-> <<CAok(1, "p1"), CAok(2, "p1"), CUok(2, 0, 1, 2, "p1"),
                                  NAok(3, 1, "p2")>>,                            suf |-> <<>>]
>>

(* Preludes with chain events (executed on the real graph.Builder only): the *)
(* message meets a graph that a reorganisation / an on-chain close has       *)
(* shrunk - and whose channel-less nodes the next block has swept.           *)
Full == <<CAok(1, "p1"), CAok(2, "p1"), CUok(1, 0, 1, 1, "p1"), CUok(2, 1, 1, 1, "p1"),
          NAok(1, 1, "p1"), NAok(2, 1, "p1"), NAok(3, 1, "p2")>>
ChainPreludes == <<
  \* the blocks at 103 and 102 go (channel 2 with them), a replacement block connects: node 3 is swept
  [name |-> "reorg2",   pre |-> Full \o <<BDMsg, BDMsg, BCMsg(0)>>,               suf |-> <<CAok(2, "p2")>>],
  \* the reorganisation reaches below both channels; two replacement blocks: every node is swept
  [name |-> "reorgall", pre |-> Full \o <<BDMsg, BDMsg, BDMsg, BCMsg(0), BCMsg(0)>>, suf |-> Both],
  \* channel 1 is closed on chain: node 1 is swept
  [name |-> "closed1",  pre |-> Full \o <<BCMsg(1)>>,                             suf |-> <<CAok(1, "p2")>>]
>>
ASSUME \A i \in 1..Len(ChainPreludes) :
          /\ \A j \in 1..Len(ChainPreludes[i].pre) :
                ChainPreludes[i].pre[j] \in Universe \cup ZOUniverse \cup ChainUniverse
          /\ \A j \in 1..Len(ChainPreludes[i].suf) : ChainPreludes[i].suf[j] \in Universe
ASSUME ndJsonSerialize("preludes_chain.ndjson", ChainPreludes)

(* The reorganisation window (probe; executed on the real graph.Builder      *)
(* only, apart from everything else): node announcements that arrive after   *)
(* a stale block has taken a node's last channel and BEFORE the next block   *)
(* connects.  The specification says DropNoChannel (the node has no known     *)
(* channel); lnd at the pinned commit still holds the vertex and applies the  *)
(* announcement (report b20d, key gossip:builder:reorg-window:...).  These    *)
(* schedules are kept out of the generated behaviours (GossipGen Window =     *)
(* FALSE) and out of the sweep, so that this known deviation does not mask    *)
(* anything else.                                                            *)
WindowProbes == <<
  \* a shell vertex (never announced) gets its first announcement in the window
  <<CAok(2, "p1"), BDMsg, BDMsg, NAok(3, 1, "p1"), BCMsg(0), NAok(3, 2, "p1")>>,
  \* an announced node gets a newer announcement in the window; the channel comes back afterwards
  Full \o <<BDMsg, BDMsg, NAok(3, 2, "p1"), BCMsg(0), CAok(2, "p2"), NAok(3, 3, "p2")>>,
  \* the reorganisation takes every channel
  <<CAok(1, "p1"), BDMsg, BDMsg, BDMsg, NAok(1, 1, "p1"), NAok(2, 1, "p2"), BCMsg(0), NAok(1, 2, "p1")>>
>>
ASSUME \A i \in 1..Len(WindowProbes) : \A j \in 1..Len(WindowProbes[i]) :
          WindowProbes[i][j] \in Universe \cup ChainUniverse
ASSUME \A i \in 1..Len(WindowProbes) : ndJsonSerialize("w_" \o ToString(i) \o ".ndjson", WindowProbes[i])

ASSUME \A i \in 1..Len(Preludes) :
          /\ \A j \in 1..Len(Preludes[i].pre) : Preludes[i].pre[j] \in Universe \cup ZOUniverse
          /\ \A j \in 1..Len(Preludes[i].suf) : Preludes[i].suf[j] \in Universe
ASSUME ndJsonSerialize("universe.ndjson", SetToSeq(Universe))
ASSUME ndJsonSerialize("preludes.ndjson", Preludes)
ASSUME PrintT(<<"universe", Cardinality(Universe), Cardinality(CAUniverse), Cardinality(CUUniverse),
                Cardinality(NAUniverse), "preludes", Len(Preludes), Len(ChainPreludes)>>)

SweepSpec == Init /\ [][UNCHANGED vars]_vars
=============================================================================
