-------------------------- MODULE GossipProofTrace --------------------------
(* Trace validation of GossipProof.  One line per call on the real          *)
(* gossiper: "LocalChan" (ProcessLocalAnnouncement of our channel's          *)
(* announcement), "AnnSig" (our half through ProcessLocalAnnouncement, the   *)
(* remote half through ProcessRemoteAnnouncement from the counterparty or a  *)
(* stranger), "RemoteChan" (the full announcement of an own channel through  *)
(* ProcessRemoteAnnouncement from a relaying peer), "Restart" (gossiper stopped, a new one started on the same     *)
(* graph and WaitingProofStore), "End" after the last broadcast window.      *)
(* Recorded after every call: the class of the result on the future, and     *)
(* read back from the real objects: per own channel the edge (absent / in    *)
(* the graph without proof / with proof), for a stored proof which of its    *)
(* four signatures verify over the announcement rebuilt from the stored      *)
(* edge (Go-only oracle bits), the halves in the WaitingProofStore (present, *)
(* node signature verifies, bitcoin signature verifies - each under the key  *)
(* of the side the half is filed under), and every channel_announcement      *)
(* seen on the Broadcast callback with its four verification bits.           *)
(* Every step is deterministic in the model: the comparison is a set of      *)
(* INVARIANTS over Last.                                                     *)
EXTENDS GossipProof, Json
VARIABLE l

Trace == ndJsonDeserialize("trace.ndjson")
Last  == Trace[l - 1]

TPInit == PInit /\ l = 1
Is(a) == l <= Len(Trace) /\ Trace[l].a = a /\ l' = l + 1
PReset == /\ Is("Reset")
          /\ edge' = [c \in OwnChans |-> "none"] /\ w' = [c \in OwnChans |-> NoHalves]
          /\ proof' = [c \in OwnChans |-> <<>>] /\ prelayed' = {}
          /\ nmsg' = 0 /\ last' = [kind |-> "Init", res |-> "-"]
TPNext == \/ Is("LocalChan") /\ Trace[l].m.t = "LC" /\ Trace[l].m.c \in OwnChans /\ LocalChan(Trace[l].m.c)
          \/ Is("AnnSig") /\ AnnSig(Trace[l].m)
          \/ Is("RemoteChan") /\ RemoteChan(Trace[l].m)
          \/ Is("Restart") /\ Restart
          \/ Is("End") /\ PNop("End", "-") /\ UNCHANGED nmsg
          \/ PReset
          \/ (l = Len(Trace) + 1 /\ UNCHANGED <<pvars, l>>)
TPSpec == TPInit /\ [][TPNext]_<<pvars, l>>

Live == l > 1 /\ Last.a # "Reset"
G == Last.g
B(x) == IF x THEN 1 ELSE 0
EdgeCode(e) == CASE e = "none" -> 0 [] e = "noproof" -> 1 [] e = "proof" -> 2
HalfRec(b) == IF b = "-" THEN <<0, 0, 0>> ELSE <<1, B("n" \in HalfSigs(b)), B("b" \in HalfSigs(b))>>

PMsgInUniverse == (Live /\ Last.a \in {"LocalChan", "AnnSig", "Restart", "RemoteChan"}) => Last.m \in PUniverse
\* THE comparison: the edge of each own channel and whether it carries a proof; nothing else in the graph
ConformProof == Live =>
  /\ \A c \in OwnChans : G.ed[c] = EdgeCode(edge[c])
  /\ G.nch = Cardinality({c \in OwnChans : edge[c] # "none"})
\* the waiting-proof store: which halves wait, and what their signatures are worth
ConformStore == Live =>
  /\ \A c \in OwnChans : G.wl[c] = HalfRec(w[c].local) /\ G.wr[c] = HalfRec(w[c].remote)
  /\ G.wl[3] = <<0, 0, 0>> /\ G.wr[3] = <<0, 0, 0>>                  \* the unknown channel never gets there
\* nothing but the assembled announcements of channels whose proof the model added is handed to Broadcast
ConformPRelay == Live => \A i \in 1..Len(Last.rel) : Last.rel[i].t = "CA" /\ Last.rel[i].c \in prelayed
ConformPResult == (Live /\ Last.a \in {"LocalChan", "AnnSig", "RemoteChan"}) => Last.res = last.res
\* no reject-cache entry is ever made for the relaying peer (in-package read)
ConformPRej == Live => \A c \in OwnChans : G.rj[c] = 0
\* on recorded values alone (the property, whatever the model thinks): a stored proof and a relayed
\* announcement verify under all four keys
StoredProofVerifies == Live => \A c \in OwnChans : G.ed[c] = 2 => G.pv[c] = <<1, 1, 1, 1>>
RelayedVerifies == Live => \A i \in 1..Len(Last.rel) : Last.rel[i].t = "CA" => Last.rel[i].v = <<1, 1, 1, 1>>
=============================================================================
