SPECIFICATION GPSpec
CONSTANTS
  OwnChans = {1, 2}
  Unknown = {9}
  ASBad = {"none", "nsig", "bsig", "swap", "other"}
  RCBad = {"none", "nsig", "bsig"}
  MaxLen = 8
INVARIANTS PDump
CHECK_DEADLOCK FALSE
