SPECIFICATION MCSpec
CONSTANTS
  Chans = {1, 2}
  MaxTs = 2
  Fees = {1, 2}
  Peers = {"p1"}
  CABad = {"none", "nsig1"}
  CUBad = {"none", "sig"}
  NABad = {"none", "sig"}
  CUFields = {"ok"}
  NAFields = {"ok"}
  Funds = {"ok", "spent", "utxofault"}
  Signers = {"n1", "n2"}
  MaxMsgs = 4
  Chain = TRUE
VIEW MCView
INVARIANTS TypeOK NodeHasChannel PolicyHasChannel RelayedAuthentic ZombieNotInGraph ClosedNotInGraph StashOnlyUpdates
PROPERTIES ZombieOnlyByOwner OnlyAuthenticFresh NoRelayWithoutApply RelayOnlyApplied PolicyMonotone NodeMonotone ChannelsStay
CHECK_DEADLOCK FALSE
