------------------------------ MODULE GossipMC ------------------------------
(* Exhaustive bounded configurations: every sequence of at most MaxMsgs     *)
(* messages of the universe (duplicates, any order), with the replays of    *)
(* premature updates interleaved anywhere.  The corruption kinds are reduced *)
(* to one representative per class the specification distinguishes          *)
(* (CASigsValid / ChainMismatch / CUSigValid / fields): Gossip.tla treats    *)
(* all members of a class by the same expression.                            *)
(* With Chain = TRUE the chain events (blocks connecting with any set of    *)
(* funding outputs spent, the block at the tip disconnecting) are           *)
(* interleaved anywhere as well and count as messages.                      *)
EXTENDS Gossip
CONSTANT MaxMsgs, Chain

MCNext == \/ nmsg < MaxMsgs /\ \E m \in Universe : Recv(m)
          \/ nmsg < MaxMsgs /\ \E z \in ZOUniverse : Zombify(z.c, z.signer)
          \/ Chain /\ nmsg < MaxMsgs /\ \E b \in ChainUniverse : Step(b)
          \/ \E c \in Chans : \E i \in 1..Len(stash[c]) : ReplayOne(c, i)
MCSpec == Init /\ [][MCNext]_vars

(* `relayed` only grows and nothing reads it; `last` is an observation.     *)
(* The stash is viewed as the SET of its messages: ReplayOne may take any   *)
(* index, and a second copy of a message can never do more than the first   *)
(* (it is stale, rejected or kept-alive for the same reason).               *)
MCView == <<chans, pol, nodes, [c \in Chans |-> {stash[c][i] : i \in 1..Len(stash[c])}],
            zombie, zkeys, closed, rejects, nmsg, tip, verts, reorg>>
=============================================================================
