--------------------------- MODULE GossipProofGen ---------------------------
(* Schedules for the executor of GossipProof.                               *)
(*  (1) tlc -simulate: behaviours of MaxLen entries, the entry drawn from a *)
(*      class relative to the state (a half that completes a stored one,    *)
(*      good or bad; a first half; a local channel announcement; a          *)
(*      stranger / unknown channel; a restart), dumped one file per         *)
(*      behaviour by the invariant Dump;                                    *)
(*  (2) the systematic sweep "pairs.ndjson" (written once, by the ASSUME):   *)
(*      for each own channel, each order of the two halves, each pair of     *)
(*      validity classes, with and without a restart between the halves,     *)
(*      with the first half arriving before (orphan) or after the channel    *)
(*      is in the graph - followed by one good half from each side; and the  *)
(*      channel's announcement arriving from the network (each validity      *)
(*      class) at each stage of that life.                                   *)
EXTENDS GossipProof, Json, Randomization, SequencesExt
CONSTANTS MaxLen
VARIABLE hist

Completing(m) == m.c \in OwnChans /\ edge[m.c] = "noproof" /\ m.from # "stranger" /\ w[m.c][Opp(m.side)] # "-"
PClass(k) ==
  CASE k = 1 -> {LCMsg(c) : c \in {x \in OwnChans : edge[x] = "none"}}
    [] k = 2 -> {m \in ASUniverse : m.c \in OwnChans /\ m.from # "stranger" /\ m.bad = "none" /\ ~Completing(m)}
    [] k = 3 -> {m \in ASUniverse : m.c \in OwnChans /\ m.from # "stranger" /\ m.bad # "none" /\ ~Completing(m)}
    [] k = 4 -> {m \in ASUniverse : m.c \notin OwnChans \/ m.from = "stranger"}
    [] k = 5 -> {RSMsg}
    [] k = 6 -> {m \in ASUniverse : Completing(m) /\ m.bad = "none"}
    [] k = 7 -> {m \in ASUniverse : Completing(m) /\ m.bad # "none"}
    [] k = 9 -> {m \in RCUniverse : edge[m.c] = "none"}
    [] k = 10 -> RCUniverse
    [] OTHER -> PUniverse
PClassSeq == <<1, 1, 2, 2, 3, 3, 4, 5, 6, 6, 6, 7, 7, 8, 9, 9, 10>>

GPInit == PInit /\ hist = <<>>
GPNext == /\ Len(hist) < MaxLen
          /\ \E j \in 1..Len(PClassSeq) :
               /\ PClass(PClassSeq[j]) # {}
               /\ \E m \in RandomSubset(1, PClass(PClassSeq[j])) : PStep(m) /\ hist' = Append(hist, m)
GPSpec == GPInit /\ [][GPNext]_<<pvars, hist>>
PDump == (Len(hist) = MaxLen) => ndJsonSerialize("b_" \o ToString(TLCGet("stats").traces) \o ".ndjson", hist)

From(s) == IF s = "remote" THEN "party" ELSE "-"
TailOf(c) == <<ASMsg(c, "remote", "none", "party"), ASMsg(c, "local", "none", "-")>>
Pair(c, s, b1, b2, rs, orphan) ==
  LET first  == <<ASMsg(c, s, b1, From(s))>>
      second == <<ASMsg(c, Opp(s), b2, From(Opp(s)))>>
      mid    == IF rs = 1 THEN <<RSMsg>> ELSE <<>> IN
  [name |-> "pair:c" \o ToString(c) \o ":" \o s \o "=" \o b1 \o ":" \o Opp(s) \o "=" \o b2 \o
            (IF rs = 1 THEN ":restart" ELSE "") \o (IF orphan = 1 THEN ":orphan" ELSE ""),
   sched |-> IF orphan = 1 THEN first \o mid \o <<LCMsg(c)>> \o second \o TailOf(c)
             ELSE <<LCMsg(c)>> \o first \o mid \o second \o TailOf(c)]
\* the announcement from the network at every stage of the channel's life: before our own announcement,
\* between the halves (with a restart), after the proof
Remote(c, b, stage) ==
  LET rc == <<RCMsg(c, b)>>
      h1 == <<ASMsg(c, "remote", "none", "party")>>
      h2 == <<ASMsg(c, "local", "none", "-")>> IN
  [name |-> "remote:c" \o ToString(c) \o ":" \o b \o ":stage" \o ToString(stage),
   sched |-> CASE stage = 1 -> rc \o rc \o <<LCMsg(c)>> \o h1 \o h2
               [] stage = 2 -> h1 \o rc \o <<RSMsg>> \o rc \o <<LCMsg(c)>> \o h2 \o h1
               [] stage = 3 -> <<LCMsg(c)>> \o h1 \o rc \o h2 \o rc
               [] stage = 4 -> <<LCMsg(c)>> \o h2 \o h1 \o rc \o <<RCMsg(c, "none")>>]
Pairs == SetToSeq({Pair(c, s, b1, b2, rs, o) : c \in OwnChans, s \in Sides, b1 \in ASBad, b2 \in ASBad,
                                               rs \in {0, 1}, o \in {0, 1}}) \o
         SetToSeq({Remote(c, b, st) : c \in OwnChans, b \in RCBad, st \in 1..4})
ASSUME ndJsonSerialize("pairs.ndjson", Pairs)
=============================================================================
