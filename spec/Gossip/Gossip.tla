------------------------------- MODULE Gossip -------------------------------
(***************************************************************************)
(* C20 "Only authentic, fresh gossip changes the channel graph".           *)
(*                                                                         *)
(* The remote-gossip path of lnd's discovery.AuthenticatedGossiper         *)
(* (ProcessRemoteAnnouncement -> networkHandler -> handleChanAnnouncement / *)
(* handleChanUpdate / handleNodeAnnouncement) over a small universe:        *)
(* 2 channels (1: nodes 1-2, 2: nodes 2-3), 3 nodes, timestamps 0..MaxTs.   *)
(*                                                                         *)
(* Cryptography is abstract: a message carries *validity attributes* that   *)
(* say how it was produced - `bad` names what was altered after signing     *)
(* (or which signature does not verify), `signer` who signed a channel      *)
(* update, `fund` what the chain says about the funding output, `fields`    *)
(* a validly signed but inconsistent field set.  The executor really signs  *)
(* the messages and really corrupts them as the attributes say.             *)
(*                                                                         *)
(* The actions follow the code's order of checks (one IF cascade per        *)
(* handler); where the code does something the property does not forbid it  *)
(* is a named outcome (`last.kind`): IgnoreKnown (a channel announcement    *)
(* for a known or zombie channel is dropped before any validation),         *)
(* Stash (ANY update of an unknown channel is kept unvalidated and          *)
(* replayed when the channel arrives), DropKeepAlive, RecentlyRejected      *)
(* (reject cache keyed by scid and sending peer), the zombie/closed         *)
(* marking of a channel whose funding output is bad.  The zombie index,     *)
(* closed-scid index and reject cache are NOT part of "the graph"           *)
(* (DESIGN.md section 5, C20 "Interpretation fixed here").                  *)
(*                                                                         *)
(* The property is stated declaratively at the end (Allowed*, EffectOf,     *)
(* OnlyAuthenticFresh ...), independently of the cascade.                   *)
(*                                                                         *)
(* Backend faults (follow-up b20c).  Every chain query of the funding       *)
(* validation (GetBlockHash / GetBlock / GetUtxo) has three kinds of        *)
(* outcome, chosen by the environment through the attribute `fund`: it      *)
(* succeeds ("ok"), it answers negatively (FundNegative: no such block /    *)
(* height, no such output, another script, spent) or it FAILS without an    *)
(* answer (FundFault: "hashfault", "blockfault" - the lookup of the funding *)
(* transaction failed; UtxoFault: "utxofault", "utxonotfound" - GetUtxo     *)
(* failed with something else than "spent").  A fault is never an           *)
(* acceptance: the announcement is rejected (reject cache, so the same peer *)
(* is not retried; another peer's copy is validated afresh) and, as the     *)
(* code does, a failed utxo query also records the scid in the closed-scid  *)
(* index (named outcome RejectFault; a closed scid is refused before any    *)
(* validation: RejectClosed).                                               *)
(*                                                                         *)
(* Chain events (follow-up b20c).  The graph also changes when the chain    *)
(* does (graph.Builder.networkHandler on graph/db): Connect(S) is a block   *)
(* at height tip+1 whose transactions spend the funding outputs of the      *)
(* channels S (PruneGraph: those channels leave the graph, and with them    *)
(* every node that is left without a channel); Disconnect is the stale      *)
(* block at height `tip` (DisconnectBlockAtHeight: every channel confirmed  *)
(* at or above it leaves the graph; the nodes stay until the next block     *)
(* connects).  `verts` are the node vertices the store holds (announced or  *)
(* shell); `reorg` says that a block was disconnected and none has          *)
(* connected since.  Channel c is confirmed at height 100 + c; the tip      *)
(* starts at 103.  "has a known channel" is HasChan - NOT membership in     *)
(* verts: a node announcement for a vertex that has lost its last channel   *)
(* must be dropped, whatever the store still holds.  (lnd at the pinned      *)
(* commit decides by the vertex: between a stale block and the next          *)
(* connected block it applies such an announcement - finding F30, key        *)
(* gossip:builder:reorg-window:*; those schedules are generated apart, see   *)
(* GossipSweep WindowProbes and GossipGen Window.)                           *)
(***************************************************************************)
EXTENDS Naturals, Sequences, FiniteSets, TLC

CONSTANTS MaxTs,     \* timestamps 0..MaxTs (0 = the wire value 0)
          Fees,      \* policy contents (only distinguishes keep-alive from change)
          Peers,     \* sending peers (reject cache key)
          CABad,     \* corruption kinds of a channel announcement ("none" = as signed)
          CUBad,     \* corruption kinds of a channel update
          NABad,     \* corruption kinds of a node announcement
          CUFields,  \* validly signed field sets of an update ("ok" or an inconsistency)
          NAFields,  \* validly signed field sets of a node announcement
          Funds,     \* state of the funding output on chain
          Signers,   \* who signed an update: "n1" / "n2" = node 1/2 of that channel, "x" = a stranger
          Chans      \* channels of the universe, a subset of {1, 2} (1: nodes 1-2, 2: nodes 2-3)

Nodes == {1, 2, 3}
Dirs  == {0, 1}
EndOf(c, d) == IF c = 1 THEN 1 + d ELSE 2 + d        \* node that owns direction d of channel c
Ends(c)  == {EndOf(c, 0), EndOf(c, 1)}
Keys     == Chans \X Dirs
AllSigs  == {"n1", "n2", "b1", "b2"}
Own(d)   == IF d = 0 THEN "n1" ELSE "n2"

(* One record shape for all three message kinds (uniform JSON).            *)
CAMsg(c, bad, fund, p) ==
  [t |-> "CA", c |-> c, n |-> 0, d |-> 0, ts |-> 0, fee |-> 0, signer |-> "-",
   bad |-> bad, fund |-> fund, fields |-> "ok", peer |-> p]
CUMsg(c, d, ts, fee, s, bad, fl, p) ==
  [t |-> "CU", c |-> c, n |-> 0, d |-> d, ts |-> ts, fee |-> fee, signer |-> s,
   bad |-> bad, fund |-> "-", fields |-> fl, peer |-> p]
NAMsg(n, ts, bad, fl, p) ==
  [t |-> "NA", c |-> 0, n |-> n, d |-> 0, ts |-> ts, fee |-> 0, signer |-> "-",
   bad |-> bad, fund |-> "-", fields |-> fl, peer |-> p]

\* not a message: the environment (zombie pruning) puts a channel that is not in the graph into the
\* zombie index and records the node keys that may resurrect it ("both", or only "n1" / "n2")
ZOMsg(c, keys) ==
  [t |-> "ZO", c |-> c, n |-> 0, d |-> 0, ts |-> 0, fee |-> 0, signer |-> keys,
   bad |-> "-", fund |-> "-", fields |-> "-", peer |-> "-"]
ZOUniverse == {ZOMsg(c, k) : c \in Chans, k \in {"both", "n1", "n2"}}
ZKeys(mode) == CASE mode = "both" -> {"n1", "n2"} [] mode = "n1" -> {"n1"} [] mode = "n2" -> {"n2"}

(* Chain events as schedule entries: "BC" connects a block spending the      *)
(* funding outputs of the channels coded in c (bit c-1), "BD" disconnects   *)
(* the block at the tip.                                                    *)
Height(c) == 100 + c
Tip0   == 103
MinTip == 100
MaxTip == 104
BCMsg(k) ==
  [t |-> "BC", c |-> k, n |-> 0, d |-> 0, ts |-> 0, fee |-> 0, signer |-> "-",
   bad |-> "-", fund |-> "-", fields |-> "-", peer |-> "-"]
BDMsg == [BCMsg(0) EXCEPT !.t = "BD"]
SpentOf(k) == {c \in {1, 2} : (k \div (IF c = 1 THEN 1 ELSE 2)) % 2 = 1}
ChainUniverse == {BCMsg(k) : k \in {j \in 0..3 : SpentOf(j) \subseteq Chans}} \cup {BDMsg}

(* What the chain backend says about the funding output.                   *)
FundNegative(f) == f \in {"noblock", "nohash", "noout", "wrongkeys", "halfwrongkeys", "spent"}
FundFault(f)    == f \in {"hashfault", "blockfault"}
UtxoFault(f)    == f \in {"utxofault", "utxonotfound"}

(* The message universe: valid messages and messages with ONE defect.      *)
CAUniverse == {m \in {CAMsg(c, b, f, p) : c \in Chans, b \in CABad, f \in Funds, p \in Peers} :
                 m.bad = "none" \/ m.fund = "ok"}
CUUniverse == {m \in {CUMsg(c, d, ts, fe, s, b, fl, p) :
                        c \in Chans, d \in Dirs, ts \in 0..MaxTs, fe \in Fees, s \in Signers,
                        b \in CUBad, fl \in CUFields, p \in Peers} :
                 /\ m.signer = Own(m.d) \/ (m.bad = "none" /\ m.fields = "ok")
                 /\ m.bad = "none" \/ m.fields = "ok"}
NAUniverse == {m \in {NAMsg(n, ts, b, fl, p) :
                        n \in Nodes, ts \in 0..MaxTs, b \in NABad, fl \in NAFields, p \in Peers} :
                 m.bad = "none" \/ m.fields = "ok"}
Universe == CAUniverse \cup CUUniverse \cup NAUniverse

(* Which of the four signatures of a channel announcement verify over the  *)
(* digest of the message as received, under the keys stated in it.         *)
CASigsValid(m) ==
  CASE m.bad = "none"      -> AllSigs
    [] m.bad = "wrongchain" -> AllSigs                 \* validly signed, for another chain
    [] m.bad = "nsig1"     -> AllSigs \ {"n1"}
    [] m.bad = "nsig2"     -> AllSigs \ {"n2"}
    [] m.bad = "bsig1"     -> AllSigs \ {"b1"}
    [] m.bad = "bsig2"     -> AllSigs \ {"b2"}
    [] m.bad = "nsigswap"  -> {"b1", "b2"}             \* node sigs exchanged
    [] m.bad = "bsigswap"  -> {"n1", "n2"}             \* bitcoin sigs exchanged
    [] m.bad = "nbswap"    -> {"n2", "b2"}             \* node sig 1 <-> bitcoin sig 1
    [] OTHER               -> {}                       \* a signed field or a key changed: digest/keys differ
ChainMismatch(m) == m.bad \in {"chainhash", "wrongchain"}
CUSigValid(m) == m.bad = "none" /\ m.signer = Own(m.d)
\* consistent fields: max_htlc flag set, 0 < min <= max <= capacity (in millisatoshi).
\* "capeq" is max = capacity exactly; "capplusN" is capacity + N msat (N = 1, 500, 999, 1000).
\* "disabled" is a validly signed update with the disable bit set (consistent; a different content).
CUFieldsOk(m) == m.fields \in {"ok", "capeq", "disabled"}
\* content class of the stored policy besides the fee: 1 plain, 2 max_htlc = capacity, 3 disabled
Mx(m) == CASE m.fields = "capeq" -> 2 [] m.fields = "disabled" -> 3 [] OTHER -> 1
NASigValid(m) == m.bad = "none"

NoPol == [ts |-> 0, fee |-> 0, mx |-> 0]
\* what is handed to Broadcast is the wire message; the peer it came from is not part of it
Wire(m) == [m EXCEPT !.peer = "-"]

VARIABLES chans,    \* channels in the graph
          pol,      \* Keys -> [ts, fee]; ts = 0: no policy stored
          nodes,    \* Nodes -> timestamp of the stored node announcement, 0 = none
          stash,    \* Chans -> sequence of premature updates not yet replayed
          zombie,   \* zombie index (not the graph)
          zkeys,    \* Chans -> the node keys ("n1", "n2") recorded with the zombie entry; {} = zero keys
          closed,   \* closed-scid index (not the graph)
          rejects,  \* reject cache: set of <<scid, peer>>
          relayed,  \* (wire) messages handed to the broadcast batch
          nmsg,     \* messages received so far (bounds model checking only)
          last,     \* outcome of the last step: [kind, res]
          tip,      \* height of the best block the graph builder has processed
          verts,    \* node vertices held by the graph store (announced or shell)
          reorg     \* a block was disconnected and none has connected since

vars  == <<chans, pol, nodes, stash, zombie, zkeys, closed, rejects, relayed, nmsg, last, tip, verts, reorg>>
Graph == <<chans, pol, nodes>>

Init == /\ chans = {} /\ pol = [k \in Keys |-> NoPol] /\ nodes = [n \in Nodes |-> 0]
        /\ stash = [c \in Chans |-> <<>>] /\ zombie = {} /\ zkeys = [c \in Chans |-> {}]
        /\ closed = {} /\ rejects = {}
        /\ relayed = {} /\ nmsg = 0 /\ last = [kind |-> "Init", res |-> "-"]
        /\ tip = Tip0 /\ verts = {} /\ reorg = FALSE

Out(kind, res) == last' = [kind |-> kind, res |-> res]
HasChanIn(cs, n) == \E c \in cs : n \in Ends(c)
HasChan(n) == HasChanIn(chans, n)

\* nothing but the outcome changes
Nop(kind, res) == /\ Out(kind, res)
                  /\ UNCHANGED <<chans, pol, nodes, stash, zombie, zkeys, closed, rejects, relayed>>
\* rejected and remembered in the reject cache
RejectCache(m, kind) == /\ Out(kind, "err") /\ rejects' = rejects \cup {<<m.c, m.peer>>}
                        /\ UNCHANGED <<chans, pol, nodes, stash, zombie, zkeys, closed, relayed>>

(* handleChanAnnouncement *)
RecvCA(m) ==
  /\ m.t = "CA"
  /\ IF <<m.c, m.peer>> \in rejects THEN Nop("RecentlyRejected", "err")
     ELSE IF ChainMismatch(m) THEN RejectCache(m, "RejectChain")
     ELSE IF m.c \in chans \cup zombie THEN Nop("IgnoreKnown", "ok")     \* before any validation
     ELSE IF m.c \in closed THEN Nop("RejectClosed", "err")              \* closed-scid index (ban score)
     ELSE IF CASigsValid(m) # AllSigs THEN RejectCache(m, "RejectSig")
     ELSE IF FundFault(m.fund) THEN RejectCache(m, "RejectFault")         \* no answer: never an acceptance
     ELSE IF UtxoFault(m.fund)
       THEN \* GetUtxo failed without saying "spent": rejected; the code also records the scid as closed
            /\ Out("RejectFault", "err")
            /\ rejects' = rejects \cup {<<m.c, m.peer>>}
            /\ closed' = closed \cup {m.c}
            /\ UNCHANGED <<chans, pol, nodes, stash, zombie, zkeys, relayed>>
     ELSE IF m.fund # "ok"
       THEN \* validateFundingTransaction: zombie (and closed if spent), reject cache, ban score
            /\ Out("RejectFunding", "err")
            /\ rejects' = rejects \cup {<<m.c, m.peer>>}
            /\ zombie' = zombie \cup {m.c}
            /\ zkeys' = [zkeys EXCEPT ![m.c] = {}]                  \* zero keys: can never be resurrected
            /\ closed' = IF m.fund = "spent" THEN closed \cup {m.c} ELSE closed
            /\ UNCHANGED <<chans, pol, nodes, stash, relayed>>
       ELSE /\ Out("ApplyCA", "ok")
            /\ chans' = chans \cup {m.c}
            /\ relayed' = relayed \cup {Wire(m)}
            /\ UNCHANGED <<pol, nodes, stash, zombie, zkeys, closed, rejects>>

(* handleChanUpdate from the staleness check on, for a channel that is in  *)
(* the graph; p is the policy table it reads and writes.                   *)
CUKnown(p, m) ==
  LET k == <<m.c, m.d>> IN
  IF p[k].ts # 0 /\ m.ts <= p[k].ts
    THEN [pol |-> p, kind |-> "DropStale", res |-> "ok", app |-> FALSE]
  ELSE IF ~CUFieldsOk(m) \/ ~CUSigValid(m)
    THEN [pol |-> p, kind |-> "RejectCU", res |-> "err", app |-> FALSE]
  ELSE IF p[k].ts # 0 /\ p[k].fee = m.fee /\ p[k].mx = Mx(m)
    THEN [pol |-> p, kind |-> "DropKeepAlive", res |-> "ok", app |-> FALSE]
  ELSE [pol |-> [p EXCEPT ![k] = [ts |-> m.ts, fee |-> m.fee, mx |-> Mx(m)]],
        kind |-> "ApplyCU", res |-> "ok", app |-> TRUE]

\* a (re)queued update of a known channel, including the reject-cache gate of networkHandler
CUQueued(p, rj, m) ==
  IF <<m.c, m.peer>> \in rj
    THEN [pol |-> p, kind |-> "RecentlyRejected", res |-> "err", app |-> FALSE]
    ELSE CUKnown(p, m)

RecvCU(m) ==
  /\ m.t = "CU"
  /\ IF <<m.c, m.peer>> \in rejects THEN Nop("RecentlyRejected", "err")
     ELSE IF ChainMismatch(m) THEN RejectCache(m, "RejectChain")
     ELSE IF m.ts = 0 THEN Nop("RejectZeroTs", "err")
     ELSE IF m.c \in chans
       THEN LET r == CUKnown(pol, m) IN
            /\ Out(r.kind, r.res)
            /\ pol' = r.pol
            /\ relayed' = IF r.app THEN relayed \cup {Wire(m)} ELSE relayed
            /\ UNCHANGED <<chans, nodes, stash, zombie, zkeys, closed, rejects>>
     ELSE IF m.c \in zombie
       THEN \* processZombieUpdate: the key owning the update's direction must be recorded with the zombie
            \* entry and the signature must verify under it (the fields are NOT looked at here); then the
            \* entry is removed and the update waits for the channel announcement like any premature one
            IF Own(m.d) \in zkeys[m.c] /\ CUSigValid(m)
              THEN /\ Out("Resurrect", "pending")
                   /\ zombie' = zombie \ {m.c}
                   /\ zkeys' = [zkeys EXCEPT ![m.c] = {}]
                   /\ stash' = [stash EXCEPT ![m.c] = Append(@, m)]
                   /\ UNCHANGED <<chans, pol, nodes, closed, rejects, relayed>>
              ELSE Nop("RejectZombie", "err")
     ELSE \* unknown channel: kept WITHOUT validation; the caller's future stays open
          /\ Out("Stash", "pending")
          /\ stash' = [stash EXCEPT ![m.c] = Append(@, m)]
          /\ UNCHANGED <<chans, pol, nodes, zombie, zkeys, closed, rejects, relayed>>

(* handleNodeAnnouncement (node announcements never hit the reject cache)  *)
RecvNA(m) ==
  /\ m.t = "NA"
  /\ IF m.ts = 0 THEN Nop("RejectZeroTs", "err")
     ELSE IF ~HasChan(m.n) THEN Nop("DropNoChannel", "ok")      \* IsStaleNode: unknown vertex
     ELSE IF nodes[m.n] >= m.ts THEN Nop("DropStale", "ok")
     ELSE IF m.fields # "ok" \/ ~NASigValid(m) THEN Nop("RejectNA", "err")
     ELSE /\ Out("ApplyNA", "ok")
          /\ nodes' = [nodes EXCEPT ![m.n] = m.ts]
          /\ relayed' = relayed \cup {Wire(m)}
          /\ UNCHANGED <<chans, pol, stash, zombie, zkeys, closed, rejects>>

Recv(m) == /\ nmsg' = nmsg + 1
           /\ RecvCA(m) \/ RecvCU(m) \/ RecvNA(m)
           \* a new channel brings (shell) vertices for both of its ends
           /\ verts' = verts \cup UNION {Ends(c) : c \in chans' \ chans}
           /\ UNCHANGED <<tip, reorg>>

(* Environment: a channel that is not in the graph is put into the zombie  *)
(* index with node keys recorded, as zombie pruning leaves it (both keys,   *)
(* or one with strict pruning).                                             *)
Zombify(c, mode) ==
  /\ c \notin chans \cup zombie
  /\ zombie' = zombie \cup {c}
  /\ zkeys' = [zkeys EXCEPT ![c] = ZKeys(mode)]
  /\ Out("Zombify", "-")
  /\ nmsg' = nmsg + 1
  /\ UNCHANGED <<chans, pol, nodes, stash, closed, rejects, relayed, tip, verts, reorg>>

(* Environment: the chain.  graph.Builder.networkHandler, one action per   *)
(* notification.                                                            *)
KeepPol(cs) == [k \in Keys |-> IF k[1] \in cs THEN pol[k] ELSE NoPol]
\* a block at height tip + 1 spending the funding outputs of S: updateGraphWithClosedChannels -> PruneGraph
\* (closed channels deleted - not zombies -, then every vertex without a channel is swept, in one transaction)
Connect(S) ==
  /\ tip < MaxTip
  /\ LET cs == chans \ S
         vs == {n \in verts : HasChanIn(cs, n)} IN
     /\ chans' = cs
     /\ pol' = KeepPol(cs)
     /\ verts' = vs
     /\ nodes' = [n \in Nodes |-> IF n \in vs THEN nodes[n] ELSE 0]
  /\ tip' = tip + 1 /\ reorg' = FALSE
  /\ Out("Connect", "-")
  /\ nmsg' = nmsg + 1
  /\ UNCHANGED <<stash, zombie, zkeys, closed, rejects, relayed>>
\* the block at the tip is stale: DisconnectBlockAtHeight deletes every channel confirmed at or above it;
\* the vertices (and their stored announcements) stay until the next block connects
Disconnect ==
  /\ tip > MinTip
  /\ LET cs == {c \in chans : Height(c) < tip} IN
     /\ chans' = cs
     /\ pol' = KeepPol(cs)
  /\ tip' = tip - 1 /\ reorg' = TRUE
  /\ Out("Disconnect", "-")
  /\ nmsg' = nmsg + 1
  /\ UNCHANGED <<nodes, verts, stash, zombie, zkeys, closed, rejects, relayed>>

\* one entry of a schedule
Step(m) == IF m.t = "ZO" THEN Zombify(m.c, m.signer)
           ELSE IF m.t = "BC" THEN Connect(SpentOf(m.c))
           ELSE IF m.t = "BD" THEN Disconnect
           ELSE Recv(m)

RemoveAt(s, i) == [j \in 1..(Len(s) - 1) |-> IF j < i THEN s[j] ELSE s[j + 1]]

(* The premature updates of a channel that has arrived are re-queued, each *)
(* by its own goroutine: any order, interleaved with anything else.        *)
ReplayOne(c, i) ==
  /\ c \in chans /\ i \in 1..Len(stash[c])
  /\ LET m == stash[c][i]
         r == CUQueued(pol, rejects, m) IN
     /\ Out(r.kind, r.res)
     /\ pol' = r.pol
     /\ relayed' = IF r.app THEN relayed \cup {Wire(m)} ELSE relayed
     /\ stash' = [stash EXCEPT ![c] = RemoveAt(@, i)]
  /\ UNCHANGED <<chans, nodes, zombie, zkeys, closed, rejects, nmsg, tip, verts, reorg>>

Next == \/ \E m \in Universe : Recv(m)
        \/ \E z \in ZOUniverse : Zombify(z.c, z.signer)
        \/ \E b \in ChainUniverse : Step(b)
        \/ \E c \in Chans : \E i \in 1..Len(stash[c]) : ReplayOne(c, i)

Spec == Init /\ [][Next]_vars

-----------------------------------------------------------------------------
(* The property, from its statement.                                       *)

\* "... only if all four signatures verify over the announcement digest under the stated node and
\*  bitcoin keys and the referenced funding output exists, is unspent and pays to the 2-of-2"
AllowedCA(m) == m.t = "CA" /\ CASigsValid(m) = AllSigs /\ m.fund = "ok"
\* "... only if it is signed by the node owning that direction of a known channel, is strictly newer
\*  than the stored one and carries consistent fields"
AllowedCU(m) == /\ m.t = "CU" /\ m.c \in chans
                /\ m.bad = "none" /\ m.signer = Own(m.d)
                /\ m.ts > pol[<<m.c, m.d>>].ts
                /\ CUFieldsOk(m)
\* "... only if signed by that node, newer, and the node has a known channel"
AllowedNA(m) == m.t = "NA" /\ m.bad = "none" /\ m.ts > nodes[m.n] /\ HasChan(m.n)
Allowed(m) == AllowedCA(m) \/ AllowedCU(m) \/ AllowedNA(m)

EffectOf(m) ==
  CASE m.t = "CA" -> <<chans \cup {m.c}, pol, nodes>>
    [] m.t = "CU" -> <<chans, [pol EXCEPT ![<<m.c, m.d>>] = [ts |-> m.ts, fee |-> m.fee, mx |-> Mx(m)]], nodes>>
    [] m.t = "NA" -> <<chans, pol, [nodes EXCEPT ![m.n] = m.ts]>>

\* What a chain event may do to the graph: channels leave it (never enter), the policies of the channels
\* that stay and the announcements of the nodes that keep a channel are untouched, an announcement
\* disappears only together with the node's last channel, nothing is relayed.
ChainShrink ==
  /\ tip' # tip
  /\ chans' \subseteq chans
  /\ \A k \in Keys : pol'[k] = IF k[1] \in chans' THEN pol[k] ELSE NoPol
  /\ \A n \in Nodes : /\ nodes'[n] \in {nodes[n], 0}
                      /\ HasChanIn(chans', n) => nodes'[n] = nodes[n]
  /\ relayed' = relayed

\* "Anything else leaves the graph unchanged and is not relayed to peers."
OnlyAuthenticFresh ==
  [][Graph' # Graph =>
        \/ ChainShrink
        \/ \E m \in Universe : /\ Allowed(m) /\ Graph' = EffectOf(m)
                               /\ relayed' \subseteq relayed \cup {Wire(m)}
                               /\ tip' = tip]_vars
NoRelayWithoutApply == [][relayed' # relayed => Graph' # Graph /\ tip' = tip]_vars
\* whatever is handed to the broadcast is authentic and its effect is in the graph at that moment
RelayOnlyApplied ==
  [][\A m \in relayed' \ relayed :
       CASE m.t = "CA" -> AllowedCA(m) /\ m.c \in chans'
         [] m.t = "CU" -> /\ m.c \in chans' /\ CUSigValid(m) /\ CUFieldsOk(m)
                          /\ pol'[<<m.c, m.d>>].ts >= m.ts /\ m.ts > 0
         [] m.t = "NA" -> NASigValid(m) /\ nodes'[m.n] >= m.ts /\ m.ts > 0 /\ HasChanIn(chans', m.n)]_vars

\* policy and node timestamps strictly increase while the channel / the node's channels stay
PolicyMonotone == [][\A k \in Keys : pol'[k] # pol[k] => pol'[k].ts > pol[k].ts \/ k[1] \notin chans']_vars
NodeMonotone   == [][\A n \in Nodes : nodes'[n] # nodes[n] =>
                        nodes'[n] > nodes[n] \/ (nodes'[n] = 0 /\ ~HasChanIn(chans', n))]_vars
\* channels leave the graph only when the chain moves
ChannelsStay   == [][tip' = tip => chans \subseteq chans']_vars

\* a node announcement is stored only for a vertex of the store; outside a reorganisation (a block disconnected,
\* none connected since) every vertex - hence every stored announcement - belongs to a node with a known channel
NodeHasChannel == /\ \A n \in Nodes : nodes[n] > 0 => n \in verts
                  /\ \A c \in chans : Ends(c) \subseteq verts
                  /\ ~reorg => \A n \in verts : HasChan(n)
PolicyHasChannel == \A k \in Keys : pol[k].ts > 0 => k[1] \in chans
\* everything relayed is an authentic message (its effect was in the graph when it was relayed: RelayOnlyApplied)
RelayedAuthentic ==
  \A m \in relayed :
     CASE m.t = "CA" -> AllowedCA(m)
       [] m.t = "CU" -> CUSigValid(m) /\ CUFieldsOk(m) /\ m.ts > 0
       [] m.t = "NA" -> NASigValid(m) /\ m.ts > 0

\* a zombie entry disappears only through a fresh update signed by the node that owns the update's
\* direction, whose key is recorded with the entry; that update is then waiting in the stash
ZombieOnlyByOwner ==
  [][\A c \in Chans : (c \in zombie /\ c \notin zombie') =>
        /\ Len(stash'[c]) = Len(stash[c]) + 1
        /\ LET m == stash'[c][Len(stash'[c])] IN
             m.t = "CU" /\ m.c = c /\ m.ts > 0 /\ CUSigValid(m) /\ Own(m.d) \in zkeys[c]]_vars
\* structure
ZombieNotInGraph == zombie \cap chans = {}
\* a scid recorded as closed never is (nor becomes) a channel of the graph
ClosedNotInGraph == closed \cap chans = {}
StashOnlyUpdates == \A c \in Chans : \A i \in 1..Len(stash[c]) : stash[c][i].t = "CU" /\ stash[c][i].c = c
TypeOK == /\ chans \subseteq Chans /\ zombie \subseteq Chans /\ closed \subseteq Chans
          /\ rejects \subseteq Chans \X Peers
          /\ \A k \in Keys : pol[k].ts \in 0..MaxTs
          /\ \A n \in Nodes : nodes[n] \in 0..MaxTs
          /\ tip \in MinTip..MaxTip /\ verts \subseteq Nodes /\ reorg \in BOOLEAN
=============================================================================
