---------------------------- MODULE GossipProof ----------------------------
(***************************************************************************)
(* C20, the announcement_signatures path (follow-up b20c).                  *)
(*                                                                         *)
(* For OUR OWN channels the channel announcement does not come from the     *)
(* network: the funding manager hands the gossiper the announcement         *)
(* without proof (ProcessLocalAnnouncement; the edge enters the graph       *)
(* unannounced) and later our half of the proof; the counterparty sends its *)
(* half (announcement_signatures through ProcessRemoteAnnouncement).  The    *)
(* two halves arrive in either order; the first one waits in the persistent *)
(* WaitingProofStore - unvalidated, and across restarts -, the second one    *)
(* completes the proof: discovery.AuthenticatedGossiper.handleAnnSig         *)
(* assembles the full channel_announcement, and ONLY IF all four signatures  *)
(* verify over it the proof enters the graph (AddProof) and the             *)
(* announcement is handed to the broadcast.  This is the property's clause   *)
(* "a channel announcement enters the graph only if all four signatures      *)
(* verify" for the announcements this node assembles itself.                 *)
(*                                                                         *)
(* Universe: own channels 1 (we are node 1 of it) and 2 (we are node 2),     *)
(* one channel id nobody knows (Unknown).  A half carries a validity         *)
(* attribute `bad`: "none" (both of its signatures verify under the sender's *)
(* node and bitcoin key), "nsig" / "bsig" (one does not), "swap" (node and   *)
(* bitcoin signature exchanged), "other" (the OTHER party's signatures: well *)
(* formed, valid under the wrong keys).  A remote half comes from the        *)
(* counterparty ("party") or from a peer that is not a party of the channel  *)
(* ("stranger").  The executor really signs and corrupts accordingly.        *)
(*                                                                         *)
(* One action per path of handleAnnSig (outcome in last.kind): RejectUnknown *)
(* (no such edge and FindChannel fails), StoreOrphan (no edge yet, but a     *)
(* channel with that peer exists: kept in the store), RejectNotParty,        *)
(* HaveProof, StoreHalf (opposite half absent), AddProof / RejectProof       *)
(* (opposite half present: all four verify / not).  What the code does       *)
(* besides (our local half is also sent directly to the counterparty; a      *)
(* counterparty that sends its half for a channel that already has its       *)
(* proof gets the full announcement back, directly) is not a relay to        *)
(* peers and not modelled.  Restart: the gossiper is stopped and a new one   *)
(* started on the same graph and the same WaitingProofStore.                 *)
(*                                                                         *)
(* RemoteChan (follow-up b20d): the full channel_announcement of one of OUR  *)
(* channels may also reach us from the network (a peer relays what the       *)
(* counterparty broadcast, or makes one up).  ProcessRemoteAnnouncement       *)
(* refuses it before it is queued ("ignoring remote ChannelAnnouncement1 for  *)
(* own channel"): whatever its four signatures are worth (attribute `bad`:    *)
(* "none", "nsig" - node signature 2 does not verify -, "bsig" - bitcoin      *)
(* signature 1 does not verify) and whatever the state of the edge, nothing   *)
(* changes, nothing is relayed, no reject-cache entry is made (RejectOwn).    *)
(* So the ONLY way the proof of an own channel gets into the graph is the     *)
(* assembly from two halves above.                                            *)
(***************************************************************************)
EXTENDS Naturals, Sequences, FiniteSets, TLC

CONSTANTS OwnChans,   \* own channels, a subset of {1, 2}
          Unknown,    \* channel ids that neither the graph nor the channel database knows
          ASBad,      \* validity attributes of a half
          RCBad       \* validity attributes of a full announcement of an own channel coming from the network

Sides == {"local", "remote"}
Opp(s) == IF s = "local" THEN "remote" ELSE "local"

\* which of its two signatures (node, bitcoin) verify under the sender's keys
HalfSigs(b) == CASE b = "none" -> {"n", "b"}
                 [] b = "nsig" -> {"b"}
                 [] b = "bsig" -> {"n"}
                 [] OTHER      -> {}
\* all four signatures of the announcement assembled from two halves verify
AllFour(x, y) == HalfSigs(x) = {"n", "b"} /\ HalfSigs(y) = {"n", "b"}

(* schedule entries, one record shape *)
LCMsg(c) == [t |-> "LC", c |-> c, side |-> "-", bad |-> "-", from |-> "-"]
ASMsg(c, s, b, f) == [t |-> "AS", c |-> c, side |-> s, bad |-> b, from |-> f]
RSMsg == [t |-> "RS", c |-> 0, side |-> "-", bad |-> "-", from |-> "-"]
RCMsg(c, b) == [t |-> "RC", c |-> c, side |-> "-", bad |-> b, from |-> "-"]
RCUniverse == {RCMsg(c, b) : c \in OwnChans, b \in RCBad}
ASUniverse == {ASMsg(c, "local", b, "-") : c \in OwnChans \cup Unknown, b \in ASBad} \cup
              {ASMsg(c, "remote", b, f) : c \in OwnChans \cup Unknown, b \in ASBad, f \in {"party", "stranger"}}
PUniverse == {LCMsg(c) : c \in OwnChans} \cup ASUniverse \cup {RSMsg} \cup RCUniverse

VARIABLES edge,     \* OwnChans -> "none" / "noproof" (in the graph, unannounced) / "proof"
          w,        \* OwnChans -> [local, remote]: the half in the WaitingProofStore ("-" = none, else its attribute)
          proof,    \* OwnChans -> the attributes <<local, remote>> of the halves the stored proof was made of, or <<>>
          prelayed, \* own channels whose assembled announcement was handed to the broadcast
          nmsg, last
pvars == <<edge, w, proof, prelayed, nmsg, last>>

NoHalves == [local |-> "-", remote |-> "-"]
PInit == /\ edge = [c \in OwnChans |-> "none"] /\ w = [c \in OwnChans |-> NoHalves]
         /\ proof = [c \in OwnChans |-> <<>>] /\ prelayed = {}
         /\ nmsg = 0 /\ last = [kind |-> "Init", res |-> "-"]

POut(kind, res) == last' = [kind |-> kind, res |-> res]
PNop(kind, res) == POut(kind, res) /\ UNCHANGED <<edge, w, proof, prelayed>>
Store(m, kind)  == /\ POut(kind, "ok")
                   /\ w' = [w EXCEPT ![m.c][m.side] = m.bad]      \* replaces an older half of the same side
                   /\ UNCHANGED <<edge, proof, prelayed>>

(* the funding manager announces our channel: handleChanAnnouncement, local *)
(* (no proof, nothing to verify, nothing relayed)                           *)
LocalChan(c) ==
  /\ nmsg' = nmsg + 1
  /\ IF edge[c] # "none" THEN PNop("IgnoreKnown", "ok")
     ELSE /\ POut("AddOwn", "ok")
          /\ edge' = [edge EXCEPT ![c] = "noproof"]
          /\ UNCHANGED <<w, proof, prelayed>>

(* ProcessRemoteAnnouncement: the announcement of our own channel as relayed *)
(* by some peer of the network is refused before it reaches any handler      *)
RemoteChan(m) ==
  /\ m.t = "RC"
  /\ nmsg' = nmsg + 1
  /\ PNop("RejectOwn", "err")

(* handleAnnSig *)
AnnSig(m) ==
  /\ m.t = "AS"
  /\ nmsg' = nmsg + 1
  /\ IF m.c \notin OwnChans THEN PNop("RejectUnknown", "err")
     ELSE IF edge[m.c] = "none"
       THEN \* no edge yet: an orphan half is kept if the channel database has a channel with that peer
            IF m.from = "stranger" THEN PNop("RejectUnknown", "err") ELSE Store(m, "StoreOrphan")
     ELSE IF m.from = "stranger" THEN PNop("RejectNotParty", "err")
     ELSE IF edge[m.c] = "proof" THEN PNop("HaveProof", "ok")
     ELSE IF w[m.c][Opp(m.side)] = "-" THEN Store(m, "StoreHalf")
     ELSE LET o == w[m.c][Opp(m.side)] IN
          IF AllFour(m.bad, o)
            THEN /\ POut("AddProof", "ok")
                 /\ edge' = [edge EXCEPT ![m.c] = "proof"]
                 /\ proof' = [proof EXCEPT ![m.c] = IF m.side = "local" THEN <<m.bad, o>> ELSE <<o, m.bad>>]
                 /\ w' = [w EXCEPT ![m.c][Opp(m.side)] = "-"]     \* only the opposite half is removed
                 /\ prelayed' = prelayed \cup {m.c}
            ELSE PNop("RejectProof", "err")                       \* nothing changes: the stored half stays

Restart == /\ nmsg' = nmsg + 1 /\ PNop("Restart", "-")

PStep(m) == IF m.t = "LC" THEN LocalChan(m.c) ELSE IF m.t = "RS" THEN Restart
            ELSE IF m.t = "RC" THEN RemoteChan(m) ELSE AnnSig(m)
PNext == \E m \in PUniverse : PStep(m)
PSpec == PInit /\ [][PNext]_pvars

-----------------------------------------------------------------------------
(* The property.                                                            *)
\* the proof in the graph is made of two halves whose four signatures all verify
ProofAuthentic == \A c \in OwnChans : edge[c] = "proof" => Len(proof[c]) = 2 /\ AllFour(proof[c][1], proof[c][2])
\* the assembled announcement is relayed only for a channel whose authentic proof is in the graph
RelayedHasProof == \A c \in prelayed : edge[c] = "proof"
\* a proof enters the graph only by a half that, with the stored opposite half, makes four verifying signatures
\* (never by an announcement from the network)
ProofOnlyByFour ==
  [][\A c \in OwnChans : (edge'[c] = "proof" /\ edge[c] # "proof") =>
        \E m \in ASUniverse : /\ m.c = c /\ m.from # "stranger" /\ edge[c] = "noproof"
                              /\ w[c][Opp(m.side)] # "-" /\ AllFour(m.bad, w[c][Opp(m.side)])]_pvars
NoRelayWithoutProof ==
  [][prelayed' # prelayed => \E c \in OwnChans : /\ prelayed' = prelayed \cup {c}
                                                 /\ edge[c] # "proof" /\ edge'[c] = "proof"]_pvars
\* the edge only moves forward; a restart changes nothing that is stored
EdgeForward == [][\A c \in OwnChans : edge'[c] # edge[c] =>
                     <<edge[c], edge'[c]>> \in {<<"none", "noproof">>, <<"noproof", "proof">>}]_pvars
PTypeOK == /\ \A c \in OwnChans : /\ edge[c] \in {"none", "noproof", "proof"}
                                  /\ w[c].local \in ASBad \cup {"-"} /\ w[c].remote \in ASBad \cup {"-"}
           /\ prelayed \subseteq OwnChans
=============================================================================
