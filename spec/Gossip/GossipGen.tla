----------------------------- MODULE GossipGen -----------------------------
(* Behaviour generator (tlc -simulate): Gossip + the history of received    *)
(* messages, dumped as one NDJSON file per behaviour.  The full universe has *)
(* > 1000 messages, most of them invalid, so a step first picks a *class*    *)
(* of message relative to the current state (valid and fresh, stale,         *)
(* premature, corrupted, wrong signer, for a rejected scid, ...) and then a  *)
(* random member of the class.  As in the executor, the premature updates of *)
(* a channel are replayed (in any order) right after the channel arrived.    *)
(*                                                                           *)
(* ChainEvents = TRUE (GossipGenChain.cfg; executed on the real graph.Builder *)
(* only) adds the chain: blocks connecting (no / a known / any set of funding *)
(* outputs spent) and the tip disconnecting, with a class sequence weighted   *)
(* towards "announce, reorganise, announce again".  Window = FALSE keeps node *)
(* announcements for a vertex that has just lost its last channel to a stale  *)
(* block out of the schedules until the next block has connected (see the     *)
(* assumption recorded in vlib/props/c20.py: lnd sweeps such vertices only    *)
(* when the next block connects).                                             *)
EXTENDS Gossip, Json, Randomization
CONSTANTS MaxLen, ChainEvents, Window
VARIABLE hist

Known(c)  == c \in chans
Fresh(m)  == m.ts > pol[<<m.c, m.d>>].ts
GoodCU(m) == m.t = "CU" /\ CUSigValid(m) /\ CUFieldsOk(m)
GoodNA(m) == m.t = "NA" /\ NASigValid(m) /\ m.fields = "ok"

Class(k) ==
  CASE k = 1  -> {m \in CAUniverse : AllowedCA(m) /\ m.c \notin chans \cup zombie}
    [] k = 2  -> {m \in CAUniverse : m.bad # "none"}
    [] k = 3  -> {m \in CAUniverse : m.bad = "none" /\ m.fund # "ok"}
    [] k = 4  -> {m \in CAUniverse : m.c \in chans \cup zombie}
    [] k = 5  -> {m \in CUUniverse : Known(m.c) /\ GoodCU(m) /\ Fresh(m)}
    [] k = 6  -> {m \in CUUniverse : ~Known(m.c) /\ GoodCU(m) /\ m.ts > 0}
    [] k = 7  -> {m \in CUUniverse : Known(m.c) /\ ~GoodCU(m) /\ Fresh(m)}
    [] k = 8  -> {m \in CUUniverse : ~Known(m.c) /\ ~GoodCU(m) /\ m.ts > 0}
    [] k = 9  -> {m \in CUUniverse : Known(m.c) /\ GoodCU(m) /\ ~Fresh(m)}
    [] k = 10 -> {m \in CUUniverse : m.ts = 0}
    [] k = 11 -> {m \in CUUniverse : Known(m.c) /\ GoodCU(m) /\ Fresh(m)
                                     /\ pol[<<m.c, m.d>>].ts # 0 /\ pol[<<m.c, m.d>>].fee = m.fee
                                     /\ pol[<<m.c, m.d>>].mx = Mx(m)}
    [] k = 12 -> {m \in NAUniverse : GoodNA(m) /\ HasChan(m.n) /\ m.ts > nodes[m.n]}
    [] k = 13 -> {m \in NAUniverse : GoodNA(m) /\ ~HasChan(m.n)}
    [] k = 14 -> {m \in NAUniverse : ~GoodNA(m) /\ HasChan(m.n) /\ m.ts > nodes[m.n]}
    [] k = 15 -> {m \in NAUniverse : m.ts <= nodes[m.n]}
    [] k = 16 -> {m \in CAUniverse \cup CUUniverse : <<m.c, m.peer>> \in rejects}
    [] k = 18 -> {z \in ZOUniverse : z.c \notin chans \cup zombie}
    [] k = 19 -> {m \in CUUniverse : m.c \in zombie /\ zkeys[m.c] # {} /\ m.ts > 0 /\ m.fields = "ok"
                                     /\ m.bad \in {"none", "sig"}}
    [] k = 20 -> {m \in CUUniverse : Known(m.c) /\ m.bad = "none" /\ m.signer = Own(m.d) /\ Fresh(m)
                                     /\ m.fields \notin {"ok", "nomaxflag", "maxzero", "maxltmin"}}
    [] k = 21 -> {m \in CUUniverse : Known(m.c) /\ GoodCU(m) /\ ~Fresh(m) /\ m.ts > 0 /\ m.fields # "ok"}
    \* a backend fault (or negative answer) that reaches the funding check
    [] k = 22 -> {m \in CAUniverse : m.bad = "none" /\ m.fund # "ok" /\ m.c \notin chans \cup zombie \cup closed
                                     /\ <<m.c, m.peer>> \notin rejects}
    [] k = 23 -> {m \in CAUniverse : m.c \in closed}
    \* the chain
    [] k = 30 -> IF tip > MinTip THEN {BDMsg} ELSE {}
    [] k = 31 -> IF tip < MaxTip THEN {BCMsg(0)} ELSE {}
    [] k = 32 -> IF tip < MaxTip THEN {b \in ChainUniverse : b.t = "BC" /\ SpentOf(b.c) \cap chans # {}} ELSE {}
    [] k = 33 -> IF tip < MaxTip THEN {b \in ChainUniverse : b.t = "BC"} ELSE {}
    [] OTHER  -> Universe
\* weights: valid channel announcements and fresh valid updates are drawn more often
ClassSeq == IF ChainEvents
            THEN <<1, 1, 1, 1, 3, 4, 5, 5, 6, 7, 9, 12, 12, 12, 13, 13, 14, 15, 18, 22,
                   30, 30, 30, 30, 31, 31, 31, 32, 32, 33>>
            ELSE <<1, 1, 1, 2, 3, 4, 5, 5, 5, 6, 6, 7, 7, 8, 9, 10, 11, 12, 12, 13, 14, 15, 16, 17,
                   18, 19, 19, 20, 21, 22, 22, 23>>
\* see the module header
WindowOk(m) == Window \/ ~(m.t = "NA" /\ m.n \in verts /\ ~HasChan(m.n))

ReplayPending == \E c \in chans : stash[c] # <<>>

GInit == Init /\ hist = <<>>
GNext == \/ /\ ~ReplayPending /\ Len(hist) < MaxLen
            /\ \E j \in 1..Len(ClassSeq) :
                 /\ Class(ClassSeq[j]) # {}
                 /\ \E m \in RandomSubset(1, Class(ClassSeq[j])) :
                      WindowOk(m) /\ Step(m) /\ hist' = Append(hist, m)
         \/ /\ ReplayPending
            /\ \E c \in chans : \E i \in 1..Len(stash[c]) : ReplayOne(c, i)
            /\ UNCHANGED hist
GSpec == GInit /\ [][GNext]_<<vars, hist>>

Dump == (Len(hist) = MaxLen /\ ~ReplayPending) =>
          ndJsonSerialize("b_" \o ToString(TLCGet("stats").traces) \o ".ndjson", hist)
=============================================================================
