SPECIFICATION MCPSpec
CONSTANTS
  OwnChans = {1, 2}
  Unknown = {9}
  ASBad = {"none", "nsig", "bsig", "swap", "other"}
  RCBad = {"none", "nsig", "bsig"}
VIEW MCPView
INVARIANTS PTypeOK ProofAuthentic RelayedHasProof
PROPERTIES ProofOnlyByFour NoRelayWithoutProof EdgeForward
CHECK_DEADLOCK FALSE
