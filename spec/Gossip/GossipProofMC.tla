--------------------------- MODULE GossipProofMC ---------------------------
(* Exhaustive configuration of GossipProof: EVERY sequence of schedule      *)
(* entries (local channel announcements, announcements of own channels from   *)
(* the network (valid / one signature bad), halves of every validity class     *)
(* from either side / a stranger / for an unknown channel, restarts),        *)
(* duplicates and any order, of any length: the state space is finite once   *)
(* the step counter and the observation `last` are left out of the view      *)
(* (no action reads them).                                                   *)
EXTENDS GossipProof
MCPSpec == PSpec
MCPView == <<edge, w, proof, prelayed>>
=============================================================================
