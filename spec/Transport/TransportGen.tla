---------------------------- MODULE TransportGen ----------------------------
(* Behaviour generator: Transport with the REAL byte lengths (LEN = 2,       *)
(* MAC = 16) and a history of the calls taken, one NDJSON file per simulated *)
(* behaviour.  The cipher states of the generator and of the real code are   *)
(* isomorphic whatever ROT is (a cipher state is the number of Adv steps     *)
(* taken), so the generator runs with a small ROT and the executor scales    *)
(* `Burst(d, k, dlt)` to k * (1000/2) + dlt messages.                        *)
(* Modes: "hs" adversary during the handshake; "msg" adversary on the        *)
(* stream; "clean" none; "dup" full-duplex use - calls taken section by      *)
(* section (WStage .. WEnc, FlushHdr .. FlushBody, RHeader .. RBody) with    *)
(* calls of the other halves in between; "conn" brontide.Conn.Write / Read   *)
(* mixed with the Machine calls and the adversary.  In every mode but "hs"   *)
(* the reading caller re-examines (Recheck) and drops (Release) the messages *)
(* it holds.                                                                 *)
EXTENDS Transport, Json
CONSTANTS MaxLen,     \* events per behaviour
          MaxAdvG     \* adversary moves per behaviour
\* payload sizes; values of LEN-byte payloads (they matter when a body is opened as a header)
GSizes == <<0, 1, 2, 3, 17, 316, 65535>>
GVals  == <<0, 2, 300>>
VARIABLES hist,
          mode        \* "hs": the adversary plays during the handshake; "msg": on the stream; "clean": not at all

gvars == <<vars, hist, mode>>
Ev(a, m, d, kind, size, v, k, o1, o2, o3) ==
  [a |-> a, m |-> m, d |-> d, kind |-> kind, size |-> size, v |-> v, k |-> k, o1 |-> o1, o2 |-> o2, o3 |-> o3,
   cuts |-> <<>>]
Rec(e) == hist' = Append(hist, e)
E0(a, m) == Ev(a, m, "", "", 0, 0, 0, 0, 0, 0)

RECURSIVE AdvN(_, _)
AdvN(c, k) == IF k = 0 THEN c ELSE AdvN(Adv(c), k - 1)

\* k*(ROT/2)+dlt messages written, flushed and read one after the other; the last one has `size` bytes
Burst(d, k, dlt, size) ==
  LET m   == Writer(d)
      r   == Reader(d)
      cnt == k * (ROT \div 2) + dlt
      c1  == AdvN(snd[m], 2 * cnt - 2)
      c2  == Adv(c1)
      id  == nsent[d] + cnt
  IN /\ BothDone /\ cnt >= 1
     /\ pend[m] = NoPend /\ pipe[d] = <<>> /\ ~closed[d] /\ ~rfail[d] /\ rcv[r] = snd[m]
     /\ WIdle(m) /\ RIdle(r)
     \* the executor's burst reads with ReadMessage, re-examines what it holds every 50 messages and drops it
     /\ held' = [held EXCEPT ![d] = <<>>]
     /\ cst' = [cst EXCEPT ![d].pure = FALSE]
     /\ snd' = [snd EXCEPT ![m] = Adv(c2)]
     /\ rcv' = [rcv EXCEPT ![r] = Adv(c2)]
     /\ nsent' = [nsent EXCEPT ![d] = id]
     /\ dl' = [dl EXCEPT ![d].n = @ + cnt]
     /\ hw' = [hw EXCEPT ![m] = c2]
     /\ fl' = [fl EXCEPT ![m] = [size |-> size, got |-> size]]
     /\ lastmsg' = [lastmsg EXCEPT ![d] =
            <<Piece(Ct(d, c1, id, "h", HDR, size, ""), 0, HDR),
              Piece(Ct(d, c2, id, "b", size + MAC, IF size = LEN THEN 0 ELSE -1, ""), 0, size + MAC)>>]
     /\ last' = Obs("Burst", m, "")
     /\ UNCHANGED <<hvars, pend, pipe, closed, rfail, used, reuse, nadv, wip, rip, cbuf>>

\* interesting budgets for a writer that times out: around every boundary of header, payload and MAC
\* (simulation picks uniformly among successors: the step number selects a few of them)
Step == Len(hist)
Pick(seq, i) == seq[(i % Len(seq)) + 1]
FlushKs(m) ==
  LET hl == pend[m].hl
      bl == pend[m].bl
      ks == <<0, 1, hl - 1, hl, hl + 1, hl + bl - MAC - 1, hl + bl - MAC, hl + bl - MAC + 1,
              hl + bl - 1, hl + (bl \div 2), 7>> IN
  {k \in {Pick(ks, Step), Pick(ks, 3 * Step + 5), hl + bl} : k >= 0 /\ k <= hl + bl}
SizesNow == {Pick(GSizes, Step), Pick(GSizes, 3 * Step + 1)}

\* fragmentations of the act in flight: around the version byte, the key, the tag; two or three fragments
CutsNow ==
  LET n  == ActSize(act.k)
      ps == <<1, 2, 33, 34, 35, n - 17, n - 16, n - 15, n - 2, n - 1, n \div 2>>
      p  == Pick(ps, Step)
      q  == Pick(ps, 5 * Step + 2) IN
  IF act.k = 0 THEN {}
  ELSE {<<p, n - p>>} \cup (IF p < q THEN {<<p, q - p, n - q>>} ELSE IF q < p THEN {<<q, p - q, n - p>>} ELSE {})
AdvOk == mode \in {"msg", "conn"} /\ nadv < MaxAdvG
NWrites == nsent["ab"] + nsent["ba"]

GInit == Init /\ hist = <<>> /\ mode \in {"hs", "hs2", "msg", "msg2", "msg3", "clean", "clean2",
                                           "dup", "dup2", "dup3", "conn", "conn2", "conn3"}
Mode == IF mode \in {"msg", "msg2", "msg3", "conn", "conn2", "conn3"} THEN "msg"
        ELSE IF mode \in {"hs", "hs2"} THEN "hs" ELSE "clean"
Dup  == mode \in {"dup", "dup2", "dup3"}
Conn == mode \in {"conn", "conn2", "conn3"}
CSizesNow == {Pick(<<0, 1, 2, 3, 17, 316, 65535, 65536, 131070, 131071>>, Step), Pick(<<17, 316, 3, 2>>, Step)}
WantsNow  == {Pick(<<1, 2, 7, 100, 4096, 65535, 70000>>, Step), Pick(<<1, 2, 7, 5>>, 3 * Step + 1)}
ED(a, m, d) == Ev(a, m, d, "", 0, 0, 0, 0, 0, 0)

GNext ==
  /\ Len(hist) < MaxLen
  /\ \A m \in Machines : hs[m] # "failed"
  /\ UNCHANGED mode
  /\ \/ \E t \in (IF Mode = "hs" THEN {"real", "wrong"} ELSE {"real"}) :
          GenActOne(t) /\ Rec(Ev("GenActOne", "A", "", t, 0, 0, 0, 0, 0, 0))
     \/ RecvActOne /\ Rec(E0("RecvActOne", "B"))
     \/ GenActTwo /\ Rec(E0("GenActTwo", "B"))
     \/ RecvActTwo /\ Rec(E0("RecvActTwo", "A"))
     \/ GenActThree /\ Rec(E0("GenActThree", "A"))
     \/ RecvActThree /\ Rec(E0("RecvActThree", "B"))
     \/ Mode = "hs" /\ nadv < 1 /\ \E kind \in {"ver", "eph", "badpt", "tag", "ct"} :
          AlterAct(kind) /\ Rec(Ev("AlterAct", "", "", kind, 0, 0, 0, 0, 0, 0))
     \/ \E c \in CutsNow : FragmentAct(c) /\ Rec([E0("FragmentAct", "") EXCEPT !.cuts = c])
     \/ Mode = "hs" /\ nadv < 1 /\ OldActOne /\ Rec(E0("OldActOne", ""))
     \/ \E m \in Machines :
          \/ \E size \in (IF pend[m] = NoPend THEN SizesNow ELSE {1}) : \E v \in (IF size = LEN THEN {Pick(GVals, Step)} ELSE {-1}) :
               Write(m, size, v, "") /\ Rec(Ev("Write", m, DirOf(m), "", size, v, 0, 0, 0, 0))
          \/ Write(m, MaxSize + 1, -1, "") /\ pend[m] = NoPend /\ Step % 7 = 3
               /\ Rec(Ev("Write", m, DirOf(m), "", MaxSize + 1, -1, 0, 0, 0, 0))
          \/ pend[m] # NoPend /\ \E k \in FlushKs(m) :
               Flush(m, k) /\ Rec(Ev("Flush", m, DirOf(m), "", 0, 0, k, 0, 0, 0))
          \/ pend[m] = NoPend /\ pipe[DirOf(m)] # <<>> /\ Flush(m, 5) /\ Rec(Ev("Flush", m, DirOf(m), "", 0, 0, 5, 0, 0, 0))
     \* full-duplex use: the calls section by section
     \/ Dup /\ \E m \in Machines :
          \/ pend[m] = NoPend /\ \E size \in SizesNow : \E v \in (IF size = LEN THEN {Pick(GVals, Step)} ELSE {-1}) :
               WStage(m, size, v, "") /\ Rec(Ev("WStage", m, DirOf(m), "", size, v, 0, 0, 0, 0))
          \/ WEnc(m) /\ Rec(ED("WEnc", m, DirOf(m)))
          \/ pend[m].hl > 0 /\ \E k \in FlushKs(m) :
               FlushHdr(m, k) /\ Rec(Ev("FlushHdr", m, DirOf(m), "", 0, 0, k, 0, 0, 0))
          \/ FlushBody(m) /\ Rec(ED("FlushBody", m, DirOf(m)))
     \/ Dup /\ \E d \in Dirs :
          \/ pipe[d] # <<>> /\ RHeader(d) /\ Rec(ED("RHeader", Reader(d), d))
          \/ RBody(d) /\ Rec(ED("RBody", Reader(d), d))
     \* the caller of the read side looks again at what it holds / drops it
     \/ Mode # "hs" /\ \E d \in Dirs :
          \/ held[d] # <<>> /\ Step % 3 = 1 /\ Recheck(d) /\ Rec(ED("Recheck", Reader(d), d))
          \/ Len(held[d]) >= 2 /\ Step % 5 = 2 /\ Release(d) /\ Rec(ED("Release", Reader(d), d))
     \* brontide.Conn on top
     \/ Conn /\ \E m \in Machines : pend[m] = NoPend /\ \E size \in CSizesNow :
          \E v \in {IF size = LEN THEN Pick(GVals, Step) ELSE -1} :
               CWrite(m, size, <<>>, v) /\ Rec(Ev("CWrite", m, DirOf(m), "", size, v, 0, 0, 0, 0))
     \/ Conn /\ \E d \in Dirs : (pipe[d] # <<>> \/ cbuf[Reader(d)].left > 0) /\ \E w \in WantsNow :
          CRead(d, w) /\ Rec(Ev("CRead", Reader(d), d, "", 0, 0, w, 0, 0, 0))
     \/ \E d \in Dirs :
          \/ (pipe[d] # <<>> \/ Mode = "msg") /\ (Read(d) \/ ReadAfterFailure(d))
               /\ Rec(Ev("Read", Reader(d), d, "", 0, 0, 0, 0, 0, 0))
          \/ AdvOk /\ Mode = "msg" /\ \E mv \in AdvMoves(d) :
               (mv.a = "Truncate" => pipe[d] # <<>>) /\ DoAdv(d, mv) /\ Rec(Ev(mv.a, "", d, "", 0, 0, 0, mv.o1, mv.o2, mv.o3))
          \/ Mode # "hs" /\ \E k \in {1 + (Step % 2)} : \E dlt \in {(Step % 3) - 1} : \E size \in {Pick(<<0, 2, 316, 1>>, Step)} :
               Burst(d, k, dlt, size) /\ Rec(Ev("Burst", Writer(d), d, "", size, 0, 0, k, dlt, 0))
GSpec == GInit /\ [][GNext]_gvars

Dump == (Len(hist) = MaxLen \/ \E m \in Machines : hs[m] = "failed") =>
          ndJsonSerialize("b_" \o ToString(TLCGet("stats").traces) \o ".ndjson", hist)
=============================================================================
