SPECIFICATION TSpec
CONSTANTS
  ROT = 1000
  LEN = 2
  MAC = 16
  ActLen = 50
  Act3Len = 66
  MaxSize = 65535
  ReaderStops = FALSE
  TrackUsed = FALSE
  ConnEmptyEOFQuirk = TRUE
INVARIANTS ConformErr ConformRemoteKey ConformFlush ConformPend ConformPipe ConformNonce ConformPayload ConformSize ConformHdrLen ConformConn ConformConnPayload ConformHeld KeyBijection
  TypeOK HsSound HsComplete HsWrongKey HsOrder KeysAgree InSync PrefixBeforeFailure ReadOkIffIntact ReadYieldsNext
  PristinePipe FlushCount NoNonceReuse DistinctSendKeys
  HeldAreDelivered HalfPcOK ConnAccounting CLoadOkIffIntact
CHECK_DEADLOCK TRUE
