SPECIFICATION TSpec
CONSTANTS
  ROT = 1000
  LEN = 2
  MAC = 16
  ActLen = 50
  Act3Len = 66
  MaxSize = 65535
  ReaderStops = FALSE
  TrackUsed = FALSE
  ConnEmptyEOFQuirk = TRUE
INVARIANTS ConformErr ConformRemoteKey ConformFlush ConformPend ConformPipe ConformNonce ConformPayload ConformSize ConformConn KeyBijection
  TypeOK HsSound HsComplete HsWrongKey HsOrder KeysAgree InSync PrefixBeforeFailure ReadOkIffIntact ReadYieldsNext
  PristinePipe FlushCount NoNonceReuse DistinctSendKeys
CHECK_DEADLOCK TRUE
