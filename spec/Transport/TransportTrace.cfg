SPECIFICATION TSpec
CONSTANTS
  ROT = 1000
  LEN = 2
  MAC = 16
  MaxSize = 65535
  ReaderStops = FALSE
  TrackUsed = FALSE
  ConnEmptyEOFQuirk = TRUE
INVARIANTS ConformErr ConformFlush ConformPend ConformPipe ConformNonce ConformPayload ConformSize ConformConn KeyBijection
  TypeOK HsSound HsComplete HsWrongKey HsOrder KeysAgree InSync PrefixBeforeFailure ReadOkIffIntact ReadYieldsNext
  PristinePipe FlushCount NoNonceReuse DistinctSendKeys
CHECK_DEADLOCK TRUE
