SPECIFICATION MCSpec
CONSTANTS
  ROT = 3
  LEN = 1
  MAC = 1
  ActLen = 3
  Act3Len = 4
  MaxSize = 2
  ReaderStops = FALSE
  TrackUsed = TRUE
  ConnEmptyEOFQuirk = TRUE
  MaxMsgs = 2
  MaxAdv = 1
  Sizes = {0, 1, 2}
  Vals = {0, 1}
  WDirs = {"ab", "ba"}
  Fine = FALSE
  CSizes = {}
  Wants = {}
  Hold = FALSE
INVARIANTS TypeOK HsSound KeysAgree InSync PrefixBeforeFailure ReadOkIffIntact ReadYieldsNext PristinePipe FlushCount NoNonceReuse
  DeliveredGenuine
VIEW MCView
CHECK_DEADLOCK FALSE
