---------------------------- MODULE TransportMC ----------------------------
(* Exhaustive bounded exploration: every interleaving of handshake acts,    *)
(* WriteMessage / Flush(k) for every k / ReadMessage in both directions,    *)
(* and the adversary's moves at piece boundaries.                           *)
EXTENDS Transport
CONSTANTS MaxMsgs, MaxAdv, Sizes, Vals, WDirs

MCNext ==
  \/ \E t \in {"real", "wrong"} : GenActOne(t)
  \/ RecvActOne \/ GenActTwo \/ RecvActTwo \/ GenActThree \/ RecvActThree
  \/ \E c \in {<<1, ActSize(act.k) - 1>>, <<ActSize(act.k) - 1, 1>>, <<1, ActSize(act.k) - 2, 1>>} : FragmentAct(c)
  \/ nadv < MaxAdv /\ ((\E k \in {"ver", "eph", "badpt", "tag", "ct"} : AlterAct(k)) \/ OldActOne)
  \/ \E m \in {Writer(d) : d \in WDirs} :
       \/ \E size \in Sizes : \E v \in (IF size = LEN THEN Vals ELSE {-1}) :
            /\ nsent["ab"] + nsent["ba"] < MaxMsgs \/ pend[m] # NoPend
            /\ Write(m, size, v, "")
       \/ nsent["ab"] + nsent["ba"] < MaxMsgs /\ Write(m, MaxSize + 1, -1, "")
       \/ \E k \in 0..(pend[m].hl + pend[m].bl) : Flush(m, k)
  \/ \E d \in Dirs : Read(d) \/ ReadAfterFailure(d)
  \/ nadv < MaxAdv /\ \E d \in Dirs : AdvAtPieces(d)

MCSpec == Init /\ [][MCNext]_vars
\* `last` of a refused write / of an adversary move carries nothing the invariants read
MCView == <<hvars, tvars, nadv, [last EXCEPT !.nn = 0, !.dh = ""]>>
=============================================================================
