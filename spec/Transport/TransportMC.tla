---------------------------- MODULE TransportMC ----------------------------
(* Exhaustive bounded exploration: every interleaving of handshake acts,    *)
(* WriteMessage / Flush(k) for every k / ReadMessage in both directions,    *)
(* and the adversary's moves at piece boundaries.                           *)
(* Fine = TRUE: the calls are also taken section by section (WStage,        *)
(* WEncHdr, WEncBody, FlushHdr, FlushBody, RHdrTake, RHdrOpen, RHdrLen,     *)
(* RBodyTake, RBodyOpen; RHeader / RBody as whole calls), the four halves   *)
(* of the two Machines interleaved freely - full-duplex use.                *)
(* CSizes / Wants non-empty: brontide.Conn on top, Conn.Write of CSizes     *)
(* bytes (chunked above MaxSize), Conn.Read with buffers of Wants bytes.    *)
(* Hold = TRUE: the caller of the read side drops what it holds at any time *)
(* (Release); otherwise it keeps every message it was handed.               *)
EXTENDS Transport
CONSTANTS MaxMsgs, MaxAdv, Sizes, Vals, WDirs, Fine, CSizes, Wants, Hold

NSent == nsent["ab"] + nsent["ba"]
MCNext ==
  \/ \E t \in {"real", "wrong"} : GenActOne(t)
  \/ RecvActOne \/ GenActTwo \/ RecvActTwo \/ GenActThree \/ RecvActThree
  \/ \E c \in {<<1, ActSize(act.k) - 1>>, <<ActSize(act.k) - 1, 1>>, <<1, ActSize(act.k) - 2, 1>>} : FragmentAct(c)
  \/ nadv < MaxAdv /\ ((\E k \in {"ver", "eph", "badpt", "tag", "ct"} : AlterAct(k)) \/ OldActOne)
  \/ \E m \in {Writer(d) : d \in WDirs} :
       \/ \E size \in Sizes : \E v \in (IF size = LEN THEN Vals ELSE {-1}) :
            /\ NSent < MaxMsgs \/ pend[m] # NoPend
            /\ Write(m, size, v, "") \/ (Fine /\ WStage(m, size, v, ""))
       \/ NSent < MaxMsgs /\ (Write(m, MaxSize + 1, -1, "") \/ (Fine /\ WStage(m, MaxSize + 1, -1, "")))
       \/ \E k \in 0..(pend[m].hl + pend[m].bl) : Flush(m, k) \/ (Fine /\ FlushHdr(m, k))
       \/ Fine /\ (WEncHdr(m) \/ WEncBody(m) \/ WEnc(m) \/ FlushBody(m))
       \/ \E size \in CSizes : NSent < MaxMsgs /\ CWrite(m, size, <<>>, IF size = LEN THEN 1 ELSE -1)
  \/ \E d \in Dirs :
       \/ Read(d) \/ ReadAfterFailure(d)
       \/ Fine /\ (RHeader(d) \/ RBody(d) \/ RHdrTake(d) \/ RHdrOpen(d) \/ RHdrLen(d) \/ RBodyTake(d) \/ RBodyOpen(d))
       \/ \E w \in Wants : CRead(d, w)
       \/ Hold /\ Release(d)
  \/ nadv < MaxAdv /\ \E d \in Dirs : AdvAtPieces(d)

MCSpec == Init /\ [][MCNext]_vars
\* `last` of a refused write / of an adversary move carries nothing the invariants read
MCView == <<hvars, tvars, nadv, [last EXCEPT !.nn = 0, !.dh = ""]>>
=============================================================================
