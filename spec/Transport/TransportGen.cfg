SPECIFICATION GSpec
CONSTANTS
  ROT = 4
  LEN = 2
  MAC = 16
  ActLen = 50
  Act3Len = 66
  MaxSize = 65535
  ReaderStops = FALSE
  TrackUsed = FALSE
  ConnEmptyEOFQuirk = TRUE
  MaxLen = 60
  MaxAdvG = 2
INVARIANTS Dump
CHECK_DEADLOCK FALSE
