--------------------------- MODULE TransportTrace ---------------------------
(* Trace validation: every recorded call on the two real brontide.Machines   *)
(* (and every recorded move of the scripted adversary on the byte pipes)     *)
(* must be the corresponding Transport action, and what the real code        *)
(* answered - error class, Flush count, buffered bytes left, bytes in        *)
(* flight, send/receive nonces, key fingerprints, delivered payload hash -   *)
(* must equal the model's state after that action.  Real constants:          *)
(* LEN = 2, MAC = 16, ROT = 1000.                                            *)
(*                                                                          *)
(* Recorded calls and their actions: Write / Flush / Read (whole calls);     *)
(* WStage + WEnc (WriteMessage stopped where it fetches its pooled buffers,  *)
(* other calls recorded in between), FlushHdr + FlushBody (Flush stopped     *)
(* between its two Writes on the wire), RHeader / RBody (ReadHeader and      *)
(* ReadBody as separate calls, other calls in between); Recheck / Release    *)
(* (the caller re-hashes / drops the plaintext slices it was handed:         *)
(* ConformHeld); CWrite / CRead (brontide.Conn.Write / Read: ConformConn,    *)
(* ConformConnPayload - the bytes Conn.Read handed out for one message,      *)
(* concatenated, are that message).  Nothing of Conn's internals is          *)
(* recorded: the model's readBuf (cbuf) is judged through what Read returns, *)
(* the bytes it takes off the wire and the receive nonces.                   *)
EXTENDS Transport, Json
VARIABLES l,
          kmap     \* learned: abstract key (name, epoch) <-> fingerprint of the real 32-byte key

Trace == ndJsonDeserialize("trace.ndjson")
Last == Trace[l - 1]
tv == <<vars, l, kmap>>

TInit == Init /\ l = 1 /\ kmap = {}
Is(a) == l <= Len(Trace) /\ Trace[l].a = a /\ l' = l + 1
T == Trace[l]

\* after the step: what the real machines report as their keys, against the model's (key, epoch)
Learn ==
  kmap' = kmap \cup
     UNION {IF hs'[m] = "done"
            THEN {[id |-> <<snd'[m].key, snd'[m].ep>>, fp |-> IF m = "A" THEN T.Ask ELSE T.Bsk],
                  [id |-> <<rcv'[m].key, rcv'[m].ep>>, fp |-> IF m = "A" THEN T.Ark ELSE T.Brk]}
            ELSE {} : m \in Machines}

Reset == /\ Is("Reset")
         /\ hs' = [m \in Machines |-> "init"] /\ target' = "unset" /\ tr' = [m \in Machines |-> "s"]
         /\ act' = NoAct /\ tampered' = FALSE
         /\ snd' = [m \in Machines |-> NoCipher] /\ rcv' = [m \in Machines |-> NoCipher]
         /\ pend' = [m \in Machines |-> NoPend]
         /\ pipe' = [d \in Dirs |-> <<>>] /\ closed' = [d \in Dirs |-> FALSE] /\ lastmsg' = [d \in Dirs |-> <<>>]
         /\ nsent' = [d \in Dirs |-> 0] /\ dl' = [d \in Dirs |-> [n |-> 0, bad |-> <<>>]]
         /\ rfail' = [d \in Dirs |-> FALSE]
         /\ fl' = [m \in Machines |-> [size |-> 0, got |-> 0]]
         /\ used' = {} /\ hw' = [m \in Machines |-> NoCipher] /\ reuse' = FALSE
         /\ held' = [d \in Dirs |-> <<>>]
         /\ wip' = [m \in Machines |-> NoWip] /\ rip' = [m \in Machines |-> NoRip]
         /\ cbuf' = [m \in Machines |-> NoBuf] /\ cst' = [d \in Dirs |-> NoCst]
         /\ nadv' = 0
         /\ last' = Obs("init", "", "")
         /\ kmap' = {}

AdvNames == {"Corrupt", "Truncate", "Drop", "Swap", "Replay", "ReplayOld", "Reflect"}

TNext ==
  \/ Reset
  \/ /\ \/ Is("GenActOne") /\ GenActOne(T.kind)
        \/ Is("RecvActOne") /\ RecvActOne
        \/ Is("GenActTwo") /\ GenActTwo
        \/ Is("RecvActTwo") /\ RecvActTwo
        \/ Is("GenActThree") /\ GenActThree
        \/ Is("RecvActThree") /\ RecvActThree
        \/ Is("AlterAct") /\ AlterAct(T.kind)
        \/ Is("OldActOne") /\ OldActOne
        \/ Is("FragmentAct") /\ FragmentAct(T.cuts)
        \/ Is("Write") /\ Write(T.m, T.size, T.v, T.h)
        \/ Is("Flush") /\ Flush(T.m, T.k)
        \/ Is("Read") /\ (Read(T.d) \/ ReadAfterFailure(T.d))
        \/ Is("WStage") /\ WStage(T.m, T.size, T.v, T.h)
        \/ Is("WEnc") /\ WEnc(T.m)
        \/ Is("FlushHdr") /\ FlushHdr(T.m, T.k)
        \/ Is("FlushBody") /\ FlushBody(T.m)
        \/ Is("RHeader") /\ RHeader(T.d)
        \/ Is("RBody") /\ RBody(T.d)
        \/ Is("Release") /\ Release(T.d)
        \/ Is("Recheck") /\ Recheck(T.d)
        \/ Is("CWrite") /\ CWrite(T.m, T.size, T.hs, T.v)
        \/ Is("CRead") /\ CRead(T.d, T.k)
              /\ (CReadEmptyEOF(T.d, T.k) => PrintT(<<"QUIRK", "conn-read-empty-message-eof", l>>))
        \/ l <= Len(Trace) /\ T.a \in AdvNames /\ l' = l + 1
             /\ DoAdv(T.d, [a |-> T.a, o1 |-> T.o1, o2 |-> T.o2, o3 |-> T.o3])
     /\ Learn
  \/ (l = Len(Trace) + 1 /\ UNCHANGED tv)
TSpec == TInit /\ [][TNext]_tv

Live == l > 1 /\ Last.a # "Reset"
Done(m) == hs[m] = "done"

\* the error class of the call
ConformErr == Live => Last.err = last.err
\* Conn.Read / Conn.Write: the number of bytes the call reports
IsConn == Last.a \in {"CRead", "CWrite"}
ConformConn == (Live /\ IsConn) => Last.nn = last.nn
\* Conn.Read: when the last byte of a message has been handed out, the bytes handed out since Conn last took
\* bytes off the wire (concatenated by the harness, whatever the sizes of the caller's buffers) are that message
ConformConnPayload == (Live /\ Last.a = "CRead" /\ last.err = "") =>
                         LET b == cbuf[Last.m] IN
                         (b.left = 0 /\ b.sz > 0 /\ b.h # "") => Last.h = b.h
\* ReadMessage / ReadBody returned a payload of the length the model says; ReadHeader the length it says
ConformSize == (Live /\ Last.a \in {"Read", "RBody"} /\ last.err = "") => Last.size = last.dsz
ConformHdrLen == (Live /\ Last.a = "RHeader" /\ last.err = "") => Last.nn = last.nn
\* the responder learned the initiator's static key (Conn.RemotePub of the accepted connection)
ConformRemoteKey == (Live /\ Last.a = "RecvActThree" /\ last.err = "") => Last.rpk = 1
\* Flush's return value: plaintext bytes written by this call
ConformFlush == (Live /\ Last.a \in {"Flush", "FlushBody"}) => Last.nn = last.nn
\* len(nextHeaderSend), len(nextBodySend) of both machines
ConformPend == Live => /\ (Done("A") => Last.Ahl = pend["A"].hl /\ Last.Abl = pend["A"].bl)
                       /\ (Done("B") => Last.Bhl = pend["B"].hl /\ Last.Bbl = pend["B"].bl)
\* bytes in flight in both directions
ConformPipe == Live => Last.Lab = Total(pipe["ab"]) /\ Last.Lba = Total(pipe["ba"])
\* sendCipher.nonce / recvCipher.nonce of both machines
ConformNonce == Live => /\ (Done("A") => Last.Asn = snd["A"].n /\ Last.Arn = rcv["A"].n)
                        /\ (Done("B") => Last.Bsn = snd["B"].n /\ Last.Brn = rcv["B"].n)
\* the delivered bytes are the bytes of the message the model says was delivered
ConformPayload == (Live /\ Last.a \in {"Read", "RBody"} /\ last.err = "" /\ last.did > 0) => Last.h = last.dh
\* (a) what the caller was handed is a value: the slices it still holds, hashed again NOW, are the messages as
\* they were sent - whatever the Machine has read, written or flushed since it handed them out
ConformHeld == (Live /\ Last.a = "Recheck") =>
                  LET H == held[Last.d] IN
                  /\ Len(Last.hh) = Len(H)
                  /\ \A i \in 1..Len(H) : (H[i].id > 0 /\ H[i].h # "") => Last.hh[i] = H[i].h
\* one real key per abstract (key, epoch) and one abstract (key, epoch) per real key:
\* send(p) = recv(q), the four directions' keys differ, rotation exactly every ROT uses,
\* and - with ConformNonce and NoNonceReuse - no (real key, nonce) pair encrypts twice
KeyBijection == \A x, y \in kmap : (x.id = y.id) <=> (x.fp = y.fp)
=============================================================================
